(* C16 — disabled syntax stays disabled: flags gate what input can do.
   The generic soundness theorem (Proofs/GatingProofs.v) is instantiated on the grammar and
   action table REGENERATED from /repo (Gen/Grammar.v); the side conditions `gated … = true`
   are re-established by vm_compute on every run. *)
From Coq Require Import NArith List Bool String.
From DS Require Import Model.Peg Model.Gating Gen.Grammar Proofs.GatingProofs.
Import ListNotations.
Open Scope N_scope.

Fixpoint idx (s : string) (l : list string) (i : N) : N :=
  match l with [] => 999 | x :: r => if String.eqb x s then i else idx s r (i + 1) end.
Definition op (s : string) : N := idx s opcode_names 0.

Definition macro_lit : list N := [35; 69; 110; 97; 98; 108; 101; 68; 105; 99; 101].   (* "#EnableDice" *)

Definition X_wod := [op "typeDiceWod"; op "typeWodSetInit"; op "typeWodSetPool"; op "typeWodSetPoints"; op "typeWodSetThreshold"; op "typeWodSetThresholdQ"].
Definition X_coc := [op "typeDiceCocBonus"; op "typeDiceCocPenalty"].
Definition X_fate := [op "typeDiceFate"].
Definition X_dc := [op "typeDiceDC"; op "typeDCSetInit"; op "typeDCSetPool"; op "typeDCSetPoints"].
Definition X_stmts := [op "typePushFunction"; op "typeBlockPush"; op "typeBlockPop"; op "typeReturn"].

Definition gids_of (f : N) (bv : bool) (ml : list N) := flat_map (guard_ids preds f bv ml) rules.
Definition U_of (f : N) (bv : bool) (X ml : list N) := compute_U acts preds f bv X ml (gids_of f bv ml) 300 rules [].

(* side conditions on the regenerated grammar *)
Lemma opcodes_known : forallb (fun x => x <? 999) (X_wod ++ X_coc ++ X_fate ++ X_dc ++ X_stmts) = true.
Proof. vm_compute. reflexivity. Qed.
Lemma refs_ok_gen : refs_ok_rules rules = true.
Proof. vm_compute. reflexivity. Qed.
Lemma gated_wod : gated acts preds 0 false X_wod macro_lit (gids_of 0 false macro_lit) rules (U_of 0 false X_wod macro_lit) = true.
Proof. vm_compute. reflexivity. Qed.
Lemma gated_coc : gated acts preds 1 false X_coc macro_lit (gids_of 1 false macro_lit) rules (U_of 1 false X_coc macro_lit) = true.
Proof. vm_compute. reflexivity. Qed.
Lemma gated_fate : gated acts preds 2 false X_fate macro_lit (gids_of 2 false macro_lit) rules (U_of 2 false X_fate macro_lit) = true.
Proof. vm_compute. reflexivity. Qed.
Lemma gated_dc : gated acts preds 3 false X_dc macro_lit (gids_of 3 false macro_lit) rules (U_of 3 false X_dc macro_lit) = true.
Proof. vm_compute. reflexivity. Qed.
Lemma gated_stmts : gated acts preds 5 true X_stmts [] (gids_of 5 true []) rules (U_of 5 true X_stmts []) = true.
Proof. vm_compute. reflexivity. Qed.
Lemma macro_ascii : Forall (fun c => c < 128) macro_lit.
Proof. repeat constructor. Qed.

(* the untranslated-construct lists of the translator are empty *)
Lemma translation_complete : untranslated_actions = [] /\ untranslated_preds = [] /\ translation_problems = [].
Proof. repeat split; reflexivity. Qed.

(* cm = the registered custom dice parsers as a function offset -> matched length: arbitrary *)
Definition run (cm : N -> option N) (fuel : nat) (fl : list bool) (bytes : list N) := parse_custom cm rules classes acts preds fuel fl bytes.

(* A disabled dice family cannot be rolled by any input that lacks the enabling macro text, whatever custom dice
   parsers are registered:
   for EVERY byte string not containing "#EnableDice", every setting of the other flags and
   every fuel, parsing emits none of the family's opcodes — and leaves the flag disabled. *)
Theorem C16_family_gated :
  forall (cm : N -> option N) (fam : N) (X : list N) (bytes : list N) (fl : list bool) (fuel : nat) (o : N),
    (fam = 0 /\ X = X_wod) \/ (fam = 1 /\ X = X_coc) \/ (fam = 2 /\ X = X_fate) \/ (fam = 3 /\ X = X_dc) ->
    getf fl fam = false -> occurs macro_lit bytes = false -> mem_N o X = true ->
    ~ In o (r_emitted (run cm fuel fl bytes)) /\ getf (r_cfg (run cm fuel fl bytes)) fam = false.
Proof.
  intros cm fam X bytes fl fuel o Hf Hfl Hocc Ho.
  assert (Hd : forall g, default_ok g rules = true) by (intros g; apply default_ok_refs; exact refs_ok_gen).
  destruct Hf as [[-> ->]|[[-> ->]|[[-> ->]|[-> ->]]]]; split.
  - exact (gating_sound_custom cm _ _ _ _ _ _ _ _ _ _ _ fl gated_wod (or_intror Hocc) macro_ascii (Hd _) Hfl fuel o Ho).
  - exact (gating_flag_stays_custom cm _ _ _ _ _ _ _ _ _ _ _ fl gated_wod (or_intror Hocc) macro_ascii (Hd _) Hfl fuel).
  - exact (gating_sound_custom cm _ _ _ _ _ _ _ _ _ _ _ fl gated_coc (or_intror Hocc) macro_ascii (Hd _) Hfl fuel o Ho).
  - exact (gating_flag_stays_custom cm _ _ _ _ _ _ _ _ _ _ _ fl gated_coc (or_intror Hocc) macro_ascii (Hd _) Hfl fuel).
  - exact (gating_sound_custom cm _ _ _ _ _ _ _ _ _ _ _ fl gated_fate (or_intror Hocc) macro_ascii (Hd _) Hfl fuel o Ho).
  - exact (gating_flag_stays_custom cm _ _ _ _ _ _ _ _ _ _ _ fl gated_fate (or_intror Hocc) macro_ascii (Hd _) Hfl fuel).
  - exact (gating_sound_custom cm _ _ _ _ _ _ _ _ _ _ _ fl gated_dc (or_intror Hocc) macro_ascii (Hd _) Hfl fuel o Ho).
  - exact (gating_flag_stays_custom cm _ _ _ _ _ _ _ _ _ _ _ fl gated_dc (or_intror Hocc) macro_ascii (Hd _) Hfl fuel).
Qed.

(* With statements disabled NO input whatsoever (macros included) can define a function, open a
   block (every `if`/`while` opens one) or emit a return; and no input can clear the flag. *)
Theorem C16_stmts_gated :
  forall (cm : N -> option N) (bytes : list N) (fl : list bool) (fuel : nat) (o : N),
    getf fl 5 = true -> mem_N o X_stmts = true ->
    ~ In o (r_emitted (run cm fuel fl bytes)) /\ getf (r_cfg (run cm fuel fl bytes)) 5 = true.
Proof.
  intros cm bytes fl fuel o Hfl Ho.
  assert (Hd : forall g, default_ok g rules = true) by (intros g; apply default_ok_refs; exact refs_ok_gen).
  split.
  - exact (gating_sound_custom cm _ _ _ _ _ _ _ _ _ _ bytes fl gated_stmts (or_introl eq_refl) (Forall_nil _) (Hd _) Hfl fuel o Ho).
  - exact (gating_flag_stays_custom cm _ _ _ _ _ _ _ _ _ _ bytes fl gated_stmts (or_introl eq_refl) (Forall_nil _) (Hd _) Hfl fuel).
Qed.

Print Assumptions C16_family_gated.
Print Assumptions C16_stmts_gated.

(* non-vacuity: with the family enabled, or with the macro present, the opcodes ARE emitted *)
Example C16_nonvacuous_enabled :
  mem_N (op "typeDiceCocBonus") (r_emitted (run (fun _ => None) 6000 [true; true; true; true; false; false; false] [98; 50])) = true.   (* "b2" *)
Proof. vm_compute. reflexivity. Qed.
Example C16_nonvacuous_disabled :
  mem_N (op "typeDiceCocBonus") (r_emitted (run (fun _ => None) 6000 [false; false; false; false; false; false; false] [98; 50])) = false.
Proof. vm_compute. reflexivity. Qed.
