"""K2 cases: source texts (+ configuration, seed state, history) -> harness `k2` (real Parse, byte-code dump,
real RunAfterParsed) -> Coq case files for Corr/CorrK2.v (Model/VM.v run on the dumped byte-code).

Public helpers (used by lib/k2.py and by property modules built on the VM model):
  mk_input(src, hist=(), flags=ALL_ON, div0=False, mode=0, bothmm=False, oplimit=0, hi=1, lo=2, st=False) -> dict
  go_run(inputs)                 -> list of rows (None for a case that killed / hung the harness; see row['fatal'])
  code_terms(code, tab)          -> Coq `code` term, appending nested bodies to the function table `tab`
  case_term(inp, row)            -> (term | None, reason)
  correspond(inputs, rows, tag)  -> list of (status, why) with status in ok / unsup / bad / skip / gopanic / gofatal
  error_class(msg)               -> class number of a Go error message (0 = not in the table)
"""
import base64
import json
import os
import re
import subprocess

import common
from common import Broken

ALL_ON = [True, True, True, True, False, False, False]

# ---------------------------------------------------------------- error classes (Model/VM.v eclass_num)
ERR_TABLE = [
    (r"^允许算力上限", 4),
    (r"^执行栈到达溢出线", 5),
    (r"^语句块嵌套层数过多|^字符串模板嵌套层数过多", 6),
    (r"^被除数为0|^被除数被0", 2),
    (r"^无法获取此下标", 3),
    (r"^不能一次性创建过长的数组", 10),
    (r"^E7: 非法数值|^骰点次数不为正整数|^骰子面数不为正整数|^骰子取低个数不为正整数|^骰子取高个数不为正整数", 7),
    (r"无法被调用，必须是一个函数$|^调用参数个数与函数定义不符", 8),
    (r"^非法调用指令 push.last|^尚不支持分片步长|^E3:无效的表达式", 9),
    (r"^数组重复次数不能为负数|^\(arr\.rand\)数组为空|^\(arr\.randSize\)取值个数|^\(toInt\)值错误", 11),
    (r"^类型错误|^左右两个区间必须都是数字类型|^不支持的类型|^这两种类型无法使用|^此类型无法使用一元算符|^此类型无法取下标|^此类型无法赋值下标"
     r"|^这个类型无法取得分片|^这个类型无法取得长度|^这个类型无法赋值分片|^val 的类型必须是一个列表|^第一个值类型错误|^第二个值类型错误"
     r"|^\([A-Za-z.]+\)类型错误|^\(arr\.randSize\)类型不符", 1),
]
ERR_TABLE = [(re.compile(p), c) for p, c in ERR_TABLE]


def error_class(msg):
    for rx, c in ERR_TABLE:
        if rx.search(msg):
            return c
    return 0


# ---------------------------------------------------------------- Coq terms
def cstr(s):
    """Coq string term for a byte string (str is taken as UTF-8)"""
    b = s.encode("utf-8", "surrogateescape") if isinstance(s, str) else bytes(s)
    if all(32 <= x < 127 for x in b):
        return '"' + b.decode("ascii").replace('"', '""') + '"'
    return "(s_of [" + ";".join(str(x) for x in b) + "]%N)"


def cz(x):
    return f"({int(x)})%Z"


OPNAMES = {
    "push.int": "OpPushInt", "push.flt": "OpPushFlt", "push.str": "OpPushStr", "push.arr": "OpPushArr", "push.dict": "OpPushDict",
    "push.range": "OpPushRange", "push.computed": "OpPushComputed", "push.null": "OpPushNull", "push.this": "OpPushThis",
    "push.global": "OpPushGlobal", "push.func": "OpPushFunc", "push.last": "OpPushLast", "push.def_expr": "OpPushDefExpr",
    "ld.fs": "OpLdFs", "ld": "OpLd", "ld.d": "OpLdD", "ld.raw": "OpLdRaw", "store": "OpStore", "store.global": "OpStoreGlobal",
    "store.local": "OpStoreLocal", "invoke": "OpInvoke", "invoke.self": "OpInvokeSelf", "item.get": "OpItemGet", "item.set": "OpItemSet",
    "attr.get": "OpAttrGet", "attr.set": "OpAttrSet", "slice.get": "OpSliceGet", "slice.set": "OpSliceSet",
    "add": "OpAdd", "sub": "OpSub", "mul": "OpMul", "div": "OpDiv", "mod": "OpMod", "pow": "OpPow", "nullCoalescing": "OpNullCoalescing",
    "comp.lt": "OpLt", "comp.le": "OpLe", "comp.eq": "OpEq", "comp.ne": "OpNe", "comp.ge": "OpGe", "comp.gt": "OpGt",
    "&": "OpBitAnd", "|": "OpBitOr", "and": "OpAnd", "or": "OpOr", "neg": "OpNeg", "pos": "OpPos",
    "dice.init": "OpDiceInit", "dice.setTimes": "OpDiceSetTimes", "dice.setKeepLow": "OpDiceSetKeepLow",
    "dice.setKeepHigh": "OpDiceSetKeepHigh", "dice.setDropLow": "OpDiceSetDropLow", "dice.setDropHigh": "OpDiceSetDropHigh",
    "dice.setMin": "OpDiceSetMin", "dice.setMax": "OpDiceSetMax", "dice": "OpDice", "dice.custom": "OpDiceCustom",
    "coc.penalty": "OpCocPenalty", "coc.bonus": "OpCocBonus", "dice.fate": "OpDiceFate", "dice.wod": "OpDiceWod",
    "wod.init": "OpWodInit", "wod.pool": "OpWodPool", "wod.points": "OpWodPoints", "wod.threshold": "OpWodThreshold",
    "wod.thresholdQ": "OpWodThresholdQ", "dice.dc": "OpDiceDC", "dc.setInit": "OpDcInit", "dc.setPool": "OpDcPool",
    "dc.setPoints": "OpDcPoints", "halt": "OpHalt", "mark.detail": "OpMarkDetail", "pop": "OpPop", "popn": "OpPopN", "nop": "OpNop",
    "jmp": "OpJmp", "je": "OpJe", "jne": "OpJne", "je.dup": "OpJeDup", "ret": "OpRet",
    "fstr.block.push": "OpFstrPush", "fstr.block.pop": "OpFstrPop", "block.push": "OpBlockPush", "block.pop": "OpBlockPop",
    "st.set": "OpStSet", "st.mod": "OpStMod", "st.x0": "OpStX0", "st.x1": "OpStX1",
}


def operand_term(op, tab):
    if op.get("nil"):
        return "ONil"
    if op.get("i") is not None:
        return f"(OInt {cz(op['i'])})"
    if op.get("f") is not None:
        return "OFlt"
    if op.get("s") is not None:
        return f"(OStr {cstr(op['s'])})"
    if op.get("span") is not None:
        return f"(OSpan {cz(op['span'][0])} {cz(op['span'][1])})"
    if op.get("st") is not None:
        return f"(OSt {cstr(op['st'][0])} {cstr(op['st'][1])})"
    if op.get("fn") is not None:
        return f"(OFn {fn_entry(op['fn'], tab)}%N)"
    if op.get("cust") is not None:
        return "OCust"
    return "OBad"


def fn_entry(fn, tab):
    """append the function / computed value (and, recursively, what its body creates) to tab; returns its index"""
    idx = len(tab)
    tab.append(None)
    kind = fn.get("kind")
    body = "None"
    if fn.get("code") is not None:
        body = "(Some " + code_terms(fn["code"], tab) + ")"
    params = "[" + ";".join(cstr(p) for p in (fn.get("params") or [])) + "]"
    tab[idx] = (f"(FD {'true' if kind == 'computed' else 'false'} {cstr(fn.get('name') or '')} {params} {cstr(fn.get('expr') or '')} {body})")
    return idx


def code_terms(code, tab):
    items = []
    for op in code:
        items.append(f"I {OPNAMES.get(op.get('name') or '', 'OpUnknown')} {operand_term(op, tab)}")
    return "[" + ";".join(items) + "]"


class Inexpressible(Exception):
    pass


def dval_term(d):
    if d is None:
        raise Inexpressible("nil value")
    if d.get("bad") or d.get("deep"):
        raise Inexpressible("bad/deep dump")
    t = d["t"]
    if t == 0:
        return f"(DInt {cz(d['i'])})"
    if t == 1:
        return "(DOther 1)"
    if t == 2:
        return f"(DStr {cstr(d.get('s') or '')})"
    if t == 4:
        return "DNull"
    if t == 5:
        return f"(DComp {cstr(d.get('s') or '')})"
    if t == 6:
        if d.get("cyc"):
            return "(DCyc 6)"
        return "(DArr [" + ";".join(dval_term(x) for x in d.get("l") or []) + "])"
    if t == 7:
        if d.get("cyc"):
            return "(DCyc 7)"
        return "(DDict [" + ";".join(f"({cstr(k)},{dval_term(v)})" for k, v in zip(d.get("k") or [], d.get("l") or [])) + "])"
    if t == 8:
        return f"(DFunc {cstr(d.get('s') or '')})"
    if t == 9:
        return f"(DNative {cstr(d.get('s') or '')})"
    return f"(DOther {cz(t)})"


def st_term(e):
    extra = "None" if e.get("extra") is None else f"(Some {dval_term(e['extra'])})"
    return f"({cstr(e['t'])},{cstr(e['name'])},{dval_term(e['val'])},{extra},{cstr(e['op'])},{cstr(e['text'])})"


def b(x):
    return "true" if x else "false"


def case_term(inp, row):
    """Coq k2_case for one harness row; (None, reason) when there is nothing to compare / not expressible"""
    steps = [s for s in row["steps"] if s.get("parse_ok")]
    if not row["steps"] or not row["steps"][-1].get("parse_ok") and not row["steps"][-1].get("panic"):
        return None, "parse error"
    if any(s.get("panic") and not s.get("parse_ok") for s in row["steps"]):
        return None, "panic in Parse"
    if not steps:
        return None, "parse error"
    srcs = list(inp.get("hist") or []) + [inp["src"]]
    srcs = [s for s, st in zip(srcs, row["steps"]) if st.get("parse_ok")]
    tab = []
    terms = []
    try:
        for src, s in zip(srcs, steps):
            code = code_terms(s.get("code") or [], tab)
            if s.get("panic"):
                x = "(X 2 DNull 0 0%Z 0 0 [] [])"
            else:
                vars_ = "[" + ";".join(f"({cstr(k)},{dval_term(v)})" for k, v in zip(s.get("vark") or [], s.get("varv") or [])) + "]"
                st = "[" + ";".join(st_term(e) for e in s.get("st") or []) + "]"
                if s.get("ok"):
                    x = f"(X 0 {dval_term(s['val'])} 0 {cz(s['ops'])} {s['hi2']} {s['lo2']} {vars_} {st})"
                else:
                    x = f"(X 1 DNull {error_class(s.get('err') or '')} {cz(s['ops'])} {s['hi2']} {s['lo2']} {vars_} {st})"
            terms.append(f"({code}, {cstr(src)}, {x})")
    except Inexpressible as e:
        return None, "inexpressible: " + str(e)
    mode = inp.get("mode", 0)
    mn = mode == -1 or inp.get("bothmm", False)
    mx = mode == 1 or inp.get("bothmm", False)
    cfg = f"(CFG {b(inp.get('div0'))} {b(mn)} {b(mx)} {cz(inp.get('oplimit', 0))} {b(inp.get('st'))})"
    ft = "[" + ";\n  ".join(tab) + "]"
    return f"({ft},\n {cfg}, ({inp.get('hi', 1)}%N,{inp.get('lo', 2)}%N),\n [" + ";\n  ".join(terms) + "])", ""


HEADER = ("From Coq Require Import String NArith ZArith List.\n"
          "From DS Require Import Model.Str Model.PCG Model.Value Model.VM Corr.CorrK2.\n"
          "Import ListNotations.\nOpen Scope string_scope.\nOpen Scope N_scope.\n"
          "Set Printing Width 1000000. Set Printing Depth 10000000.\n")


def cases_v(terms):
    return (HEADER + "Definition cases : list k2_case := [\n" + ";\n".join(terms) + "].\n"
            "Definition report := Eval vm_compute in k2_report 0 cases.\nPrint report.\n")


REPORT_RX = re.compile(r'\((\d+)(?:%N)?,\s*(KUnsup|KBad)\s+"((?:[^"]|"")*)"\)')


def parse_report(out):
    m = re.search(r"report\s*=\s*(.*?)\n\s*:\s*list", out, re.S)
    if not m:
        raise Broken("coq-output", "cannot find report in:\n" + out[-2000:])
    body = " ".join(m.group(1).split())
    return [(int(i), k, w.replace('""', '"')) for i, k, w in REPORT_RX.findall(body)]


# ---------------------------------------------------------------- running Go
def mk_input(src, hist=(), flags=None, div0=False, mode=0, bothmm=False, oplimit=0, hi=1, lo=2, st=False):
    enc = lambda s: s.encode("utf-8", "surrogateescape") if isinstance(s, str) else bytes(s)
    return {"src": enc(src), "hist": [enc(h) for h in hist], "flags": list(flags or ALL_ON), "div0": bool(div0), "mode": int(mode),
            "bothmm": bool(bothmm), "oplimit": int(oplimit), "hi": int(hi), "lo": int(lo), "st": bool(st)}


def _line(inp):
    return json.dumps({"b64": base64.b64encode(inp["src"]).decode(), "hist": [base64.b64encode(h).decode() for h in inp["hist"]],
                       "flags": inp["flags"], "div0": inp["div0"], "mode": inp["mode"], "bothmm": inp["bothmm"],
                       "oplimit": inp["oplimit"], "hi": str(inp["hi"]), "lo": str(inp["lo"]), "st": inp["st"]})


def go_run(inputs, timeout_ms=4000):
    """Runs every input through the real parser + VM.  A case on which the harness process dies (fatal runtime error) or
    does not come back within timeout_ms gets the row {'fatal': 'crash'|'timeout', ...}; the run resumes after it."""
    exe = os.path.join(common.BIN, "harness")
    rows = []
    pos = 0
    while pos < len(inputs):
        data = "\n".join(_line(i) for i in inputs[pos:]) + "\n"
        r = subprocess.run([exe, "k2", "-timeout", str(timeout_ms)], input=data, stdout=subprocess.PIPE, stderr=subprocess.PIPE, text=True,
                           timeout=3600)
        got = []
        for line in r.stdout.splitlines():
            if line.startswith("{"):
                try:
                    got.append(json.loads(line))
                except json.JSONDecodeError:
                    break
        for g in got:
            if g.get("timeout"):
                g["fatal"] = "timeout"
            rows.append(g)
        pos += len(got)
        if pos < len(inputs) and not (got and got[-1].get("fatal")):
            # the process died while working on inputs[pos]
            if r.returncode == 0:
                raise Broken("harness k2 stopped early without an error", r.stderr[-2000:])
            rows.append({"fatal": "crash", "stderr": (r.stderr or "")[:600], "steps": []})
            pos += 1
    return rows


def correspond(inputs, rows, tag, shard=150, workers=12):
    """status per input: ok | unsup | bad | skip (nothing to compare) | gofatal (hang / crash of the real code);
    `gopanic` is reported in addition through the returned panics list (a case whose Go run panicked is still compared:
    the model must panic as well)."""
    status = [None] * len(inputs)
    terms = []
    idx = []
    for i, (inp, row) in enumerate(zip(inputs, rows)):
        if row.get("fatal"):
            status[i] = ("gofatal", row["fatal"])
            continue
        t, why = case_term(inp, row)
        if t is None:
            status[i] = ("skip", why)
            continue
        terms.append(t)
        idx.append(i)
    ks = list(range(0, len(terms), shard))
    outs = common.coq_eval_many([(f"{tag}_{k}", cases_v(terms[k:k + shard])) for k in ks], workers=workers)
    for i in idx:
        status[i] = ("ok", "")
    for k, out in zip(ks, outs):
        for j, kind, why in parse_report(out):
            status[idx[k + j]] = ("unsup" if kind == "KUnsup" else "bad", why)
    return status


def go_panics(inputs, rows):
    out = []
    for inp, row in zip(inputs, rows):
        for s in row.get("steps") or []:
            if s.get("panic"):
                out.append({"src": inp["src"].decode("utf-8", "replace"), "hist": [h.decode("utf-8", "replace") for h in inp["hist"]],
                            "panic": s["panic"], "in_parse": not s.get("parse_ok")})
    return out
