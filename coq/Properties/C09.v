(* C09 — JSON snapshot and restore of variables is transparent.
   Only statements, `exact lemma`, Print Assumptions.  Model: Model/Json.v. *)
From Coq Require Import String NArith ZArith List.
From DS Require Import Model.Json Proofs.JsonProofs.
Import ListNotations.
Open Scope string_scope.

(* the table the code uses today satisfies the agreement conditions (encoder ids = decoder ids,
   every VMType* constant reaches its own case, encoder keys match exactly the intended
   decoder fields) *)
Theorem C09_actual_table_ok : tags_ok actual_table = true.
Proof. exact actual_table_ok. Qed.

(* Every tree a script can build from ints, finite floats, strings, null, arrays, dicts,
   functions, computed values with attributes (and builtin native functions) serialises
   without error, and decoding the text gives a structurally equal value — for EVERY table
   satisfying tags_ok. *)
Theorem C09_json_roundtrip :
  forall T, tags_ok T = true ->
  forall v, tree_value T v = true -> finite_floats v = true ->
    exists j v', to_json T v = Some j /\ of_json T j = Some v' /\ equal T v v'.
Proof. exact json_roundtrip. Qed.

(* ... indeed the decoded value is exactly the original (same ids, same entry order) *)
Theorem C09_json_roundtrip_exact :
  forall T, tags_ok T = true ->
  forall v, tree_value T v = true -> finite_floats v = true ->
    exists l, to_json T v = Some (JObj l) /\ of_json T (JObj l) = Some (embed T v).
Proof. exact json_roundtrip_strong. Qed.

(* the same for a whole variable map: ValueMap.ToJSON then json.Unmarshal into a ValueMap *)
Theorem C09_map_roundtrip :
  forall T, tags_ok T = true ->
  forall m : list (string * value),
    forallb (fun kv => tree_value T (snd kv)) m = true -> nodup_keys m = true ->
    forallb (fun kv => finite_floats (snd kv)) m = true ->
    exists j, to_json_map T m = Some j /\
              of_json_map T j = Some (map (fun kv => (fst kv, embed T (snd kv))) m).
Proof. exact json_map_roundtrip. Qed.

(* a non-finite float anywhere in the tree: ToJSON reports an error (never a text) *)
Theorem C09_nonfinite_is_error :
  forall T v, finite_floats v = false -> to_json T v = None.
Proof. intros T. exact (nonfinite_is_error T). Qed.

(* Heap graphs (shared and cyclic structure).  ToJSONRaw with its pointer-keyed "current path"
   set never needs more than (number of wrappers + 1) nested calls ... *)
Theorem C09_to_json_terminates :
  forall T h w, to_json_graph_top T h w <> GFuel.
Proof. exact to_json_terminates. Qed.

(* ... and a cycle through an array, a dict or computed attributes anywhere below the root
   is reported as an error *)
Theorem C09_cycle_is_error :
  forall T h w x, reach h w x -> on_cycle h x -> to_json_graph_top T h w = GErr.
Proof. exact cycle_is_error. Qed.

Print Assumptions C09_actual_table_ok.
Print Assumptions C09_json_roundtrip.
Print Assumptions C09_json_roundtrip_exact.
Print Assumptions C09_map_roundtrip.
Print Assumptions C09_nonfinite_is_error.
Print Assumptions C09_to_json_terminates.
Print Assumptions C09_cycle_is_error.

(* ---- non-vacuity -------------------------------------------------------------------- *)
Definition ex_value : value :=
  VDict [("a", VArr [VInt 1; VFloat 4617315517961601024; VStr "s"; VNull]);
         ("b", VComputed "d6" (Some [("x", VFunc "f" (Some ["n"]) "n+1")]));
         ("c", VNative "ceil"); ("e", VComputed "" None); ("g", VFunc "g" None "")].

Example C09_roundtrip_nonvacuous :
  tree_value actual_table ex_value = true /\ finite_floats ex_value = true /\
  match to_json actual_table ex_value with
  | Some j => of_json actual_table j = Some (embed actual_table ex_value)
  | None => False
  end.
Proof. vm_compute. repeat split; reflexivity. Qed.

Example C09_nonfinite_nonvacuous :
  finite_floats (VArr [VInt 1; VFloat 9218868437227405312]) = false.
Proof. vm_compute. reflexivity. Qed.

(* `a=[1]; a.push(a)`: wrapper 0 -> payload 0 = [wrapper 1; wrapper 2], wrapper 2 is the clone
   stored by push and points to payload 0 again *)
Definition h_self_array : heap :=
  {| wrappers := [WArr 0; WInt 1; WArr 0]; payloads := [PList [1; 2]] |}.
(* `m={}; m.x=m` *)
Definition h_self_dict : heap :=
  {| wrappers := [WDict 0; WDict 0]; payloads := [PMap [("x", 1)]] |}.
(* `&cv=1; &cv.x=&cv` *)
Definition h_self_computed : heap :=
  {| wrappers := [WComputed "1" (Some 0); WComputed "1" (Some 0)]; payloads := [PMap [("x", 1)]] |}.

Example C09_cycle_nonvacuous :
  (reach h_self_array 0 2 /\ on_cycle h_self_array 2) /\
  (reach h_self_dict 0 1 /\ on_cycle h_self_dict 1) /\
  (reach h_self_computed 0 1 /\ on_cycle h_self_computed 1) /\
  to_json_graph_top actual_table h_self_array 0 = GErr /\
  to_json_graph_top actual_table h_self_dict 0 = GErr /\
  to_json_graph_top actual_table h_self_computed 0 = GErr.
Proof.
  repeat split; try (vm_compute; reflexivity).
  - eapply reach_step; [|apply reach_refl]. simpl. right. left. reflexivity.
  - exists 2. split; [simpl; right; left; reflexivity | apply reach_refl].
  - eapply reach_step; [|apply reach_refl]. simpl. left. reflexivity.
  - exists 1. split; [simpl; left; reflexivity | apply reach_refl].
  - eapply reach_step; [|apply reach_refl]. simpl. left. reflexivity.
  - exists 1. split; [simpl; left; reflexivity | apply reach_refl].
Qed.

(* shared substructure is not a cycle: `a=[1]; b=[a,a]` (the same wrapper twice), a clone of
   the wrapper next to the original, and the same array below a dict and a computed attribute *)
Definition h_shared : heap :=
  {| wrappers := [WArr 0; WArr 1; WInt 1; WArr 1; WDict 2; WComputed "1" (Some 3)];
     payloads := [PList [1; 1; 3; 4; 5]; PList [2]; PMap [("k", 1)]; PMap [("x", 3)]] |}.

Example C09_shared_substructure_ok :
  match to_json_graph_top actual_table h_shared 0 with GOk _ => True | _ => False end.
Proof. vm_compute. exact I. Qed.

(* ---- a mutant table is rejected: if the decoder looked for "lst", the agreement fails ---- *)
Example C09_tags_ok_discriminates :
  tags_ok {| e_int := 0; e_float := 1; e_str := 2; e_null := 4; e_computed := 5; e_array := 6; e_dict := 7;
             e_func := 8; e_native := 9; e_nobj := 10;
             d_int := 0; d_float := 1; d_str := 2; d_null := 4; d_computed := 5; d_array := 6; d_dict := 7;
             d_func := 8; d_native := 9; d_nobj := 10;
             ek_t := "t"; ek_v := "v"; ek_cexpr := "expr"; ek_cattrs := "attrs"; ek_list := "list";
             ek_dict := "dict"; ek_fexpr := "expr"; ek_fname := "name"; ek_fparams := "params";
             ek_nname := "name"; ek_oname := "name";
             dk_t := "t"; dk_v := "v"; dk_cexpr := "expr"; dk_cattrs := "attrs"; dk_list := "lst";
             dk_dict := "dict"; dk_fexpr := "expr"; dk_fname := "name"; dk_fparams := "params";
             dk_nname := "name"; dk_oname := "name"; natives := [] |} = false.
Proof. vm_compute. reflexivity. Qed.
