#!/bin/bash
# run every check's quick command on the current tree, P at a time; print one line per check
# usage: tools/runall.sh [P] [tier]
cd "$(dirname "$0")/.."
export GOFLAGS=-mod=mod GOPROXY=off GOSUMDB=off GOTOOLCHAIN=local
P=${1:-4}; TIER=${2:-quick}
mkdir -p .work/runall
ids=$(python3 -c "import json; print(' '.join(sorted(c['property_id'] if 'property_id' in c else c['id'] for c in json.load(open('MANIFEST.json'))['checks'])))" 2>/dev/null || echo "C01 C02 C03 C04 C05 C06 C07 C08 C09 C10 C11 C12 C13 C14 C15 C16 C17 C18 C19")
run1() { id=$1; t0=$(date +%s); VERIF_SEED=${VERIF_SEED:-1} ./check $id --tier $TIER > .work/runall/$id.log 2>&1; rc=$?; t1=$(date +%s); echo "$id rc=$rc viol=$(grep -c '^VIOLATION' .work/runall/$id.log) known=$(grep -c '^KNOWN-FINDING' .work/runall/$id.log) $((t1-t0))s"; }
export -f run1; export TIER
echo $ids | tr ' ' '\n' | xargs -P $P -I{} bash -c 'run1 {}'
