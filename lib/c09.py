"""C09 — JSON snapshot and restore of variables is transparent."""
import json
import os

import common
import jsoncases as J
from common import Broken

LEVEL = "proof"

KF_ALIAS = "restore-loses-aliasing"

CYCLE_SCRIPTS = [
    ("v1=[1]; v1.push(v1); v1", True), ("m1={}; m1.x=m1; m1", True), ("&cv=1; &cv.x=&cv; 1", True),
    ("v1=[1]; m1={'k':v1}; v1[0]=m1; v1", True), ("v1=[1]; v2=[v1]; v1.push(v2); 0", True),
    ("m1={}; m2={'q':m1}; m1.z=[m2]; m1", True), ("&cv=1; m1={'c':&cv}; &cv.x=m1; 2", True),
    ("v1=[[1]]; v1[0].push(v1); v1", True), ("m1={}; m2={'y':0}; m1.x=m2; m2.y=m1; 3", True),
    # a cycle, refused; then repaired in place: the same variables must snapshot and restore afterwards
    ("v1=[1,2]; v1.push(v1); v1", True, "v1.pop(); v1"), ("m1={'k':1}; m1.x=m1; m1", True, "m1.x=2; m1"), ("v1=[1]; m1={'k':v1}; v1[0]=m1; v1", True, "v1[0]=5; [v1, m1]"),
    ("&cv=1; &cv.x=&cv; 1", True, "&cv.x=3; 1"), ("v1=[[1]]; v1[0].push(v1); v1", True, "v1[0].pop(); v1"),
    # shared, not cyclic
    ("v1=[1]; v2=[v1,v1]; v2", False), ("v1=[1]; m1={'p':v1,'q':v1}; m1", False), ("v1=[1]; v2=[v1,{'k':v1}]; v2", False),
    ("m1={'a':[1]}; v2=[m1, m1.values()]; v2", False), ("v1=[1]; &cv=1; &cv.x=[v1,v1]; v3=[&cv,&cv]; 0", False),
]

NONFINITE_SCRIPTS = ["10.0 ** 400", "x = 2.0 ** 1024; [1, x]", "x = 10.0 ** 308; y = {'k': x * 10}; y", "(0.0 - 1.0) ** 0.5", "toFloat('inf')",
                     "toFloat('NaN')", "x = 10.0 ** 308; x * 10 - x * 10", "&cv = 1; &cv.x = 10.0 ** 400; 1",
                     "x = 1" + "0" * 400 + ".5; x"]
FINITE_SCRIPTS = ["10 ** 400", "1.0 * 9223372036854775807", "x = 9223372036854775807; x + 1", "0.1 + 0.2", "1.0 / 3", "2 ** 0.5", "[1.5, 0.0 - 0.0, 0.0000001]",
                  "x='汉字'; x[0:1]", "'a\\\\b\"c'", "f = toStr; f", "func g(a, b) { return a + b }; g", "&cv = d6; &cv.x = [1, {'k': 2}]; loadRaw('cv')",
                  "{'a': {'b': {'c': [1, [2, [3]]]}}}", "x = [1, 2, 3]; x[1:2]", "-9223372036854775807 - 1", "0.0 - 0.0", "(0.0 - 1.0) * 0.0"]


def enc_items(rows):
    vals, maps, graphs = [], [], []
    skipped = {"cycle": 0, "invalid_utf8": 0, "panic": 0}
    for i, r in enumerate(rows):
        d = r["val"]
        if r.get("panic"):
            skipped["panic"] += 1
            continue
        if not J.dump_strings_ok(d):
            skipped["invalid_utf8"] += 1
            continue
        go = J.copt(J.json_term(J.tree_of_go(r["tree"]))) if r.get("tree") else "None"
        if r["kind"] == "value" and r.get("heap") and r["heap"].get("ok"):
            graphs.append((i, f"({J.heap_term(r['heap'])}, {r['heap']['root']}, {go})"))
        if J.dump_has_cycle(d):
            skipped["cycle"] += 1
            continue
        if r["kind"] == "map":
            maps.append((i, f"({J.entries_term(d, J.value_term)}, {go})"))
        else:
            vals.append((i, f"({J.value_term(d)}, {go})"))
    return vals, maps, graphs, skipped


def classify_enc(res, rows):
    """The property on the Go side of every battery row."""
    found = 0
    stats = {"in_universe_roundtrips": 0, "unrepresentable_errors": 0, "outside_universe": 0, "invalid_utf8_api_strings": 0}
    for r in rows:
        if found >= 4:
            break
        d = r["val"]
        if r.get("panic"):
            res.violation({"what": "Go panic while serialising / restoring a value", "value": d, "panic": r["panic"]})
            found += 1
            continue
        unrep = J.dump_has_cycle(d) or J.dump_nonfinite(d)
        if unrep:
            if not r.get("err"):
                res.violation({"what": "a value with a reference cycle / non-finite float was serialised without error (silently different)",
                               "value": d, "text": bytes.fromhex(r.get("text", "")).decode("utf-8", "replace")})
                found += 1
            else:
                stats["unrepresentable_errors"] += 1
            continue
        if not J.dump_strings_ok(d):
            stats["invalid_utf8_api_strings"] += 1  # not buildable by scripts (parser rejects invalid UTF-8, slices are rune-based)
            continue
        out = J.dump_outside_universe(d)
        if out:
            stats["outside_universe"] += 1
            continue
        if r.get("err") or r.get("rterr") or not r.get("rtsame"):
            res.violation({"what": "value does not survive ToJSON -> FromJSON structurally", "value": d, "err": r.get("err"), "restore_err": r.get("rterr"),
                           "text": bytes.fromhex(r.get("text", "")).decode("utf-8", "replace"), "restored": r.get("rtval")})
            found += 1
        else:
            stats["in_universe_roundtrips"] += 1
    return found, stats


def run_scripts(srcs):
    rows, _ = common.run_harness(["c09-script"], stdin="\n".join(s.encode("utf-8").hex() for s in srcs) + "\n")
    return rows


def check_scripts(res):
    found = 0
    rows = run_scripts(NONFINITE_SCRIPTS)
    built = 0
    for src, r in zip(NONFINITE_SCRIPTS, rows):
        if r.get("panic"):
            res.violation({"what": "Go panic", "script": src, "panic": r["panic"]})
            found += 1
        elif "val" in r and J.dump_nonfinite(r["val"]) or (r.get("mapjsonerr") and "val" in r):
            built += 1
            if "jsonerr" not in r and J.dump_nonfinite(r["val"]):
                res.violation({"what": "non-finite float serialised without error", "script": src, "json": r.get("json")})
                found += 1
    rows2 = run_scripts(FINITE_SCRIPTS)
    for src, r in zip(FINITE_SCRIPTS, rows2):
        if r.get("panic") or r.get("err"):
            res.violation({"what": "probe script failed", "script": src, "detail": r.get("panic") or r.get("err")})
            found += 1
        elif r.get("jsonerr") or r.get("rterr") or not r.get("rtsame") or not r.get("maprtsame"):
            res.violation({"what": "script-built value does not round-trip", "script": src, "row": r})
            found += 1
    # invalid UTF-8 cannot be built by scripts (assumption of the string model)
    bad_src = [b"'\xff'", b"x='a\xc3'; x", b"`\xff`", b"m = {'\xff': 1}; m"]
    rows3, _ = common.run_harness(["c09-script"], stdin="\n".join(s.hex() for s in bad_src) + "\n")
    for s, r in zip(bad_src, rows3):
        if "err" not in r:
            res.violation({"what": "a script built a string that is not valid UTF-8 (the JSON encoder would replace bytes silently)", "script_hex": s.hex(), "row": r})
            found += 1
    return found, {"nonfinite_scripts_built": built, "finite_probe_scripts": len(rows2), "invalid_utf8_sources_rejected": len(rows3)}


def check_cycles(res):
    """Each cycle script in its own child process: a fatal stack overflow cannot be recovered."""
    found, n = 0, 0
    for src, cyclic, *rep in CYCLE_SCRIPTS:
        try:
            rows, r = common.run_harness(["c09-cyc", "-src", src.encode("utf-8").hex()] + (["-repair", rep[0].encode("utf-8").hex()] if rep else []),
                                         timeout=60, check=False, mem_kb=4_000_000)
        except Exception as e:  # timeout
            res.violation({"what": "ToJSON of a script-built structure does not terminate", "script": src, "detail": str(e)})
            found += 1
            continue
        n += 1
        row = rows[-1] if rows else {}
        if r.returncode != 0 or not rows:
            res.violation({"what": "ToJSON of a script-built structure killed the process (fatal error, not recoverable)", "script": src,
                           "returncode": r.returncode, "stderr": (r.stderr or "")[:600], "replay_cmd": "harness c09-cyc -src " + src.encode('utf-8').hex()})
            found += 1
        elif row.get("runerr"):
            res.violation({"what": "cycle probe script failed to run", "script": src, "err": row["runerr"]})
            found += 1
        elif cyclic and (not row.get("cyclic") or "maperr" not in row):
            res.violation({"what": "variables containing a reference cycle were serialised without error", "script": src, "row": row})
            found += 1
        elif rep and (row.get("repair_runerr") or row.get("repair_bad")):
            res.violation({"what": "after a refused snapshot (reference cycle) the script repaired the value in place, but the variables do not snapshot / restore: "
                                   + (row.get("repair_bad") or "the repair script failed"), "script": src, "repair": rep[0], "row": row})
            found += 1
        elif not cyclic and (row.get("cyclic") or "maperr" in row or "valerr" in row):
            res.violation({"what": "shared (acyclic) structure was rejected by ToJSON", "script": src, "row": row})
            found += 1
    return found, n


def api_cycles(res):
    """The five API-built cyclic heaps of the battery (self-array, clone-cycle, self-dict, computed attrs, mixed),
    one process each."""
    rows_out, found = [], 0
    for k in range(5):
        rows, r = common.run_harness(["c09-enc", "-cyc", k], timeout=120, check=False, mem_kb=4_000_000)
        vals = [x for x in rows if "val" in x]
        if r.returncode != 0 or not vals:
            res.violation({"what": "ToJSON of a cyclic value killed the process (fatal error, not recoverable)", "battery_value": k,
                           "kinds": "0 array containing itself, 1 array containing a clone of its wrapper, 2 dict containing itself, "
                                    "3 computed value whose attribute is itself, 4 array -> dict -> array",
                           "returncode": r.returncode, "stderr": (r.stderr or "")[:600], "replay_cmd": f"harness c09-enc -cyc {k}"})
            found += 1
        rows_out += vals
    return rows_out, found


def check_transparency(res, seed, n):
    rows, _ = common.run_harness(["c09-trans", "-seed", seed, "-n", n], timeout=1500)
    summary = next((r for r in rows if r.get("summary")), {})
    reports = [r for r in rows if not r.get("summary")]
    found = 0
    alias, outside = [], []
    summary["nondeterministic_replays_skipped"] = (summary.get("by_stage") or {}).get("nondeterministic-replay", 0)
    summary["nondeterministic_followups_skipped"] = (summary.get("by_stage") or {}).get("nondeterministic-follow", 0)
    for r in reports:
        if r.get("stage") in ("nondeterministic-replay", "nondeterministic-follow"):
            continue
        if r.get("stage") in ("follow", "structure") and r.get("shared"):
            alias.append(r)
        elif r.get("outside"):
            outside.append(r)
        else:
            res.violation({"what": "restored VM differs from the original (" + r.get("stage", "?") + ")", "replay": {k: r.get(k) for k in ("prog", "prefix", "follow", "hi", "lo")},
                           "detail": r.get("detail"), "original": r.get("orig"), "restored": r.get("rest"), "snapshot": r.get("snap"),
                           "replay_cmd": "echo '<replay json>' | harness c09-replay"})
            found += 1
            if found >= 3:
                break
    # fixed probe: a native bound method in a variable (outside the property's universe) cannot be restored
    probe, _ = common.run_harness(["c09-replay"], stdin=json.dumps({"prog": ["m1 = [1,2].sum"], "prefix": 1, "follow": "m1()", "hi": "1", "lo": "2"}) + "\n")
    for r in probe:
        if r.get("summary"):
            continue
        if r.get("outside") and r.get("stage") == "restore":
            outside.append(r)
        else:
            res.violation({"what": "native bound method probe: unexpected outcome", "report": r})
            found += 1
    return found, summary, alias, outside


def replay_alias():
    case = {"prog": ["v1 = [1]", "v3 = [v1]"], "prefix": 2, "follow": "v1.push(2); v3", "hi": "1", "lo": "2"}
    rows, _ = common.run_harness(["c09-replay"], stdin=json.dumps(case) + "\n")
    return [r for r in rows if not r.get("summary")]


def run(res, tier, seed):
    common.build_harness()
    quick = tier == "quick"
    n_enc = 1200 if quick else 8000
    # cycles first, each in a child process (an unbounded recursion is a fatal error that takes the process down)
    f3, ncyc = check_cycles(res)
    cyc_rows, f3b = api_cycles(res)
    rows, proc = common.run_harness(["c09-enc", "-seed", seed, "-n", n_enc], check=False)
    if proc.returncode != 0:
        res.violation({"what": "the harness process died while serialising the value battery (fatal error, not recoverable)",
                       "returncode": proc.returncode, "stderr": (proc.stderr or "")[:1200], "replay_cmd": f"harness c09-enc -seed {seed} -n {n_enc}"})
        f3b += 1
    rows = rows + cyc_rows
    if len(rows) < 50:
        raise Broken("harness c09-enc produced no battery", (proc.stderr or "")[:2000])
    for r in rows:
        res.count(json.dumps(r["val"], sort_keys=True), nontrivial=bool(r["val"].get("l")) or r["val"]["t"] in (5, 8))
    res.sample({"value": rows[40]["val"], "json": bytes.fromhex(rows[40].get("text", "")).decode("utf-8", "replace")})

    res.cov["rule"] = ("(a) fixed battery (ints incl. int64 limits, 25 float bit patterns incl. -0/denormals/2^53+1/1e21 boundary, +-Inf/NaN bare and nested, "
                       "strings with escapes/astral/NUL, empty and nil containers, functions with nil/empty/non-empty params, computed with nil/empty/non-empty attrs, "
                       "all 14 builtin native functions, host native function/object, DAGs with shared wrappers and cloned wrappers, 5 cyclic heaps) "
                       "+ random value trees of depth <= 3 with shared substructure (1 in 8 picks re-uses an earlier container or a clone of its wrapper); "
                       "every 5th random case is a variable map; (c) generated programs of 3..8 statements, snapshot after EVERY statement prefix, "
                       "follow-up programs at 2 prefixes per program; half of the programs avoid aliasing; "
                       "distinct = distinct structural dump, non-trivial = container / function / computed")
    res.cov["trusted_base"] += [
        "Model/Json.v is a hand-written model of types_serialization.go + ValueMap.ToJSON/UnmarshalJSON and of encoding/json's decoding rules "
        "(case-insensitive keys, zero values for missing/null fields, number typing); tied by correspondence on Go's own ToJSON text and decoded values",
        "JSON text <-> AST: the harness parser/renderer (floats by IEEE bits, integer-syntax literals as integers); decimal float text is not modelled",
        "strings are assumed valid UTF-8 (validated: the dicescript parser rejects invalid UTF-8 and slices by runes; API-built invalid strings ARE altered by encoding/json)",
        "restore_transparent is validated by search (Go vs Go), not proved: re-parsing the stored Expr of functions/computed values is outside the model",
        "text of dicts with 2+ entries is not compared between original and restored VM (Go map order, recorded finding KF-C06-map-order)",
    ]
    res.assumptions += ["encoding/json: Marshal rejects non-finite floats; Unmarshal follows the documented rules modelled in Model/Json.v",
                        "scripts cannot build strings that are not valid UTF-8"]

    broken = None
    try:
        J.ensure_coq()
        info = common.check_property_file("C09")
        res.proof(info, "cd coq && make && coqc -Q . DS Properties/C09.v  (Print Assumptions parsed)")
        vals, maps, graphs, skipped = enc_items(rows)
        bad_v = J.run_cases("c09v", "enc_case", "enc_ok", [t for _, t in vals])
        bad_m = J.run_cases("c09m", "encmap_case", "encmap_ok", [t for _, t in maps])
        bad_g = J.run_cases("c09g", "graph_case", "graph_ok", [t for _, t in graphs])
        res.cov["correspondence"] = {"encoder_value_cases": len(vals), "encoder_map_cases": len(maps), "heap_graph_cases": len(graphs),
                                     "disagreements": len(bad_v) + len(bad_m) + len(bad_g), "skipped": skipped}
        if bad_v or bad_m or bad_g:
            first = ([rows[vals[i][0]] for i in bad_v[:2]] + [rows[maps[i][0]] for i in bad_m[:2]] + [rows[graphs[i][0]] for i in bad_g[:2]])
            broken = Broken("correspondence Corr09.enc_ok/encmap_ok/graph_ok (Model/Json.v to_json / to_json_graph vs Go ToJSON)",
                            {"first_disagreeing_cases": [{"value": r["val"], "go_text": bytes.fromhex(r.get("text", "")).decode("utf-8", "replace"),
                                                          "go_err": r.get("err")} for r in first]})
    except Broken as b:
        broken = b

    found, stats = classify_enc(res, rows)
    f2, sstats = check_scripts(res)
    f4, summary, alias, outside = check_transparency(res, seed, 120 if quick else 1500)
    found += f2 + f3 + f3b + f4
    res.cov["input_distribution"] = {"battery_rows": len(rows), **stats, **sstats, "cycle_scripts_in_child_processes": ncyc,
                                     "transparency": summary, "follow_up_differences_with_aliasing": len(alias),
                                     "restore_errors_outside_universe": len(outside)}
    if outside:
        res.cov["outside_universe_note"] = ("a native bound method stored in a variable (e.g. `m = [1,2].sum`) serialises but cannot be restored "
                                            "(decoder: unknown builtin Array.sum) — error, not a crash; native functions are not among the values C09 quantifies over")
        res.sample({"outside_universe": {k: outside[0].get(k) for k in ("prog", "prefix", "detail")}})

    # aliasing: genuine, recorded finding (tree-shaped JSON cannot keep sharing)
    kf = [k for k in common.known_for("C09") if k.get("key") == KF_ALIAS]
    alias_now = alias or replay_alias()
    if alias_now:
        if kf:
            res.known(kf[0]["what"])
        else:
            r = alias_now[0]
            res.violation({"what": "restore loses aliasing: a payload shared by two variables/elements becomes two copies, so a later mutation through one name "
                                   "is not seen through the other (original vs restored VM differ)",
                           "replay": {k: r.get(k) for k in ("prog", "prefix", "follow", "hi", "lo")}, "original": r.get("orig"), "restored": r.get("rest"),
                           "replay_cmd": "echo '<replay json>' | harness c09-replay", "known_finding_key": KF_ALIAS})
            found += 1
    # tree unfolding: genuine, recorded finding (the JSON text of a DAG is exponential in the work that built it)
    tr, _ = common.run_harness(["c09-tree"], timeout=300)
    trows = tr[0]["rows"]
    res.cov["tree_unfolding_demonstration"] = trows
    grows = all(b["json_bytes"] >= 8 * a["json_bytes"] for a, b in zip(trows, trows[1:])) and all(b["ops"] - a["ops"] <= 40 for a, b in zip(trows, trows[1:]))
    kt = [k for k in common.known_for("C09") if k.get("key") == "json-of-shared-structure-is-its-tree-unfolding"]
    if grows:
        if kt:
            res.known("key=json-of-shared-structure-is-its-tree-unfolding " +
                      " ".join(f"steps={r['steps']}:ops={r['ops']}:json_bytes={r['json_bytes']}" for r in trows) + " :: " + kt[0]["what"])
        else:
            res.violation({"what": "ToJSON of a value with shared sub-structure is exponential in the operations that built it", "rows": trows,
                           "replay_cmd": "harness c09-tree"})
            found += 1
    if broken and not found and not res.violations:
        res.violation({"broken": broken.what, "detail": broken.detail}, no_input=True)
    elif broken:
        res.cov["also_broken"] = {"what": broken.what, "detail": broken.detail}


def replay(path):
    p = json.load(open(path))
    print(json.dumps(p, indent=1, ensure_ascii=False)[:4000])
    common.build_harness()
    if "replay" in p and p["replay"].get("prog") is not None:
        rows, _ = common.run_harness(["c09-replay"], stdin=json.dumps(p["replay"]) + "\n")
        reps = [r for r in rows if not r.get("summary")]
        print("differences now:", len(reps))
        for r in reps[:2]:
            print(json.dumps({k: r.get(k) for k in ("stage", "detail", "orig", "rest")}, ensure_ascii=False)[:3000])
        return 1 if reps else 0
    if "script" in p:
        rows, r = common.run_harness(["c09-cyc", "-src", p["script"].encode("utf-8").hex()], check=False, timeout=60)
        print("returncode", r.returncode, rows)
        return 0 if r.returncode == 0 else 1
    return 0
