(* C12 — ValueMap is a correct map (sequential half: every history).
   Only statements, `exact lemma`, Print Assumptions. *)
From stdpp Require Import gmap.
From Coq Require Import NArith.
From DS Require Import Model.ValueMap Proofs.ValueMapProofs Model.ValueMapConc Proofs.ValueMapConcProofs.

(* For EVERY sequence of Store, Load, LoadOrStore, LoadAndDelete, Delete, Clear, Range and
   Length calls, the results of the transliterated sync.Map clone equal those of an ordinary
   finite map (Length = number of live keys; Range = exactly the live pairs, once each,
   compared sorted by key). *)
Theorem C12_results_equal_plain_map :
  forall ops : list vop, (vm_run vm_init ops).2 = (spec_run ∅ ops).2.
Proof. exact refines_run. Qed.

(* ... and the abstract contents after the history are those of the ordinary map *)
Theorem C12_contents_equal_plain_map :
  forall ops : list vop, abs (vm_run vm_init ops).1 = (spec_run ∅ ops).1.
Proof. exact refines_run_state. Qed.

(* one-step refinement from any state satisfying the invariant *)
Theorem C12_refines_step :
  forall m o, Inv m ->
    (vm_step m o).2 = (spec_step (abs m) o).2 /\ abs (vm_step m o).1 = (spec_step (abs m) o).1.
Proof. exact refines_step. Qed.

Theorem C12_invariant_init : Inv vm_init.
Proof. exact inv_init. Qed.

Theorem C12_invariant_step : forall m o, Inv m -> Inv (vm_step m o).1.
Proof. exact inv_step. Qed.

(* the code never writes to a nil dirty map (no Go panic), whatever the history *)
Theorem C12_never_panics : forall ops, ok (vm_run vm_init ops).1 = true.
Proof. exact never_panics. Qed.

(* the abstraction function is the pointwise lookup the code performs *)
Theorem C12_abs_is_lookup : forall m k, Inv m -> abs m !! k = abs_lookup m k.
Proof. exact abs_lookup_spec. Qed.

(* the Length of the unrepaired code (len of the map incl. tombstones) is NOT the number
   of live keys — the defect repaired by the `fix:` commit on valuemap.go *)
Theorem C12_length_raw_refuted :
  exists ops, let m := (vm_run vm_init ops).1 in vm_length_raw m <> size (abs m).
Proof. exact length_raw_refuted. Qed.

Print Assumptions C12_results_equal_plain_map.
Print Assumptions C12_contents_equal_plain_map.
Print Assumptions C12_refines_step.
Print Assumptions C12_invariant_init.
Print Assumptions C12_invariant_step.
Print Assumptions C12_never_panics.
Print Assumptions C12_abs_is_lookup.
Print Assumptions C12_length_raw_refuted.

(* non-vacuity: a reachable amended state with an expunged and a nil entry satisfies Inv *)
Example C12_nonvacuous : Inv ex_state /\ amended ex_state = true.
Proof. destruct ex_nonvacuous as (H1 & H2 & _). split; assumption. Qed.

(* ---- concurrent half: the linearizability monitor is sound and complete ---------- *)
From DS Require Import Model.Linz Proofs.LinzProofs.

(* linearizable h = true  <->  some permutation of the recorded events respects real-time
   order (an event that returned before another was invoked comes first) and is a legal
   sequential history of the ordinary-map specification with exactly the recorded results *)
Theorem C12_linearizability_monitor_correct :
  forall h, linearizable h = true <->
    exists l, l ≡ₚ h /\ respects_rt l /\ seq_ok ∅ l.
Proof. exact linearizable_correct. Qed.
Print Assumptions C12_linearizability_monitor_correct.

(* ---- concurrency: an INTERLEAVING model of the algorithm as written in valuemap.go (Model/ValueMapConc.v): shared state =
   read map + amended flag, dirty map, entry cells shared between the two (nil / expunged / value with a pointer tag),
   misses, mutex holder; one schedule element = one atomic action of the Go code (atomic load of m.read, atomic load /
   compare-and-swap of an entry pointer with the retry loops of tryStore / delete / tryLoadOrStore, Lock — enabled only when
   free —, the lock-protected region, Unlock); operations Load, Store, LoadAndDelete, LoadOrStore with fast and slow paths,
   unexpunge, missLocked with the real promotion test, dirtyLocked with expunging.
   For EVERY number of threads, every list of operations per thread and EVERY schedule, the history of invocations and
   responses is linearizable with respect to an ordinary finite map: there are linearization points between each
   operation's invocation and response such that the map specification, run in that order from the empty map, gives
   every completed operation exactly the response it returned.  (Range / Length / Clear are not in the concurrent model:
   they are covered by the sequential theorems above and by the monitor below on recorded histories; atomics are taken
   to be sequentially consistent.) *)
Theorem C12_linearizable_all_schedules : forall (threads : list (list cop)) (sched : list nat),
  ValueMapConc.linearizable (history_of (run_sched (init_conf threads) sched)).
Proof. exact valuemap_linearizable. Qed.

Print Assumptions C12_linearizable_all_schedules.
