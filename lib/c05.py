"""C05 — dice are unbiased for every number of sides."""
import random

import common
import k2cases
from common import Broken, Z

BIG = "1000000007"   # a die so large that two equal rolls are a 1e-9 event
INDEP = [
    f"[d{BIG}, d{BIG}, d{BIG}]",
    f"func r(){{ d{BIG} }}; [r(), r(), d{BIG}]",
    f"func r(){{ d{BIG} }}; x = r(); y = d{BIG}; z = r(); [x, y, z]",
    f"&cv = d{BIG}; [cv, cv, d{BIG}]",
    f"func r(u){{ u + d{BIG} }}; [r(0), d{BIG}, r(0)]",
    f"i = 0; arr = []; while i < 3 {{ arr.push(d{BIG}); i = i + 1 }}; arr",
    f"func r(){{ d{BIG} }}; i = 0; arr = []; while i < 3 {{ arr.push(r()); i = i + 1 }}; arr",
    f"[`{{d{BIG}}}`, `{{d{BIG}}}`, str(d{BIG})]",
    f"func r(){{ [d{BIG}, d{BIG}] }}; r() + r() + [d{BIG}]",
    f"func r(){{ func q(){{ d{BIG} }}; q() }}; [r(), r(), d{BIG}]",
    f"[1d{BIG}k1, 2d{BIG}k1, 1d{BIG}]",
]


def errpath_search(res, seed, n):
    """the draws of an evaluation that ends in a run-time error stay consumed (Run, RunExpr with and without the caller's
    variable space): the die stored before the failure is the first die of the stream, the next die is a LATER die of the
    same stream, never the same draw again"""
    rows, _ = common.run_harness(["c05-errpath", "-seed", seed, "-n", n], timeout=300)
    found = 0
    stats = {}
    for r in rows:
        stats[r["entry"]] = stats.get(r["entry"], 0) + 1
        why = None
        if r.get("panic"):
            why = "panic: " + r["panic"]
        elif not r.get("failed"):
            why = "the statement was expected to end in a run-time error"
        elif r.get("a") is not None and r["a"] != r["ref_stream"][0]:
            why = f"the die stored before the failure ({r['a']}) is not the first die of the stream ({r['ref_stream'][0]})"
        elif r["next"] not in r["ref_stream"][1:]:
            why = (f"the die after the failed evaluation ({r['next']}) is not a later die of the same stream {r['ref_stream'][1:]}"
                   + (": it is the SAME draw as the die rolled before the failure" if r["next"] == r["ref_stream"][0] else ""))
        elif r["state_after_failure"] == r["state_start"]:
            why = "the generator state after the failed evaluation equals the state before it although a die was rolled"
        if why and found < 2:
            res.violation({"what": "dice after a failed evaluation: " + why, "statement": r["stmt"], "entry_point": r["entry"],
                           "seed_state": [r["hi"], r["lo"]], "then": "Run(\"d1000000000\")", "observed": {k: r.get(k) for k in ("a", "next", "ref_stream")}})
            found += 1
    res.cov["error_path_draws"] = {"histories": len(rows), "by_entry_point": stats}
    return found


def independence_search(res, seed):
    """successive dice are separate draws from the context generator, also across function calls, computed values,
    loops and templates: with a huge die, equal results are a 1e-9 event"""
    rnd = random.Random(seed)
    inputs = []
    for src in INDEP:
        for _ in range(4):
            inputs.append(k2cases.mk_input(src, oplimit=100000, hi=rnd.getrandbits(64), lo=rnd.getrandbits(64)))
    rows = k2cases.go_run(inputs)
    found = 0
    for inp, row in zip(inputs, rows):
        last = (row or {}).get("steps", [{}])[-1] if row else {}
        if not last.get("ok") or not last.get("val"):
            continue
        vals = [x.get("i") or x.get("s") for x in (last["val"].get("l") or [])]
        if len(vals) >= 2 and len(set(vals)) < len(vals):
            res.violation({"what": "two dice of one evaluation returned the same 1e9-sided result: they did not consume separate draws of the context generator",
                           "source": inp["src"].decode(), "seed_state": [str(inp.get("hi")), str(inp.get("lo"))], "values": vals})
            found += 1
            if found >= 2:
                break
    return inputs, rows, found

LEVEL = "proof"
U64 = 1 << 64
MAXU = U64 - 1


def cases_v(rows):
    items = []
    for r in rows:
        items.append(f"(({Z(r['d'])},{Z(r['mode'])},{r['hi']}%N,{r['lo']}%N),({Z(r['res'])},{r['hi2']}%N,{r['lo2']}%N))")
    return ("From Coq Require Import NArith ZArith List.\nFrom DS Require Import Model.PCG Model.Roll Corr.Corr05.\n"
            "Import ListNotations.\nSet Printing Width 1000000. Set Printing Depth 10000000.\n"
            "Definition cases : list c05_case := [\n" + ";\n".join(items) + "].\n"
            "Definition bad := Eval vm_compute in bad_indices c05_ok 0%N cases.\nPrint bad.\n")


def ceiling(n):
    return MAXU - MAXU % n


def is_pow2(n):
    return n & (n - 1) == 0


def property_search(res, rows, seed):
    """Property-level search on the implementation's own observations: a die out of range,
    or an accepted 64-bit word that the unbiased rule must reject (exact bias witness)."""
    found = 0
    for r in rows:
        d, mode, out = int(r["d"]), r["mode"], int(r["res"])
        if d <= 0 or d >= (1 << 63) - 1:
            continue
        if not (1 <= out <= d):
            res.violation({"what": "die outside 1..n", "case": r})
            found += 1
            continue
        if mode == 0 and r.get("w") and not is_pow2(d):
            w = int(r["w"])
            if w >= ceiling(d):
                # the engineered first word must be rejected: the post state must differ from
                # the state right after the first draw, i.e. (0, w)
                if int(r["hi2"]) == 0 and int(r["lo2"]) == w:
                    res.violation({"what": "word >= ceiling accepted: faces below 2^64 mod n get one extra preimage (bias)",
                                   "case": r, "ceiling": str(ceiling(d))})
                    found += 1
            else:
                if out != w % d + 1:
                    res.violation({"what": "accepted word mapped to the wrong face", "case": r})
                    found += 1
        if found >= 3:
            break
    if found:
        return found
    # statistical fallback: quantile buckets for n = 3*2^61 (uniform: 1/4 each; a missing
    # rejection loop puts 3/8 of the mass in the lowest third ...) and small n
    for sides, buckets in ((3 << 61, 4), (3, 3), (5, 5), (6, 6), (7, 7), (10, 10)):
        out, _ = common.run_harness(["c05-stat", "-seed", seed, "-n", 200000, "-sides", sides, "-buckets", buckets])
        st = out[0]
        n = st["n"]
        exp = n / buckets
        chi = sum((c - exp) ** 2 / exp for c in st["counts"])
        # 99.9999% quantile of chi2 with <=9 dof is < 50
        if st["out_of_range"] or chi > 60:
            res.violation({"what": "frequency test failed", "stat": st, "chi2": chi, "seed": seed})
            return 1
    return 0


def run(res, tier, seed):
    common.build_harness()
    n = 2000 if tier == "quick" else 12000
    rows, _ = common.run_harness(["c05", "-seed", seed, "-n", n])
    for r in rows:
        res.count((r["d"], r["hi"], r["lo"], r["mode"]),
                  nontrivial=(r["kind"] != "mode"))
    kinds = {}
    for r in rows:
        kinds[r["kind"]] = kinds.get(r["kind"], 0) + 1
    redraws = sum(1 for r in rows if r.get("w") and int(r["d"]) > 0 and not is_pow2(int(r["d"])) and int(r["w"]) >= ceiling(int(r["d"])))
    res.cov["rule"] = ("engineered PCG states whose first output is a chosen boundary word (ceiling-1, ceiling, ceiling+1, "
                       "2^64-1-n, 2^64-n, 2^64-1, 0, n-1, n, ...) for a ladder of side counts (1..70, 2^k, 2^k+-1, 3*2^k, near 2^63), "
                       "plus random (sides,state); distinct = distinct (sides,state,mode); non-trivial = random-mode draws")
    res.cov["input_distribution"] = {"kinds": kinds, "cases_forcing_a_redraw": redraws}
    for r in rows[:2] + rows[len(rows) // 2: len(rows) // 2 + 2]:
        res.sample(r)
    res.cov["trusted_base"] += [
        "PCG multiplier/increment constants of golang.org/x/exp/rand are copied by hand into Model/PCG.v (checked by exact-state correspondence)",
        "independence/uniformity of successive PCG output words is assumed (PRNG quality is not a theorem)",
        "_roll32 (32-bit platforms) is not modelled: IntTypeSize == 8 on this platform",
    ]
    res.assumptions += ["PCG XSL-RR 128/64 output words are uniform and independent",
                        "the harness can set the full generator state through UnmarshalBinary"]

    broken = None
    try:
        info = common.check_property_file("C05")
        res.proof(info, "cd coq && make && coqc -Q . DS Properties/C05.v  (Print Assumptions parsed)")
        # correspondence, sharded
        shard = 800
        bad = []
        ks = list(range(0, len(rows), shard))
        outs = common.coq_eval_many([(f"c05_{k}", cases_v(rows[k:k + shard])) for k in ks])
        for k, out in zip(ks, outs):
            bad += [k + int(x.replace("%N", "")) for x in common.parse_coq_list(out, "bad")]
        res.cov["correspondence"] = {"cases": len(rows), "disagreements": len(bad)}
        if bad:
            broken = Broken("correspondence Corr05.c05_ok (Model/Roll.v roll_pcg vs Go Roll)",
                            {"first_disagreeing_cases": [rows[i] for i in bad[:5]]})
    except Broken as b:
        broken = b

    found = property_search(res, rows, seed)
    # dice through the VM: separate draws (search) + exact value / generator state against the VM model (K2)
    try:
        k_inputs, k_rows, f2 = independence_search(res, seed)
        found += f2
        found += errpath_search(res, seed, 63 if tier == "quick" else 630)
        st = k2cases.correspond(k_inputs, k_rows, "c05k2")
        badk = [i for i, (s_, _) in enumerate(st) if s_ == "bad"]
        res.cov["vm_dice_stream"] = {"programs": len(k_inputs), "model_agrees": sum(1 for s_, _ in st if s_ == "ok"), "disagreements": len(badk),
                                     "unsupported": sum(1 for s_, _ in st if s_ == "unsup")}
        if badk and not broken:
            broken = Broken("correspondence CorrK2 (Model/VM.v vs the real VM: value and generator state of dice programs with functions / computed values)",
                            {"first": [{"source": INDEP[i // 4], "why": st[i][1]} for i in badk[:3]]})
    except Broken as b:
        broken = broken or b
    if broken and not found:
        res.violation({"broken": broken.what, "detail": broken.detail}, no_input=True)


def replay(path):
    import json
    p = json.load(open(path))
    print(json.dumps(p, indent=1))
    c = p.get("case")
    if c:
        common.build_harness()
        print("re-run with: harness c05 (engineered state)", c)
    return 0
