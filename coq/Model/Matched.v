(* Model of how RunAfterParsed derives Matched / RestInput from the parser's final offset:
     matched := strings.TrimRightFunc(string(data[:offset]), unicode.IsSpace)
     rest    := string(data[len(matched):])
   on byte lists, with Go's utf8.DecodeLastRune and unicode.IsSpace. *)
From Coq Require Import NArith List Bool Arith.
Import ListNotations.
Open Scope N_scope.

Definition RuneErr : N := 65533.
Definition contb (b : N) : bool := (128 <=? b) && (b <=? 191).

(* utf8.DecodeRune on a byte list *)
Definition decode_l (l : list N) : N * nat :=
  match l with
  | [] => (RuneErr, 0%nat)
  | b0 :: r =>
    if b0 <? 128 then (b0, 1%nat)
    else if b0 <? 194 then (RuneErr, 1%nat)
    else if b0 <? 224 then
      match r with
      | b1 :: _ => if contb b1 then ((b0 - 192) * 64 + (b1 - 128), 2%nat) else (RuneErr, 1%nat)
      | _ => (RuneErr, 1%nat) end
    else if b0 <? 240 then
      match r with
      | b1 :: b2 :: _ =>
        let lo := if b0 =? 224 then 160 else 128 in
        let hi := if b0 =? 237 then 159 else 191 in
        if (lo <=? b1) && (b1 <=? hi) && contb b2
        then ((b0 - 224) * 4096 + (b1 - 128) * 64 + (b2 - 128), 3%nat) else (RuneErr, 1%nat)
      | _ => (RuneErr, 1%nat) end
    else if b0 <? 245 then
      match r with
      | b1 :: b2 :: b3 :: _ =>
        let lo := if b0 =? 240 then 144 else 128 in
        let hi := if b0 =? 244 then 143 else 191 in
        if (lo <=? b1) && (b1 <=? hi) && contb b2 && contb b3
        then ((b0 - 240) * 262144 + (b1 - 128) * 4096 + (b2 - 128) * 64 + (b3 - 128), 4%nat) else (RuneErr, 1%nat)
      | _ => (RuneErr, 1%nat) end
    else (RuneErr, 1%nat)
  end.

(* utf8.RuneStart: not a continuation byte *)
Definition rune_start (b : N) : bool := negb ((b / 64) =? 2).

(* utf8.DecodeLastRune *)
Definition decode_last (p : list N) : N * nat :=
  let e := length p in
  match e with
  | O => (RuneErr, 0%nat)
  | S start0 =>
    let last := nth start0 p 0 in
    if last <? 128 then (last, 1%nat)
    else
      let lim := (e - 4)%nat in
      (* for start--; start >= lim; start-- { if RuneStart(p[start]) break } *)
      let fix scan (k : nat) (start : nat) : option nat :=   (* None = ran below lim *)
          match k with
          | O => None
          | S k' =>
            if (lim <=? start)%nat then
              if rune_start (nth start p 0) then Some start
              else match start with O => None | S s' => scan k' s' end
            else None
          end in
      let start :=
          match start0 with
          | O => 0%nat                         (* start-- gives -1 -> clamped to 0 *)
          | S s1 => match scan 4%nat s1 with Some s => s | None => (if (lim =? 0)%nat then 0%nat else (lim - 1)%nat) end
          end in
      let '(r, size) := decode_l (skipn start p) in
      if ((start + size)%nat =? e)%nat then (r, size) else (RuneErr, 1%nat)
  end.

(* unicode.IsSpace *)
Definition is_space (r : N) : bool :=
  ((9 <=? r) && (r <=? 13)) || (r =? 32) || (r =? 133) || (r =? 160) || (r =? 5760) ||
  ((8192 <=? r) && (r <=? 8202)) || (r =? 8232) || (r =? 8233) || (r =? 8239) || (r =? 8287) || (r =? 12288).

(* TrimRightFunc(s, IsSpace): length of the kept prefix *)
Fixpoint trim_len (fuel : nat) (l : list N) : nat :=
  match fuel with
  | O => length l
  | S f =>
    let '(r, size) := decode_last l in
    match size with
    | O => length l
    | _ => if is_space r then trim_len f (firstn (length l - size) l) else length l
    end
  end.

Definition rtrim (l : list N) : list N := firstn (trim_len (S (length l)) l) l.

Definition matched (input : list N) (offset : nat) : list N := rtrim (firstn offset input).
Definition rest (input : list N) (offset : nat) : list N := skipn (length (matched input offset)) input.
