"""C07 — budgets and capacity limits fail closed: bounded work, error, no truncation."""
import base64
import json
import os
import random
import subprocess

import common
from common import Broken

LEVEL = "proof"
BUDGET_ERR = "允许算力上限"


def regenerate_limits():
    out = os.path.join(common.COQ, "Gen", "Limits.v")
    tmp = out + f".{os.getpid()}.tmp"
    r = subprocess.run(["python3", os.path.join(common.VERIF, "tools", "gen_limits.py"), tmp], capture_output=True, text=True,
                       env=dict(os.environ, VERIF_REPO=common.REPO))
    if r.returncode != 0:
        raise Broken("translator tools/gen_limits.py failed", r.stderr[-2000:])
    with common.Lock("coqmake"):
        new = open(tmp).read()
        old = open(out).read() if os.path.exists(out) else None
        if new != old:
            os.replace(tmp, out)
            common.log("[gen] Gen/Limits.v changed")
        else:
            os.unlink(tmp)
    return json.loads(r.stdout.strip().splitlines()[-1])


def adversarial(rnd):
    """(source, kind, expectation) — expectation: 'budget' must end with the budget error (or another error) and never a value;
    ('value', v) must return exactly v or an error; 'any' only: returns in time, no panic"""
    out = []
    add = lambda s, kind, exp: out.append((s, kind, exp))
    for n in (10, 100, 1000, 5000, 8191, 8192, 8193, 9000, 20000):
        add("+".join(["1"] * n), "long-sum", ("value", str(n)))
        add(";".join(["1"] * (n // 2)) + ";7", "long-seq", ("value", "7"))
    # the same capacity inside the separate instruction buffers of function bodies, computed values and template blocks
    for n in (4090, 4201, 9000):
        big = "+".join(["1"] * n)
        add(f"func g0() {{ {big} }}; g0()", "long-sum-in-function", ("value", str(n)))
        add(f"func g0() {{ {big} }}; 7", "long-sum-in-uncalled-function", ("value", "7"))
        add(f"&va = {big}; va", "long-sum-in-computed", ("value", str(n)))
        add(f"x = `{{% {big} %}}`; x", "long-sum-in-template", ("value", str(n)))
        add(f"func g0() {{ func g1() {{ {big} }}; g1() }}; g0()", "long-sum-in-nested-function", ("value", str(n)))
    # printing inside an evaluation is work too: a value with shared sub-structure (each step a handful of operations, the tree
    # unfolding doubling) must print in time proportional to the object graph, not to the unfolding
    for k in (30, 60):
        for first, stepf in (("a=[1]", "a=[a,a]"), ("a={'x':1}", "a={'x':a,'y':a}")):
            build = first + "; " + "; ".join([stepf] * k)
            for look in ("toStr(a).len() < 100000", "x = `{a}`; x.len() < 100000", "repr(a).len() < 100000", "[a, a] == [a, a]"):
                add(build + "; " + look, "shared-structure-print", ("value", "1"))
    for n in (19, 20, 21, 22, 30):
        add("if 1 {" * n + "5" + "}" * n, "nested-if", "any")
        t = "5"
        for j in range(n):
            d = "`" if j % 2 == 0 else "\x1e"
            t = d + "{" + t + "}" + d
        add(t, "nested-template", ("value", "5"))
    for n in (511, 512, 513, 1000, 100000):
        add(f"[1..{n}].len()", "range", ("value", str(n)))
        add(f"x=[1]; i=0; while i<{n} {{ x.push(i); i=i+1 }}; x.len()", "push-loop", "any")
    add("a=[1]; i=0; while i<20 { a=a+a; i=i+1 }; a.len()", "array-doubling", "any")
    add("[1,2,3]*200", "repeat", "any")
    # container capacity 512: a request beyond it is an error — also when the 64-bit product len*times wraps round to a small number
    M = 1 << 64
    for ln in (3, 4, 5, 6, 7, 9, 11, 100, 500):
        lit = "[" + ",".join(["1"] * ln) + "]"
        for t in (-(-M // ln), -(-M // ln) + 1, (M + 511) // ln, 512 // ln + 1, (1 << 62) + 1):
            if 0 < t < (1 << 63) and ln * t > 512:
                add(f"{lit} * {t}", "repeat-over-capacity", "capacity")
                add(f"{t} * {lit}", "repeat-over-capacity", "capacity")
    for s_ in ("[1] * 513", "[1,2] * 9223372036854775807", "x=[1..300]; x + x", "x=[1..400]; y = x * 2; y.len()", "[0..9223372036854775807]",
               "[(0-9223372036854775807)..9223372036854775807]", "[1..513]", "[513..1]", "[(0-300)..300]"):
        add(s_, "over-capacity", "capacity")
    for s_, v in (("[1] * 512", None), ("([1,2,3] * 170).len()", "510"), ("x=[1..256]; (x + x).len()", "512"), ("[1..512].len()", "512")):
        add(s_, "at-capacity", ("value", v) if v else "any")
    for big in ("9223372036854775807", "99999999", "30001", "29000"):
        add(f"{big}d6", "huge-times", "any")
        add(f"b{big}", "huge-coc", "any")
        add(f"[1,2].kh({big})", "huge-kh", "any")
    add("b(0-100000)", "negative-coc", "any")
    for s in ("20000a2", "20000a2m100000", "1a2m100000000", "20000c2", "20000c2m1000000", "5a10", "3c8", "10a6m6"):
        add(s, "exploding", "any")
    add("func g(u) { g(u+1) }; g(0)", "recursion", "budget")
    add("&v = v + 1; v", "computed-recursion", "budget")
    add("while 1 { }", "loop", "budget")
    add("i=0; while 1 { i=i+1 }", "loop", "budget")
    add("i=0; while i<100000 { i=i+1 }; i", "long-loop", "any")
    add("func g(u) { if u > 0 { return g(u-1)+1 }; 0 }; g(250)", "deep-recursion", "any")
    add("(" * 300 + "1" + ")" * 300, "deep-parens", ("value", "1"))
    add("[" * 200 + "1" + "]" * 200, "deep-arrays", "any")
    add("x" + "[0]" * 2000, "long-index-chain", "any")
    add("1" + "+(2" * 400 + ")" * 400, "deep-right-nesting", ("value", str(1 + 2 * 400)))
    # work hidden in nested contexts: every die (power-of-two sides: exactly one generator draw each) must be charged
    add("&va = 20000d2; func g0() { va }; g0(); g0(); g0(); g0()", "nested-work", "budget")
    add("&va = 20000d2; func g0() { va }; g0()+g0()+g0()+g0()", "nested-work", "budget")
    add("func g0(){20000d2}; func g1(){ g0()+g0()+g0() }; g1()", "nested-work", "budget")
    add("func g1(){ &vx = 20000d2; vx+vx+vx }; g1()", "nested-work", "budget")
    add("&va = 20000d2; &vb = va + va; func g0() { vb + vb }; g0()", "nested-work", "budget")
    add("func g0(){20000d2}; func g1(){ i=0; while i<5 { g0(); i=i+1 } }; g1()", "nested-work", "budget")
    add("&va = 20000d2; func g0() { func g1() { va }; g1() + g1() }; g0() + g0()", "nested-work", "budget")
    add("&va = 20000d2; x = `{va}{% va %}{va}{va}`; 1", "nested-work", "budget")
    return out


def work_programs(rnd, n):
    """random programs whose dice sit in nested contexts (functions calling functions, computed values read from calling contexts,
    local computed values, loops, templates); all dice have power-of-two sides, so one generator draw = one die"""
    out = []
    for _ in range(n):
        leaf = lambda: f"{rnd.choice([3, 40, 700, 9000, 20000])}d{rnd.choice([2, 4, 8, 16, 256])}"
        lines = [f"&va = {leaf()}", rnd.choice([f"&vb = va + {leaf()}", "&vb = va + va", f"&vb = {leaf()}"])]
        # computed values that do their work and then evaluate to null / a string / an empty array (the lookup of a name that
        # yields null goes on to the next scope: the work already done must stay charged)
        lines.append(rnd.choice([f"&vn = [{leaf()}, nosuchname][1]", f"&vn = [{leaf()}, null][1]", f"&vn = [{leaf()}, 'a'][1]", f"&vn = {{'k': {leaf()}}}.nokey"]))
        funcs = []
        for j in range(rnd.randrange(1, 4)):
            terms = []
            for _ in range(rnd.randrange(1, 4)):
                k = rnd.randrange(7)
                if k == 0:
                    terms.append(leaf())
                elif k == 1:
                    terms.append(rnd.choice(["va", "vb"]))
                elif k == 2 and funcs:
                    terms.append(rnd.choice(funcs) + "()")
                elif k == 3:
                    terms.append(f"`{{{rnd.choice(['va', 'vb', leaf()])}}}`")
                else:
                    terms.append(rnd.choice(["va", "vb", leaf()] + [x + "()" for x in funcs]))
            body = " + ".join(t if not t.startswith("`") else "1" for t in terms)
            pre = "".join(f"x{j} = {t}; " for t in terms if t.startswith("`"))
            shape = rnd.randrange(4)
            if shape == 0:
                body = f"{pre}&vl = {body}; vl + vl"
            elif shape == 1:
                body = f"{pre}i = 0; s = 0; while i < {rnd.choice([2, 3, 6])} {{ s = s + {body}; i = i + 1 }}; s"
            else:
                body = pre + body
            if rnd.random() < 0.4:
                body = rnd.choice(["vn; ", "x9 = vn; ", "vn; vn; "]) + body
            lines.append(f"func g{j}() {{ {body} }}")
            funcs.append(f"g{j}")
        items = [rnd.choice([x + "()" for x in funcs] + ["va", "vb"]) for _ in range(rnd.randrange(1, 5))]
        main = rnd.choice(["; ", " + "]).join(items)
        out.append(("; ".join(lines) + "; " + main, "nested-work-gen", "any"))
    return out


def run_cases(cases, timeout=120, mem_kb=4_000_000, chunk=25):
    """Runs the cases in chunks of `chunk`, each chunk in its own child process with `timeout` seconds for the WHOLE chunk (a single
    case legitimately takes up to ~2 s: parsing a 16 KB source): a chunk that does not finish blames the case after the last
    result and goes on behind it."""
    exe = os.path.join(common.BIN, "harness")
    rows = [None] * len(cases)
    fatal = {}
    for lo in range(0, len(cases), chunk):
        hi = min(len(cases), lo + chunk)
        pos = lo
        while pos < hi:
            stdin = "\n".join(json.dumps(c) for c in cases[pos:hi]) + "\n"
            try:
                r = subprocess.run(["bash", "-c", f"ulimit -v {mem_kb}; exec {exe} c07"], input=stdin, capture_output=True, text=True, timeout=timeout)
                got = [json.loads(l) for l in r.stdout.splitlines() if l.startswith("{")]
                why = None
                if r.returncode != 0 or len(got) < hi - pos:
                    why = next((l for l in r.stderr.splitlines() if "fatal error" in l or "out of memory" in l), "process died")[:160]
            except subprocess.TimeoutExpired as e:
                o = e.stdout.decode() if isinstance(e.stdout, bytes) else (e.stdout or "")
                got = [json.loads(l) for l in o.splitlines() if l.startswith("{")]
                why = f"no result within {timeout}s (chunk of {hi - pos} cases)"
            for j, g in enumerate(got):
                rows[pos + j] = g
            if why is None:
                break
            fatal[pos + len(got)] = why
            pos += len(got) + 1
    return rows, fatal


def run(res, tier, seed):
    common.build_harness()
    rnd = random.Random(seed)
    lim = regenerate_limits()
    res.cov["translator"] = lim
    adv = adversarial(rnd)
    cases, meta = [], []
    budgets = [50, 30000]
    for s, kind, exp in adv:
        for L in budgets:
            for mode in ((0, -1, 1) if kind in ("exploding", "huge-times", "huge-coc") else (0,)):
                cases.append({"b64": base64.b64encode(s.encode()).decode(), "oplimit": L, "parselimit": 0, "mode": mode})
                meta.append((s, kind, exp, L, mode, 0))
    for s, kind, exp in work_programs(rnd, 150 if tier == "quick" else 3000):
        L = rnd.choice([50, 1000, 30000, 30000])
        cases.append({"b64": base64.b64encode(s.encode()).decode(), "oplimit": L, "parselimit": 0, "mode": 0})
        meta.append((s, kind, exp, L, 0, 0))
    # parse budget
    for s in ("+".join(["1"] * 3000), "(" * 200 + "1" + ")" * 200, "x=1;" * 2000):
        for pl in (200, 5000, 10000000):
            cases.append({"b64": base64.b64encode(s.encode()).decode(), "oplimit": 30000, "parselimit": pl, "mode": 0})
            meta.append((s, "parse-budget", "any", 30000, 0, pl))
    # lazily compiled bodies (functions / computed values restored from JSON) are parsed under the parse budget and the capacity
    # of the VM that uses them: over the limit is an error there too, never a silent null
    for nterms in (300, 3000):
        big = "+".join(["1"] * nterms)
        for pre, use in ((f"func g0(n) {{ n+{big} }}", "g0(1)"), (f"&va = {big}", "va"), (f"func g0(n) {{ n+{big} }}", "x = g0(1); x"),
                         (f"func g1() {{ 7 }}; func g0(n) {{ g1()+{big} }}", "g0(1) + g1()")):
            for pl in (200, 20000, 10000000):
                want = ("value", None) if False else "any"
                cases.append({"b64": base64.b64encode(use.encode()).decode(), "oplimit": 30000, "parselimit": pl, "mode": 0,
                              "lazypre": base64.b64encode(pre.encode()).decode()})
                meta.append((pre + "  ||restored, then||  " + use, "lazy-parse-budget", ("lazy", nterms), 30000, 0, pl))
    # the counter is ONE account across lazily compiled bodies: a function / computed value restored from JSON is compiled at its first
    # call (Parse inside the running evaluation); the work done before the call and inside the body adds up, so 20000 dice + a body
    # of 20000 dice under a budget of 30000 is an error, and every die drawn is charged (power-of-two sides: one draw per die)
    for pre, use in (("func f0() { 20000d2 }", "20000d2 + f0()"), ("&cv0 = 20000d2", "20000d2 + cv0"), ("func f0() { 20000d2 }", "x = 20000d2; f0() + x"),
                     ("func f1() { 9000d2 }; func f0() { f1() + 9000d2 }", "9000d2 + f0() + 9000d2"), ("&cv1 = 9000d2; &cv0 = cv1 + 9000d2", "9000d2 + cv0 + cv1 + 9000d2"),
                     ("func f0() { 20000d2 }", "[1,2,3].map(func(u){ 1 }); 20000d2 + f0()")):
        cases.append({"b64": base64.b64encode(use.encode()).decode(), "oplimit": 30000, "parselimit": 0, "mode": 0,
                      "lazypre": base64.b64encode(pre.encode()).decode()})
        meta.append((pre + "  ||restored, then||  " + use, "nested-work-lazy", "budget", 30000, 0, 0))
    # work done by a computed value of an OUTER scope that evaluates to null, read by bare name inside a function, repeated
    for cdef in ("&c0 = [5000d2, nosuchname][1]", "&c0 = [5000d2, null][1]", "&c0 = {'k': 5000d2}.nokey"):
        for use in ("func f0() { c0; 1 }; i = 0; while i < 20 { f0(); i = i + 1 }; 7", "func f0() { x = c0; 1 }; func f1() { f0() + f0() }; i = 0; while i < 10 { f1(); i = i + 1 }; 7",
                    "func f0() { `{c0}`; 1 }; i = 0; while i < 20 { f0(); i = i + 1 }; 7"):
            cases.append({"b64": base64.b64encode((cdef + "; " + use).encode()).decode(), "oplimit": 30000, "parselimit": 0, "mode": 0})
            meta.append((cdef + "; " + use, "nested-work-null-computed", "budget", 30000, 0, 0))
    rows, fatal = run_cases(cases, timeout=60 if tier == "quick" else 240)
    found = 0
    kinds = {}
    known = {k["key"]: k for k in common.known_for("C07")}
    for i, ((s, kind, exp, L, mode, pl), row) in enumerate(zip(meta, rows)):
        kinds[kind] = kinds.get(kind, 0) + 1
        res.count(f"{kind}:{len(s)}:{s[:40]}:{L}:{mode}:{pl}", nontrivial=True)
        short = s if len(s) < 200 else s[:90] + f"...({len(s)} bytes)..." + s[-60:]
        desc = {"source": short, "kind": kind, "OpCountLimit": L, "mode": mode, "ParseExprLimit": pl}
        if i in fatal:
            res.violation(dict(desc, what="does not return under a configured budget: " + fatal[i]))
            found += 1
            continue
        if row is None:
            continue
        if row.get("panic"):
            res.violation(dict(desc, what="Go panic", panic=row["panic"]))
            found += 1
            continue
        # budget accounting: a run that returns a value never has its counter above the limit
        if row.get("ok") and row["ops"] > L:
            res.violation(dict(desc, what=f"returned a value although NumOpCount={row['ops']} exceeds OpCountLimit={L}", value=row.get("str")))
            found += 1
        # every die rolled is charged: these programs only roll dice with power-of-two sides (one generator draw per die, no
        # rejection), the VM's generator is private, so the number of draws of the run can never exceed the counter
        if kind.startswith("nested-work") and row.get("draws", -1) >= 0 and row["draws"] > row["ops"]:
            res.violation(dict(desc, what=f"{row['draws']} dice were rolled but NumOpCount is only {row['ops']} "
                                          f"({'the run returned a value' if row.get('ok') else 'error: ' + str(row.get('err'))})"))
            found += 1
        # work proportional to the budget: wall clock as a backstop (a dispatch costs well under 1 microsecond.. 1 ms)
        # (execution time only: parsing a long source is bounded by the parse budget, not by OpCountLimit)
        exec_ms = row["ms"] - row.get("parse_ms", 0)
        if exec_ms > (3000 if L == 50 else 20000):
            res.violation(dict(desc, what=f"execution took {exec_ms} ms under OpCountLimit={L}", ops=row["ops"]))
            found += 1
        if isinstance(exp, tuple) and exp[0] == "lazy" and row.get("ok"):
            # the body sums exp[1] ones (+ the argument / g1): a value is fine only if it is that sum, i.e. the whole body was compiled and run
            ok_vals = {str(exp[1]), str(exp[1] + 1), str(exp[1] + 7), str(exp[1] + 14)}
            if row.get("str") not in ok_vals:
                res.violation(dict(desc, what=f"a lazily compiled body that exceeds the parse budget returned {row.get('str')!r} instead of an error "
                                              f"(its full evaluation gives one of {sorted(ok_vals)})"))
                found += 1
        if exp == "capacity" and row.get("ok"):
            res.violation(dict(desc, what="a container beyond the 512-element capacity was requested and the program returned a value instead of an error",
                               value=row.get("str")))
            found += 1
        if exp == "budget" and row.get("ok"):
            res.violation(dict(desc, what="an unbounded computation returned a value under a budget", value=row.get("str")))
            found += 1
        if isinstance(exp, tuple) and exp[0] == "value" and row.get("ok"):
            if row.get("str") != exp[1] or row.get("rest", 0) != 0:
                res.violation(dict(desc, what=f"value {row.get('str')!r} (rest {row.get('rest')}) computed from a truncated / partially parsed program; "
                                              f"the whole program evaluates to {exp[1]}", ncode=row.get("ncode")))
                found += 1
        if found >= 5:
            break
    res.cov["rule"] = ("adversarial families (long sums/sequences around the 8192-instruction cap, nested ifs / templates around 20, ranges and repeats around 512, "
                       "pushes and doublings, huge dice counts incl. MaxInt64, negative CoC counts, exploding WoD/DC pools incl. max mode, unbounded recursion "
                       "through functions and computed values, endless loops, deep parenthesis/array/index chains) x OpCountLimit in {50, 30000} x modes, plus "
                       "ParseExprLimit in {200, 5000, 1e7}; checks: returns (timeout, memory cap), no panic, a value never with NumOpCount > limit, "
                       "a value only if it is the value of the WHOLE program; distinct = distinct (program, budgets, mode); all non-trivial")
    res.cov["input_distribution"] = {"cases": len(cases), "by_kind": kinds, "budget_errors": sum(1 for r in rows if r and BUDGET_ERR in (r.get("err") or "")),
                                     "values": sum(1 for r in rows if r and r.get("ok")), "max_ms": max([r["ms"] for r in rows if r] or [0])}
    res.sample({"kind": meta[0][1], "len": len(meta[0][0]), "row": rows[0]})
    res.cov["trusted_base"] += [
        "translator tools/gen_limits.py (regexp location of constants and guard shapes in rollvm.go / parser.go / roll_func.go / types.go), regenerated every run",
        "Model/Limits.v: small models of the code buffer and the fixed block stacks, parametrised by the regenerated constants",
        "VM budget theorems over Model/VM.v (validated by K2 incl. exact NumOpCount) when Proofs/VMSafety.v is present",
        "wall-clock bound is only a backstop for 'returns'; proportionality itself is the model theorem + exact NumOpCount correspondence",
    ]
    if "unbounded-string-growth-under-budget" in known:
        res.cov["note_string_growth"] = "recorded finding (see C01): strings have no length cap; not replayed here"

    broken = None
    try:
        if lim["missing"]:
            raise Broken("translator: capacity constant / guard pattern no longer found", lim["missing"])
        info = common.check_property_file("C07")
        res.proof(info, "tools/gen_limits.py (regenerate Gen/Limits.v); cd coq && make && coqc -Q . DS Properties/C07.v")
    except Broken as b:
        broken = b
    if broken and not found:
        res.violation({"broken": broken.what, "detail": broken.detail}, no_input=True)


def replay(path):
    p = json.load(open(path))
    print(json.dumps(p, indent=1, ensure_ascii=False))
    return 0
