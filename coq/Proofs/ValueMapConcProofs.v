(* Linearizability of the interleaving model of valuemap.go (Model/ValueMapConc.v):
   every schedule of every finite set of threads produces a linearizable history. *)
From stdpp Require Import gmap.
From Coq Require Import NArith Lia.
From DS Require Import Model.ValueMap Model.ValueMapConc Proofs.ValueMapConcLin
  Proofs.ValueMapConcInv Proofs.ValueMapConcPrims.

Local Open Scope N_scope.

(* ---- the ghost state follows the annotations ------------------------------- *)
Definition key_of_pc (p : pc) : key :=
  match p with PStoreLocked k _ | PLosLocked k _ => k | _ => 0 end.

Definition gstep (c : conf) (t : nat) (g : ghost) : ghost :=
  let s := c_sh c in
  let s' := c_sh (cstep c t) in
  let p := match c_thr c !! t with Some ts => t_pc ts | None => PIdle end in
  {| g_l := lg_step (g_l g) t (snd (cstep_ann c t));
     g_ek := if N.eqb (s_nexte s') (s_nexte s) then g_ek g
             else fun x => if N.eqb x (s_nexte s) then key_of_pc p else g_ek g x;
     g_own := match p with
              | PDelLocked k =>
                match s_rd s !! k with
                | None => if s_am s then own_upd (g_own g) (dget s k) t else g_own g
                | Some _ => g_own g
                end
              | _ => g_own g
              end |}.

Definition g_init : ghost :=
  {| g_l := {| g_abs := ∅; g_th := ∅ |}; g_ek := fun _ => 0; g_own := fun _ => None |}.

(* packaging: from the pieces to the step statement *)
Definition step_ok (c : conf) (g : ghost) (t : nat) : Prop :=
  lg_ok (g_l g) t (snd (cstep_ann c t)) /\ Inv (cstep c t) (gstep c t g).

Lemma status_lin_self l t o seen :
  g_th l !! t = Some (GInv o seen) ->
  lg_step l t ALin =
  {| g_abs := fst (spec_step (g_abs l) (vop_of o));
     g_th := <[t := GLin (snd (spec_step (g_abs l) (vop_of o)))]>
               (tick (fst (spec_step (g_abs l) (vop_of o))) <$> g_th l) |}.
Proof. intros H. simpl. rewrite H. by destruct (spec_step (g_abs l) (vop_of o)). Qed.

Lemma status_linpast_self l t o seen r :
  g_th l !! t = Some (GInv o seen) ->
  lg_step l t (ALinPast r) = {| g_abs := g_abs l; g_th := <[t := GLin r]> (g_th l) |}.
Proof. intros H. simpl. by rewrite H. Qed.

(* the current abstract state answers a read of k with the content of the current entry *)
Lemma seen_now c g t o seen :
  Inv c g -> status g t = Some (GInv o seen) -> g_abs (g_l g) ∈ seen.
Proof. intros Hi. apply (i_cur _ _ Hi). Qed.

Lemma SN_read c g t o seen k e :
  Inv c g -> status g t = Some (GInv o seen) -> SN (c_sh c) seen k e ->
  seenk seen k (kload (s_cell (c_sh c) e)).
Proof.
  intros Hi Hs [Hc|[H1 _]]; [|done]. exists (g_abs (g_l g)). split; [by eapply seen_now|].
  rewrite (i_abs _ _ Hi). by eapply abs_lookup_current; [apply (i_wf _ _ Hi)|].
Qed.

Definition shared_pc (p : pc) : Prop :=
  match p with PIdle | PRet _ => False | _ => True end.

Lemma cstep_ann_shared c t ts :
  c_thr c !! t = Some ts -> shared_pc (t_pc ts) ->
  cstep_ann c t =
  (let '(s', p', a) := sstep t (c_sh c) (t_pc ts) in
   ({| c_sh := s'; c_thr := <[t := {| t_pc := p'; t_todo := t_todo ts |}]> (c_thr c);
       c_hist := c_hist c |}, a)).
Proof. intros Ht Hp. unfold cstep_ann. rewrite Ht. by destruct (t_pc ts). Qed.

(* generic packaging for a step of a shared pc *)
Lemma step_pack c g t ts s' p' a g' :
  Inv c g -> c_thr c !! t = Some ts -> shared_pc (t_pc ts) ->
  sstep t (c_sh c) (t_pc ts) = (s', p', a) ->
  lg_ok (g_l g) t a ->
  g_l g' = lg_step (g_l g) t a ->
  (g_ek g' = if N.eqb (s_nexte s') (s_nexte (c_sh c)) then g_ek g
             else fun x => if N.eqb x (s_nexte (c_sh c)) then key_of_pc (t_pc ts) else g_ek g x) ->
  (g_own g' = match t_pc ts with
              | PDelLocked k =>
                match s_rd (c_sh c) !! k with
                | None => if s_am (c_sh c) then own_upd (g_own g) (dget (c_sh c) k) t else g_own g
                | Some _ => g_own g
                end
              | _ => g_own g
              end) ->
  OInv t s' (c_thr c) g' -> TI s' g' t p' ->
  (holds_lock p' = true <-> s_lock s' = Some t) ->
  step_ok c g t.
Proof.
  intros Hi Ht Hp Hs Hok Hl Hek Hown Ho Hti Hlk. unfold step_ok, gstep, cstep.
  rewrite (cstep_ann_shared _ _ _ Ht Hp), Hs, Ht. simpl. split; [done|].
  assert (g' = {| g_l := lg_step (g_l g) t a;
      g_ek := if N.eqb (s_nexte s') (s_nexte (c_sh c)) then g_ek g
              else fun x => if N.eqb x (s_nexte (c_sh c)) then key_of_pc (t_pc ts) else g_ek g x;
      g_own := match t_pc ts with
              | PDelLocked k =>
                match s_rd (c_sh c) !! k with
                | None => if s_am (c_sh c) then own_upd (g_own g) (dget (c_sh c) k) t else g_own g
                | Some _ => g_own g
                end
              | _ => g_own g
              end |}) as <-.
  { destruct g'. simpl in *. by subst. }
  by eapply OInv_Inv.
Qed.

(* steps that leave the shared state untouched (except possibly the mutex) *)
Lemma step_local c g t ts s' p' a :
  Inv c g -> c_thr c !! t = Some ts -> shared_pc (t_pc ts) ->
  (forall k, t_pc ts <> PDelLocked k) ->
  sstep t (c_sh c) (t_pc ts) = (s', p', a) ->
  same_core (c_sh c) s' ->
  (forall t', t' <> t -> s_lock s' = Some t' <-> s_lock (c_sh c) = Some t') ->
  lg_ok (g_l g) t a ->
  g_abs (lg_step (g_l g) t a) = g_abs (g_l g) ->
  TI s' {| g_l := lg_step (g_l g) t a; g_ek := g_ek g; g_own := g_own g |} t p' ->
  (holds_lock p' = true <-> s_lock s' = Some t) ->
  step_ok c g t.
Proof.
  intros Hi Ht Hp Hnd Hs Hsc Hlk' Hok Habs Hti Hlk.
  pose proof Hsc as (_ & _ & _ & _ & Hne).
  eapply (step_pack c g t ts s' p' a
            {| g_l := lg_step (g_l g) t a; g_ek := g_ek g; g_own := g_own g |}); eauto.
  - simpl. by rewrite Hne, N.eqb_refl.
  - simpl. destruct (t_pc ts); try done. by destruct (Hnd k).
  - eapply (OInv_same_core t (c_sh c) (c_thr c) g s' _ a); eauto.
    by apply Inv_OInv.
Qed.

Lemma same_core_refl s : same_core s s.
Proof. by repeat split. Qed.

Lemma ghost_eta g : {| g_l := g_l g; g_ek := g_ek g; g_own := g_own g |} = g.
Proof. by destruct g. Qed.

Lemma case_stutter c g t :
  Inv c g -> cstep_ann c t = (c, ATau) ->
  (forall ts k, c_thr c !! t = Some ts -> t_pc ts <> PDelLocked k) ->
  step_ok c g t.
Proof.
  intros Hi Hs Hnd. unfold step_ok, gstep, cstep. rewrite Hs. simpl. split; [done|].
  rewrite N.eqb_refl.
  assert ((match match c_thr c !! t with Some ts => t_pc ts | None => PIdle end with
           | PDelLocked k => match s_rd (c_sh c) !! k with
                | None => if s_am (c_sh c) then own_upd (g_own g) (dget (c_sh c) k) t else g_own g
                | Some _ => g_own g end
           | _ => g_own g end) = g_own g) as ->.
  { destruct (c_thr c !! t) as [ts|] eqn:Ht; [|done].
    destruct (t_pc ts) eqn:Hp; try done. by destruct (Hnd ts k eq_refl). }
  by rewrite ghost_eta.
Qed.

Lemma case_idle c g t ts :
  Inv c g -> c_thr c !! t = Some ts -> t_pc ts = PIdle -> step_ok c g t.
Proof.
  intros Hi Ht Hp. destruct (t_todo ts) as [|o rest] eqn:Htodo.
  { apply case_stutter; [done| |].
    - unfold cstep_ann. by rewrite Ht, Hp, Htodo.
    - intros ts' k. rewrite Ht. intros [= <-]. by rewrite Hp. }
  pose proof (i_thr _ _ Hi _ _ Ht) as Hti. rewrite Hp in Hti. simpl in Hti.
  pose proof (i_lock _ _ Hi _ _ Ht) as Hlk. rewrite Hp in Hlk. simpl in Hlk.
  unfold step_ok, gstep, cstep, cstep_ann. rewrite Ht, Hp, Htodo. simpl.
  split; [done|]. rewrite N.eqb_refl.
  eapply OInv_Inv; [|exact Ht| |].
  - eapply (OInv_same_core t (c_sh c) (c_thr c) g (c_sh c) _ (AInv o)); eauto.
    + by apply Inv_OInv.
    + apply same_core_refl.
  - assert (status {| g_l := lg_step (g_l g) t (AInv o); g_ek := g_ek g; g_own := g_own g |} t
            = Some (GInv o [g_abs (g_l g)])) as Hst.
    { unfold status. simpl. by rewrite lookup_insert. }
    destruct o; simpl; eauto.
  - rewrite <-Hlk. by destruct o.
Qed.

Lemma case_ret c g t ts r :
  Inv c g -> c_thr c !! t = Some ts -> t_pc ts = PRet r -> step_ok c g t.
Proof.
  intros Hi Ht Hp.
  pose proof (i_thr _ _ Hi _ _ Ht) as Hti. rewrite Hp in Hti. simpl in Hti.
  pose proof (i_lock _ _ Hi _ _ Ht) as Hlk. rewrite Hp in Hlk. simpl in Hlk.
  unfold step_ok, gstep, cstep, cstep_ann. rewrite Ht, Hp. simpl.
  split; [done|]. rewrite N.eqb_refl.
  eapply OInv_Inv; [|exact Ht| |].
  - eapply (OInv_same_core t (c_sh c) (c_thr c) g (c_sh c) _ (ARet r)); eauto.
    + by apply Inv_OInv.
    + apply same_core_refl.
  - simpl. unfold status. simpl. by rewrite lookup_delete.
  - done.
Qed.

Lemma TI_set_lock s g t p l : TI (set_lock s l) g t p <-> TI s g t p.
Proof. destruct p; try reflexivity. destruct p; reflexivity. Qed.

Lemma TI_ghost_ext s g g' t p :
  status g' t = status g t -> g_ek g' = g_ek g -> g_own g' = g_own g ->
  TI s g t p -> TI s g' t p.
Proof.
  intros Hs Hek Hown.
  assert (forall p, (match p with PUnlock _ => False | _ => True end) ->
                    TI s g t p -> TI s g' t p) as Hb.
  { intros q Hq. destruct q; simpl; rewrite ?Hs, ?Hek, ?Hown; done. }
  destruct p; try (apply Hb; done). simpl. destruct p; try done; apply Hb; done.
Qed.

Lemma case_lock c g t ts next :
  Inv c g -> c_thr c !! t = Some ts -> shared_pc (t_pc ts) ->
  (forall k, t_pc ts <> PDelLocked k) ->
  sstep t (c_sh c) (t_pc ts) = try_lock t (c_sh c) (t_pc ts) next ->
  holds_lock (t_pc ts) = false -> holds_lock next = true ->
  (forall s1 g1, TI s1 g1 t (t_pc ts) -> TI s1 g1 t next) ->
  step_ok c g t.
Proof.
  intros Hi Ht Hp Hnd Hs Hh Hh' Hti.
  pose proof (i_thr _ _ Hi _ _ Ht) as Hti0.
  pose proof (i_lock _ _ Hi _ _ Ht) as Hlk.
  unfold try_lock in Hs. destruct (s_lock (c_sh c)) as [t0|] eqn:Hl.
  - apply (step_local c g t ts (c_sh c) (t_pc ts) ATau Hi Ht Hp Hnd Hs (same_core_refl _)).
    + done.
    + done.
    + done.
    + eapply TI_ghost_ext; [| | |exact Hti0]; done.
    + by rewrite Hl.
  - apply (step_local c g t ts (set_lock (c_sh c) (Some t)) next ATau Hi Ht Hp Hnd Hs).
    + by repeat split.
    + intros t' Hne. simpl. rewrite Hl. split; congruence.
    + done.
    + done.
    + apply TI_set_lock. apply Hti. eapply TI_ghost_ext; [| | |exact Hti0]; done.
    + simpl. by rewrite Hh'.
Qed.

Lemma case_unlock c g t ts next :
  Inv c g -> c_thr c !! t = Some ts -> t_pc ts = PUnlock next -> step_ok c g t.
Proof.
  intros Hi Ht Hp.
  pose proof (i_thr _ _ Hi _ _ Ht) as Hti0. pose proof (i_lock _ _ Hi _ _ Ht) as Hlk.
  rewrite Hp in Hti0, Hlk. simpl in Hlk. destruct Hlk as [Hlk _]. specialize (Hlk eq_refl).
  assert (sstep t (c_sh c) (t_pc ts) = (set_lock (c_sh c) None, next, ATau)) as Hs by (by rewrite Hp).
  assert (shared_pc (t_pc ts)) as Hsp by (by rewrite Hp).
  assert (forall k, t_pc ts <> PDelLocked k) as Hnd by (intros k; by rewrite Hp).
  apply (step_local c g t ts (set_lock (c_sh c) None) next ATau Hi Ht Hsp Hnd Hs).
  - by repeat split.
  - intros t' Hne. simpl. rewrite Hlk. split; congruence.
  - done.
  - done.
  - apply TI_set_lock. eapply (TI_ghost_ext _ g); try done.
    simpl in Hti0. destruct next; done.
  - simpl. simpl in Hti0. destruct next; try done.
Qed.

(* no change of the shared state at all *)
Lemma step_same c g t ts p' a :
  Inv c g -> c_thr c !! t = Some ts -> shared_pc (t_pc ts) ->
  (forall k, t_pc ts <> PDelLocked k) ->
  sstep t (c_sh c) (t_pc ts) = (c_sh c, p', a) ->
  lg_ok (g_l g) t a ->
  g_abs (lg_step (g_l g) t a) = g_abs (g_l g) ->
  TI (c_sh c) {| g_l := lg_step (g_l g) t a; g_ek := g_ek g; g_own := g_own g |} t p' ->
  holds_lock p' = holds_lock (t_pc ts) ->
  step_ok c g t.
Proof.
  intros Hi Ht Hp Hnd Hs Hok Habs Hti Hh.
  apply (step_local c g t ts (c_sh c) p' a Hi Ht Hp Hnd Hs (same_core_refl _)); try done.
  rewrite Hh. apply (i_lock _ _ Hi _ _ Ht).
Qed.

Lemma TI_tau s g t p :
  TI s g t p -> TI s {| g_l := lg_step (g_l g) t ATau; g_ek := g_ek g; g_own := g_own g |} t p.
Proof. apply TI_ghost_ext; done. Qed.

(* an effect-free operation returns r, justified by a state it has seen *)
Lemma linpast_facts g t o seen r :
  status g t = Some (GInv o seen) ->
  (exists σ, σ ∈ seen /\ spec_step σ (vop_of o) = (σ, r)) ->
  lg_ok (g_l g) t (ALinPast r) /\
  g_abs (lg_step (g_l g) t (ALinPast r)) = g_abs (g_l g) /\
  forall ek own, status {| g_l := lg_step (g_l g) t (ALinPast r); g_ek := ek; g_own := own |} t
                 = Some (GLin r).
Proof.
  intros Hs Hex. unfold status in Hs. split; [|split].
  - simpl. intros o' seen' Hs'. rewrite Hs in Hs'. inversion Hs'; subst. done.
  - by rewrite (status_linpast_self _ _ _ _ _ Hs).
  - intros. unfold status. rewrite (status_linpast_self _ _ _ _ _ Hs). simpl.
    by rewrite lookup_insert.
Qed.

Lemma case_load0 c g t ts k :
  Inv c g -> c_thr c !! t = Some ts -> t_pc ts = PLoad0 k -> step_ok c g t.
Proof.
  intros Hi Ht Hp.
  pose proof (i_thr _ _ Hi _ _ Ht) as Hti. rewrite Hp in Hti. destruct Hti as (seen & Hst).
  assert (shared_pc (t_pc ts)) as Hsp by (by rewrite Hp).
  assert (forall k, t_pc ts <> PDelLocked k) as Hnd by (intros k'; by rewrite Hp).
  pose proof (i_wf _ _ Hi) as Hwf.
  destruct (s_rd (c_sh c) !! k) as [e|] eqn:Hr; [|destruct (s_am (c_sh c)) eqn:Ham].
  - apply (step_same c g t ts (PLoadE k e) ATau); try done.
    + rewrite Hp. simpl. by rewrite Hr.
    + apply TI_tau. simpl. exists seen. split; [done|]. split; [by eapply w_rd|]. left. by left.
    + by rewrite Hp.
  - apply (step_same c g t ts (PLoadLock k) ATau); try done.
    + rewrite Hp. simpl. by rewrite Hr, Ham.
    + apply TI_tau. simpl. eauto.
    + by rewrite Hp.
  - destruct (linpast_facts g t (CLoad k) seen (ROpt None) Hst) as (H1 & H2 & H3).
    { exists (g_abs (g_l g)). split; [by eapply seen_now|]. simpl.
      rewrite (i_abs _ _ Hi). unfold abs_lookup. by rewrite Hr, Ham. }
    apply (step_same c g t ts (PRet (ROpt None)) (ALinPast (ROpt None))); try done.
    + rewrite Hp. simpl. by rewrite Hr, Ham.
    + apply H3.
    + by rewrite Hp.
Qed.

Lemma case_loadE c g t ts k e :
  Inv c g -> c_thr c !! t = Some ts -> t_pc ts = PLoadE k e -> step_ok c g t.
Proof.
  intros Hi Ht Hp.
  pose proof (i_thr _ _ Hi _ _ Ht) as Hti. rewrite Hp in Hti.
  destruct Hti as (seen & Hst & Hh & Hsn).
  assert (shared_pc (t_pc ts)) as Hsp by (by rewrite Hp).
  assert (forall k, t_pc ts <> PDelLocked k) as Hnd by (intros k'; by rewrite Hp).
  set (r := ROpt (kload (s_cell (c_sh c) e))).
  destruct (linpast_facts g t (CLoad k) seen r Hst) as (H1 & H2 & H3).
  { destruct (SN_read _ _ _ _ _ _ _ Hi Hst Hsn) as (σ & Hin & Hl). exists σ. split; [done|].
    simpl. unfold r. by rewrite Hl. }
  apply (step_same c g t ts (PRet r) (ALinPast r)); try done.
  - by rewrite Hp.
  - apply H3.
  - by rewrite Hp.
Qed.

Lemma miss_locked_nexte s : s_nexte (miss_locked s) = s_nexte s.
Proof. unfold miss_locked. by destruct (Nat.ltb _ _). Qed.
Lemma miss_locked_lock s : s_lock (miss_locked s) = s_lock s.
Proof. unfold miss_locked. by destruct (Nat.ltb _ _). Qed.
Lemma miss_locked_cell s : s_cell (miss_locked s) = s_cell s.
Proof. unfold miss_locked. by destruct (Nat.ltb _ _). Qed.

Lemma miss_locked_current s ek own k e :
  WF s ek own -> s_am s = true -> current s k e -> s_cell s e <> KExp ->
  current (miss_locked s) k e.
Proof.
  intros Hwf Ham Hc Hne. unfold miss_locked. destruct (Nat.ltb _ _); [done|].
  destruct (w_am _ _ _ Hwf Ham) as [d Hd]. left. simpl. rewrite Hd. simpl.
  destruct Hc as [Hr|(Hr & _ & Hdk)].
  - by eapply w_rd_d.
  - unfold dget in Hdk. by rewrite Hd in Hdk.
Qed.

Lemma case_loadLocked c g t ts k :
  Inv c g -> c_thr c !! t = Some ts -> t_pc ts = PLoadLocked k -> step_ok c g t.
Proof.
  intros Hi Ht Hp.
  pose proof (i_thr _ _ Hi _ _ Ht) as Hti. rewrite Hp in Hti. destruct Hti as (seen & Hst).
  pose proof (i_lock _ _ Hi _ _ Ht) as Hlk. rewrite Hp in Hlk. simpl in Hlk.
  assert (shared_pc (t_pc ts)) as Hsp by (by rewrite Hp).
  assert (forall k, t_pc ts <> PDelLocked k) as Hnd by (intros k'; by rewrite Hp).
  pose proof (i_wf _ _ Hi) as Hwf. pose proof (Inv_OInv c g t Hi) as Ho.
  assert (is_Some (c_thr c !! t)) as Hts by eauto.
  destruct (s_rd (c_sh c) !! k) as [e|] eqn:Hr; [|destruct (s_am (c_sh c)) eqn:Ham].
  - apply (step_same c g t ts (PUnlock (PLoadE k e)) ATau); try done.
    + rewrite Hp. simpl. by rewrite Hr.
    + apply TI_tau. simpl. exists seen. split; [done|]. split; [by eapply w_rd|]. left. by left.
    + by rewrite Hp.
  - destruct (dget (c_sh c) k) as [e|] eqn:Hd.
    + apply (step_pack c g t ts (miss_locked (c_sh c)) (PUnlock (PLoadE k e)) ATau g Hi Ht Hsp).
      * rewrite Hp. simpl. by rewrite Hr, Ham, Hd.
      * done.
      * done.
      * by rewrite miss_locked_nexte, N.eqb_refl.
      * by rewrite Hp.
      * by apply OInv_miss_locked.
      * simpl. exists seen. split; [done|].
        assert (current (c_sh c) k e) as Hc by (right; done).
        pose proof (current_held _ _ _ _ _ Hwf Hc) as [Hk Hlt].
        assert (s_cell (c_sh c) e <> KExp) as Hne.
        { unfold dget in Hd. destruct (s_dirty (c_sh c)) as [d|] eqn:Hdd; [|done].
          by destruct (w_d _ _ _ Hwf d k e Hdd Hd). }
        split; [split; [done|by rewrite miss_locked_nexte]|]. left.
        by eapply miss_locked_current.
      * by rewrite miss_locked_lock.
    + set (r := ROpt None).
      destruct (linpast_facts g t (CLoad k) seen r Hst) as (H1 & H2 & H3).
      { exists (g_abs (g_l g)). split; [by eapply seen_now|]. simpl.
        rewrite (i_abs _ _ Hi). unfold abs_lookup. by rewrite Hr, Ham, Hd. }
      set (g' := {| g_l := lg_step (g_l g) t (ALinPast r); g_ek := g_ek g; g_own := g_own g |}).
      apply (step_pack c g t ts (miss_locked (c_sh c)) (PUnlock (PRet r)) (ALinPast r) g' Hi Ht Hsp).
      * rewrite Hp. simpl. by rewrite Hr, Ham, Hd.
      * done.
      * done.
      * simpl. by rewrite miss_locked_nexte, N.eqb_refl.
      * by rewrite Hp.
      * apply OInv_miss_locked; try done.
        eapply (OInv_same_core t (c_sh c) (c_thr c) g (c_sh c) g' (ALinPast r)); try done.
      * simpl. apply H3.
      * by rewrite miss_locked_lock.
  - set (r := ROpt None).
    destruct (linpast_facts g t (CLoad k) seen r Hst) as (H1 & H2 & H3).
    { exists (g_abs (g_l g)). split; [by eapply seen_now|]. simpl.
      rewrite (i_abs _ _ Hi). unfold abs_lookup. by rewrite Hr, Ham. }
    apply (step_same c g t ts (PUnlock (PRet r)) (ALinPast r)); try done.
    + rewrite Hp. simpl. by rewrite Hr, Ham.
    + simpl. apply H3.
    + by rewrite Hp.
Qed.

Lemma lin_facts g t o seen :
  status g t = Some (GInv o seen) ->
  g_abs (lg_step (g_l g) t ALin) = fst (spec_step (g_abs (g_l g)) (vop_of o)) /\
  forall ek own, status {| g_l := lg_step (g_l g) t ALin; g_ek := ek; g_own := own |} t
                 = Some (GLin (snd (spec_step (g_abs (g_l g)) (vop_of o)))).
Proof.
  intros Hs. unfold status in *. rewrite (status_lin_self _ _ _ _ Hs). split; [done|].
  intros. simpl. by rewrite lookup_insert.
Qed.

Lemma ever_rd s ek own k e :
  WF s ek own -> held s ek k e -> ever s e -> s_cell s e <> KExp -> s_rd s !! k = Some e.
Proof.
  intros Hwf [Hk _] [(k' & Hr)|Hc] Hne; [|done].
  destruct (w_rd _ _ _ Hwf _ _ Hr) as [Hk' _]. congruence.
Qed.

Lemma case_store0 c g t ts k v :
  Inv c g -> c_thr c !! t = Some ts -> t_pc ts = PStore0 k v -> step_ok c g t.
Proof.
  intros Hi Ht Hp.
  pose proof (i_thr _ _ Hi _ _ Ht) as Hti. rewrite Hp in Hti. destruct Hti as (seen & Hst).
  assert (shared_pc (t_pc ts)) as Hsp by (by rewrite Hp).
  assert (forall k, t_pc ts <> PDelLocked k) as Hnd by (intros k'; by rewrite Hp).
  pose proof (i_wf _ _ Hi) as Hwf.
  destruct (s_rd (c_sh c) !! k) as [e|] eqn:Hr.
  - apply (step_same c g t ts (PStoreTry k v e) ATau); try done.
    + rewrite Hp. simpl. by rewrite Hr.
    + apply TI_tau. simpl. exists seen. split; [done|]. split; [by eapply w_rd|]. left. by exists k.
    + by rewrite Hp.
  - apply (step_same c g t ts (PStoreLock k v) ATau); try done.
    + rewrite Hp. simpl. by rewrite Hr.
    + apply TI_tau. simpl. eauto.
    + by rewrite Hp.
Qed.

Lemma case_storeTry c g t ts k v e :
  Inv c g -> c_thr c !! t = Some ts -> t_pc ts = PStoreTry k v e -> step_ok c g t.
Proof.
  intros Hi Ht Hp.
  pose proof (i_thr _ _ Hi _ _ Ht) as Hti. rewrite Hp in Hti.
  destruct Hti as (seen & Hst & Hh & Hev).
  assert (shared_pc (t_pc ts)) as Hsp by (by rewrite Hp).
  assert (forall k, t_pc ts <> PDelLocked k) as Hnd by (intros k'; by rewrite Hp).
  destruct (s_cell (c_sh c) e) as [| |p x] eqn:Hc.
  - apply (step_same c g t ts (PStoreCas k v e KNil) ATau); try done.
    + rewrite Hp. simpl. by rewrite Hc.
    + apply TI_tau. simpl. exists seen. done.
    + by rewrite Hp.
  - apply (step_same c g t ts (PStoreLock k v) ATau); try done.
    + rewrite Hp. simpl. by rewrite Hc.
    + apply TI_tau. simpl. eauto.
    + by rewrite Hp.
  - apply (step_same c g t ts (PStoreCas k v e (KVal p x)) ATau); try done.
    + rewrite Hp. simpl. by rewrite Hc.
    + apply TI_tau. simpl. exists seen. done.
    + by rewrite Hp.
Qed.

Lemma case_storeCas c g t ts k v e c0 :
  Inv c g -> c_thr c !! t = Some ts -> t_pc ts = PStoreCas k v e c0 -> step_ok c g t.
Proof.
  intros Hi Ht Hp.
  pose proof (i_thr _ _ Hi _ _ Ht) as Hti. rewrite Hp in Hti.
  destruct Hti as (seen & Hst & Hh & Hev & Hc0).
  pose proof (i_lock _ _ Hi _ _ Ht) as Hlk. rewrite Hp in Hlk. simpl in Hlk.
  assert (shared_pc (t_pc ts)) as Hsp by (by rewrite Hp).
  assert (forall k, t_pc ts <> PDelLocked k) as Hnd by (intros k'; by rewrite Hp).
  pose proof (i_wf _ _ Hi) as Hwf. pose proof (Inv_OInv c g t Hi) as Ho.
  assert (is_Some (c_thr c !! t)) as Hts by eauto.
  destruct (decide (s_cell (c_sh c) e = c0)) as [Hc|Hc].
  - destruct (lin_facts g t (CStore k v) seen Hst) as (H1 & H2).
    set (g' := {| g_l := lg_step (g_l g) t ALin; g_ek := g_ek g; g_own := g_own g |}).
    apply (step_pack c g t ts (put_val (c_sh c) e v) (PRet RNone) ALin g' Hi Ht Hsp).
    + rewrite Hp. simpl. by rewrite bool_decide_true.
    + done.
    + done.
    + simpl. by rewrite N.eqb_refl.
    + by rewrite Hp.
    + eapply (OInv_write t (c_sh c) _ (c_thr c) g g' ALin k e (KVal (s_nextp (c_sh c)) v));
        try done.
      * left. eapply ever_rd; eauto. congruence.
      * congruence.
      * intros k'. change (g_l g') with (lg_step (g_l g) t ALin). rewrite H1.
        change (fst (spec_step (g_abs (g_l g)) (vop_of (CStore k v)))) with (<[k:=v]> (g_abs (g_l g))).
        change (kload (KVal (s_nextp (c_sh c)) v)) with (Some v).
        destruct (decide (k' = k)) as [->|Hk]; [apply lookup_insert|by apply lookup_insert_ne].
    + simpl. apply H2.
    + done.
  - apply (step_same c g t ts (PStoreTry k v e) ATau); try done.
    + rewrite Hp. simpl. by rewrite bool_decide_false.
    + apply TI_tau. simpl. exists seen. done.
    + by rewrite Hp.
Qed.

Lemma unexpunge_fields s k e :
  s_rd (unexpunge s k e) = s_rd s /\ s_am (unexpunge s k e) = s_am s /\
  s_nexte (unexpunge s k e) = s_nexte s /\ s_lock (unexpunge s k e) = s_lock s /\
  s_cell (unexpunge s k e) e <> KExp.
Proof.
  unfold unexpunge. destruct (s_cell s e) eqn:Hc; try (by rewrite Hc).
  unfold dput. simpl. destruct (s_dirty s); simpl; by rewrite N.eqb_refl.
Qed.

Lemma dirty_locked_fields s :
  s_rd (dirty_locked s) = s_rd s /\ s_am (dirty_locked s) = s_am s /\
  s_nexte (dirty_locked s) = s_nexte s /\ s_lock (dirty_locked s) = s_lock s /\
  is_Some (s_dirty (dirty_locked s)) /\
  (forall k, s_rd s !! k = None -> dget s k = None -> dget (dirty_locked s) k = None).
Proof.
  unfold dirty_locked. destruct (s_dirty s) eqn:Hd; simpl.
  - rewrite Hd. repeat split; eauto.
  - repeat split; eauto. intros k Hr _. unfold dget. simpl.
    apply map_filter_lookup_None. by left.
Qed.

Lemma OInv_mk_dirty t s thr g k :
  OInv t s thr g -> is_Some (thr !! t) -> s_rd s !! k = None -> dget s k = None ->
  let s0 := if s_am s then s else set_am (dirty_locked s) true in
  OInv t s0 thr g /\ s_am s0 = true /\ s_rd s0 !! k = None /\ dget s0 k = None /\
  s_nexte s0 = s_nexte s /\ s_lock s0 = s_lock s.
Proof.
  intros Ho Ht Hr Hd. destruct (s_am s) eqn:Ham; simpl; [done|].
  destruct (dirty_locked_fields s) as (H1 & H2 & H3 & H4 & H5 & H6).
  split; [|unfold dget in *; simpl; rewrite H1, H3, H4; repeat split; try done; by apply H6].
  apply OInv_set_am; try done; [|congruence]. by apply OInv_dirty_locked.
Qed.

Lemma alloc_fields s k v :
  s_lock (alloc s k v) = s_lock s /\ s_nexte (alloc s k v) = (s_nexte s + 1)%N.
Proof. unfold alloc, dput. simpl. by destruct (s_dirty s). Qed.

Lemma dget_current s ek own k e :
  WF s ek own -> s_rd s !! k = None -> dget s k = Some e ->
  current s k e /\ s_cell s e <> KExp.
Proof.
  intros Hwf Hr Hd. unfold dget in Hd. destruct (s_dirty s) as [d|] eqn:Hdd; [|done].
  destruct (w_d _ _ _ Hwf d k e Hdd Hd) as [_ Hne]. split; [|done]. right.
  split; [done|]. split; [|unfold dget; by rewrite Hdd].
  destruct (s_am s) eqn:Ham; [done|].
  rewrite (w_clean _ _ _ Hwf d k e Ham Hdd Hd) in Hr. done.
Qed.

Lemma case_storeLocked c g t ts k v :
  Inv c g -> c_thr c !! t = Some ts -> t_pc ts = PStoreLocked k v -> step_ok c g t.
Proof.
  intros Hi Ht Hp.
  pose proof (i_thr _ _ Hi _ _ Ht) as Hti. rewrite Hp in Hti. destruct Hti as (seen & Hst).
  pose proof (i_lock _ _ Hi _ _ Ht) as Hlk. rewrite Hp in Hlk. simpl in Hlk.
  destruct Hlk as [Hlk _]. specialize (Hlk eq_refl).
  assert (shared_pc (t_pc ts)) as Hsp by (by rewrite Hp).
  pose proof (i_wf _ _ Hi) as Hwf. pose proof (Inv_OInv c g t Hi) as Ho.
  assert (is_Some (c_thr c !! t)) as Hts by eauto.
  destruct (lin_facts g t (CStore k v) seen Hst) as (H1 & H2).
  assert (forall k', fst (spec_step (g_abs (g_l g)) (vop_of (CStore k v))) !! k' =
            if decide (k' = k) then Some v else g_abs (g_l g) !! k') as Habs.
  { intros k'. change (fst (spec_step (g_abs (g_l g)) (vop_of (CStore k v))))
      with (<[k:=v]> (g_abs (g_l g))).
    destruct (decide (k' = k)) as [->|Hk]; [apply lookup_insert|by apply lookup_insert_ne]. }
  set (s := c_sh c) in *.
  destruct (s_rd s !! k) as [e|] eqn:Hr; [|destruct (dget s k) as [e|] eqn:Hd].
  - destruct (unexpunge_fields s k e) as (U1 & U2 & U3 & U4 & U5).
    set (g' := {| g_l := lg_step (g_l g) t ALin; g_ek := g_ek g; g_own := g_own g |}).
    apply (step_pack c g t ts (put_val (unexpunge s k e) e v) (PUnlock (PRet RNone)) ALin g'
             Hi Ht Hsp).
    + rewrite Hp. simpl. fold s. by rewrite Hr.
    + done.
    + done.
    + simpl. fold s. by rewrite U3, N.eqb_refl.
    + by rewrite Hp.
    + eapply (OInv_write t (unexpunge s k e) _ (c_thr c) g g' ALin k e
                (KVal (s_nextp (unexpunge s k e)) v)); try done.
      * by apply OInv_unexpunge.
      * left. by rewrite U1.
      * intros k'. change (g_l g') with (lg_step (g_l g) t ALin). rewrite H1. apply Habs.
    + simpl. apply H2.
    + simpl. by rewrite U4.
  - destruct (dget_current _ _ _ _ _ Hwf Hr Hd) as [Hcur Hne].
    set (g' := {| g_l := lg_step (g_l g) t ALin; g_ek := g_ek g; g_own := g_own g |}).
    apply (step_pack c g t ts (put_val s e v) (PUnlock (PRet RNone)) ALin g' Hi Ht Hsp).
    + rewrite Hp. simpl. fold s. by rewrite Hr, Hd.
    + done.
    + done.
    + simpl. by rewrite N.eqb_refl.
    + by rewrite Hp.
    + eapply (OInv_write t s _ (c_thr c) g g' ALin k e (KVal (s_nextp s) v)); try done.
      intros k'. change (g_l g') with (lg_step (g_l g) t ALin). rewrite H1. apply Habs.
    + simpl. apply H2.
    + done.
  - destruct (OInv_mk_dirty t s (c_thr c) g k Ho Hts Hr Hd) as (Ho0 & A1 & A2 & A3 & A4 & A5).
    set (s0 := if s_am s then s else set_am (dirty_locked s) true) in *.
    destruct (alloc_fields s0 k v) as [B1 B2].
    set (g' := {| g_l := lg_step (g_l g) t ALin;
                  g_ek := fun x => if N.eqb x (s_nexte s) then k else g_ek g x;
                  g_own := g_own g |}).
    apply (step_pack c g t ts (alloc s0 k v) (PUnlock (PRet RNone)) ALin g' Hi Ht Hsp).
    + rewrite Hp. simpl. fold s. by rewrite Hr, Hd.
    + done.
    + done.
    + simpl. fold s. rewrite B2, A4. destruct (N.eqb_spec (s_nexte s + 1) (s_nexte s)); [lia|].
      by rewrite Hp.
    + by rewrite Hp.
    + eapply (OInv_alloc t s0 (c_thr c) g g' ALin k v); try done.
      * simpl. by rewrite A4.
      * intros k'. change (g_l g') with (lg_step (g_l g) t ALin). rewrite H1. apply Habs.
    + simpl. apply H2.
    + simpl. by rewrite B1, A5.
Qed.

Lemma lad_none (σ : spec) k : σ !! k = None -> spec_step σ (OLoadAndDelete k) = (σ, ROpt None).
Proof. intros H. unfold spec_step. rewrite H. f_equal. by apply delete_notin. Qed.

Lemma case_del0 c g t ts k :
  Inv c g -> c_thr c !! t = Some ts -> t_pc ts = PDel0 k -> step_ok c g t.
Proof.
  intros Hi Ht Hp.
  pose proof (i_thr _ _ Hi _ _ Ht) as Hti. rewrite Hp in Hti. destruct Hti as (seen & Hst).
  assert (shared_pc (t_pc ts)) as Hsp by (by rewrite Hp).
  assert (forall k, t_pc ts <> PDelLocked k) as Hnd by (intros k'; by rewrite Hp).
  pose proof (i_wf _ _ Hi) as Hwf.
  destruct (s_rd (c_sh c) !! k) as [e|] eqn:Hr; [|destruct (s_am (c_sh c)) eqn:Ham].
  - apply (step_same c g t ts (PDelE k e) ATau); try done.
    + rewrite Hp. simpl. by rewrite Hr.
    + apply TI_tau. simpl. split; [by eapply w_rd|]. left. exists seen.
      split; [done|]. split; [left; by exists k|]. left. by left.
    + by rewrite Hp.
  - apply (step_same c g t ts (PDelLock k) ATau); try done.
    + rewrite Hp. simpl. by rewrite Hr, Ham.
    + apply TI_tau. simpl. eauto.
    + by rewrite Hp.
  - destruct (linpast_facts g t (CLoadAndDelete k) seen (ROpt None) Hst) as (H1 & H2 & H3).
    { exists (g_abs (g_l g)). split; [by eapply seen_now|]. apply lad_none.
      rewrite (i_abs _ _ Hi). unfold abs_lookup. by rewrite Hr, Ham. }
    apply (step_same c g t ts (PRet (ROpt None)) (ALinPast (ROpt None))); try done.
    + rewrite Hp. simpl. by rewrite Hr, Ham.
    + apply H3.
    + by rewrite Hp.
Qed.

Lemma linpast_skip g t r r' :
  status g t = Some (GLin r') ->
  lg_ok (g_l g) t (ALinPast r) /\ lg_step (g_l g) t (ALinPast r) = g_l g.
Proof.
  intros Hs. unfold status in Hs. split; simpl; rewrite Hs; [|done].
  intros o seen H. done.
Qed.

Lemma case_delE c g t ts k e :
  Inv c g -> c_thr c !! t = Some ts -> t_pc ts = PDelE k e -> step_ok c g t.
Proof.
  intros Hi Ht Hp.
  pose proof (i_thr _ _ Hi _ _ Ht) as Hti. rewrite Hp in Hti. destruct Hti as (Hh & Hcase).
  assert (shared_pc (t_pc ts)) as Hsp by (by rewrite Hp).
  assert (forall k, t_pc ts <> PDelLocked k) as Hnd by (intros k'; by rewrite Hp).
  destruct (is_val (s_cell (c_sh c) e)) eqn:Hv.
  - apply (step_same c g t ts (PDelCas k e (s_cell (c_sh c) e)) ATau); try done.
    + rewrite Hp. simpl. by destruct (s_cell (c_sh c) e).
    + apply TI_tau. simpl. split; [done|]. split; [done|].
      destruct Hcase as [?|[? ?]]; [by left|by right].
    + by rewrite Hp.
  - assert (kload (s_cell (c_sh c) e) = None) as Hkl by (by destruct (s_cell (c_sh c) e)).
    assert (sstep t (c_sh c) (t_pc ts) = (c_sh c, PRet (ROpt None), ALinPast (ROpt None))) as Hs.
    { rewrite Hp. simpl. by destruct (s_cell (c_sh c) e). }
    destruct Hcase as [(seen & Hst & Hev & Hsn)|[Hst Hown]].
    + destruct (linpast_facts g t (CLoadAndDelete k) seen (ROpt None) Hst) as (H1 & H2 & H3).
      { destruct (SN_read _ _ _ _ _ _ _ Hi Hst Hsn) as (σ & Hin & Hl). exists σ. split; [done|].
        apply lad_none. by rewrite Hl. }
      apply (step_same c g t ts (PRet (ROpt None)) (ALinPast (ROpt None))); try done.
      * apply H3.
      * by rewrite Hp.
    + destruct (linpast_skip g t (ROpt None) _ Hst) as [H1 H2].
      apply (step_same c g t ts (PRet (ROpt None)) (ALinPast (ROpt None))); try done.
      * by rewrite H2.
      * simpl. unfold status. change (g_th (lg_step (g_l g) t (ALinPast (ROpt None))) !! t =
          Some (GLin (ROpt None))). rewrite H2. by rewrite <-Hkl.
      * by rewrite Hp.
Qed.

Lemma lin_skip g t r' :
  status g t = Some (GLin r') -> lg_step (g_l g) t ALin = g_l g.
Proof. intros Hs. unfold status in Hs. simpl. by rewrite Hs. Qed.

Lemma case_delCas c g t ts k e c0 :
  Inv c g -> c_thr c !! t = Some ts -> t_pc ts = PDelCas k e c0 -> step_ok c g t.
Proof.
  intros Hi Ht Hp.
  pose proof (i_thr _ _ Hi _ _ Ht) as Hti. rewrite Hp in Hti.
  destruct Hti as (Hh & Hv & Hcase).
  pose proof (i_lock _ _ Hi _ _ Ht) as Hlk. rewrite Hp in Hlk. simpl in Hlk.
  assert (shared_pc (t_pc ts)) as Hsp by (by rewrite Hp).
  assert (forall k, t_pc ts <> PDelLocked k) as Hnd by (intros k'; by rewrite Hp).
  pose proof (i_wf _ _ Hi) as Hwf. pose proof (Inv_OInv c g t Hi) as Ho.
  assert (is_Some (c_thr c !! t)) as Hts by eauto.
  set (s := c_sh c) in *.
  destruct (decide (s_cell s e = c0)) as [Hc|Hc].
  - assert (sstep t s (t_pc ts) = (set_cell s e KNil, PRet (ROpt (kload c0)), ALin)) as Hs.
    { rewrite Hp. simpl. by rewrite bool_decide_true. }
    assert (s_cell s e <> KExp) as Hne by (rewrite Hc; by destruct c0).
    destruct Hcase as [(seen & Hst & Hev & Hsn)|(Hst & Hown & _)].
    + destruct (lin_facts g t (CLoadAndDelete k) seen Hst) as (H1 & H2).
      assert (s_rd s !! k = Some e) as Hr by (eapply ever_rd; eauto).
      set (g' := {| g_l := lg_step (g_l g) t ALin; g_ek := g_ek g; g_own := g_own g |}).
      apply (step_pack c g t ts (set_cell s e KNil) (PRet (ROpt (kload c0))) ALin g' Hi Ht Hsp);
        try done.
      * simpl. by rewrite N.eqb_refl.
      * by rewrite Hp.
      * eapply (OInv_write t s _ (c_thr c) g g' ALin k e KNil); try done.
        -- by left.
        -- intros k'. change (g_l g') with (lg_step (g_l g) t ALin). rewrite H1.
           change (fst (spec_step (g_abs (g_l g)) (vop_of (CLoadAndDelete k))))
             with (delete k (g_abs (g_l g))).
           destruct (decide (k' = k)) as [->|Hk]; [apply lookup_delete|by apply lookup_delete_ne].
      * change (status g' t = Some (GLin (ROpt (kload c0)))). unfold g'. rewrite H2.
        change (snd (spec_step (g_abs (g_l g)) (vop_of (CLoadAndDelete k))))
          with (ROpt (g_abs (g_l g) !! k)).
        rewrite (i_abs _ _ Hi). fold s. unfold abs_lookup. by rewrite Hr, Hc.
    + pose proof (lin_skip g t _ Hst) as Hskip.
      set (g' := {| g_l := lg_step (g_l g) t ALin; g_ek := g_ek g; g_own := g_own g |}).
      apply (step_pack c g t ts (set_cell s e KNil) (PRet (ROpt (kload c0))) ALin g' Hi Ht Hsp);
        try done.
      * simpl. by rewrite N.eqb_refl.
      * by rewrite Hp.
      * eapply (OInv_write_owned t s (c_thr c) g g' ALin e); try done.
        change (g_l g') with (lg_step (g_l g) t ALin). by rewrite Hskip.
      * change (g_th (lg_step (g_l g) t ALin) !! t = Some (GLin (ROpt (kload c0)))).
        rewrite Hskip. by rewrite <-Hc.
  - assert (sstep t s (t_pc ts) = (s, PDelE k e, ATau)) as Hs.
    { rewrite Hp. simpl. by rewrite bool_decide_false. }
    apply (step_same c g t ts (PDelE k e) ATau); try done.
    + apply TI_tau. simpl. split; [done|].
      destruct Hcase as [?|(? & ? & ?)]; [by left|]. by subst.
    + by rewrite Hp.
Qed.

Lemma case_delLocked c g t ts k :
  Inv c g -> c_thr c !! t = Some ts -> t_pc ts = PDelLocked k -> step_ok c g t.
Proof.
  intros Hi Ht Hp.
  pose proof (i_thr _ _ Hi _ _ Ht) as Hti. rewrite Hp in Hti. destruct Hti as (seen & Hst).
  pose proof (i_lock _ _ Hi _ _ Ht) as Hlk. rewrite Hp in Hlk. simpl in Hlk.
  destruct Hlk as [Hlk _]. specialize (Hlk eq_refl).
  assert (shared_pc (t_pc ts)) as Hsp by (by rewrite Hp).
  pose proof (i_wf _ _ Hi) as Hwf. pose proof (Inv_OInv c g t Hi) as Ho.
  assert (is_Some (c_thr c !! t)) as Hts by eauto.
  set (s := c_sh c) in *.
  destruct (s_rd s !! k) as [e|] eqn:Hr; [|destruct (s_am s) eqn:Ham].
  - apply (step_pack c g t ts s (PUnlock (PDelE k e)) ATau g Hi Ht Hsp); try done.
    + rewrite Hp. simpl. fold s. by rewrite Hr.
    + fold s. by rewrite N.eqb_refl.
    + rewrite Hp. fold s. by rewrite Hr.
    + simpl. split; [by eapply w_rd|]. left. exists seen.
      split; [done|]. split; [left; by exists k|]. left. by left.
  - destruct (lin_facts g t (CLoadAndDelete k) seen Hst) as (H1 & H2).
    set (s1 := set_dirty s (delete k <$> s_dirty s)).
    set (g' := {| g_l := lg_step (g_l g) t ALin; g_ek := g_ek g;
                  g_own := own_upd (g_own g) (dget s k) t |}).
    assert (OInv t (miss_locked s1) (c_thr c) g') as Ho'.
    { apply OInv_miss_locked; try done.
      eapply (OInv_dirty_delete t s (c_thr c) g g' ALin k); try done.
      intros k'. change (g_l g') with (lg_step (g_l g) t ALin). rewrite H1.
      change (fst (spec_step (g_abs (g_l g)) (vop_of (CLoadAndDelete k))))
        with (delete k (g_abs (g_l g))).
      destruct (decide (k' = k)) as [->|Hk]; [apply lookup_delete|by apply lookup_delete_ne]. }
    assert (status g' t = Some (GLin (ROpt (abs_lookup s k)))) as Hst'.
    { unfold g'. rewrite H2.
      change (snd (spec_step (g_abs (g_l g)) (vop_of (CLoadAndDelete k))))
        with (ROpt (g_abs (g_l g) !! k)). by rewrite (i_abs _ _ Hi). }
    assert (abs_lookup s k = match dget s k with Some e => kload (s_cell s e) | None => None end)
      as Habs by (unfold abs_lookup; by rewrite Hr, Ham).
    destruct (dget s k) as [e|] eqn:Hd.
    + apply (step_pack c g t ts (miss_locked s1) (PUnlock (PDelE k e)) ALin g' Hi Ht Hsp);
        try done.
      * rewrite Hp. simpl. fold s. by rewrite Hr, Ham, Hd.
      * simpl. fold s. by rewrite miss_locked_nexte, N.eqb_refl.
      * rewrite Hp. fold s. by rewrite Hr, Ham, Hd.
      * destruct (dget_current _ _ _ _ _ Hwf Hr Hd) as [Hcur _].
        pose proof (current_held _ _ _ _ _ Hwf Hcur) as [Hk Hlt].
        simpl. split; [split; [done|by rewrite miss_locked_nexte]|]. right.
        rewrite miss_locked_cell. simpl. rewrite Hst', Habs. split; [done|].
        by rewrite N.eqb_refl.
      * by rewrite miss_locked_lock.
    + apply (step_pack c g t ts (miss_locked s1) (PUnlock (PRet (ROpt None))) ALin g' Hi Ht Hsp);
        try done.
      * rewrite Hp. simpl. fold s. by rewrite Hr, Ham, Hd.
      * simpl. fold s. by rewrite miss_locked_nexte, N.eqb_refl.
      * rewrite Hp. fold s. by rewrite Hr, Ham, Hd.
      * simpl. by rewrite Hst', Habs.
      * by rewrite miss_locked_lock.
  - destruct (linpast_facts g t (CLoadAndDelete k) seen (ROpt None) Hst) as (H1 & H2 & H3).
    { exists (g_abs (g_l g)). split; [by eapply seen_now|]. apply lad_none.
      rewrite (i_abs _ _ Hi). fold s. unfold abs_lookup. by rewrite Hr, Ham. }
    set (g' := {| g_l := lg_step (g_l g) t (ALinPast (ROpt None)); g_ek := g_ek g;
                  g_own := g_own g |}).
    apply (step_pack c g t ts s (PUnlock (PRet (ROpt None))) (ALinPast (ROpt None)) g' Hi Ht Hsp);
      try done.
    + rewrite Hp. simpl. fold s. by rewrite Hr, Ham.
    + simpl. fold s. by rewrite N.eqb_refl.
    + rewrite Hp. fold s. by rewrite Hr, Ham.
    + eapply (OInv_same_core t s (c_thr c) g s g' (ALinPast (ROpt None))); try done.
    + simpl. apply H3.
Qed.

Lemma los_present (σ : spec) k v x :
  σ !! k = Some x -> spec_step σ (OLoadOrStore k v) = (σ, ROptB (Some x) true).
Proof. intros H. unfold spec_step. by rewrite H. Qed.
Lemma los_absent (σ : spec) k v :
  σ !! k = None -> spec_step σ (OLoadOrStore k v) = (<[k:=v]> σ, ROptB (Some v) false).
Proof. intros H. unfold spec_step. by rewrite H. Qed.

Lemma case_los0 c g t ts k v :
  Inv c g -> c_thr c !! t = Some ts -> t_pc ts = PLos0 k v -> step_ok c g t.
Proof.
  intros Hi Ht Hp.
  pose proof (i_thr _ _ Hi _ _ Ht) as Hti. rewrite Hp in Hti. destruct Hti as (seen & Hst).
  assert (shared_pc (t_pc ts)) as Hsp by (by rewrite Hp).
  assert (forall k, t_pc ts <> PDelLocked k) as Hnd by (intros k'; by rewrite Hp).
  pose proof (i_wf _ _ Hi) as Hwf.
  destruct (s_rd (c_sh c) !! k) as [e|] eqn:Hr.
  - apply (step_same c g t ts (PLosE k v e) ATau); try done.
    + rewrite Hp. simpl. by rewrite Hr.
    + apply TI_tau. simpl. exists seen. split; [done|]. split; [by eapply w_rd|]. left. by exists k.
    + by rewrite Hp.
  - apply (step_same c g t ts (PLosLock k v) ATau); try done.
    + rewrite Hp. simpl. by rewrite Hr.
    + apply TI_tau. simpl. eauto.
    + by rewrite Hp.
Qed.

Lemma case_losE c g t ts k v e :
  Inv c g -> c_thr c !! t = Some ts -> t_pc ts = PLosE k v e -> step_ok c g t.
Proof.
  intros Hi Ht Hp.
  pose proof (i_thr _ _ Hi _ _ Ht) as Hti. rewrite Hp in Hti.
  destruct Hti as (seen & Hst & Hh & Hev).
  assert (shared_pc (t_pc ts)) as Hsp by (by rewrite Hp).
  assert (forall k, t_pc ts <> PDelLocked k) as Hnd by (intros k'; by rewrite Hp).
  pose proof (i_wf _ _ Hi) as Hwf.
  destruct (s_cell (c_sh c) e) as [| |p x] eqn:Hc.
  - apply (step_same c g t ts (PLosCas k v e) ATau); try done.
    + rewrite Hp. simpl. by rewrite Hc.
    + apply TI_tau. simpl. exists seen. done.
    + by rewrite Hp.
  - apply (step_same c g t ts (PLosLock k v) ATau); try done.
    + rewrite Hp. simpl. by rewrite Hc.
    + apply TI_tau. simpl. eauto.
    + by rewrite Hp.
  - set (r := ROptB (Some x) true).
    destruct (linpast_facts g t (CLoadOrStore k v) seen r Hst) as (H1 & H2 & H3).
    { exists (g_abs (g_l g)). split; [by eapply seen_now|]. apply los_present.
      rewrite (i_abs _ _ Hi). unfold abs_lookup.
      rewrite (ever_rd _ _ _ _ _ Hwf Hh Hev); [by rewrite Hc|congruence]. }
    apply (step_same c g t ts (PRet r) (ALinPast r)); try done.
    + rewrite Hp. simpl. by rewrite Hc.
    + apply H3.
    + by rewrite Hp.
Qed.

Lemma case_losCas c g t ts k v e :
  Inv c g -> c_thr c !! t = Some ts -> t_pc ts = PLosCas k v e -> step_ok c g t.
Proof.
  intros Hi Ht Hp.
  pose proof (i_thr _ _ Hi _ _ Ht) as Hti. rewrite Hp in Hti.
  destruct Hti as (seen & Hst & Hh & Hev).
  pose proof (i_lock _ _ Hi _ _ Ht) as Hlk. rewrite Hp in Hlk. simpl in Hlk.
  assert (shared_pc (t_pc ts)) as Hsp by (by rewrite Hp).
  assert (forall k, t_pc ts <> PDelLocked k) as Hnd by (intros k'; by rewrite Hp).
  pose proof (i_wf _ _ Hi) as Hwf. pose proof (Inv_OInv c g t Hi) as Ho.
  assert (is_Some (c_thr c !! t)) as Hts by eauto.
  set (s := c_sh c) in *.
  destruct (s_cell s e) as [| |p x] eqn:Hc.
  - destruct (lin_facts g t (CLoadOrStore k v) seen Hst) as (H1 & H2).
    assert (s_rd s !! k = Some e) as Hr by (eapply ever_rd; eauto; congruence).
    assert (g_abs (g_l g) !! k = None) as Hnone.
    { rewrite (i_abs _ _ Hi). fold s. unfold abs_lookup. by rewrite Hr, Hc. }
    simpl vop_of in H1, H2. rewrite (los_absent _ _ _ Hnone) in H1, H2.
    set (g' := {| g_l := lg_step (g_l g) t ALin; g_ek := g_ek g; g_own := g_own g |}).
    apply (step_pack c g t ts (put_val s e v) (PRet (ROptB (Some v) false)) ALin g' Hi Ht Hsp);
      try done.
    + rewrite Hp. simpl. fold s. by rewrite Hc.
    + simpl. by rewrite N.eqb_refl.
    + by rewrite Hp.
    + eapply (OInv_write t s _ (c_thr c) g g' ALin k e (KVal (s_nextp s) v)); try done.
      * by left.
      * congruence.
      * intros k'. change (g_l g') with (lg_step (g_l g) t ALin). rewrite H1. simpl fst.
        destruct (decide (k' = k)) as [->|Hk]; [apply lookup_insert|by apply lookup_insert_ne].
    + apply H2.
  - apply (step_same c g t ts (PLosE k v e) ATau); try done.
    + rewrite Hp. simpl. fold s. by rewrite Hc.
    + apply TI_tau. simpl. exists seen. done.
    + by rewrite Hp.
  - apply (step_same c g t ts (PLosE k v e) ATau); try done.
    + rewrite Hp. simpl. fold s. by rewrite Hc.
    + apply TI_tau. simpl. exists seen. done.
    + by rewrite Hp.
Qed.

(* tryLoadOrStore under the lock, on the current non-expunged entry of k *)
Lemma los_entry_step t s thr g k v e seen :
  OInv t s thr g -> is_Some (thr !! t) -> current s k e -> s_cell s e <> KExp ->
  status g t = Some (GInv (CLoadOrStore k v) seen) ->
  let s' := fst (los_locked_entry s e v) in
  let r := snd (los_locked_entry s e v) in
  let g' := {| g_l := lg_step (g_l g) t ALin; g_ek := g_ek g; g_own := g_own g |} in
  OInv t s' thr g' /\ status g' t = Some (GLin r) /\
  s_rd s' = s_rd s /\ s_am s' = s_am s /\ s_nexte s' = s_nexte s /\ s_lock s' = s_lock s.
Proof.
  intros Ho Hts Hcur Hne Hst. pose proof (o_wf _ _ _ _ Ho) as Hwf.
  destruct (lin_facts g t (CLoadOrStore k v) seen Hst) as (H1 & H2).
  assert (g_abs (g_l g) !! k = kload (s_cell s e)) as Habs.
  { rewrite (o_abs _ _ _ _ Ho). by eapply abs_lookup_current. }
  simpl vop_of in H1, H2. cbv zeta. unfold los_locked_entry.
  set (g' := {| g_l := lg_step (g_l g) t ALin; g_ek := g_ek g; g_own := g_own g |}).
  destruct (s_cell s e) as [| |p x] eqn:Hc; [|done|]; simpl fst; simpl snd.
  - rewrite (los_absent _ _ _ Habs) in H1, H2. split; [|split; [apply H2|done]].
    eapply (OInv_write t s _ thr g g' ALin k e (KVal (s_nextp s) v)); try done.
    + congruence.
    + intros k'. change (g_l g') with (lg_step (g_l g) t ALin). rewrite H1. simpl fst.
      destruct (decide (k' = k)) as [->|Hk]; [apply lookup_insert|by apply lookup_insert_ne].
  - rewrite (los_present _ _ _ _ Habs) in H1, H2. split; [|split; [apply H2|done]].
    eapply (OInv_same_core t s thr g s g' ALin); try done.
Qed.

Lemma case_losLocked c g t ts k v :
  Inv c g -> c_thr c !! t = Some ts -> t_pc ts = PLosLocked k v -> step_ok c g t.
Proof.
  intros Hi Ht Hp.
  pose proof (i_thr _ _ Hi _ _ Ht) as Hti. rewrite Hp in Hti. destruct Hti as (seen & Hst).
  pose proof (i_lock _ _ Hi _ _ Ht) as Hlk. rewrite Hp in Hlk. simpl in Hlk.
  destruct Hlk as [Hlk _]. specialize (Hlk eq_refl).
  assert (shared_pc (t_pc ts)) as Hsp by (by rewrite Hp).
  pose proof (i_wf _ _ Hi) as Hwf. pose proof (Inv_OInv c g t Hi) as Ho.
  assert (is_Some (c_thr c !! t)) as Hts by eauto.
  set (s := c_sh c) in *.
  set (g' := {| g_l := lg_step (g_l g) t ALin; g_ek := g_ek g; g_own := g_own g |}).
  destruct (s_rd s !! k) as [e|] eqn:Hr; [|destruct (dget s k) as [e|] eqn:Hd].
  - destruct (unexpunge_fields s k e) as (U1 & U2 & U3 & U4 & U5).
    assert (OInv t (unexpunge s k e) (c_thr c) g) as Ho1 by (by apply OInv_unexpunge).
    assert (current (unexpunge s k e) k e) as Hcur by (left; by rewrite U1).
    destruct (los_entry_step t _ _ g k v e seen Ho1 Hts Hcur U5 Hst)
      as (Ho' & Hst' & F1 & F2 & F3 & F4).
    destruct (los_locked_entry (unexpunge s k e) e v) as [s' r] eqn:Hle. simpl in *.
    apply (step_pack c g t ts s' (PUnlock (PRet r)) ALin g' Hi Ht Hsp); try done.
    + rewrite Hp. simpl. fold s. by rewrite Hr, Hle.
    + simpl. fold s. by rewrite F3, U3, N.eqb_refl.
    + by rewrite Hp.
    + by rewrite F4, U4.
  - destruct (dget_current _ _ _ _ _ Hwf Hr Hd) as [Hcur Hne].
    assert (s_am s = true) as Ham by (by destruct Hcur as [?|(_ & ? & _)]; [congruence|]).
    destruct (los_entry_step t _ _ g k v e seen Ho Hts Hcur Hne Hst)
      as (Ho' & Hst' & F1 & F2 & F3 & F4).
    destruct (los_locked_entry s e v) as [s' r] eqn:Hle. simpl in *.
    apply (step_pack c g t ts (miss_locked s') (PUnlock (PRet r)) ALin g' Hi Ht Hsp); try done.
    + rewrite Hp. simpl. fold s. by rewrite Hr, Hd, Hle.
    + simpl. fold s. by rewrite miss_locked_nexte, F3, N.eqb_refl.
    + by rewrite Hp.
    + apply OInv_miss_locked; try done. congruence.
    + by rewrite miss_locked_lock, F4.
  - destruct (OInv_mk_dirty t s (c_thr c) g k Ho Hts Hr Hd) as (Ho0 & A1 & A2 & A3 & A4 & A5).
    set (s0 := if s_am s then s else set_am (dirty_locked s) true) in *.
    destruct (alloc_fields s0 k v) as [B1 B2].
    destruct (lin_facts g t (CLoadOrStore k v) seen Hst) as (H1 & H2).
    assert (g_abs (g_l g) !! k = None) as Hnone.
    { rewrite (i_abs _ _ Hi). fold s. unfold abs_lookup. by rewrite Hr, Hd; destruct (s_am s). }
    simpl vop_of in H1, H2. rewrite (los_absent _ _ _ Hnone) in H1, H2.
    set (g'' := {| g_l := lg_step (g_l g) t ALin;
                  g_ek := fun x => if N.eqb x (s_nexte s) then k else g_ek g x;
                  g_own := g_own g |}).
    apply (step_pack c g t ts (alloc s0 k v) (PUnlock (PRet (ROptB (Some v) false))) ALin g''
             Hi Ht Hsp).
    + rewrite Hp. simpl. fold s. by rewrite Hr, Hd.
    + done.
    + done.
    + simpl. fold s. rewrite B2, A4. destruct (N.eqb_spec (s_nexte s + 1) (s_nexte s)); [lia|].
      by rewrite Hp.
    + by rewrite Hp.
    + eapply (OInv_alloc t s0 (c_thr c) g g'' ALin k v); try done.
      * simpl. by rewrite A4.
      * intros k'. change (g_l g'') with (lg_step (g_l g) t ALin). rewrite H1. simpl fst.
        destruct (decide (k' = k)) as [->|Hk]; [apply lookup_insert|by apply lookup_insert_ne].
    + simpl. apply H2.
    + simpl. by rewrite B1, A5.
Qed.

(* ---- every step preserves the invariant and justifies its annotation -------- *)
Lemma step_all c g t : Inv c g -> step_ok c g t.
Proof.
  intros Hi. destruct (c_thr c !! t) as [ts|] eqn:Ht.
  2:{ apply case_stutter; [done| |].
      - unfold cstep_ann. by rewrite Ht.
      - intros ts k. by rewrite Ht. }
  destruct (t_pc ts) eqn:Hp.
  - by eapply case_idle.
  - by eapply case_ret.
  - by eapply case_unlock.
  - by eapply case_load0.
  - eapply (case_lock c g t ts (PLoadLocked k)); rewrite ?Hp; try done.
  - by eapply case_loadLocked.
  - by eapply case_loadE.
  - by eapply case_store0.
  - by eapply case_storeTry.
  - by eapply case_storeCas.
  - eapply (case_lock c g t ts (PStoreLocked k v)); rewrite ?Hp; try done.
  - by eapply case_storeLocked.
  - by eapply case_del0.
  - eapply (case_lock c g t ts (PDelLocked k)); rewrite ?Hp; try done.
  - by eapply case_delLocked.
  - by eapply case_delE.
  - by eapply case_delCas.
  - by eapply case_los0.
  - by eapply case_losE.
  - by eapply case_losCas.
  - eapply (case_lock c g t ts (PLosLocked k v)); rewrite ?Hp; try done.
  - by eapply case_losLocked.
Qed.

Lemma sstep_no_event t s p : ann_events t (snd (sstep t s p)) = [].
Proof.
  destruct p; simpl; unfold try_lock, los_locked_entry;
    repeat (case_match; simpl; try done); done.
Qed.

Lemma hist_step c t :
  c_hist (cstep c t) = c_hist c ++ ann_events t (snd (cstep_ann c t)).
Proof.
  unfold cstep, cstep_ann. destruct (c_thr c !! t) as [ts|]; [|simpl; by rewrite app_nil_r].
  pose proof (sstep_no_event t (c_sh c) (t_pc ts)) as Hno.
  destruct (t_pc ts) eqn:Hp.
  1:{ destruct (t_todo ts); simpl; [by rewrite app_nil_r|done]. }
  1:{ done. }
  all: destruct (sstep t (c_sh c) _) as [[s' p'] a] eqn:Hs; cbn [fst snd c_hist] in *;
       rewrite Hno; by rewrite app_nil_r.
Qed.

(* ---- initial state ---------------------------------------------------------- *)
Lemma init_pc threads t ts :
  c_thr (init_conf threads) !! t = Some ts -> t_pc ts = PIdle.
Proof.
  simpl. intros H. apply elem_of_list_to_map_2 in H.
  apply elem_of_lookup_imap in H as (i & ops & Heq & _). by inversion Heq.
Qed.

Lemma Inv_init threads : Inv (init_conf threads) g_init.
Proof.
  split.
  - split; simpl; try done.
  - intros k. simpl. unfold abs_lookup. simpl. by rewrite !lookup_empty.
  - intros t o seen. unfold status. simpl. by rewrite lookup_empty.
  - intros t ts Ht. rewrite (init_pc _ _ _ Ht). simpl. unfold status. simpl. apply lookup_empty.
  - intros t _. unfold status. simpl. apply lookup_empty.
  - intros t ts Ht. rewrite (init_pc _ _ _ Ht). simpl. split; done.
Qed.

Lemma run_inv sched : forall c g,
  Inv c g -> HInv (c_hist c) (g_l g) ->
  exists g', Inv (run_sched c sched) g' /\ HInv (c_hist (run_sched c sched)) (g_l g').
Proof.
  induction sched as [|t sched IH]; intros c g Hi Hh; simpl.
  { by exists g. }
  destruct (step_all c g t Hi) as [Hok Hi'].
  apply (IH (cstep c t) (gstep c t g) Hi').
  rewrite hist_step. change (g_l (gstep c t g)) with (lg_step (g_l g) t (snd (cstep_ann c t))).
  by apply HInv_step.
Qed.

(* ---- main theorem ----------------------------------------------------------- *)
Theorem valuemap_linearizable : forall (threads : list (list cop)) (sched : list nat),
  linearizable (history_of (run_sched (init_conf threads) sched)).
Proof.
  intros threads sched.
  destruct (run_inv sched (init_conf threads) g_init (Inv_init threads) HInv_init)
    as (g' & _ & Hh).
  by eapply HInv_linearizable.
Qed.


(* ---- non-vacuity ------------------------------------------------------------- *)
(* two threads, Store(1,5) racing with Load(1): the operations overlap in both runs and the
   Load sees the stored value under one schedule and misses it under the other *)
Definition race : list (list cop) := [[CStore 1 5]; [CLoad 1]].

Definition sched_hit : list nat := ([0;1;0;0;0;0] ++ repeat 1 8 ++ repeat 0 3)%nat.
Definition sched_miss : list nat := ([0;1;1;1] ++ repeat 0 8)%nat.
Definition sched_rr : list nat := (concat (repeat [0;1;2;2;1] 12))%nat.

Example race_load_hits :
  history_of (run_sched (init_conf race) sched_hit)
  = [EInv 0 (CStore 1 5); EInv 1 (CLoad 1); ERet 1 (ROpt (Some 5)); ERet 0 RNone].
Proof. vm_compute. reflexivity. Qed.

Example race_load_misses :
  history_of (run_sched (init_conf race) sched_miss)
  = [EInv 0 (CStore 1 5); EInv 1 (CLoad 1); ERet 1 (ROpt None); ERet 0 RNone].
Proof. vm_compute. reflexivity. Qed.

Example race_three_threads :
  history_of (run_sched
    (init_conf [[CStore 1 5; CLoadAndDelete 1]; [CLoad 1; CLoadOrStore 1 9]; [CStore 2 2; CLoad 1]])
    sched_rr)
  = [EInv 0 (CStore 1 5); EInv 1 (CLoad 1); EInv 2 (CStore 2 2); ERet 1 (ROpt None);
     EInv 1 (CLoadOrStore 1 9); ERet 2 RNone; EInv 2 (CLoad 1);
     ERet 1 (ROptB (Some 9) false); ERet 0 RNone; EInv 0 (CLoadAndDelete 1);
     ERet 2 (ROpt (Some 5))].
Proof. vm_compute. reflexivity. Qed.

(* `linearizable` is not trivially true: a Load that returns a value never stored is rejected *)
Example not_linearizable_example :
  ~ linearizable [EInv 0%nat (CLoad 1); ERet 0%nat (ROpt (Some 5))].
Proof.
  assert (forall l s r r' st, erase l = [ERet 0%nat r] ->
            replay (s, {[0%nat := SLin r']}) l = Some st -> r = r') as L2.
  { intros l s r r' st He Hr. destruct l as [|[t o|t|t r0] l]; try done; simpl in He, Hr.
    - destruct (decide (t = 0%nat)) as [->|Hne].
      + by rewrite lookup_singleton in Hr.
      + by rewrite lookup_singleton_ne in Hr.
    - inversion He; subst. rewrite lookup_singleton in Hr.
      destruct (decide (r = r')) as [->|Hne]; [done|]. by rewrite bool_decide_false in Hr. }
  assert (forall l s k r st, erase l = [ERet 0%nat r] ->
            replay (s, {[0%nat := SInv (CLoad k)]}) l = Some st -> r = ROpt (s !! k)) as L1.
  { intros l s k r st He Hr. destruct l as [|[t o|t|t r0] l]; try done; simpl in He, Hr.
    - destruct (decide (t = 0%nat)) as [->|Hne].
      + rewrite lookup_singleton in Hr.
        change (replay (s, <[0%nat:=SLin (ROpt (s !! k))]> {[0%nat := SInv (CLoad k)]}) l = Some st) in Hr.
        rewrite insert_singleton in Hr. by eapply L2.
      + by rewrite lookup_singleton_ne in Hr.
    - inversion He; subst. by rewrite lookup_singleton in Hr. }
  intros (l & He & [st Hr]).
  destruct l as [|[t o|t|t r0] l]; try done; simpl in He, Hr.
  - inversion He; subst. rewrite lookup_empty, insert_empty in Hr.
    pose proof (L1 _ _ _ _ _ H2 Hr) as Heq. by vm_compute in Heq.
Qed.

Print Assumptions valuemap_linearizable.
