(* Well-formedness of byte-code as the parser produces it (definitions only; the theorems are in
   Proofs/VMSafety.v), and an instrumented twin of VM.exec that counts dispatched instructions.

   instr_wf len pc i   the operand of i has the Go dynamic type that the VM's `code.Value.(T)`
                       assertion expects, a relative jump keeps opIndex >= 0 (the loop does
                       `opIndex += n` and then `opIndex++`: 0 <= pc + n + 1; a target beyond the
                       end just ends the loop), and ld.fs does not RAISE the stack top (a negative
                       count would: `e.top -= num` then stackPush at index >= 1000).
                       Opcodes without a case in the switch / that read no operand: no constraint.
   code_wf c           every instruction, with its own index
   span_wf src i       a mark.detail span lies inside the source text the frame runs on; no constraint
                       without a text.  NOT a hypothesis of any theorem any more: push.def_expr was the only
                       reader (it sliced parser.data[Begin:End]) and now skips a span outside the text.
                       Kept as a definition (examples in Proofs/VMSafety.v mention it).
   spans_wf src c      every instruction
   ftab_wf ft          every compiled body of the function table: code_wf.  The table is flat (a nested
                       function is its own entry), so no recursion is needed. *)
From Coq Require Import String Ascii NArith ZArith List Bool.
From DS Require Import Model.Str Model.PCG Model.Roll Model.Dice Model.Value Model.VM.
Import ListNotations.
Open Scope Z_scope.

Definition is_oint (o : operand) : bool := match o with OInt _ => true | _ => false end.
Definition is_ostr (o : operand) : bool := match o with OStr _ => true | _ => false end.
Definition is_ospan (o : operand) : bool := match o with OSpan _ _ => true | _ => false end.
Definition is_ost (o : operand) : bool := match o with OSt _ _ => true | _ => false end.
Definition is_ofn (o : operand) : bool := match o with OFn _ => true | _ => false end.
Definition is_oint_nonneg (o : operand) : bool := match o with OInt n => 0 <=? n | _ => false end.
(* opIndex after the jump and the loop's increment is a valid (non-negative) index *)
Definition jump_ok (pc : nat) (o : operand) : bool :=
  match o with OInt n => 0 <=? Z.of_nat pc + n + 1 | _ => false end.

Definition instr_wf (len : nat) (pc : nat) (i : instr) : bool :=
  let o := i_arg i in
  match i_op i with
  | OpPushInt | OpPushArr | OpPushDict | OpInvoke | OpPopN => is_oint o
  | OpLdFs => is_oint_nonneg o
  | OpJmp | OpJe | OpJne | OpJeDup => jump_ok pc o
  | OpPushStr | OpLd | OpLdD | OpLdRaw | OpStore | OpStoreLocal | OpAttrGet | OpAttrSet => is_ostr o
  | OpPushFunc | OpPushComputed => is_ofn o
  | OpMarkDetail => is_ospan o
  | OpStMod => is_ost o
  | _ => true
  end.

Fixpoint code_wf_from (len pc : nat) (c : code) : bool :=
  match c with
  | [] => true
  | i :: r => instr_wf len pc i && code_wf_from len (S pc) r
  end.
Definition code_wf (c : code) : bool := code_wf_from (length c) 0 c.

Definition span_in (src : option string) (b e : Z) : bool :=
  match src with
  | None => true
  | Some s => (0 <=? b) && (b <=? e) && (e <=? zlen (bytes_of s))
  end.
Definition span_wf (src : option string) (i : instr) : bool :=
  match i_op i, i_arg i with
  | OpMarkDetail, OSpan b e => span_in src b e
  | _, _ => true
  end.
Definition spans_wf (src : option string) (c : code) : bool := forallb (span_wf src) c.

Definition fentry_wf (d : fdata instr) : bool :=
  match f_code d with
  | None => true
  | Some c => code_wf c
  end.
Definition ftab_wf (ft : ftab) : bool := forallb fentry_wf ft.

(* ------------------------------------------------------------------ counting twin of VM.exec *)
(* exactly VM.exec, also returning the number of instructions of THIS activation that were
   dispatched (handed to `step`); an instruction that runs a sub-VM counts as one *)
Fixpoint exec_count (fuel : nat) (E : env) (m : machine) : result * nat :=
  match fuel with
  | O => (OutOfFuel, O)
  | S f =>
    let fr := m_fr m in
    if zlen (fr_code fr) <=? fr_pc fr then
      (match fr_err fr with Some e => Fail e m | None => Fin m end, O)
    else
      let '(m1, over) := count_op E m in
      if over then (Fail EBudget m1, O)
      else match fr_err fr with Some e => (Fail e m1, O) | None =>
      if fr_top fr =? stack_size then (Fail EStack m1, O)
      else if fr_pc fr <? 0 then (Panic "code index negative", O)
      else match nth_error (fr_code fr) (Z.to_nat (fr_pc fr)) with
           | None => (Panic "code index out of range", O)
           | Some ins =>
             let next (m2 : machine) := {| m_fr := fr_set_pc (m_fr m2) (fr_pc (m_fr m2) + 1); m_w := m_w m2 |} in
             match step (exec f E) f E ins m1 with
             | SNext m2 => let '(r, n) := exec_count f E (next m2) in (r, S n)
             | SStop m2 => (Fin m2, 1%nat)
             | SFail e m2 => (Fail e m2, 1%nat)
             | SPanic s => (Panic s, 1%nat)
             | SFuel => (OutOfFuel, 1%nat)
             | SUnsup s => (Unsupported s, 1%nat)
             end
           end
      end
  end.

(* nesting depth of sub-VM activations: measured by the instrumented run exec_depth and bounded by the budget in
   Proofs/VMDepth.v (C07_call_depth_exact) *)

(* ------------------------------------------------------------------ counting twins of the budgeted rounds *)
(* VM.wod_budget / VM.dc_budget, also returning the number of dice of the rounds that were STARTED
   (a round of `pool` dice rolls Z.to_nat pool dice) *)
Fixpoint wod_budget_cnt (n : nat) (c : config) (addLine points threshold : Z) (isGE : bool) (mode : Z)
         (pool succ ops : Z) (s : pcg) : rounds_res * Z :=
  match n with
  | O => (RNoFuel, 0)
  | S n' =>
    let '(ops', over) := ops_add c ops pool in
    if over then (ROver ops' s, 0)
    else match wod_round pcg_next roll_fuel (Z.to_nat pool) addLine points threshold isGE mode false (0, 0, []) s with
         | Roll.OutOfFuel => (RNoFuel, Z.max 0 pool)
         | Roll.Done ((sc, add, _), s1) =>
           if 0 <? add then
             let '(r, k) := wod_budget_cnt n' c addLine points threshold isGE mode add (succ + sc) ops' s1 in
             (r, Z.max 0 pool + k)
           else (RDone (succ + sc) ops' s1, Z.max 0 pool)
         end
  end.

Fixpoint dc_budget_cnt (n : nat) (c : config) (addLine points mode : Z) (pool result ops : Z) (s : pcg) : rounds_res * Z :=
  match n with
  | O => (RNoFuel, 0)
  | S n' =>
    let '(ops', over) := ops_add c ops pool in
    if over then (ROver ops' s, 0)
    else match dc_round pcg_next roll_fuel (Z.to_nat pool) addLine points mode false (0, 0, []) s with
         | Roll.OutOfFuel => (RNoFuel, Z.max 0 pool)
         | Roll.Done ((mx, add, _), s1) =>
           if 0 <? add then
             let '(r, k) := dc_budget_cnt n' c addLine points mode add (wrap64 (result + mx)) ops' s1 in
             (r, Z.max 0 pool + k)
           else (RDone (wrap64 (result + mx)) ops' s1, Z.max 0 pool)
         end
  end.
