"""C01 — no input can crash the host: the public API is total."""
import base64
import json
import os
import random
import subprocess
from concurrent.futures import ThreadPoolExecutor

import common
import gen
import pegcases
from common import Broken

LEVEL = "proof"

VALUES = ["1", "0", "(0-1)", "512", "513", "1000", "2147483648", "9223372036854775807", "(0-9223372036854775807-1)", "1.5", "'s'", "''", "null",
          "[1,2]", "[]", "{'k':1}", "{}", "&cv", "g", "str", "[1,2].len", "this", "true"]
BINOPS = ["+", "-", "*", "/", "%", "^", "**", "??", "<", "<=", "==", "!=", ">=", ">", "&&", "||", "&", "|"]
PRE = "&cv = 1+1; func g(u) { u }; arr = [1,2,3]; m = {'k': 1}; s = 'abc'"


BOUNDS = ["0", "1", "(0-1)", "(0-2)", "511", "512", "513", "2147483647", "4611686018427387904", "(0-4611686018427387904)", "9223372036854775806",
          "9223372036854775807", "(0-9223372036854775807)", "(0-9223372036854775807-1)"]


KF_JSON_TREE = "json-of-shared-structure-is-its-tree-unfolding"


def operand_matrix(rnd):
    out = []
    # boundary PAIRS for every two-operand construct
    for a in BOUNDS:
        for b in BOUNDS:
            out += [f"[{a}..{b}]", f"{a}d{b}", f"arr[{a}:{b}]", f"s[{a}:{b}]", f"x=[1,2,3]; x[{a}:{b}]=[9]"]
            if rnd.random() < 0.3:
                out += [f"{a} {rnd.choice(BINOPS)} {b}", f"[1,2,3]*{a} + [{b}]", f"lo={a}; hi={b}; [lo..hi]"]
    # mixed arrays through the keep / sum helpers
    for a in VALUES:
        for n in ("", "0", "1", "2", "3", "100", "9223372036854775807", "(0-1)"):
            out += [f"[1,{a},3].kh({n})", f"[{a},{a}].kl({n})", f"x=[5,{a},6]; x.kh({n})"]
        out += [f"[1,{a},3]kh3", f"[{a},2]kl", f"[1,{a},3]kl2"]
    for a in VALUES:
        out += [f"-{a}", f"+{a}", f"{a}[0]", f"{a}[1:2]", f"{a}.k", f"{a}.len()", f"{a}()", f"{a}(1)", f"{a} ? 1 : 2", f"x = {a}; x[0] = 1", f"x = {a}; x.k = 1",
                f"x = {a}; x[0:1] = [5]", f"[{a}..3]", f"[1..{a}]", f"{a}d6", f"2d{a}", f"2d6k{a}", f"2d6min{a}", f"b{a}", f"p{a}", f"{a}a10", f"5a{a}", f"5a10m{a}",
                f"5a10k{a}", f"{a}c10", f"3c{a}", f"3c10m{a}", f"[1,2,3].kh({a})", f"[1,2,3].randSize({a})", f"[{a}].sum()", f"[{a}].rand()", f"str({a})",
                f"int({a})", f"float({a})", f"abs({a})", f"ceil({a})", f"round({a})", f"bool({a})", f"repr({a})", f"typeId({a})", f"dir({a})", f"load({a})",
                f"store({a}, 1)", f"`{{{a}}}`", f"{{{a}: 1}}", f"{{'k': {a}}}.k", f"arr * {a}", f"{a} * arr", f"s[{a}]", f"arr[{a}]", f"arr[{a}:]", f"arr[:{a}]",
                f"^st力量{a}", f"^st力量+{a}", f"^st力量-{a}", f"^st力量*{a}:3"]
        for b in rnd.sample(VALUES, 6):
            op = rnd.choice(BINOPS)
            out.append(f"{a} {op} {b}")
    return out


def nesting_sweeps():
    out = []
    for k in (1, 5, 19, 20, 21, 22, 25, 40):
        out.append("if 1 {" * k + "1" + "}" * k)
        out.append("`" + "{% " * 0 + "".join("{`" for _ in range(0)) + "`")
        out.append("(" * k + "1" + ")" * k)
        out.append("[" * k + "1" + "]" * k)
        out.append("i=0; while i<" + str(k) + " { i=i+1; if 1 { continue } }")
        out.append("i=0; while i<" + str(k) + " { i=i+1; if 1 { if 1 { break } } }")
        t = "1"
        for _ in range(k):
            t = "`{" + t + "}`" if "`" not in t else "\x1e{" + t.replace("\x1e", "`") + "}\x1e"
        out.append("x" + "[0]" * k)
        out.append("func g(u) { if u > 0 { return g(u-1) + 1 }; 0 }; g(" + str(k * 10) + ")")
    # nested templates alternate the two template delimiters
    for k in (1, 10, 19, 20, 21, 23):
        t = "1"
        for j in range(k):
            d = "`" if j % 2 == 0 else "\x1e"
            t = d + "{" + t + "}" + d
        out.append(t)
    out += ["1+" * 5000 + "1", "x=1;" * 3000 + "x", "'" + "a" * 20000 + "'", "9" * 400, "s='a'; i=0; while i<12 { s=s+s; i=i+1 }; 1",
            "a=[1]; i=0; while i<12 { a=a+a; i=i+1 }; 1", "func g(u) { g(u) }; g(1)", "&v = v; v", "&v = -v + 1; v", "while 1 { }", "i=0; while 1 { i=i+1 }",
            "9223372036854775807d6", "99999999d1", "b99999999", "20000a2", "20000c2", "5a10", "3c8", "m={}; m.m=m; m", "m={}; m.m=m; m==m", "a=[0]; a[0]=a; a",
            "a=[0]; a[0]=a; a==a", "x={}; x.__proto__=x; x.y", "[1,2].kh(9223372036854775807)", "&cv.x = &cv; cv", "[0..9223372036854775808]",
            "[(0-9223372036854775807)..9223372036854775807]", "[1 ? 2, 3]", "y = 0 || [", "&x.x=xx || [", "func g(c) { x = c.d = 2 }; g({})", "1 || [1,2][0:1]",
            "^st力量-1&&'a'", "x='abc'; x[3]", "x='" + "a" * 40 + "'; x[40]", "this.x = 5; this.x", "&a = d; a", "func g(){return d}; g()", "[x,2]\n[x,2]",
            "5\n{'a':1", "dct = b(d)a(3)", ".\n", "\xff", "if", "break", "`{% %}`", ""]
    # the operand stack filled to its last slot at every phase: a loop body that leaks slots (recorded finding while-body-stack-leak)
    # reaches the 1000-slot line after a few hundred passes; which instruction meets the full stack depends on what was pushed
    # before the loop and on the shape of the body, so prefixes of 0..3 slots x bodies ending in every kind of pushing
    # instruction (block.pop of `if`, template block, dice of each family, ternary, ||, array / dict literal, call)
    for prefix in ("", "1; ", "x = 1; ", "1; 2; ", "[1,2]; 'a'; 3; "):
        for body in ("if 1 {}", "if 1 {}; 1", "1; if 1 {}", "if 0 {} else {}", "`{% if 1 {} %}`", "`a{1}b`", "f", "f + f", "[f, f]", "d4", "2d4k1", "b", "p2", "3a9", "3c8",
                     "1 ? 2 : 3", "0 || 1", "[1, 2]", "{'a': 1}", "g0()", "[1,2,3].sum()", "x = [1,2][0]", "&cv = 1; cv", "y = 1; y", "this", "-1", "1 == 1"):
            out.append(prefix + "func g0() { 1 }; while 1 { " + body + " }")
    for n in (998, 999, 1000, 1001, 1002):
        for item in ("1", "f", "d4", "'s'", "[1]"):
            out.append("[" + ", ".join([item] * n) + "]")
    # rejected sources whose offending line is long in BYTES but short in characters (and the other way round): the error text quotes
    # and truncates that line; 2-, 3- and 4-byte characters, the error on the first / a later line, every unclosed bracket
    for ch in ("力", "é", "😀", "ｈ", "a"):
        for k in (18, 21, 25, 30, 40, 56, 57, 58, 61, 80):
            name = ch * k if ch != "😀" else "x" + ch * k
            for shape in ("(" + name + " +", "[1, " + name + " ,", "(1 +\n" + name + " + (", "{'k': " + name, "^st" + name + "(", "`{" + name + " +"):
                out.append(shape if ch != "😀" else shape.replace("x" + ch * k, "'" + ch * k + "' + ("))
    # shared sub-structure (a DAG, not a cycle): every step costs a handful of operations and doubles the TREE unfolding of the
    # value; printing (result text, repr, process text, templates, toStr) must stay proportional to the object graph
    for k in (3, 12, 30, 60):
        for first, stepf in (("a=[1]", "a=[a,a]"), ("a={'x':1}", "a={'x':a,'y':a}"), ("a=[1]", "a={'l':a,'r':[a,a]}")):
            build = first + "; " + "; ".join([stepf] * k)
            for look in ("a", "toStr(a).len()", "repr(a).len()", "x = `v={a}`; x.len()", "[a, a]", "a == a", "b = a; a == b"):
                out.append(build + "; " + look)
    # prototype chains that run into a cycle (of length L, entered after a tail of T objects that are not on it): every kind of
    # lookup must return (attribute missing / found on the way / built-in method / assignment / printing / comparison)
    for L in (1, 2, 3):
        for T in (0, 1, 2, 3):
            defs = ["p0 = {'k0': 0}"] + [f"p{i} = {{'__proto__': p{i-1}, 'k{i}': {i}}}" for i in range(1, L)] + [f"p0.__proto__ = p{L-1}"]
            prev = "p0"
            for t in range(T):
                defs.append(f"q{t} = {{'__proto__': {prev}, 't{t}': {t}}}")
                prev = f"q{t}"
            defs.append(f"a = {{'__proto__': {prev}}}" if T else "a = p0")
            for look in ("a.foo", "a.k0", "a.keys()", "a.len()", "a.foo = 1; a.foo", "toStr(a) == toStr(a)", "a == a", "a.items().len()", "dir(a).len()", "a['foo']", "a.__proto__.foo"):
                out.append("; ".join(defs) + "; " + look)
    return out


def make_cases(rnd, n, corpus):
    srcs = []
    for s in operand_matrix(rnd):
        srcs.append((PRE, s.encode()))
    for s in nesting_sweeps():
        srcs.append(("", s.encode("utf-8", "surrogateescape") if isinstance(s, str) else s))
    for b in corpus:
        srcs.append(("", b))
        srcs.append(("", gen.mutate(rnd, b)))
        if len(b) > 2:
            srcs.append(("", b[:rnd.randrange(1, len(b))]))
    while len(srcs) < n:
        srcs.append((rnd.choice(["", PRE, "x=1; y='s'"]), gen.random_input(rnd)))
    rnd.shuffle(srcs)
    srcs = srcs[:n]
    cases = []
    for pre, b in srcs:
        hist = [pre] if pre else []
        if rnd.random() < 0.2:
            hist.append(gen.G(rnd, max_depth=1).program())
        cases.append({"hist": [base64.b64encode(h.encode()).decode() for h in hist], "b64": base64.b64encode(b).decode(),
                      "flags": [rnd.random() < 0.75 for _ in range(4)] + [rnd.random() < 0.15 for _ in range(3)],
                      "div0": rnd.random() < 0.3, "mode": rnd.choice([0, 0, -1, 1]), "defexpr": rnd.choice(["", "", "20", "d4", "x", "1+", "d", "2d", "g(1)", "cv"]),
                      "oplimit": rnd.choice([50, 30000, 30000]), "parselimit": rnd.choice([0, 0, 200, 10000000]), "st": rnd.random() < 0.3})
    return cases


def run_batch(cases, timeout, mem_kb=4_000_000):
    """runs cases in a child process; returns (rows, culprit_index or None, reason)"""
    exe = os.path.join(common.BIN, "harness")
    stdin = "\n".join(json.dumps(c) for c in cases) + "\n"
    try:
        r = subprocess.run(["bash", "-c", f"ulimit -v {mem_kb}; exec {exe} c01"], input=stdin, capture_output=True, text=True, timeout=timeout)
        rows = [json.loads(l) for l in r.stdout.splitlines() if l.startswith("{")]
        if r.returncode != 0 or len(rows) < len(cases):
            why = "fatal error: " + (r.stderr.strip().splitlines() or ["?"])[0][:200]
            for l in r.stderr.splitlines():
                if l.startswith("fatal error") or l.startswith("runtime:") or "out of memory" in l:
                    why = l[:200]
                    break
            return rows, len(rows), why
        return rows, None, ""
    except subprocess.TimeoutExpired as e:
        out = e.stdout.decode() if isinstance(e.stdout, bytes) else (e.stdout or "")
        rows = [json.loads(l) for l in out.splitlines() if l.startswith("{")]
        return rows, len(rows), f"no result within {timeout}s (hang)"


def run_all(cases, batch=250, timeout=90):
    """returns list of (case, row_or_None, fatal_reason_or_None)"""
    results = [None] * len(cases)
    jobs = [(k, cases[k:k + batch]) for k in range(0, len(cases), batch)]

    def work(job):
        k0, cs = job
        out = []
        pos = 0
        while pos < len(cs):
            rows, culprit, why = run_batch(cs[pos:], timeout)
            for j, row in enumerate(rows):
                out.append((k0 + pos + j, row, None))
            if culprit is None:
                break
            out.append((k0 + pos + culprit, None, why))
            pos += culprit + 1
        return out
    with ThreadPoolExecutor(max_workers=12) as ex:
        for part in ex.map(work, jobs):
            for i, row, why in part:
                results[i] = (row, why)
    return results


def describe(c):
    return {"source": base64.b64decode(c["b64"]).decode("utf-8", "replace"), "source_hex": base64.b64decode(c["b64"]).hex(),
            "history": [base64.b64decode(h).decode("utf-8", "replace") for h in c["hist"]],
            "config": {k: c[k] for k in ("flags", "div0", "mode", "defexpr", "oplimit", "parselimit", "st")}}


def run(res, tier, seed):
    common.build_harness()
    rnd = random.Random(seed)
    n = 6500 if tier == "quick" else 60000
    corpus = pegcases.scrape_test_sources()
    cases = make_cases(rnd, n, corpus)
    results = run_all(cases)
    known = {k["key"]: k for k in common.known_for("C01")}
    panics, fatals, found = 0, 0, 0
    frames = {}
    for c, rw in zip(cases, results):
        if rw is None:
            continue
        row, why = rw
        res.count(c["b64"] + json.dumps(c["hist"]) + json.dumps([c[k] for k in ("flags", "div0", "mode", "defexpr", "oplimit", "parselimit")]),
                  nontrivial=bool(row and (row.get("ok") or row.get("err"))))
        if why:
            fatals += 1
            res.violation(dict(describe(c), what="the process died or hung on this input under a configured operation budget: " + why))
            found += 1
        elif row.get("panic"):
            panics += 1
            frames[row.get("frame", "?")] = frames.get(row.get("frame", "?"), 0) + 1
            if found < 6:
                res.violation(dict(describe(c), what="Go panic escaped to the host", panic=row["panic"], during=row["where"], innermost_frame=row.get("frame")))
                found += 1
    # recorded finding: the JSON text of variables with shared sub-structure is the tree unfolding (exponential in the work done);
    # the harness measures the unfolding on the object graph and skips ToJSON only beyond 2e6 nodes with <= 5000 containers
    skipped = [(c, rw[0]) for c, rw in zip(cases, results) if rw and rw[0] and rw[0].get("json_skip_tree")]
    res.cov["json_observer_skipped_tree_unfolding"] = len(skipped)
    if skipped:
        c, row = skipped[0]
        if KF_JSON_TREE in known:
            res.known(f"key={KF_JSON_TREE} cases={len(skipped)} first={json.dumps(describe(c)['source'], ensure_ascii=False)} "
                      f"tree_nodes={row['json_skip_tree']:.3g} containers={row['json_skip_graph']} :: {known[KF_JSON_TREE]['what']}")
        else:
            res.violation(dict(describe(c), what="Attrs.ToJSON would write the tree unfolding of a small object graph (not observed: it does not return)",
                               tree_nodes=row["json_skip_tree"], containers=row["json_skip_graph"]))
            found += 1
    res.cov["rule"] = ("operand matrix (every unary/binary operator, index/slice/attr/call, every dice-family operand position, builtins and methods x value "
                       "types x boundary ints), nesting sweeps around the limits 20/1000/8192/512, the repository's own test sources + mutations + every-prefix "
                       "cuts, generated programs / token soups / st lists / program+tail; x random syntax flags x IgnoreDiv0 x min/random/max mode x "
                       "DefaultDiceSideExpr in {'', 20, d4, x, '1+'} x OpCountLimit in {50, 30000} x ParseExprLimit in {0, 200, 1e7} x histories; every case: "
                       "Run, observers (ToString/ToRepr/AsBool, GetDetailText twice, Matched/Rest, GetAsmText, variables ToJSON), re-Run; child processes with "
                       "memory cap and timeout so that fatal errors and hangs are attributed to their input; distinct = distinct (source, history, config); "
                       "non-trivial = the run got past parsing")
    res.cov["input_distribution"] = {"cases": len(cases), "ran_ok": sum(1 for rw in results if rw and rw[0] and rw[0].get("ok")),
                                     "errors": sum(1 for rw in results if rw and rw[0] and rw[0].get("err")), "panics": panics, "fatal_or_hang": fatals,
                                     "panic_frames": frames}
    res.sample(describe(cases[0]))
    res.cov["trusted_base"] += [
        "parser totality is NOT a theorem (the action-during-parse PEG has no stack discipline across backtracking): decided by this search and by the PEG "
        "model's panic flag in the K1 correspondence",
        "VM half: theorem over Model/VM.v (validated by the K2 correspondence) once Properties/C01.v is present",
        "an operation budget is always configured in these runs: without one, unbounded recursion / loops are outside the property",
    ]
    # recorded finding: unbounded string growth under a budget
    if "unbounded-string-growth-under-budget" in known:
        kc = {"hist": [], "b64": base64.b64encode(b"s='aaaaaaaaaaaaaaaa'; while 1 { s = s + s }").decode(), "flags": [True] * 4 + [False] * 3, "div0": False, "mode": 0,
              "defexpr": "", "oplimit": 30000, "parselimit": 0, "st": False}
        rows, culprit, why = run_batch([kc], 60, mem_kb=3_000_000)
        if culprit is not None:
            res.known(known["unbounded-string-growth-under-budget"]["what"] + f" [{why}]")

    broken = None
    try:
        info = common.check_property_file("C01")
        res.proof(info, "cd coq && make && coqc -Q . DS Properties/C01.v")
        # the theorem's hypotheses on what the real parser emits: code_wf / ftab_wf of the dumped byte-code (K2 dumps)
        import k2cases
        wf_inputs = []
        for c in cases[: (600 if tier == "quick" else 4000)]:
            wf_inputs.append(k2cases.mk_input(base64.b64decode(c["b64"]), hist=[base64.b64decode(h) for h in c["hist"]], flags=c["flags"],
                                              div0=c["div0"], mode=c["mode"], oplimit=c["oplimit"] or 30000))
        wrows = k2cases.go_run(wf_inputs)
        terms = []
        for inp, row in zip(wf_inputs, wrows):
            if not row or not row.get("steps"):
                continue
            t, _why = k2cases.case_term(inp, row)
            if t:
                terms.append(t)
        badwf = []
        shard = 150
        hdr = ("From Coq Require Import NArith ZArith List String.\nFrom DS Require Import Model.Str Model.Value Model.VM Model.CodeWf Corr.CorrK2 Corr.Corr01.\n"
               "Import ListNotations.\nOpen Scope string_scope.\nSet Printing Width 1000000. Set Printing Depth 10000000.\n")
        jobs = [(f"c01wf_{k}", hdr + "Definition cases : list k2_case := [\n" + ";\n".join(terms[k:k + shard]) + "].\n"
                 "Definition bad := Eval vm_compute in bad_wf 0%N cases.\nPrint bad.\n") for k in range(0, len(terms), shard)]
        for (nm, _), out in zip(jobs, common.coq_eval_many(jobs)):
            k0 = int(nm.split("_")[1])
            badwf += [k0 + int(x.replace("%N", "")) for x in common.parse_coq_list(out, "bad")]
        res.cov["wf_of_real_bytecode"] = {"programs_dumped": len(terms), "not_well_formed": len(badwf)}
        if badwf:
            broken = Broken("hypothesis of C01_run_no_panic_partial fails on byte-code the real parser emitted (code_wf / ftab_wf)",
                            {"first_case_terms": [terms[i][:600] for i in badwf[:2]]})
    except Broken as b:
        broken = b
    if broken and not found:
        res.violation({"broken": broken.what, "detail": broken.detail}, no_input=True)


def replay(path):
    p = json.load(open(path))
    print(json.dumps(p, indent=1, ensure_ascii=False))
    return 0
