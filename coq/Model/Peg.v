(* Executable model of the generated pigeon PEG interpreter of roll.peg.go
   (parseExprWrap & co.: two memo tables, skip-code mode under look-ahead, actions run
   while parsing and never rolled back, ExprCnt, maxFailPos, error list) over a grammar
   and an action table that are REGENERATED from /repo on every run (Gen/Grammar.v).
   Action effects are modelled as far as they influence acceptance (configuration flags,
   flag stack, loop layer, error list), helper-stack discipline (name / counter / jump /
   code stacks: pops of empty stacks are explicit Panic outcomes) and — as an
   over-approximation — which opcodes may be emitted. *)
From Coq Require Import NArith List Bool String FMapPositive.
Import ListNotations.
Open Scope N_scope.

(* ---------- grammar ------------------------------------------------------ *)
Inductive pexpr :=
| PAction (id fn : N) (e : pexpr)
| PSeq (id : N) (es : list pexpr)
| PChoice (id : N) (es : list pexpr)
| PLabel (id : N) (label : N) (textcap : bool) (e : pexpr)   (* label: 0 none, 1 "id", 2 "on", 3 other *)
| PAnd (id : N) (e : pexpr)
| PNot (id : N) (e : pexpr)
| PAndL (id : N) (e : pexpr)
| PNotL (id : N) (e : pexpr)
| POpt (id : N) (e : pexpr)
| PStar (id : N) (e : pexpr)
| PPlus (id : N) (e : pexpr)
| PRef (id : N) (r : N)
| PAndCode (id fn : N)
| PNotCode (id fn : N)
| PCode (id fn : N) (notskip : bool)
| PLit (id : N) (v : list N) (ic : bool)
| PClass (id : N) (chars : list N) (ranges : list (N * N)) (cls : list N) (ic inv : bool)
| PAny (id : N).

Definition node_id (e : pexpr) : N :=
  match e with
  | PAction i _ _ | PSeq i _ | PChoice i _ | PLabel i _ _ _ | PAnd i _ | PNot i _ | PAndL i _ | PNotL i _
  | POpt i _ | PStar i _ | PPlus i _ | PRef i _ | PAndCode i _ | PNotCode i _ | PCode i _ _
  | PLit i _ _ | PClass i _ _ _ _ _ | PAny i => i
  end.

(* ---------- action language ---------------------------------------------- *)
Inductive aeff :=
| AEmit (op : N)
| ASetFlag (f : N) (b : bool)
| AFlagsSwitch
| AFlagsPush | AFlagsPop
| ALoopBegin | ALoopEnd
| AIfLoop0 (thn els : list aeff)
| AAddErr
| ANamePush | ANamePop
| ACounterPush | ACounterAdd (k : N) | ACounterAddOffset | ACounterPop
| ACounterPopNamePops
| ACounterPopPlus1OffsetPops
| AOffsetPush | AOffsetPop (k : N) | AOffsetNeed (k : N)
| ACodePush | ACodePop
| ACustomConsume            (* ConsumeCustomDice: advance over the text matched by the custom dice parser *)
| ANop
| AUnknown.

Inductive psum :=
| PFlag (f : N) (v : bool)      (* returns (Config.f == v) *)
| PConstP (b : bool) (err : bool) (* returns b, after adding an error when err *)
| PCustomP                        (* PrepareCustomDice: false when no custom dice is registered *)
| PUnknownP.

(* flags: 0 wod 1 coc 2 fate 3 dc 4 disableBitwise 5 disableStmts 6 disableNDice *)
Definition flags := list bool.
Definition getf (fl : flags) (f : N) : bool := nth (N.to_nat f) fl false.
Fixpoint setf (fl : flags) (f : nat) (b : bool) : flags :=
  match fl, f with
  | [], _ => []
  | _ :: r, O => b :: r
  | x :: r, S f' => x :: setf r f' b
  end.

(* ---------- state ---------------------------------------------------------- *)
Record pt := { off : N; rn : N; w : N; line : N; col : N }.

Record pst := {
  cur : pt;
  memo1 : PositiveMap.t (bool * pt);
  memo2 : PositiveMap.t (bool * pt);
  skip : bool;
  errs : N;
  cnt : N;
  inv : bool;                 (* maxFailInvertExpected *)
  mf : N * N * N;             (* maxFailPos: offset, line, col *)
  cfg : flags;
  fstack : list flags;
  loopLayer : N;
  loopSaves : list N;         (* loopLayer saved by CodePush *)
  names : N;                  (* depth of varnameStack *)
  counters : list N;          (* counterStack *)
  jmps : N;                   (* depth of jmpStack *)
  emitted : list N;           (* opcodes possibly emitted, newest first *)
  cap_id : N * N;             (* span of the last `id:` label *)
  cap_on : N * N;             (* span of the last `on:` label *)
  panic : bool;               (* a Go panic would have happened (pop of an empty helper stack) *)
  unknown : bool;             (* an untranslated action/predicate was executed *)
  fuelout : bool;
}.

Definition upd_cur (s : pst) (p : pt) : pst :=
  {| cur := p; memo1 := memo1 s; memo2 := memo2 s; skip := skip s; errs := errs s; cnt := cnt s; inv := inv s; mf := mf s;
     cfg := cfg s; fstack := fstack s; loopLayer := loopLayer s; loopSaves := loopSaves s; names := names s;
     counters := counters s; jmps := jmps s; emitted := emitted s; cap_id := cap_id s; cap_on := cap_on s;
     panic := panic s; unknown := unknown s; fuelout := fuelout s |}.
Definition upd_skip (s : pst) (b : bool) : pst :=
  {| cur := cur s; memo1 := memo1 s; memo2 := memo2 s; skip := b; errs := errs s; cnt := cnt s; inv := inv s; mf := mf s;
     cfg := cfg s; fstack := fstack s; loopLayer := loopLayer s; loopSaves := loopSaves s; names := names s;
     counters := counters s; jmps := jmps s; emitted := emitted s; cap_id := cap_id s; cap_on := cap_on s;
     panic := panic s; unknown := unknown s; fuelout := fuelout s |}.
Definition upd_inv (s : pst) (b : bool) : pst :=
  {| cur := cur s; memo1 := memo1 s; memo2 := memo2 s; skip := skip s; errs := errs s; cnt := cnt s; inv := b; mf := mf s;
     cfg := cfg s; fstack := fstack s; loopLayer := loopLayer s; loopSaves := loopSaves s; names := names s;
     counters := counters s; jmps := jmps s; emitted := emitted s; cap_id := cap_id s; cap_on := cap_on s;
     panic := panic s; unknown := unknown s; fuelout := fuelout s |}.
Definition upd_mf (s : pst) (m : N * N * N) : pst :=
  {| cur := cur s; memo1 := memo1 s; memo2 := memo2 s; skip := skip s; errs := errs s; cnt := cnt s; inv := inv s; mf := m;
     cfg := cfg s; fstack := fstack s; loopLayer := loopLayer s; loopSaves := loopSaves s; names := names s;
     counters := counters s; jmps := jmps s; emitted := emitted s; cap_id := cap_id s; cap_on := cap_on s;
     panic := panic s; unknown := unknown s; fuelout := fuelout s |}.
Definition add_err (s : pst) : pst :=
  {| cur := cur s; memo1 := memo1 s; memo2 := memo2 s; skip := skip s; errs := errs s + 1; cnt := cnt s; inv := inv s; mf := mf s;
     cfg := cfg s; fstack := fstack s; loopLayer := loopLayer s; loopSaves := loopSaves s; names := names s;
     counters := counters s; jmps := jmps s; emitted := emitted s; cap_id := cap_id s; cap_on := cap_on s;
     panic := panic s; unknown := unknown s; fuelout := fuelout s |}.
Definition tick (s : pst) : pst :=
  {| cur := cur s; memo1 := memo1 s; memo2 := memo2 s; skip := skip s; errs := errs s; cnt := cnt s + 1; inv := inv s; mf := mf s;
     cfg := cfg s; fstack := fstack s; loopLayer := loopLayer s; loopSaves := loopSaves s; names := names s;
     counters := counters s; jmps := jmps s; emitted := emitted s; cap_id := cap_id s; cap_on := cap_on s;
     panic := panic s; unknown := unknown s; fuelout := fuelout s |}.
Definition upd_memo (s : pst) (m1 m2 : PositiveMap.t (bool * pt)) : pst :=
  {| cur := cur s; memo1 := m1; memo2 := m2; skip := skip s; errs := errs s; cnt := cnt s; inv := inv s; mf := mf s;
     cfg := cfg s; fstack := fstack s; loopLayer := loopLayer s; loopSaves := loopSaves s; names := names s;
     counters := counters s; jmps := jmps s; emitted := emitted s; cap_id := cap_id s; cap_on := cap_on s;
     panic := panic s; unknown := unknown s; fuelout := fuelout s |}.
(* the parser-data part (everything actions touch) *)
Record pdata := {
  d_cfg : flags; d_fstack : list flags; d_loop : N; d_saves : list N; d_names : N; d_counters : list N; d_jmps : N;
  d_emitted : list N; d_errs : N; d_panic : bool; d_unknown : bool }.
Definition get_data (s : pst) : pdata :=
  {| d_cfg := cfg s; d_fstack := fstack s; d_loop := loopLayer s; d_saves := loopSaves s; d_names := names s;
     d_counters := counters s; d_jmps := jmps s; d_emitted := emitted s; d_errs := errs s; d_panic := panic s;
     d_unknown := unknown s |}.
Definition put_data (s : pst) (d : pdata) : pst :=
  {| cur := cur s; memo1 := memo1 s; memo2 := memo2 s; skip := skip s; errs := d_errs d; cnt := cnt s; inv := inv s; mf := mf s;
     cfg := d_cfg d; fstack := d_fstack d; loopLayer := d_loop d; loopSaves := d_saves d; names := d_names d;
     counters := d_counters d; jmps := d_jmps d; emitted := d_emitted d; cap_id := cap_id s; cap_on := cap_on s;
     panic := d_panic d; unknown := d_unknown d; fuelout := fuelout s |}.
Definition upd_caps (s : pst) (ci co : N * N) : pst :=
  {| cur := cur s; memo1 := memo1 s; memo2 := memo2 s; skip := skip s; errs := errs s; cnt := cnt s; inv := inv s; mf := mf s;
     cfg := cfg s; fstack := fstack s; loopLayer := loopLayer s; loopSaves := loopSaves s; names := names s;
     counters := counters s; jmps := jmps s; emitted := emitted s; cap_id := ci; cap_on := co;
     panic := panic s; unknown := unknown s; fuelout := fuelout s |}.
Definition set_fuelout (s : pst) : pst :=
  {| cur := cur s; memo1 := memo1 s; memo2 := memo2 s; skip := skip s; errs := errs s; cnt := cnt s; inv := inv s; mf := mf s;
     cfg := cfg s; fstack := fstack s; loopLayer := loopLayer s; loopSaves := loopSaves s; names := names s;
     counters := counters s; jmps := jmps s; emitted := emitted s; cap_id := cap_id s; cap_on := cap_on s;
     panic := panic s; unknown := unknown s; fuelout := true |}.

(* ---------- UTF-8 (Go's utf8.DecodeRune) ---------------------------------- *)
Definition RuneError : N := 65533.

Section Input.
  Variable input : PositiveMap.t N.     (* byte at offset o stored under key o+1 *)
  Variable ilen : N.
  (* registered custom dice parsers as a function of the byte offset: Some len = the first registered parser
     that matches at that offset matches len > 0 bytes; None = nothing matches (always None when no custom dice
     is registered). Deterministic for a fixed input, like the Go matchers. *)
  Variable cmatch : N -> option N.
  Definition byte_at (o : N) : option N := if o <? ilen then PositiveMap.find (N.succ_pos o) input else None.

  Definition cont (b : N) : bool := (128 <=? b) && (b <=? 191).
  Definition decode (o : N) : N * N :=
    match byte_at o with
    | None => (RuneError, 0)
    | Some b0 =>
      if b0 <? 128 then (b0, 1)
      else if b0 <? 194 then (RuneError, 1)
      else if b0 <? 224 then
        match byte_at (o + 1) with
        | Some b1 => if cont b1 then ((b0 - 192) * 64 + (b1 - 128), 2) else (RuneError, 1)
        | None => (RuneError, 1) end
      else if b0 <? 240 then
        match byte_at (o + 1), byte_at (o + 2) with
        | Some b1, Some b2 =>
          let lo := if b0 =? 224 then 160 else 128 in
          let hi_ := if b0 =? 237 then 159 else 191 in
          if (lo <=? b1) && (b1 <=? hi_) && cont b2
          then ((b0 - 224) * 4096 + (b1 - 128) * 64 + (b2 - 128), 3) else (RuneError, 1)
        | _, _ => (RuneError, 1) end
      else if b0 <? 245 then
        match byte_at (o + 1), byte_at (o + 2), byte_at (o + 3) with
        | Some b1, Some b2, Some b3 =>
          let lo := if b0 =? 240 then 144 else 128 in
          let hi_ := if b0 =? 244 then 143 else 191 in
          if (lo <=? b1) && (b1 <=? hi_) && cont b2 && cont b3
          then ((b0 - 240) * 262144 + (b1 - 128) * 4096 + (b2 - 128) * 64 + (b3 - 128), 4) else (RuneError, 1)
        | _, _, _ => (RuneError, 1) end
      else (RuneError, 1)
    end.

  (* read: offset += previous width; decode; col++; newline bumps the line and zeroes col;
     an invalid byte records an error *)
  Definition read (s : pst) : pst :=
    let p := cur s in
    let o := off p + w p in
    let '(r, n) := decode o in
    let p' := if r =? 10 then {| off := o; rn := r; w := n; line := line p + 1; col := 0 |}
              else {| off := o; rn := r; w := n; line := line p; col := col p + 1 |} in
    let s' := upd_cur s p' in
    if (r =? RuneError) && (n =? 1) then add_err s' else s'.

  Definition restore (s : pst) (p : pt) : pst := if off p =? off (cur s) then s else upd_cur s p.
  Definition at_eof (p : pt) : bool := (rn p =? RuneError) && (w p =? 0).

  (* failAt(matched, pos) *)
  Definition fail_at (matched : bool) (p : pt) (s : pst) : pst :=
    if Bool.eqb matched (inv s) then
      let '(mo, _, _) := mf s in
      if mo <? off p then upd_mf s (off p, line p, col p) else s
    else s.

  (* ---------- tables supplied by the generated file ----------------------- *)
  Variable rules : list pexpr.
  Variable classes : list (list (N * N * N)).
  Variable acts : list (list aeff).   (* by function index *)
  Variable preds : list psum.

  (* unicode.ToLower restricted to what the grammar's ignoreCase literals need: ASCII,
     Latin-1 and the simple +32 / +1 cases are enough for letters a..z; other runes are
     compared unchanged (the generated grammar only uses ignoreCase on ASCII literals —
     checked by the translator) *)
  Definition to_lower (r : N) : N := if (65 <=? r) && (r <=? 90) then r + 32 else r.

  Fixpoint in_ranges (r : N) (l : list (N * N)) : bool :=
    match l with [] => false | (a, b) :: t => if (a <=? r) && (r <=? b) then true else in_ranges r t end.
  Fixpoint in_table (r : N) (l : list (N * N * N)) : bool :=
    match l with
    | [] => false
    | (a, b, st) :: t => if (a <=? r) && (r <=? b) && (((r - a) mod st) =? 0) then true else in_table r t
    end.
  Definition in_class (r : N) (c : N) : bool := in_table r (nth (N.to_nat c) classes []).
  Fixpoint in_any_class (r : N) (cs : list N) : bool :=
    match cs with [] => false | c :: t => if in_class r c then true else in_any_class r t end.
  Fixpoint mem_N (r : N) (l : list N) : bool :=
    match l with [] => false | x :: t => if r =? x then true else mem_N r t end.

  (* ---------- action / predicate execution -------------------------------- *)
  Definition d_panic_set (d : pdata) : pdata :=
    {| d_cfg := d_cfg d; d_fstack := d_fstack d; d_loop := d_loop d; d_saves := d_saves d; d_names := d_names d;
       d_counters := d_counters d; d_jmps := d_jmps d; d_emitted := d_emitted d; d_errs := d_errs d; d_panic := true;
       d_unknown := d_unknown d |}.

  (* text of a captured span equals a literal? *)
  Fixpoint span_is (o : N) (l : list N) : bool :=
    match l with
    | [] => true
    | c :: r => match byte_at o with Some b => if b =? c then span_is (o + 1) r else false | None => false end
    end.
  Definition span_eq (sp : N * N) (l : list N) : bool :=
    let '(a, b) := sp in if (b - a) =? N.of_nat (List.length l) then span_is a l else false.

  Definition s_wod := [119; 111; 100].
  Definition s_coc := [99; 111; 99].
  Definition s_fate := [102; 97; 116; 101].
  Definition s_dc := [100; 111; 117; 98; 108; 101; 99; 114; 111; 115; 115].
  Definition s_true := [116; 114; 117; 101].

  Fixpoint repeat_pop (k : nat) (n : N) : option N :=
    match k with O => Some n | S k' => if n =? 0 then None else repeat_pop k' (n - 1) end.

  Fixpoint run_effs (fuel : nat) (cid con : N * N) (curoff : N) (l : list aeff) (d : pdata) : pdata :=
    match fuel with O => d_panic_set d | S fuel' =>
    match l with
    | [] => d
    | a :: rest =>
      let k (d' : pdata) := run_effs fuel' cid con curoff rest d' in
      let mk cfg' fst' lp' sv' nm' ct' jm' em' er' un' :=
          {| d_cfg := cfg'; d_fstack := fst'; d_loop := lp'; d_saves := sv'; d_names := nm'; d_counters := ct';
             d_jmps := jm'; d_emitted := em'; d_errs := er'; d_panic := d_panic d; d_unknown := un' |} in
      let same := mk (d_cfg d) (d_fstack d) (d_loop d) (d_saves d) (d_names d) (d_counters d) (d_jmps d) (d_emitted d) (d_errs d) (d_unknown d) in
      match a with
      | AEmit op => k (mk (d_cfg d) (d_fstack d) (d_loop d) (d_saves d) (d_names d) (d_counters d) (d_jmps d) (op :: d_emitted d) (d_errs d) (d_unknown d))
      | ASetFlag f b => k (mk (setf (d_cfg d) (N.to_nat f) b) (d_fstack d) (d_loop d) (d_saves d) (d_names d) (d_counters d) (d_jmps d) (d_emitted d) (d_errs d) (d_unknown d))
      | AFlagsSwitch =>
        let onv := span_eq con s_true in
        let f := if span_eq cid s_wod then Some 0%nat else if span_eq cid s_coc then Some 1%nat
                 else if span_eq cid s_fate then Some 2%nat else if span_eq cid s_dc then Some 3%nat else None in
        let cfg' := match f with Some i => setf (d_cfg d) i onv | None => d_cfg d end in
        k (mk cfg' (d_fstack d) (d_loop d) (d_saves d) (d_names d) (d_counters d) (d_jmps d) (d_emitted d) (d_errs d) (d_unknown d))
      | AFlagsPush => k (mk (d_cfg d) (d_cfg d :: d_fstack d) (d_loop d) (d_saves d) (d_names d) (d_counters d) (d_jmps d) (d_emitted d) (d_errs d) (d_unknown d))
      | AFlagsPop =>
        match d_fstack d with
        | c :: r => k (mk c r (d_loop d) (d_saves d) (d_names d) (d_counters d) (d_jmps d) (d_emitted d) (d_errs d) (d_unknown d))
        | [] => d_panic_set d
        end
      | ALoopBegin => k (mk (d_cfg d) (d_fstack d) (d_loop d + 1) (d_saves d) (d_names d) (d_counters d) (d_jmps d) (d_emitted d) (d_errs d) (d_unknown d))
      | ALoopEnd => k (mk (d_cfg d) (d_fstack d) (d_loop d - 1) (d_saves d) (d_names d) (d_counters d) (d_jmps d) (d_emitted d) (d_errs d) (d_unknown d))
      | AIfLoop0 thn els =>
        if d_loop d =? 0 then run_effs fuel' cid con curoff (thn ++ rest) d else run_effs fuel' cid con curoff (els ++ rest) d
      | AAddErr => k (mk (d_cfg d) (d_fstack d) (d_loop d) (d_saves d) (d_names d) (d_counters d) (d_jmps d) (d_emitted d) (d_errs d + 1) (d_unknown d))
      | ANamePush => k (mk (d_cfg d) (d_fstack d) (d_loop d) (d_saves d) (d_names d + 1) (d_counters d) (d_jmps d) (d_emitted d) (d_errs d) (d_unknown d))
      | ANamePop =>
        if d_names d =? 0 then d_panic_set d
        else k (mk (d_cfg d) (d_fstack d) (d_loop d) (d_saves d) (d_names d - 1) (d_counters d) (d_jmps d) (d_emitted d) (d_errs d) (d_unknown d))
      | ACounterPush => k (mk (d_cfg d) (d_fstack d) (d_loop d) (d_saves d) (d_names d) (0 :: d_counters d) (d_jmps d) (d_emitted d) (d_errs d) (d_unknown d))
      | ACounterAdd n =>
        match d_counters d with
        | c :: r => k (mk (d_cfg d) (d_fstack d) (d_loop d) (d_saves d) (d_names d) ((c + n) :: r) (d_jmps d) (d_emitted d) (d_errs d) (d_unknown d))
        | [] => k same
        end
      | ACounterAddOffset =>
        match d_counters d with
        | c :: r => k (mk (d_cfg d) (d_fstack d) (d_loop d) (d_saves d) (d_names d) ((c + curoff) :: r) (d_jmps d) (d_emitted d) (d_errs d) (d_unknown d))
        | [] => k same
        end
      | ACounterPop =>
        match d_counters d with
        | _ :: r => k (mk (d_cfg d) (d_fstack d) (d_loop d) (d_saves d) (d_names d) r (d_jmps d) (d_emitted d) (d_errs d) (d_unknown d))
        | [] => d_panic_set d
        end
      | ACounterPopNamePops =>
        match d_counters d with
        | c :: r =>
          match repeat_pop (N.to_nat c) (d_names d) with
          | Some nm => k (mk (d_cfg d) (d_fstack d) (d_loop d) (d_saves d) nm r (d_jmps d) (d_emitted d) (d_errs d) (d_unknown d))
          | None => d_panic_set d
          end
        | [] => d_panic_set d
        end
      | ACounterPopPlus1OffsetPops =>
        match d_counters d with
        | c :: r =>
          match repeat_pop (N.to_nat (c + 1)) (d_jmps d) with
          | Some jm => k (mk (d_cfg d) (d_fstack d) (d_loop d) (d_saves d) (d_names d) r jm (d_emitted d) (d_errs d) (d_unknown d))
          | None => d_panic_set d
          end
        | [] => d_panic_set d
        end
      | AOffsetPush => k (mk (d_cfg d) (d_fstack d) (d_loop d) (d_saves d) (d_names d) (d_counters d) (d_jmps d + 1) (d_emitted d) (d_errs d) (d_unknown d))
      | AOffsetPop n =>
        if d_jmps d <? n then d_panic_set d
        else k (mk (d_cfg d) (d_fstack d) (d_loop d) (d_saves d) (d_names d) (d_counters d) (d_jmps d - n) (d_emitted d) (d_errs d) (d_unknown d))
      | AOffsetNeed n => if d_jmps d <? n then d_panic_set d else k same
      | ACodePush => k (mk (d_cfg d) (d_fstack d) 0 (d_loop d :: d_saves d) (d_names d) (d_counters d) (d_jmps d) (d_emitted d) (d_errs d) (d_unknown d))
      | ACodePop =>
        match d_saves d with
        | lp :: r => k (mk (d_cfg d) (d_fstack d) lp r (d_names d) (d_counters d) (d_jmps d) (d_emitted d) (d_errs d) (d_unknown d))
        | [] => d_panic_set d
        end
      | ANop => k same
      | ACustomConsume => k same
      | AUnknown => k (mk (d_cfg d) (d_fstack d) (d_loop d) (d_saves d) (d_names d) (d_counters d) (d_jmps d) (d_emitted d) (d_errs d) true)
      end
    end end.

  Fixpoint has_consume (l : list aeff) : bool :=
    match l with [] => false | ACustomConsume :: _ => true | _ :: r => has_consume r end.

  (* for p.pt.offset < targetOffset { p.read() } *)
  Fixpoint read_until (fuel : nat) (target : N) (s : pst) : pst :=
    match fuel with
    | O => s
    | S f => if off (cur s) <? target then read_until f target (read s) else s
    end.

  Definition custom_consume (s : pst) : pst :=
    match cmatch (off (cur s)) with
    | Some len => if 0 <? len then read_until (S (N.to_nat len)) (off (cur s) + len) s else s
    | None => s
    end.

  Definition run_action (fn : N) (s : pst) : pst :=
    let effs := nth (N.to_nat fn) acts [AUnknown] in
    let s' := put_data s (run_effs 4096 (cap_id s) (cap_on s) (off (cur s)) effs (get_data s)) in
    if has_consume effs then custom_consume s' else s'.

  Definition run_pred (fn : N) (s : pst) : bool * pst :=
    match nth (N.to_nat fn) preds PUnknownP with
    | PFlag f v => (Bool.eqb (getf (cfg s) f) v, s)
    | PConstP b err => (b, if err then add_err s else s)
    | PCustomP =>
      (* PrepareCustomDice: true when a registered parser matches here; inside a syntactic predicate (skip mode) the
         actions — ConsumeCustomDice included — do not run, so the helper itself advances over the matched text *)
      match cmatch (off (cur s)) with
      | Some len => if 0 <? len then (true, if skip s then custom_consume s else s) else (false, s)
      | None => (false, s)
      end
    | PUnknownP => (false, put_data s (run_effs 2 (0, 0) (0, 0) 0 [AUnknown] (get_data s)))
    end.

  (* ---------- memo ---------------------------------------------------------- *)
  Definition NODES : N := 4096.
  Definition mkey (pos id : N) : positive := N.succ_pos (pos * NODES + id).
  Definition memo_get (s : pst) (id : N) : option (bool * pt) :=
    PositiveMap.find (mkey (off (cur s)) id) (if skip s then memo2 s else memo1 s).
  Definition memo_put (s : pst) (pos id : N) (v : bool * pt) : pst :=
    if skip s then upd_memo s (memo1 s) (PositiveMap.add (mkey pos id) v (memo2 s))
    else upd_memo s (PositiveMap.add (mkey pos id) v (memo1 s)) (memo2 s).

  Fixpoint match_lit (l : list N) (ic : bool) (s : pst) : bool * pst :=
    match l with
    | [] => (true, s)
    | c :: r =>
      let x := if ic then to_lower (rn (cur s)) else rn (cur s) in
      if x =? c then match_lit r ic (read s) else (false, s)
    end.

  (* ---------- the interpreter (parseExprWrap) ------------------------------- *)
  Fixpoint pe (fuel : nat) (e : pexpr) (s0 : pst) {struct fuel} : bool * pst :=
    match fuel with
    | O => (false, set_fuelout s0)
    | S fuel =>
      let s := tick s0 in
      let id := node_id e in
      match memo_get s id with
      | Some (b, p) => (b, restore s p)
      | None =>
        let pos := off (cur s) in
        let '(ok, s1) :=
          match e with
          | PAction _ fn e1 =>
            if skip s then pe fuel e1 s
            else
              let '(ok, s1) := pe fuel e1 s in
              if ok then (true, run_action fn s1) else (false, s1)
          | PSeq _ es =>
            let start := cur s in
            (fix go (l : list pexpr) (st : pst) : bool * pst :=
               match l with
               | [] => (true, st)
               | x :: r => let '(ok, st1) := pe fuel x st in
                           if ok then go r st1 else (false, restore st1 start)
               end) es s
          | PChoice _ es =>
            (fix go (l : list pexpr) (st : pst) : bool * pst :=
               match l with
               | [] => (false, st)
               | x :: r => let '(ok, st1) := pe fuel x st in
                           if ok then (true, st1) else go r st1
               end) es s
          | PLabel _ lab _ e1 =>
            let so := off (cur s) in
            let '(ok, s1) := pe fuel e1 s in
            if ok then
              if skip s1 then (true, s1)
              else if lab =? 1 then (true, upd_caps s1 (so, off (cur s1)) (cap_on s1))
              else if lab =? 2 then (true, upd_caps s1 (cap_id s1) (so, off (cur s1)))
              else (true, s1)
            else (false, s1)
          | PAnd _ e1 =>
            let start := cur s in let sk := skip s in
            let '(ok, s1) := pe fuel e1 (upd_skip s true) in
            (ok, restore (upd_skip s1 sk) start)
          | PAndL _ e1 =>
            let start := cur s in let sk := skip s in
            let '(ok, s1) := pe fuel e1 (upd_skip s true) in
            ((if ok then negb (off (cur s1) =? off start) else false), restore (upd_skip s1 sk) start)
          | PNot _ e1 =>
            let start := cur s in let sk := skip s in
            let '(ok, s1) := pe fuel e1 (upd_inv (upd_skip s true) (negb (inv s))) in
            (negb ok, restore (upd_inv (upd_skip s1 sk) (inv s)) start)
          | PNotL _ e1 =>
            let start := cur s in let sk := skip s in
            let '(ok, s1) := pe fuel e1 (upd_inv (upd_skip s true) (negb (inv s))) in
            ((if ok then false else negb (off (cur s1) =? off start)), restore (upd_inv (upd_skip s1 sk) (inv s)) start)
          | POpt _ e1 => let '(_, s1) := pe fuel e1 s in (true, s1)
          | PStar _ e1 =>
            (fix loop (k : nat) (st : pst) : bool * pst :=
               match k with
               | O => (true, set_fuelout st)
               | S k => let '(ok, st1) := pe fuel e1 st in if ok then loop k st1 else (true, st1)
               end) fuel s
          | PPlus _ e1 =>
            let '(ok, s1) := pe fuel e1 s in
            if ok then
              (fix loop (k : nat) (st : pst) : bool * pst :=
                 match k with
                 | O => (true, set_fuelout st)
                 | S k => let '(ok, st1) := pe fuel e1 st in if ok then loop k st1 else (true, st1)
                 end) fuel s1
            else (false, s1)
          | PRef _ r => pe fuel (nth (N.to_nat r) rules (PAny 0)) s
          | PAndCode _ fn => run_pred fn s
          | PNotCode _ fn => let '(b, s1) := run_pred fn s in (negb b, s1)
          | PCode _ fn ns => if (if ns then false else skip s) then (true, s) else (true, run_action fn s)
          | PLit _ v ic =>
            let start := cur s in
            let '(ok, s1) := match_lit v ic s in
            if ok then (true, fail_at true start s1)
            else (false, restore (fail_at false start s1) start)
          | PClass _ chars ranges cls ic inv_ =>
            let p := cur s in
            if at_eof p then (false, fail_at false p s) else
            let r := if ic then to_lower (rn p) else rn p in
            let hit := if mem_N r chars then true else if in_ranges r ranges then true else in_any_class r cls in
            if xorb hit inv_ then (true, read (fail_at true p s)) else (false, fail_at false p s)
          | PAny _ =>
            let p := cur s in
            if at_eof p then (false, fail_at false p s) else (true, read (fail_at true p s))
          end in
        (ok, memo_put s1 pos id (ok, cur s1))
      end
    end.
End Input.

Definition init_pst (fl : flags) : pst :=
  {| cur := {| off := 0; rn := 0; w := 0; line := 1; col := 0 |};
     memo1 := PositiveMap.empty _; memo2 := PositiveMap.empty _; skip := false; errs := 0; cnt := 0;
     inv := false; mf := (0, 1, 1); cfg := fl; fstack := []; loopLayer := 0; loopSaves := []; names := 0;
     counters := []; jmps := 0; emitted := []; cap_id := (0, 0); cap_on := (0, 0);
     panic := false; unknown := false; fuelout := false |}.

Fixpoint mk_input (l : list N) (i : N) (m : PositiveMap.t N) : PositiveMap.t N :=
  match l with [] => m | b :: r => mk_input r (i + 1) (PositiveMap.add (N.succ_pos i) b m) end.

(* observable result of Parse: start-rule matched?, final offset, ExprCnt, #errors,
   furthest failure (offset,line,col), opcodes possibly emitted, final configuration, flags *)
Record presult := {
  r_ok : bool; r_off : N; r_cnt : N; r_errs : N; r_mf : N * N * N; r_emitted : list N; r_cfg : flags;
  r_panic : bool; r_unknown : bool; r_fuelout : bool }.

Definition parse_custom (cmatch : N -> option N) (rules : list pexpr) (classes : list (list (N * N * N))) (acts : list (list aeff)) (preds : list psum)
           (fuel : nat) (fl : flags) (bytes : list N) : presult :=
  let input := mk_input bytes 0 (PositiveMap.empty _) in
  let ilen := N.of_nat (List.length bytes) in
  let s := read input ilen (init_pst fl) in
  let '(ok, s1) := pe input ilen cmatch rules classes acts preds fuel (nth 0 rules (PAny 0)) s in
  {| r_ok := ok; r_off := off (cur s1); r_cnt := cnt s1; r_errs := errs s1; r_mf := mf s1; r_emitted := emitted s1;
     r_cfg := cfg s1; r_panic := panic s1; r_unknown := unknown s1; r_fuelout := fuelout s1 |}.

(* no custom dice registered *)
Definition parse := parse_custom (fun _ => None).
