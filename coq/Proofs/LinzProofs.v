(* Soundness and completeness of the Wing-Gong linearizability checker of Model/Linz.v
   with respect to the textbook definition of linearizability. *)
From stdpp Require Import gmap.
From Coq Require Import NArith Lia.
From DS Require Import Model.ValueMap Model.Linz.

(* ------------------------------------------------------------------------- *)
(* 1. Textbook definitions                                                    *)
(* ------------------------------------------------------------------------- *)

(* a returned before b was invoked *)
Definition precedes (a b : event) : Prop := (e_ret a < e_inv b)%N.

(* Real-time order, POSITION formulation (the one picked for the main theorem):
   whenever a precedes b, a occurs (strictly) before b in l.  Positions, not `In`,
   so that equal events at different positions are told apart.  Taking i = j shows
   that it also forbids an event preceding itself, which is exactly what the checker
   does (`minimal e pending` tests e against itself), so NO well-formedness
   hypothesis (e_inv < e_ret) is needed. *)
Definition respects_rt (l : list event) : Prop :=
  ∀ i j a b, l !! i = Some a → l !! j = Some b → precedes a b → i < j.

(* the sequential run of the specification along l from s yields the recorded results *)
Fixpoint seq_ok (s : spec) (l : list event) : Prop :=
  match l with
  | [] => True
  | e :: r => (spec_step s (e_op e)).2 = e_res e ∧ seq_ok (spec_step s (e_op e)).1 r
  end.

(* the same, stated with spec_run *)
Lemma seq_ok_spec_run s l : seq_ok s l ↔ (spec_run s (e_op <$> l)).2 = e_res <$> l.
Proof.
  revert s. induction l as [|e r IH]; intros s; [done|].
  rewrite !fmap_cons. cbn [seq_ok spec_run].
  destruct (spec_step s (e_op e)) as [s1 x] eqn:E; cbn [fst snd]. rewrite IH.
  destruct (spec_run s1 (e_op <$> r)) as [s2 xs]; cbn [fst snd]. split.
  - by intros [-> ->].
  - by intros [= -> ->].
Qed.

(* ------------------------------------------------------------------------- *)
(* 2. Basic facts                                                              *)
(* ------------------------------------------------------------------------- *)

Lemma vres_eqb_eq a b : vres_eqb a b = true ↔ a = b.
Proof.
  destruct a, b; simpl; try (split; [done|congruence]);
    rewrite ?andb_true_iff, ?bool_decide_eq_true, ?Bool.eqb_true_iff, ?Nat.eqb_eq;
    naive_solver.
Qed.

Lemma minimal_spec e pending :
  minimal e pending = true ↔ Forall (λ f, ¬ precedes f e) pending.
Proof.
  unfold minimal, precedes. induction pending as [|f p IH]; simpl.
  { split; [constructor|done]. }
  rewrite andb_true_iff, Forall_cons, IH, negb_true_iff, N.ltb_ge. split; intros [? ?]; split; auto; lia.
Qed.

(* recursive characterisation of respects_rt: the head is minimal in the whole list *)
Lemma respects_rt_nil : respects_rt [].
Proof. intros i j a b Hi. by rewrite lookup_nil in Hi. Qed.

Lemma respects_rt_cons a r :
  respects_rt (a :: r) ↔ Forall (λ b, ¬ precedes b a) (a :: r) ∧ respects_rt r.
Proof.
  split.
  - intros H. split.
    + apply Forall_forall. intros b Hb Hp.
      apply elem_of_list_lookup in Hb as [j Hj].
      specialize (H j 0 b a Hj eq_refl Hp). lia.
    + intros i j x y Hi Hj Hp. specialize (H (S i) (S j) x y Hi Hj Hp). lia.
  - intros [Hall Hr] i j x y Hi Hj Hp. destruct j as [|j].
    + simpl in Hj. injection Hj as <-. exfalso.
      rewrite Forall_forall in Hall. apply (Hall x); [|done].
      by apply elem_of_list_lookup_2 in Hi.
    + destruct i as [|i]; [lia|]. simpl in *. specialize (Hr i j x y Hi Hj Hp). lia.
Qed.

(* equivalent "decomposition" formulation *)
Lemma respects_rt_decomp l :
  respects_rt l ↔
  (∀ a, a ∈ l → ¬ precedes a a) ∧
  (∀ l1 a l2 b l3, l = l1 ++ a :: l2 ++ b :: l3 → ¬ precedes b a).
Proof.
  split.
  - intros H. split.
    + intros a [i Hi]%elem_of_list_lookup Hp. specialize (H i i a a Hi Hi Hp). lia.
    + intros l1 a l2 b l3 -> Hp.
      assert ((l1 ++ a :: l2 ++ b :: l3) !! length l1 = Some a) as Ha.
      { by rewrite lookup_app_r, Nat.sub_diag by lia. }
      assert ((l1 ++ a :: l2 ++ b :: l3) !! (length l1 + S (length l2)) = Some b) as Hb.
      { rewrite lookup_app_r by lia.
        replace (length l1 + S (length l2) - length l1) with (S (length l2)) by lia. simpl.
        by rewrite lookup_app_r, Nat.sub_diag by lia. }
      specialize (H _ _ b a Hb Ha Hp). lia.
  - intros [Hself Hdec] i j a b Hi Hj Hp.
    destruct (decide (i < j)) as [|Hge]; [done|]. exfalso.
    destruct (decide (i = j)) as [->|Hne].
    { rewrite Hi in Hj. injection Hj as <-. apply (Hself a); [|done]. by eapply elem_of_list_lookup_2. }
    assert (j < i) as Hlt by lia.
    (* l = take j l ++ b :: (middle) ++ a :: rest *)
    apply (Hdec (take j l) b (take (i - S j) (drop (S j) l)) a (drop (S i) l)); [|done].
    rewrite <-(take_drop_middle l j b Hj) at 1. f_equal. f_equal.
    assert (drop (S j) l !! (i - S j) = Some a) as Ha.
    { rewrite lookup_drop. by replace (S j + (i - S j)) with i by lia. }
    rewrite <-(take_drop_middle _ _ a Ha) at 1. f_equal. f_equal.
    rewrite drop_drop. f_equal. lia.
Qed.

(* picks enumerates exactly the decompositions of l up to permutation *)
Lemma picks_sound {A} (l : list A) x rest : (x, rest) ∈ picks l → x :: rest ≡ₚ l.
Proof.
  revert x rest. induction l as [|y l IH]; intros x rest; simpl.
  { by intros ?%elem_of_nil. }
  rewrite elem_of_cons, elem_of_list_fmap. intros [[= -> ->]|([x' rest'] & [= -> ->] & Hin)]; [done|].
  simpl. rewrite Permutation_swap. f_equiv. by apply IH.
Qed.

Lemma picks_elem {A} (l : list A) x : x ∈ l → ∃ rest, (x, rest) ∈ picks l.
Proof.
  induction l as [|y l IH]; [by intros ?%elem_of_nil|].
  rewrite elem_of_cons. intros [->|Hin]; simpl.
  - eexists. by left.
  - destruct (IH Hin) as [rest Hr]. exists (y :: rest). right.
    apply elem_of_list_fmap. by exists (x, rest).
Qed.

Lemma picks_complete {A} (l : list A) x r :
  x :: r ≡ₚ l → ∃ rest, (x, rest) ∈ picks l ∧ rest ≡ₚ r.
Proof.
  intros Hp. assert (x ∈ l) as Hin by (rewrite <-Hp; by left).
  destruct (picks_elem l x Hin) as [rest Hr]. exists rest. split; [done|].
  apply picks_sound in Hr. apply (inj (x ::.)). by rewrite Hr, Hp.
Qed.

Lemma picks_iff {A} (l : list A) x r :
  x :: r ≡ₚ l ↔ ∃ rest, (x, rest) ∈ picks l ∧ rest ≡ₚ r.
Proof.
  split; [apply picks_complete|]. intros (rest & Hin & <-). by apply picks_sound.
Qed.

(* ------------------------------------------------------------------------- *)
(* 3. The search                                                               *)
(* ------------------------------------------------------------------------- *)

Definition try_ok (f : nat) (s : spec) (pending : list event) (p : event * list event) : bool :=
  minimal p.1 pending &&
  vres_eqb (spec_step s (e_op p.1)).2 (e_res p.1) &&
  lin_search f (spec_step s (e_op p.1)).1 p.2.

Lemma lin_search_S f s x p :
  lin_search (S f) s (x :: p) = existsb (try_ok f s (x :: p)) (picks (x :: p)).
Proof.
  cbn -[picks minimal spec_step vres_eqb].
  generalize (picks (x :: p)). intros ps.
  induction ps as [|[e rest] ps IH]; [done|].
  cbn -[picks minimal spec_step vres_eqb]. rewrite <-IH. unfold try_ok; cbn [fst snd].
  destruct (minimal e (x :: p)); cbn [andb orb]; [|done].
  destruct (spec_step s (e_op e)) as [s' r]; cbn [fst snd].
  destruct (vres_eqb r (e_res e)); cbn [andb orb]; [|done].
  by destruct (lin_search f s' rest).
Qed.

Theorem lin_search_correct fuel : ∀ s pending,
  length pending ≤ fuel →
  lin_search fuel s pending = true ↔
  ∃ l, l ≡ₚ pending ∧ respects_rt l ∧ seq_ok s l.
Proof.
  induction fuel as [|f IH]; intros s pending Hlen.
  { destruct pending as [|x p]; [|simpl in Hlen; lia]. simpl. split; [|done].
    intros _. exists []. split_and!; [done|apply respects_rt_nil|done]. }
  destruct pending as [|x p].
  { simpl. split; [|done]. intros _. exists []. split_and!; [done|apply respects_rt_nil|done]. }
  rewrite lin_search_S, existsb_exists. split.
  - (* soundness *)
    intros ([e rest] & Hin%elem_of_list_In & Hok). unfold try_ok in Hok; cbn [fst snd] in Hok.
    apply andb_true_iff in Hok as [[Hmin Hres]%andb_true_iff Hrec].
    apply picks_sound in Hin.
    assert (length rest ≤ f) as Hlen'.
    { apply Permutation_length in Hin. simpl in *. lia. }
    apply (IH _ _ Hlen') in Hrec as (l & Hperm & Hrt & Hseq).
    exists (e :: l). split_and!.
    + by rewrite Hperm.
    + apply respects_rt_cons. split; [|done].
      apply minimal_spec in Hmin. by rewrite Hperm, Hin.
    + simpl. split; [by apply vres_eqb_eq|done].
  - (* completeness *)
    intros (l & Hperm & Hrt & Hseq). destruct l as [|a r].
    { apply Permutation_nil_l in Hperm. done. }
    apply respects_rt_cons in Hrt as [Hmin Hrt]. simpl in Hseq. destruct Hseq as [Hres Hseq].
    destruct (picks_complete _ _ _ Hperm) as (rest & Hin & Hrest).
    exists (a, rest). split; [by apply elem_of_list_In|].
    unfold try_ok; cbn [fst snd]. rewrite !andb_true_iff. split_and!.
    + apply minimal_spec. by rewrite <-Hperm.
    + by apply vres_eqb_eq.
    + apply IH.
      * apply Permutation_length in Hperm. apply Permutation_length in Hrest.
        simpl in *. lia.
      * exists r. by split_and!.
Qed.

Theorem linearizable_correct h :
  linearizable h = true ↔ ∃ l, l ≡ₚ h ∧ respects_rt l ∧ seq_ok ∅ l.
Proof. unfold linearizable. by apply lin_search_correct. Qed.

(* the same with spec_run and the decomposition formulation of real-time order *)
Corollary linearizable_correct' h :
  linearizable h = true ↔
  ∃ l, l ≡ₚ h ∧
       (∀ a, a ∈ l → ¬ precedes a a) ∧
       (∀ l1 a l2 b l3, l = l1 ++ a :: l2 ++ b :: l3 → ¬ precedes b a) ∧
       (spec_run ∅ (e_op <$> l)).2 = e_res <$> l.
Proof.
  rewrite linearizable_correct. split; intros (l & Hp & H).
  - exists l. split; [done|]. destruct H as [Hrt Hs].
    apply respects_rt_decomp in Hrt as [? ?]. by apply seq_ok_spec_run in Hs.
  - exists l. split; [done|]. destruct H as (H1 & H2 & Hs). split.
    + by apply respects_rt_decomp.
    + by apply seq_ok_spec_run.
Qed.

(* ------------------------------------------------------------------------- *)
(* 4. Non-vacuity                                                              *)
(* ------------------------------------------------------------------------- *)

Local Open Scope N_scope.

(* Store 1 1 [0,3] overlaps Load 1 = None [1,2]; Load 1 = Some 1 [4,5] comes after both.
   Accepted; the witness order (Load None, Store, Load Some) differs from the list order. *)
Definition h_good : list event :=
  [ {| e_op := OStore 1 1; e_res := RNone;          e_inv := 0; e_ret := 3 |};
    {| e_op := OLoad 1;    e_res := ROpt None;      e_inv := 1; e_ret := 2 |};
    {| e_op := OLoad 1;    e_res := ROpt (Some 1);  e_inv := 4; e_ret := 5 |} ].

(* Store 1 1 returned (ticket 1) before Load 1 was invoked (ticket 2), yet Load saw nothing *)
Definition h_bad : list event :=
  [ {| e_op := OStore 1 1; e_res := RNone;     e_inv := 0; e_ret := 1 |};
    {| e_op := OLoad 1;    e_res := ROpt None; e_inv := 2; e_ret := 3 |} ].

(* a stale read after a fresh one, with an overlapping Store: also rejected *)
Definition h_bad3 : list event :=
  [ {| e_op := OStore 1 1; e_res := RNone;         e_inv := 0; e_ret := 4 |};
    {| e_op := OLoad 1;    e_res := ROpt (Some 1); e_inv := 1; e_ret := 2 |};
    {| e_op := OLoad 1;    e_res := ROpt None;     e_inv := 3; e_ret := 5 |} ].

Example h_good_accepted : linearizable h_good = true.
Proof. by vm_compute. Qed.
Example h_bad_rejected : linearizable h_bad = false.
Proof. by vm_compute. Qed.
Example h_bad3_rejected : linearizable h_bad3 = false.
Proof. by vm_compute. Qed.

(* through the theorem: h_good has a textbook linearization, h_bad has none *)
Example h_good_linearization : ∃ l, l ≡ₚ h_good ∧ respects_rt l ∧ seq_ok ∅ l.
Proof. apply linearizable_correct, h_good_accepted. Qed.
Example h_bad_no_linearization : ¬ ∃ l, l ≡ₚ h_bad ∧ respects_rt l ∧ seq_ok ∅ l.
Proof. intros H%linearizable_correct. by rewrite h_bad_rejected in H. Qed.

Print Assumptions vres_eqb_eq.
Print Assumptions minimal_spec.
Print Assumptions picks_iff.
Print Assumptions lin_search_correct.
Print Assumptions linearizable_correct.
Print Assumptions linearizable_correct'.
Print Assumptions h_bad_no_linearization.
