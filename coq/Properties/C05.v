(* C05 — dice are unbiased for every number of sides.
   Only statements + `exact lemma` + Print Assumptions live here. *)
From Coq Require Import NArith ZArith List.
From DS Require Import Model.PCG Model.Roll Proofs.RollProofs.
Open Scope N_scope.

(* every die lies in 1..n, for every supported size, every mode, every generator state *)
Theorem C05_roll_range :
  forall (fuel : nat) (d mode : Z) (s s' : pcg) (r : Z),
    (1 <= d <= MaxInt64 - 1)%Z ->
    roll_pcg fuel d mode s = Done (r, s') -> (1 <= r <= d)%Z.
Proof. intros fuel d mode s s' r. exact (roll_range pcg pcg_next pcg_next_word fuel d mode s r s'). Qed.
Print Assumptions C05_roll_range.

(* exact counting: the accepted 64-bit words mapping to face k are exactly
   { j*n + (k-1) | j < A/n }, pairwise distinct, where A = acc_bound n is a multiple of n.
   Hence every face 1..n has the same number A/n of accepted words. *)
Theorem C05_roll_uniform :
  forall n k v : N, 0 < n -> n <= MaxSides -> 1 <= k <= n ->
    acc_bound n = n * (acc_bound n / n) /\
    ((v < acc_bound n /\ face n v = k) <->
     (exists j, j < acc_bound n / n /\ v = j * n + (k - 1))) /\
    (forall j1 j2, j1 * n + (k - 1) = j2 * n + (k - 1) -> j1 = j2).
Proof.
  intros n k v Hn Hb Hk.
  assert (Hlt : n < W64) by (unfold MaxSides in Hb; rewrite W64_val; Lia.lia).
  split; [exact (acc_bound_multiple n Hn Hlt)|].
  split; [exact (face_preimages n k v Hn Hlt Hk)|].
  intros j1 j2. exact (face_preimage_unique n k j1 j2 Hn Hk).
Qed.
Print Assumptions C05_roll_uniform.

(* the code's pre-test `v > MaxUint64 - n` never changes the outcome *)
Theorem C05_fast_check_sound :
  forall n v : N, 0 < n -> n < W64 -> v <= MaxUint64 - n -> v < ceiling n.
Proof. exact fast_check_sound. Qed.
Print Assumptions C05_fast_check_sound.

(* more than half of all words are accepted: expected number of draws < 2 *)
Theorem C05_accept_more_than_half :
  forall n : N, 0 < n -> n <= MaxSides -> W64 < 2 * acc_bound n.
Proof. exact accept_more_than_half. Qed.
Print Assumptions C05_accept_more_than_half.

(* _roll64 on the PCG source returns the face of the FIRST accepted word of the
   stream, consuming exactly the words up to and including it *)
Theorem C05_roll_is_first_accepted :
  forall (fuel : nat) (n : N) (s : pcg), 0 < n -> n <= MaxSides ->
    roll64_u pcg_next fuel n s = map_face pcg n (first_accepted pcg_next fuel n s).
Proof. intros fuel n s. exact (roll64_u_first_accepted pcg pcg_next pcg_next_word fuel n s). Qed.
Print Assumptions C05_roll_is_first_accepted.

Theorem C05_first_accepted_consumes_prefix :
  forall (fuel : nat) (n : N) (s s' : pcg) (v : N),
    first_accepted pcg_next fuel n s = Done (v, s') ->
    exists k, (k <= fuel)%nat /\ s' = iter_next pcg pcg_next (S k) s /\
              v = fst (pcg_next (iter_next pcg pcg_next k s)) /\
              forall j, (j < k)%nat -> accepted n (fst (pcg_next (iter_next pcg pcg_next j s))) = false.
Proof. intros fuel n s s' v. exact (first_accepted_prefix pcg pcg_next pcg_next_word fuel n s v s'). Qed.
Print Assumptions C05_first_accepted_consumes_prefix.

(* the generator: the two-word code is the 128-bit LCG; states stay 64+64 bit; marshal round-trips *)
Theorem C05_pcg_is_lcg128 :
  forall s, pcg_wf s -> pcg_val (pcg_step s) = (pcg_val s * multiplier + increment) mod W128.
Proof. exact pcg_step_is_lcg128. Qed.
Print Assumptions C05_pcg_is_lcg128.

Theorem C05_minmax_modes_draw_nothing :
  forall fuel d s,
    roll_pcg fuel d (-1) s = Done ((if (d =? 0)%Z then 0 else 1)%Z, s) /\
    roll_pcg fuel d 1 s = Done (d, s).
Proof. intros fuel d s. exact (roll_minmax_consumes_nothing pcg pcg_next fuel d s). Qed.
Print Assumptions C05_minmax_modes_draw_nothing.

(* stated boundary: the largest int64 is not a usable size (the code answers 0) *)
Theorem C05_maxint_is_unsupported :
  forall fuel s, roll_pcg fuel MaxInt64 0 s = Done (0%Z, s).
Proof. intros fuel s. exact (roll_maxint_returns_zero pcg pcg_next fuel s). Qed.
Print Assumptions C05_maxint_is_unsupported.

(* non-vacuity: concrete instances of the hypotheses / a concrete run *)
Example C05_nonvacuous_range :
  exists r s', roll_pcg 8 6%Z 0%Z {| hi := 1; lo := 2 |} = Done (r, s') /\ (1 <= r <= 6)%Z.
Proof. vm_compute. eexists; eexists; split; [reflexivity|]. split; discriminate. Qed.

Example C05_nonvacuous_rejection :
  (* a word >= ceiling 3 is rejected, a word below is accepted *)
  accepted 3 (W64 - 1) = false /\ accepted 3 (W64 - 2) = true /\ acc_bound 3 / 3 = 6148914691236517205.
Proof. vm_compute. repeat split. Qed.
