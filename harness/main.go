// Verification harness for sealdice/dicescript.  One binary, one subcommand per
// correspondence/search family.  Every random choice derives from -seed.
// Output: one JSON object per line on stdout.
package main

import (
	"bufio"
	"encoding/json"
	"flag"
	"fmt"
	"os"
)

var out = bufio.NewWriterSize(os.Stdout, 1<<20)

func emit(v any) {
	b, err := json.Marshal(v)
	if err != nil {
		panic(err)
	}
	out.Write(b)
	out.WriteByte('\n')
}

type cmdFn func(args []string)

var cmds = map[string]cmdFn{}

func main() {
	defer out.Flush()
	if len(os.Args) < 2 {
		fmt.Fprintln(os.Stderr, "usage: harness <cmd> [flags]")
		os.Exit(2)
	}
	fn, ok := cmds[os.Args[1]]
	if !ok {
		fmt.Fprintln(os.Stderr, "unknown command", os.Args[1])
		os.Exit(2)
	}
	fn(os.Args[2:])
}

func stdFlags(name string) (*flag.FlagSet, *int64, *int) {
	fs := flag.NewFlagSet(name, flag.ExitOnError)
	seed := fs.Int64("seed", 1, "PRNG seed")
	n := fs.Int("n", 1000, "number of cases")
	return fs, seed, n
}
