package main

import (
	"bufio"
	"encoding/base64"
	"encoding/json"
	"fmt"
	"os"
	"time"

	ds "github.com/sealdice/dicescript"
)

func init() {
	// budgets and capacity limits: one flushed line per case (a hang / OOM identifies its case)
	cmds["c07"] = func(args []string) {
		sc := bufio.NewScanner(os.Stdin)
		sc.Buffer(make([]byte, 1<<22), 1<<28)
		idx := 0
		for sc.Scan() {
			var in struct {
				B64        string `json:"b64"`
				OpLimit    int64  `json:"oplimit"`
				ParseLimit uint64 `json:"parselimit"`
				Mode       int    `json:"mode"`
				// LazyPre: definitions evaluated on a VM WITHOUT budgets, snapshotted to JSON and restored into the budgeted VM:
				// their bodies are compiled on first use, under the budgeted VM's limits
				LazyPre string `json:"lazypre"`
			}
			if json.Unmarshal(sc.Bytes(), &in) != nil {
				continue
			}
			src, _ := base64.StdEncoding.DecodeString(in.B64)
			cfg := allOn()
			cfg.OpLimit, cfg.ParseLimit, cfg.Mode = in.OpLimit, in.ParseLimit, in.Mode
			vm := newVM(cfg, 5, 6, true)
			if in.LazyPre != "" {
				pre, _ := base64.StdEncoding.DecodeString(in.LazyPre)
				c0 := allOn()
				c0.OpLimit, c0.ParseLimit = 0, 0
				vm0 := newVM(c0, 1, 2, true)
				func() {
					defer func() { _ = recover() }()
					_ = vm0.Run(string(pre))
					if js, err := vm0.Attrs.ToJSON(); err == nil {
						m := &ds.ValueMap{}
						if json.Unmarshal(js, m) == nil {
							vm.Attrs = m
						}
					}
				}()
			}
			t0 := time.Now()
			row := map[string]any{"i": idx}
			idx++
			func() {
				defer func() {
					if r := recover(); r != nil {
						row["panic"] = fmt.Sprint(r)
					}
				}()
				// Run = Parse + RunAfterParsed (rollvm.go); timed separately: the operation budget bounds the
				// execution, not the parse of a long source (that is the parse budget's job)
				err := vm.Parse(string(src))
				row["parse_ms"] = time.Since(t0).Milliseconds()
				if err == nil {
					err = vm.RunAfterParsed()
				}
				if err != nil {
					row["err"] = err.Error()
				} else {
					row["ok"] = true
					s := vm.Ret.ToString()
					if len(s) > 200 {
						s = s[:200]
					}
					row["str"] = s
					row["rest"] = len(vm.RestInput)
				}
			}()
			row["ops"] = int64(vm.NumOpCount)
			// generator draws of this run (the VM starts from state (5,6)): step a copy until it reaches the VM's final state
			row["draws"] = -1
			if vm.RandSrc != nil {
				fh, fl := srcState(vm.RandSrc)
				cp := mkSrc(5, 6)
				for k := 0; k <= 400000; k++ {
					if h, l := srcState(cp); h == fh && l == fl {
						row["draws"] = k
						break
					}
					cp.Uint64()
				}
			}
			row["ms"] = time.Since(t0).Milliseconds()
			row["ncode"] = len(vm.VerifCode())
			emit(row)
			out.Flush()
		}
	}
}
