(* Lemmas about Model/Roll.v: range, exact preimage count, fast-check soundness,
   acceptance > 1/2, "returns the face of the first accepted word". *)
From Coq Require Import NArith ZArith List Bool Lia ZifyN ZifyBool.
From DS Require Import Model.PCG Model.Roll.
Open Scope N_scope.

Ltac Zify.zify_post_hook ::= Z.div_mod_to_equations.

Definition MaxSides : N := 9223372036854775806.   (* MaxInt64 - 1 *)

Lemma W64_val : W64 = 18446744073709551616. Proof. reflexivity. Qed.
Lemma MaxUint64_val : MaxUint64 = 18446744073709551615. Proof. reflexivity. Qed.
Lemma W64_pow : W64 = 2 ^ 64. Proof. reflexivity. Qed.

(* ---------- powers of two ------------------------------------------- *)
Lemma is_pow2_exp n : 0 < n -> is_pow2 n = true -> n = 2 ^ N.log2 n.
Proof.
  intros Hn Hp. unfold is_pow2 in Hp. apply N.eqb_eq in Hp.
  destruct (N.log2_spec n Hn) as [Hlo Hhi].
  destruct (N.eq_dec n (2 ^ N.log2 n)) as [E|E]; [exact E|exfalso].
  assert (Hlt : 2 ^ N.log2 n <= n - 1) by lia.
  assert (Hl : N.log2 (n - 1) = N.log2 n).
  { apply N.log2_unique; [lia|]. rewrite N.pow_succ_r' in *. lia. }
  assert (B1 : N.testbit n (N.log2 n) = true) by (apply N.bit_log2; lia).
  assert (B2 : N.testbit (n - 1) (N.log2 n) = true).
  { rewrite <- Hl. apply N.bit_log2. assert (0 < 2 ^ N.log2 n) by (apply N.neq_0_lt_0, N.pow_nonzero; lia). lia. }
  assert (B : N.testbit (N.land n (n - 1)) (N.log2 n) = true)
    by (rewrite N.land_spec, B1, B2; reflexivity).
  rewrite Hp in B. rewrite N.bits_0 in B. discriminate.
Qed.

Lemma pow2_mask v n : 0 < n -> is_pow2 n = true -> N.land v (n - 1) = v mod n.
Proof.
  intros Hn Hp. pose proof (is_pow2_exp n Hn Hp) as E.
  rewrite E at 1 2. rewrite <- N.pred_sub, <- N.ones_equiv. apply N.land_ones.
Qed.

Lemma pow2_divides_W64 n : 0 < n -> n < W64 -> is_pow2 n = true -> W64 = n * (W64 / n).
Proof.
  intros Hn Hlt Hp. pose proof (is_pow2_exp n Hn Hp) as E.
  set (k := N.log2 n) in *.
  assert (Hk : k < 64).
  { apply N.log2_lt_pow2; [lia|]. rewrite <- W64_pow. exact Hlt. }
  rewrite E. rewrite W64_pow.
  replace 64 with (k + (64 - k)) at 1 2 by lia.
  rewrite N.pow_add_r. rewrite N.mul_comm at 2. rewrite N.div_mul.
  - reflexivity.
  - apply N.pow_nonzero. lia.
Qed.

(* ---------- the rejection bound -------------------------------------- *)
Lemma ceiling_multiple n : 0 < n -> ceiling n = n * (ceiling n / n).
Proof.
  intros Hn. unfold ceiling.
  assert (E : MaxUint64 - MaxUint64 mod n = n * (MaxUint64 / n)).
  { pose proof (N.div_mod MaxUint64 n ltac:(lia)) as D.
    pose proof (N.mod_upper_bound MaxUint64 n ltac:(lia)) as B.
    remember (MaxUint64 / n) as q. remember (MaxUint64 mod n) as r. lia. }
  rewrite E. remember (MaxUint64 / n) as q.
  replace (n * q / n) with q; [reflexivity|].
  symmetry. rewrite N.mul_comm. apply N.div_mul. lia.
Qed.

Lemma acc_bound_multiple n : 0 < n -> n < W64 -> acc_bound n = n * (acc_bound n / n).
Proof.
  intros Hn Hlt. unfold acc_bound. destruct (is_pow2 n) eqn:Hp.
  - apply pow2_divides_W64; assumption.
  - apply ceiling_multiple; assumption.
Qed.

Lemma fast_check_sound n v : 0 < n -> n < W64 -> v <= MaxUint64 - n -> v < ceiling n.
Proof.
  intros Hn Hw Hv. unfold ceiling.
  pose proof (N.mod_upper_bound MaxUint64 n ltac:(lia)) as B.
  remember (MaxUint64 mod n) as r. rewrite MaxUint64_val in *. rewrite W64_val in *. lia.
Qed.

Lemma ceiling_le n : ceiling n <= MaxUint64.
Proof. unfold ceiling. lia. Qed.

Lemma accept_more_than_half n : 0 < n -> n <= MaxSides -> W64 < 2 * acc_bound n.
Proof.
  intros Hn Hb. unfold acc_bound. destruct (is_pow2 n); [rewrite W64_val; lia|].
  unfold ceiling.
  pose proof (N.mod_upper_bound MaxUint64 n ltac:(lia)) as B.
  remember (MaxUint64 mod n) as r. unfold MaxSides in Hb. rewrite MaxUint64_val, W64_val in *. lia.
Qed.

(* every face k in 1..n has exactly acc_bound n / n accepted 64-bit words:
   the accepted words with face k are exactly j*n + (k-1), j < acc_bound n / n *)
Lemma face_preimages n k v :
  0 < n -> n < W64 -> 1 <= k <= n ->
  (v < acc_bound n /\ face n v = k) <->
  (exists j, j < acc_bound n / n /\ v = j * n + (k - 1)).
Proof.
  intros Hn Hlt Hk. pose proof (acc_bound_multiple n Hn Hlt) as Hq.
  unfold face.
  remember (acc_bound n / n) as q. remember (acc_bound n) as c.
  split.
  - intros [Hv Hf]. exists (v / n). split.
    + apply N.div_lt_upper_bound; lia.
    + pose proof (N.div_mod v n ltac:(lia)) as E.
      remember (v / n) as a. remember (v mod n) as b. lia.
  - intros [j [Hj ->]]. split.
    + nia.
    + rewrite (N.add_comm (j*n)), N.mod_add by lia. rewrite N.mod_small; lia.
Qed.

(* the representation j*n + (k-1) is unique: distinct j give distinct words *)
Lemma face_preimage_unique n k j1 j2 :
  0 < n -> 1 <= k <= n -> j1 * n + (k - 1) = j2 * n + (k - 1) -> j1 = j2.
Proof. intros Hn Hk E. nia. Qed.

Lemma face_range n v : 0 < n -> 1 <= face n v <= n.
Proof.
  intros Hn. unfold face. pose proof (N.mod_upper_bound v n ltac:(lia)). lia.
Qed.

(* ---------- the loop ------------------------------------------------- *)
Section Source.
  Variable S : Type.
  Variable next : S -> N * S.
  (* the source yields 64-bit words (true of every Go Uint64(); proved of PCG below) *)
  Hypothesis next_word : forall s, fst (next s) < W64.

  Lemma first_accepted_redraw fuel n s :
    first_accepted next fuel n s =
    let '(v, s1) := next s in redraw next fuel (acc_bound n) v s1.
  Proof.
    revert s. induction fuel as [|f IH]; intros s; cbn [first_accepted redraw];
      destruct (next s) as [v s1]; unfold accepted.
    - destruct (v <? acc_bound n); reflexivity.
    - destruct (v <? acc_bound n); [reflexivity|]. apply IH.
  Qed.

  Definition map_face (n : N) (o : outcome (N * S)) : outcome (N * S) :=
    match o with Done (v, s') => Done (face n v, s') | OutOfFuel => OutOfFuel end.

  Lemma redraw_hit fuel c v s : v < c -> redraw next fuel c v s = Done (v, s).
  Proof.
    intros H. destruct fuel; cbn [redraw]; destruct (N.ltb_spec v c); try reflexivity; lia.
  Qed.

  (* _roll64 returns the face of the first accepted word and the state after it *)
  Lemma roll64_u_first_accepted fuel n s :
    0 < n -> n <= MaxSides ->
    roll64_u next fuel n s = map_face n (first_accepted next fuel n s).
  Proof.
    intros Hn Hb. unfold MaxSides in Hb.
    assert (Hlt : n < W64) by (rewrite W64_val; lia).
    rewrite first_accepted_redraw. unfold roll64_u.
    pose proof (next_word s) as Hw.
    destruct (next s) as [v s1]. cbn [fst] in Hw. unfold acc_bound.
    assert (Hsmall : forall x, (x mod n + 1) mod W64 = x mod n + 1).
    { intros x. apply N.mod_small. pose proof (N.mod_upper_bound x n ltac:(lia)). lia. }
    destruct (is_pow2 n) eqn:Hp.
    - rewrite pow2_mask by assumption. rewrite Hsmall.
      rewrite redraw_hit by exact Hw. reflexivity.
    - destruct (N.ltb_spec (MaxUint64 - n) v) as [Hgt|Hle].
      + destruct (redraw next fuel (ceiling n) v s1) as [[v' s2]|]; cbn [map_face];
          [rewrite Hsmall|]; reflexivity.
      + rewrite redraw_hit by (apply fast_check_sound; assumption).
        cbn [map_face]. rewrite Hsmall. reflexivity.
  Qed.

  (* the first accepted word really is accepted, and everything skipped was not *)
  Lemma first_accepted_is_accepted fuel n s v s' :
    first_accepted next fuel n s = Done (v, s') -> accepted n v = true.
  Proof.
    revert s. induction fuel as [|f IH]; intros s; cbn [first_accepted];
      destruct (next s) as [w s1]; destruct (accepted n w) eqn:E; intros H;
      try discriminate.
    - inversion H; subst; exact E.
    - inversion H; subst; exact E.
    - eapply IH; eassumption.
  Qed.

  (* words consumed: k >= 1 draws, the first k-1 rejected, the k-th accepted *)
  Fixpoint iter_next (k : nat) (s : S) : S :=
    match k with O => s | Datatypes.S k' => iter_next k' (snd (next s)) end.

  Lemma first_accepted_prefix fuel n s v s' :
    first_accepted next fuel n s = Done (v, s') ->
    exists k, (k <= fuel)%nat /\ s' = iter_next (Datatypes.S k) s /\
              v = fst (next (iter_next k s)) /\
              forall j, (j < k)%nat -> accepted n (fst (next (iter_next j s))) = false.
  Proof.
    revert s. induction fuel as [|f IH]; intros s; cbn [first_accepted];
      destruct (next s) as [w s1] eqn:En; destruct (accepted n w) eqn:E; intros H;
      try discriminate.
    - inversion H; subst. exists O. cbn. rewrite En. cbn. repeat split; try lia; try (intros j Hj; lia).
    - inversion H; subst. exists O. cbn. rewrite En. cbn. repeat split; try lia; try (intros j Hj; lia).
    - destruct (IH s1 H) as [k [Hk [Hs [Hv Hrej]]]].
      exists (Datatypes.S k). cbn [iter_next]. rewrite En. cbn [snd]. repeat split; try lia; try assumption.
      intros j Hj. destruct j as [|j]; cbn [iter_next].
      + rewrite En. exact E.
      + rewrite En. cbn [snd]. apply Hrej. lia.
  Qed.

  (* Roll: range and mode behaviour *)
  Lemma to_u64_small z : (0 <= z < Z.of_N W64)%Z -> to_u64 z = Z.to_N z.
  Proof. intros H. unfold to_u64. rewrite Z.mod_small by exact H. reflexivity. Qed.

  Lemma to_i64_small r : r < 9223372036854775808 -> to_i64 r = Z.of_N r.
  Proof.
    intros H. unfold to_i64. rewrite N.mod_small by (rewrite W64_val; lia).
    destruct (Z.ltb_spec (Z.of_N r) 9223372036854775808); [reflexivity|lia].
  Qed.

  Lemma roll64_range fuel d s r s' :
    (1 <= d <= MaxInt64 - 1)%Z ->
    roll64 next fuel d s = Done (r, s') -> (1 <= r <= d)%Z.
  Proof.
    intros Hd. unfold roll64. unfold MaxInt64 in *.
    destruct (Z.ltb_spec (9223372036854775807 - 1) d) as [H|H]; [lia|].
    rewrite to_u64_small by (rewrite W64_val; lia).
    rewrite roll64_u_first_accepted by (unfold MaxSides; lia).
    destruct (first_accepted next fuel (Z.to_N d) s) as [[v s1]|]; cbn [map_face]; [|discriminate].
    intros E. inversion E; subst.
    pose proof (face_range (Z.to_N d) v ltac:(lia)) as Hf.
    rewrite to_i64_small by lia. lia.
  Qed.

  Lemma roll_range fuel d mode s r s' :
    (1 <= d <= MaxInt64 - 1)%Z ->
    roll next fuel d mode s = Done (r, s') -> (1 <= r <= d)%Z.
  Proof.
    intros Hd. unfold roll.
    destruct (Z.eqb_spec d 0); [lia|].
    destruct (Z.eqb_spec mode (-1)); [intros E; inversion E; lia|].
    destruct (Z.eqb_spec mode 1); [intros E; inversion E; lia|].
    apply roll64_range; assumption.
  Qed.

  Lemma roll_minmax_consumes_nothing fuel d s :
    roll next fuel d (-1) s = Done ((if (d =? 0)%Z then 0 else 1)%Z, s) /\
    roll next fuel d 1 s = Done (d, s).
  Proof.
    unfold roll. destruct (Z.eqb_spec d 0); subst; split; reflexivity.
  Qed.

  (* the largest int64 is not a supported size: the code returns 0 and draws nothing *)
  Lemma roll_maxint_returns_zero fuel s : roll next fuel MaxInt64 0 s = Done (0%Z, s).
  Proof. reflexivity. Qed.
End Source.

(* ---------- PCG facts -------------------------------------------------- *)
Lemma pcg_next_word s : fst (pcg_next s) < W64.
Proof.
  unfold pcg_next, pcg_out, rotr64. cbn [fst]. apply N.mod_upper_bound. rewrite W64_val. lia.
Qed.

Lemma pcg_step_wf s : pcg_wf (pcg_step s).
Proof.
  unfold pcg_wf, pcg_step, pcg_add, pcg_multiply. cbn [hi lo].
  split; apply N.mod_upper_bound; rewrite W64_val; lia.
Qed.

(* the two-word implementation is the 128-bit LCG  x -> x*multiplier + increment *)
Lemma pcg_step_is_lcg128 s :
  pcg_wf s -> pcg_val (pcg_step s) = (pcg_val s * multiplier + increment) mod W128.
Proof.
  intros [Hh Hl]. unfold pcg_val, pcg_step, pcg_add, pcg_multiply. cbn [hi lo].
  assert (EM : multiplier = mulHigh * W64 + mulLow).
  { unfold mulHigh, mulLow. rewrite N.mul_comm. apply N.div_mod. rewrite W64_val; lia. }
  assert (EI : increment = incHigh * W64 + incLow).
  { unfold incHigh, incLow. rewrite N.mul_comm. apply N.div_mod. rewrite W64_val; lia. }
  rewrite EM, EI.
  assert (BML : mulLow < W64) by (apply N.mod_upper_bound; rewrite W64_val; lia).
  assert (BIL : incLow < W64) by (apply N.mod_upper_bound; rewrite W64_val; lia).
  generalize dependent mulHigh. generalize dependent mulLow.
  generalize dependent incHigh. generalize dependent incLow.
  intros iL BIL iH _ mL BML mH _.
  destruct s as [h l]. cbn [hi lo] in *.
  unfold W128.
  assert (Wpos : W64 <> 0) by (rewrite W64_val; lia).
  (* name the quotients / remainders *)
  pose proof (N.div_mod (l * mL) W64 Wpos) as D1.
  pose proof (N.mod_upper_bound (l * mL) W64 Wpos) as B1.
  remember ((l * mL) / W64) as p1. remember ((l * mL) mod W64) as r1.
  pose proof (N.div_mod (p1 + h * mL + l * mH) W64 Wpos) as D2.
  pose proof (N.mod_upper_bound (p1 + h * mL + l * mH) W64 Wpos) as B2.
  remember ((p1 + h * mL + l * mH) / W64) as p2. remember ((p1 + h * mL + l * mH) mod W64) as r2.
  pose proof (N.div_mod (r1 + iL) W64 Wpos) as D3.
  pose proof (N.mod_upper_bound (r1 + iL) W64 Wpos) as B3.
  remember ((r1 + iL) / W64) as c. remember ((r1 + iL) mod W64) as r3.
  pose proof (N.div_mod (r2 + iH + c) W64 Wpos) as D4.
  pose proof (N.mod_upper_bound (r2 + iH + c) W64 Wpos) as B4.
  remember ((r2 + iH + c) / W64) as p4. remember ((r2 + iH + c) mod W64) as r4.
  clear Heqp1 Heqr1 Heqp2 Heqr2 Heqc Heqr3 Heqp4 Heqr4.
  remember W64 as W eqn:HW. clear HW.
  apply N.mod_unique with (q := h * mH + p2 + p4).
  - nia.
  - (* polynomial identity after eliminating the remainders *)
    assert (E1 : r1 = l * mL - W * p1) by lia.
    assert (E2 : r2 = p1 + h * mL + l * mH - W * p2) by lia.
    assert (E3 : r3 = r1 + iL - W * c) by lia.
    assert (E4 : r4 = r2 + iH + c - W * p4) by lia.
    nia.
Qed.

(* marshal / unmarshal round trip *)
Lemma be_val_app l1 l2 acc : be_val (l1 ++ l2) acc = be_val l2 (be_val l1 acc).
Proof. revert acc; induction l1 as [|b r IH]; intros acc; cbn; [reflexivity|apply IH]. Qed.

Lemma be_bytes_length k x : length (be_bytes k x) = k.
Proof.
  revert x; induction k as [|k IH]; intros x; cbn [be_bytes]; [reflexivity|].
  rewrite app_length, IH. cbn. lia.
Qed.

Lemma be_val_be_bytes k x acc : x < 256 ^ N.of_nat k -> be_val (be_bytes k x) acc = acc * 256 ^ N.of_nat k + x.
Proof.
  revert x acc; induction k as [|k IH]; intros x acc Hx.
  - cbn in *. lia.
  - cbn [be_bytes]. rewrite be_val_app. cbn [be_val].
    rewrite Nat2N.inj_succ, N.pow_succ_r' in *.
    rewrite IH by (apply N.div_lt_upper_bound; lia).
    pose proof (N.div_mod x 256 ltac:(lia)). remember (x / 256) as q. remember (x mod 256) as r.
    remember (256 ^ N.of_nat k) as P. nia.
Qed.

Lemma firstn_app_len {A} (l1 l2 : list A) n : length l1 = n -> firstn n (l1 ++ l2) = l1.
Proof.
  intros <-. induction l1 as [|a l IH]; [reflexivity|]. cbn [length app firstn]. f_equal. exact IH.
Qed.
Lemma skipn_app_len {A} (l1 l2 : list A) n : length l1 = n -> skipn n (l1 ++ l2) = l2.
Proof.
  intros <-. induction l1 as [|a l IH]; [reflexivity|]. cbn [length app skipn]. exact IH.
Qed.

Lemma pcg_marshal_roundtrip s : pcg_wf s -> pcg_unmarshal (pcg_marshal s) = Some s.
Proof.
  intros [Hh Hl]. unfold pcg_unmarshal, pcg_marshal.
  rewrite app_length, !be_bytes_length.
  change (Nat.ltb (8 + 8) 16) with false. cbv iota.
  rewrite (firstn_app_len _ _ 8) by apply be_bytes_length.
  rewrite (skipn_app_len _ _ 8) by apply be_bytes_length.
  rewrite <- (app_nil_r (be_bytes 8 (lo s))) at 1.
  rewrite (firstn_app_len _ _ 8) by apply be_bytes_length.
  rewrite !be_val_be_bytes by (rewrite W64_val in *; cbn; lia).
  destruct s as [h l]; cbn [hi lo]. f_equal.
Qed.

(* ---------- C06: resuming from a captured generator state --------------- *)
Lemma pcg_draws_wf k : forall s, pcg_wf s \/ k <> O -> pcg_wf (snd (pcg_draws k s)) \/ (k = O).
Proof.
  induction k as [|k IH]; intros s H; [right; reflexivity|]. left.
  cbn [pcg_draws]. unfold pcg_next. destruct (pcg_draws k (pcg_step s)) as [vs s2] eqn:E. cbn [snd].
  destruct k as [|k'].
  - cbn in E. inversion E; subst. apply pcg_step_wf.
  - specialize (IH (pcg_step s) (or_introl (pcg_step_wf s))). rewrite E in IH. cbn [snd] in IH.
    destruct IH as [IH|IH]; [exact IH|discriminate].
Qed.

(* installing the captured 16 bytes in a fresh source continues the identical sequence *)
Lemma pcg_resume k s : pcg_wf s ->
  match pcg_unmarshal (pcg_marshal s) with
  | Some s' => pcg_draws k s' = pcg_draws k s
  | None => False
  end.
Proof. intros H. rewrite pcg_marshal_roundtrip by exact H. reflexivity. Qed.

Lemma pcg_draws_app a b s :
  pcg_draws (a + b) s = let '(v1, s1) := pcg_draws a s in let '(v2, s2) := pcg_draws b s1 in (v1 ++ v2, s2).
Proof.
  revert s; induction a as [|a IH]; intros s; cbn [Nat.add pcg_draws].
  - destruct (pcg_draws b s); reflexivity.
  - destruct (pcg_next s) as [v s1]. rewrite IH.
    destruct (pcg_draws a s1) as [v1 s2]. destruct (pcg_draws b s2) as [v2 s3]. reflexivity.
Qed.

Lemma pcg_marshal_length s : length (pcg_marshal s) = 16%nat.
Proof. unfold pcg_marshal. rewrite app_length, !be_bytes_length. reflexivity. Qed.

(* a seed shorter than 16 bytes is rejected by UnmarshalBinary (Init then keeps the zero state) *)
Lemma pcg_unmarshal_short d : (length d < 16)%nat -> pcg_unmarshal d = None.
Proof.
  intros H. unfold pcg_unmarshal. destruct (Nat.ltb_spec (length d) 16); [reflexivity|lia].
Qed.
