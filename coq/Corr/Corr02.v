(* K3 / K4 correspondence for C02, decided INSIDE Coq.  A case = configuration, history of programs (ASTs),
   whitespace seeds and, per seed, what lib/c02.py observed: the text it had the real parser + VM run (printed
   by its mirror of `print`), the byte-code the real parser produced and the result of the real run.
   c02_check verifies per program: the text IS `print (mk_ws seed) ast`; the dumped byte-code IS `compile ast`
   (span operands of mark.detail ignored: they depend on the printed text); value / error class / variables
   are the ones `denote_history` prescribes.  The verdict is a short list of numbers (Coq's printer is far too
   slow to hand texts back); `c02_explain` renders expected outcomes / reference code for failing cases. *)
From Coq Require Import String Ascii NArith ZArith List Bool.
From DS Require Import Model.Str Model.PCG Model.Value Model.VM Model.Ast Model.Denote Model.Compile Corr.CorrK2.
Import ListNotations.
Open Scope string_scope.

Definition hexd (n : N) : ascii :=
  ascii_of_N (if (n <? 10)%N then 48 + n else 87 + n).
Fixpoint hex (s : string) : string :=
  match s with
  | EmptyString => EmptyString
  | String c r => let n := N_of_ascii c in String (hexd (n / 16)) (String (hexd (n mod 16)) (hex r))
  end.

Fixpoint show_dv (v : dv) : string :=
  match v with
  | DvInt z => "i" ++ show_Z z
  | DvStr s => "s" ++ hex s
  | DvNull => "n"
  | DvArr l => "a(" ++ (fix go (l : list dv) : string :=
                          match l with [] => "" | x :: r => show_dv x ++ "," ++ go r end) l ++ ")"
  end.
Fixpoint show_env (m : denv) : string :=
  match m with [] => "" | (k, v) :: r => hex k ++ "=" ++ show_dv v ++ "," ++ show_env r end.

Definition show_outcome (o : doutcome) : string :=
  match o with
  | DVal v env => "V:" ++ show_dv v ++ ":" ++ show_env env
  | DErr c env => "E:" ++ show_N (eclass_num c) ++ ":" ++ show_env env
  | DOutOfFuel => "F"
  | DUnsup w => "U:" ++ hex w
  end.

Definition op_name (o : opcode) : string :=
  match o with
  | OpPushInt => "push.int" | OpPushStr => "push.str" | OpPushNull => "push.null" | OpPushArr => "push.arr"
  | OpPushLast => "push.last" | OpLdD => "ld.d" | OpStore => "store" | OpItemGet => "item.get"
  | OpAdd => "add" | OpSub => "sub" | OpMul => "mul" | OpDiv => "div" | OpMod => "mod" | OpPow => "pow"
  | OpNullCoalescing => "nullCoalescing"
  | OpLt => "comp.lt" | OpLe => "comp.le" | OpEq => "comp.eq" | OpNe => "comp.ne" | OpGe => "comp.ge" | OpGt => "comp.gt"
  | OpBitAnd => "bitand" | OpBitOr => "bitor" | OpAnd => "and" | OpNeg => "neg" | OpPos => "pos"
  | OpDiceInit => "dice.init" | OpDiceSetTimes => "dice.setTimes" | OpDice => "dice"
  | OpHalt => "halt" | OpMarkDetail => "mark.detail"
  | OpJmp => "jmp" | OpJne => "jne" | OpJeDup => "je.dup"
  | OpBlockPush => "block.push" | OpBlockPop => "block.pop"
  | _ => "?"
  end.
Definition show_operand (o : operand) : string :=
  match o with
  | OInt z => show_Z z
  | OStr s => "x" ++ hex s
  | _ => ""
  end.
Fixpoint show_code (c : code) : string :=
  match c with
  | [] => ""
  | I op arg :: r => op_name op ++ "#" ++ show_operand arg ++ "," ++ show_code r
  end.

(* ------------------------------------------------------------------ the checker (K3 + K4 inside Coq) *)
(* what the harness observed for one program of a history *)
Record obs := {
  o_kind : N;                          (* 0 value, 1 error, 2 parse error, 3 panic / crash / hang *)
  o_val : dval;
  o_err : N;                           (* error class, 0 = message not in the table *)
  o_vars : list (string * dval)
}.
(* one history printed under one seed: per program (text run by Go, byte-code dumped by Go, observation) *)
Definition seed_run : Type := list (string * code * obs).

Record c02_case := {
  k_cfg : config;
  k_fuel : nat;
  k_seeds : list N;
  k_progs : list stmt;
  k_runs : list seed_run
}.

Fixpoint dval_of (v : dv) : dval :=
  match v with
  | DvInt z => DInt z
  | DvStr s => DStr s
  | DvNull => DNull
  | DvArr l => DArr (map dval_of l)
  end.
Definition vars_of (m : denv) : list (string * dval) := map (fun kv => (fst kv, dval_of (snd kv))) m.

Definition operand_eqb (a b : operand) : bool :=
  match a, b with
  | ONil, ONil => true
  | OInt x, OInt y => (x =? y)%Z
  | OStr x, OStr y => String.eqb x y
  | OSpan _ _, OSpan _ _ => true        (* spans depend on the printed text *)
  | _, _ => false
  end.
Definition instr_eqb (a b : instr) : bool :=
  String.eqb (op_name (i_op a)) (op_name (i_op b)) && negb (String.eqb (op_name (i_op a)) "?")
  && operand_eqb (i_arg a) (i_arg b).
Fixpoint code_eqb (a b : code) : bool :=
  match a, b with
  | [], [] => true
  | x :: r1, y :: r2 => if instr_eqb x y then code_eqb r1 r2 else false
  | _, _ => false
  end.

(* failure kinds: 1 text is not `print ws ast`, 2 parse error, 3 panic / crash / hang, 4 K4 byte-code,
   5 value vs error, 6 value, 7 error class, 8 variables; 9 = the definition stops here (fuel / unsupported):
   not a failure, the rest of the history is not compared *)
Definition check_step (o : doutcome) (x : obs) : N :=
  match o with
  | DOutOfFuel | DUnsup _ => 9
  | DVal v env =>
    if negb (o_kind x =? 0)%N then 5
    else if negb (dval_eqb (o_val x) (dval_of v)) then 6
    else if negb (dval_eqb (DDict (o_vars x)) (DDict (vars_of env))) then 8 else 0
  | DErr c env =>
    if negb (o_kind x =? 1)%N then 5
    else if negb ((o_err x =? 0) || (o_err x =? eclass_num c))%N then 7
    else if negb (dval_eqb (DDict (o_vars x)) (DDict (vars_of env))) then 8 else 0
  end%N.

(* -> (number of steps that agreed, first failure: (step, kind, flagged)) *)
Fixpoint check_run (seed : N) (i : N) (ps : list stmt) (os : list doutcome) (run : seed_run) (good : N)
  : N * option (N * N * bool) :=
  match ps, run with
  | p :: pr, (text, c, x) :: rr =>
    let ws := mk_ws (seed + 7919 * i)%N in
    let fl := paren_ne_flag ws p in
    match os with
    | [] => (good, None)
    | o :: orest =>
      match o with
      | DOutOfFuel | DUnsup _ => (good, Some (i, 9%N, fl))
      | _ =>
        if negb (String.eqb (print ws p) text) then (good, Some (i, 1%N, fl))
        else if (o_kind x =? 2)%N then (good, Some (i, 2%N, fl))
        else if (o_kind x =? 3)%N then (good, Some (i, 3%N, fl))
        else if negb (code_eqb (compile p) c) then (good, Some (i, 4%N, fl))
        else match check_step o x with
             | 0%N => check_run seed (i + 1)%N pr orest rr (good + 1)%N
             | k => (good, Some (i, k, fl))
             end
      end
    end
  | _, _ => (good, None)
  end.

Definition c02_check (c : c02_case) : list (N * option (N * N * bool)) :=
  let os := denote_history (k_fuel c) (k_cfg c) (k_progs c) [] in
  map (fun sr => check_run (fst sr) 0 (k_progs c) os (snd sr) 0) (combine (k_seeds c) (k_runs c)).

(* explanation of one case (used only for the few failing ones): expected outcomes, reference code *)
Definition c02_explain (c : c02_case) : string :=
  join ";" (map show_outcome (denote_history (k_fuel c) (k_cfg c) (k_progs c) []))
  ++ "|" ++ join "/" (map (fun p => show_code (compile p)) (k_progs c)).

Definition CFG2 (div0 mn mx : bool) : config :=
  {| cfg_ignore_div0 := div0; cfg_min_mode := mn; cfg_max_mode := mx; cfg_op_limit := 0;
     cfg_def_expr_empty := true; cfg_st_callback := false |}.
Definition K (cfg : config) (fuel : nat) (seeds : list N) (progs : list stmt) (runs : list seed_run) : c02_case :=
  {| k_cfg := cfg; k_fuel := fuel; k_seeds := seeds; k_progs := progs; k_runs := runs |}.
Definition OB (kind : N) (v : dval) (err : N) (vars : list (string * dval)) : obs :=
  {| o_kind := kind; o_val := v; o_err := err; o_vars := vars |}.
