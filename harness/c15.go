package main

import (
	"bufio"
	"fmt"
	"os"
	"strconv"
	"strings"

	ds "github.com/sealdice/dicescript"
)

var _ = ds.NewVM

// dexpr mirrors Model/DiceExpr.v: ["c",n] | ["d",times,sides,dmin|null,dmax|null,keep,low,high] |
// ["f"] | ["coc",bonus,n] | ["add",a,b] | ["mul",c,a]
type dexpr []any

func genTerm(r *rng) (dexpr, string) {
	switch r.intn(10) {
	case 0:
		return dexpr{"f"}, "f"
	case 1, 2:
		bonus := r.chance(1, 2)
		n := r.intn(4)
		letter := "p"
		if bonus {
			letter = "b"
		}
		if n == 1 && r.chance(1, 2) {
			return dexpr{"coc", bonus, 1}, letter
		}
		return dexpr{"coc", bonus, n}, fmt.Sprintf("%s%d", letter, n)
	}
	times := 1 + r.intn(6)
	sides := pick(r, []int{1, 2, 3, 4, 6, 8, 10, 20, 100, 1, 2, 3, 4, 6, 8, 10, 20, 100, 1000, 2147483647, 2147483648, 4294967296, 10000000000})
	keep, low, high := 0, 0, 0
	txt := fmt.Sprintf("%dd%d", times, sides)
	if r.chance(3, 5) {
		cnt := 1 + r.intn(times+1)
		withNum := r.chance(3, 4)
		if !withNum {
			cnt = 1
		}
		var spell []string
		switch r.intn(4) {
		case 0:
			keep, low, spell = 1, cnt, []string{"kl", "q"}
		case 1:
			keep, high, spell = 2, cnt, []string{"kh", "k"}
		case 2:
			keep, low, spell = 3, cnt, []string{"dl"}
		default:
			keep, high, spell = 4, cnt, []string{"dh"}
		}
		txt += pick(r, spell)
		if withNum {
			txt += fmt.Sprint(cnt)
		}
	}
	var dmin, dmax any
	if r.chance(1, 3) {
		v := r.intn(sides + 3)
		if r.chance(1, 2) {
			dmin = v
			txt += fmt.Sprintf("min%d", v)
		} else {
			dmax = v
			txt += fmt.Sprintf("max%d", v)
		}
	}
	return dexpr{"d", times, sides, dmin, dmax, keep, low, high}, txt
}

func genDexpr(r *rng, depth int) (dexpr, string) {
	if depth <= 0 || r.chance(2, 5) {
		if r.chance(1, 5) {
			c := r.intn(20)
			return dexpr{"c", c}, fmt.Sprint(c)
		}
		return genTerm(r)
	}
	sp := pick(r, []string{"", " ", "  "})
	if r.chance(2, 3) {
		a, ta := genDexpr(r, depth-1)
		b, tb := genDexpr(r, depth-1)
		if b[0] == "add" || b[0] == "mul" {
			tb = "(" + tb + ")"
		}
		return dexpr{"add", a, b}, ta + sp + "+" + sp + tb
	}
	c := r.intn(5)
	a, ta := genDexpr(r, depth-1)
	return dexpr{"mul", c, a}, fmt.Sprintf("%d%s*%s(%s)", c, sp, sp, ta)
}

func init() {
	// search helper: for each source text on stdin, min/max once and -n random seeds; reports bracket failures
	cmds["c15-seeds"] = func(args []string) {
		fs, seed, n := stdFlags("c15-seeds")
		fs.Parse(args)
		r := newRng(*seed)
		sc := bufio.NewScanner(os.Stdin)
		sc.Buffer(make([]byte, 1<<20), 1<<24)
		for sc.Scan() {
			txt := sc.Text()
			if txt == "" {
				continue
			}
			run := func(mode int, hi, lo uint64) runOut {
				c := allOn()
				c.Mode = mode
				return runScript(newVM(c, hi, lo, true), txt, true)
			}
			a, c := run(-1, 1, 2), run(1, 1, 2)
			if !a.Ok || !c.Ok || a.Val.I == nil || c.Val.I == nil {
				continue
			}
			for k := 0; k < *n; k++ {
				hi, lo := r.u64(), r.u64()
				b := run(0, hi, lo)
				if !b.Ok || b.Val.I == nil {
					continue
				}
				lo_, _ := strconv.ParseInt(*a.Val.I, 10, 64)
				x, _ := strconv.ParseInt(*b.Val.I, 10, 64)
				hi_, _ := strconv.ParseInt(*c.Val.I, 10, 64)
				if x < lo_ || x > hi_ {
					emit(map[string]any{"text": txt, "hi": u(hi), "lo": u(lo), "min": lo_, "random": x, "max": hi_, "detail": b.Detail})
					break
				}
			}
		}
	}

	// three-mode runs of monotone dice expressions through the real parser + VM
	cmds["c15"] = func(args []string) {
		fs, seed, n := stdFlags("c15")
		fs.Parse(args)
		r := newRng(*seed)
		for k := 0; k < *n; k++ {
			e, txt := genDexpr(r, 1+r.intn(3))
			if strings.HasPrefix(txt, "f") || strings.Contains(txt, "+f") {
				// `f` directly followed by an identifier character would be an identifier: keep a space
				txt = strings.ReplaceAll(txt, "f+", "f +")
			}
			// the same expression evaluated in a nested context (function body, computed value, template block, a second read on
			// the same VM): value, bracket and generator use are those of the bare expression
			wrapped := true
			switch r.intn(9) {
			default:
				wrapped = false
			case 0:
				txt = "func w9(n9) { return " + txt + " }; w9(3)"
			case 1:
				txt = "&cv9 = " + txt + "; cv9"
			case 2:
				txt = "func w9() { &cv9 = " + txt + "; return cv9 }; w9()"
			case 3:
				txt = "&cv9 = " + txt + "; func w9() { return cv9 }; w9()"
			}
			hi, lo := r.u64(), r.u64()
			row := map[string]any{"expr": e, "text": txt, "hi": u(hi), "lo": u(lo), "wrapped": wrapped}
			for _, mode := range []int{-1, 0, 1} {
				c := allOn()
				c.Mode = mode
				vm := newVM(c, hi, lo, true)
				o := runScript(vm, txt, true)
				row[fmt.Sprintf("m%d", mode)] = o
			}
			emit(row)
		}
	}
}
