package main

// C08 — compiled code is well-formed on every path.
//
//	c08       : build a corpus of source texts (fixed seeds covering every construct, a grammar-directed random
//	            generator, every string literal of the repository's own *_test.go files, valid-prefix-plus-garbage
//	            tails, byte/token mutations), parse each under several configurations and emit the byte-code dump
//	            (ctx.VerifCode(), nested function / computed bodies included) of every ACCEPTED input, one row per
//	            distinct code shape.
//	c08-run   : the search.  stdin: JSON lines {src,cfg}.  Executes each input on the real VM, as is and with the
//	            variables it loads pre-bound to many values, in the three roll modes, and reports Go panics.
//	c08-trace : stdin: JSON lines {src,cfg}.  Runs each input with Config.PrintBytecode and returns the sequence of
//	            executed top-level instruction indices, the final stack height and how the run ended.
import (
	"bufio"
	"encoding/json"
	"fmt"
	"go/scanner"
	"go/token"
	"io"
	"os"
	"path/filepath"
	"regexp"
	"runtime/debug"
	"sort"
	"strconv"
	"strings"
	"time"
	"unicode/utf8"

	ds "github.com/sealdice/dicescript"
)

// ---------------------------------------------------------------- configurations
func c08Cfg(name string) vmCfg {
	switch name {
	case "plain": // the library default: optional dice families off
		return vmCfg{}
	case "strict": // what `est` switches on inside st values
		c := allOn()
		c.NoBitwise, c.NoStmts, c.NoNDice = true, true, true
		return c
	}
	return allOn()
}

var c08CfgNames = []string{"all", "plain", "strict"}

// ---------------------------------------------------------------- compact dump
// op = [t, name, kind, int, body]; kind: nil i f s (s0 = empty string) span st fn:<kind> cust bad; body = nested code or null
type c08Op [5]any

func c08Compact(code []ds.VerifOp) []c08Op {
	out := make([]c08Op, 0, len(code))
	for _, o := range code {
		var op c08Op
		op[0], op[1], op[3], op[4] = o.T, o.Name, 0, nil
		switch {
		case o.Nil:
			op[2] = "nil"
		case o.I != nil:
			op[2], op[3] = "i", *o.I
		case o.F != nil:
			op[2] = "f"
		case o.S != nil:
			op[2] = "s"
			if *o.S == "" {
				op[2] = "s0"
			}
		case o.Span != nil:
			op[2] = "span"
		case o.St != nil:
			op[2] = "st"
		case o.Cust != nil:
			op[2] = "cust"
		case o.Fn != nil:
			op[2] = "fn:" + o.Fn.Kind
			if o.Fn.Code != nil {
				op[4] = c08Compact(o.Fn.Code)
			}
		default:
			op[2] = "bad"
		}
		out = append(out, op)
	}
	return out
}

func c08ShapeKey(code []c08Op, sb *strings.Builder) {
	for _, o := range code {
		fmt.Fprintf(sb, "%v,%v,%v", o[0], o[2], o[3])
		if o[4] != nil {
			sb.WriteByte('(')
			c08ShapeKey(o[4].([]c08Op), sb)
			sb.WriteByte(')')
		}
		sb.WriteByte(';')
	}
}

func c08Names(code []ds.VerifOp, into map[string]bool) {
	for _, o := range code {
		if o.S != nil && (o.Name == "ld" || o.Name == "ld.d" || o.Name == "ld.raw") {
			into[*o.S] = true
		}
		if o.Fn != nil && o.Fn.Code != nil {
			c08Names(o.Fn.Code, into)
		}
	}
}

// lazily compiled bodies: (kind, expr) of push.func / push.computed operands without code
func c08Lazy(code []ds.VerifOp, into *[]string) {
	for _, o := range code {
		if o.Fn != nil {
			if o.Fn.Code == nil {
				*into = append(*into, o.Fn.Expr)
			} else {
				c08Lazy(o.Fn.Code, into)
			}
		}
	}
}

func c08Parse(cfg string, src string) (vm *ds.Context, err error, pan string) {
	defer func() {
		if r := recover(); r != nil {
			pan = fmt.Sprint(r)
		}
	}()
	vm = newVM(c08Cfg(cfg), 0x0123456789abcdef, 0xfedcba9876543210, true)
	vm.Config.ParseExprLimit = 3000000
	err = vm.Parse(src)
	return
}

// ---------------------------------------------------------------- corpus: fixed seeds
var c08Seeds = []string{
	// literals
	"1", "1.5", ".5", "'a'", `"a\n\t\\"`, "`a`", "``", "''", `""`, "\x1e\x1e", "\x1ea{1}b\x1e", "true", "false", "null", "this", "this.x", "&x", "&x.y",
	"9223372036854775808", "x", "力量", "_a1", "$t", "a:b",
	// templates
	"`a{1}b`", "`{1}`", "`{x}{y}`", "`a{% 1;2 %}b`", "`{% if 1 {2} %}`", "`{% x = 1 %}`", "`{x.a=1}`", "`{x[0]=1}`", "`{`{1}`}`", "`a{`b{`c{1}`}`}`",
	"`{% while i<3 { i=i+1 } %}`", "`{}`", "`{ }`", "`\\{x\\}`", "i=0; r=''; while i<3 { i=i+1; r = `{% if i%2==0 { continue }; i %}` }; [i, r]",
	"i=0; while i<3 { i=i+1; `{% break %}` }", "`{% func f() { return 1 } %}{f()}`", "`{1}{2}{3}{4}`", "x = `{a}` + `{b}`",
	// arrays dicts ranges
	"[]", "[1]", "[1,2,3]", "[[1,2],[3]]", "[1..5]", "[5..1]", "[x..y]", "{}", "{'a':1}", "{'a':1,'b':2}", "{a:1}", "{a:1,}", "{1:2}", "{'a':{'b':[1,2]}}",
	"[1,2,3]kh", "[1,2,3]kl2", "[1,2,3]kh2", "[1,2,3][0]", "[1,2,3][0][1]", "[].len", "[1].len()", "[1..3].sum()", "{}.a", "{'a':1}.a", "{'a':1}['a']",
	// index / slice / attr get and set
	"a[0]", "a[0][1]", "a[1:2]", "a[:2]", "a[1:]", "a[:]", "a[1:2:3]", "a[1:2:]", "a.b", "a.b.c", "a.b()", "a.b(1,2)", "a.b[0]", "a[0].b", "a(1)[0]", "a(1).b",
	"a[0] = 1", "a[0][1] = 2", "a[1:2] = [3]", "a[:] = []", "a.b = 1", "a.b = c.d = 2", "&a.b = 1", "this.x = 5", "x = 1", "x = y = 2", "&x = 1 + d6", "&x = d", "&x = 2d",
	"dct = {}; dct.k = dct['j'] = []", "a = [1,2]; a[0] = a[1] = 5", "x = (y = 1) + 2", "(a)[0] = 1", "(a).b", "(a)[1:2]", "(1+2)*3", "((1))", "(x = 1)",
	// calls
	"f()", "f(1)", "f(1,2,3)", "f(g(1),h())", "f()()", "f(1)(2)", "str(1)", "int('1')", "func f(a,b) { return a+b }; f(1,2)", "func f() { }; f()", "func f() { return }; f()",
	"func f(n) { if n < 2 { return 1 }; return n * f(n-1) }; f(5)", "func f() { this.x = 5; return this.x }; f()", "func g() { return d }; g()", "func g() { return 2d }; g()",
	"func f() { func g() { return 1 }; return g() }; f()", "func f() { while 1 { break } }; f()", "func f() { i=0; while i<3 { i=i+1; if i==2 { continue } }; return i }; f()",
	"i=0; while i<2 { i=i+1; func g(a) { return a } }; g(1)",
	// loop exits before / after / around definitions whose own bodies have loops with exits; several exits per loop at different block depths
	"i=0; while i<5 { i=i+1; if i==3 { break }; func f() { j=0; while 1 { j=j+1; if j>2 { break } }; j } }; i+f()",
	"i=0; while i<5 { i=i+1; func f() { j=0; while 1 { j=j+1; if j>2 { break } }; j }; if i==3 { break } }; i+f()",
	"i=0; n=0; while i<5 { i=i+1; if i==3 { continue }; n=n+1; &c = `{% k=0; s=0; while k<3 { k=k+1; if k==2 { continue }; s=s+k }; s %}` }; `{n}:{c}`",
	"i=0; while i<9 { i=i+1; if i==2 { continue }; if i==6 { break }; func g(m) { k=0; while 1 { k=k+1; if k>m { break }; if k==2 { continue } }; k } }; g(4)",
	"i=0; while i<30 { i=i+1; if i==100 { break }; if i>0 { continue }; i=i+1000 }; i",
	"i=0; n=0; while i<30 { i=i+1; if i>0 { if i==100 { break }; n=n+1; continue }; n=n+1000 }; n",
	"i=0; while i<30 { i=i+1; if i==100 { if i { break } }; `{% if i>0 { continue } %}`; i=i+1000 }; i",
	"func f(m) { i=0; while i<m { i=i+1; if i==100 { continue }; if i>0 { continue }; i=i+1000 }; i }; f(30)",
	"i=0; while i<3 { i=i+1; j=0; while j<3 { j=j+1; if j==2 { continue }; if i==2 { break } }; if i==3 { break } }; [i,j]",
	// operators
	"1+2", "1-2", "1*2", "1/2", "1%2", "1^2", "1**2", "1??2", "1<2", "1<=2", "1==2", "1!=2", "1>=2", "1>2", "1&2", "1|2", "1&&2", "1||2", "-1", "+1", "-x", "-(1)", "1+-2",
	"1+2*3-4/5%6^7??8", "1<2<3", "1==2!=3", "1 || 2 || 3", "1 && 2 && 3", "1 || 2 && 3 | 4 & 5", "x ?? y ?? 1", "a * b ?? c", "1 ＋ 2 － 3 ＊ 4 ／ 5",
	// ternaries
	"1 ? 2 : 3", "x ? 1 : y ? 2 : 3", "1 ? 2", "x==1 ? 'a', x==2 ? 'b'", "x==1 ? 'a', x==2 ? 'b', 1 ? 'c'", "(1 ? 2 : 3) ? 4 : 5", "1 ? (2 ? 3 : 4) : 5", "x || y ? 1 : 2",
	"1 ? 2 : 3 || 4", "[1 ? 2 : 3]", "{'a': 1 ? 2 : 3}", "f(1 ? 2 : 3)", "a[1 ? 2 : 3]",
	// statements
	"1;2", "1;2;", ";;1", "1\n2", "1 ; 2 \n 3", "// c\n1", "1 // c", "1 // c\n2", "if 1 {}", "if 1 { 2 }", "if 1 { 2 } else { 3 }", "if 1 { 2 } else if 3 { 4 }", "if 1 { 2 } else if 3 { 4 } else { 5 }",
	"if 1 { if 2 { 3 } }", "if x { y = 1 } else { y = 2 }; y", "while 0 {}", "i=0; while i<3 { i=i+1 }", "i=0; while i<3 { i=i+1; if i==2 { break } }", "i=0; while i<3 { i=i+1; if i==2 { continue } }; i",
	"i=0; while 1 { i=i+1; if i>3 { if i>4 { break } } }", "k=0; while k<3 { k=k+1; i=0; while i<3 { i=i+1; if i==2 { if 1 { break } } } }; k",
	"while 1 { break }", "while 1 { continue }", "while 1 { break; 1 }", "while 1 { if 1 { break } else { continue } }", "while 1 { while 1 { break }; break }", "return 1", "return", "1; return 2; 3",
	"func f() {}", "func f(a) { a }", "func f(a, b, c) { return [a,b,c] }", "if 1 { func f() { return 1 } }; f()", "if 1 { return 2 }; 3", "while 1 { return 2 }",
	"// #EnableDice wod false\n2a5", "// #EnableDice coc true\nb2",
	// dice
	"d", "D", "2d", "d6", "2d6", "D20", "2D20", "(1+1)d(2+2)", "d4d6", "2d4d6d8", "d优势", "d劣势", "d20优势", "d20劣势", "d20優勢", "2d6k", "2d6k1", "2d6kh2", "2d6q", "2d6q1", "2d6kl1", "3d6dl", "3d6dl1",
	"3d6dh", "3d6dh1", "2d6min3", "2d6max2", "2d6min2max5", "4d6k3min2", "2d6k(1)", "2dk", "2dk1", "dk", "2dmin3", "x d6", "xd6", "(x)d6", "2d(x)", "2d6 + d4 - 1", "[2d6, d4]", "{'a': 2d6}", "f(2d6)", "`{2d6}`",
	"b", "p", "b2", "p3", "B", "b(2)", "2a5", "a5", "2a5m6", "3a5m6k4", "3a5k4q2", "2a(5)", "(2)a5", "2c5", "2c5m8", "10c5", "(2)c(5)m(8)", "f", "F", "f + f", "d + b + 2a5 + 2c5 + f",
	"1d6 > 3 ? 'hi' : 'lo'", "x = 3d6; x", "&w = 2d6 + 1; w; w", "&a = d; a", "&a = 3d; a", "if d6 > 3 { 1 } else { 2 }", "while d6 < 6 { 1 }",
	// st
	"^st力量60敏捷70", "^st力量60 敏捷70", "^st智力:80 知识=90", "^st力量+=1", "^st力量+1", "^st力量-1", "^st力量-=1", "^st力量+1d4", "^st力量+1d4+2", "^st力量-1d4+2", "^st&手枪=1d6", "^st&手枪=(1d6+2)",
	"^st属性2:70", "^st属性*:4", "^st属性2*2.0: 5", "^st属性*2:5", "^st'属性 2':5", "^st射击:弓箭:40", "^st射击:弓箭40", "^stA:1", "^st力量60,敏捷70", "^st力量+=1 敏捷-=2", "^st力量+=1,敏捷+=d4",
	"^st幸运:(1+2)*3&San=7", "^st&a=(2d1) &b=60", "^st力量60 &手枪=1d6 敏捷70", "^st a = 1", "^st力量:d6", "^st力量:2d6k1", "^st力量=`{1}`", "^st力量:x?1:2", "^st力量: 1 || 2", "^st'a b'+=1",
	// known left-over shapes (recorded defect #19) and their repaired relatives
	"5\n{'a':1", "[x,2]\n[x,2]", "x=2; [x,2]\n[x,2]", "5\n'abc", "5\n`a{1}", "x=1; x || [", "x=0; x || [", "1 || (", "1 && (", "1 ? 2 : (", "1 ? (", "dct = b(d)a(3)", "1 + [", "1 + {", "f(1, [",
	"a[1", "a[1:", "a.b(", "if 1 { 2 } else", "if 1 { 2 } el", "while 1 { 1 } x", "1 2", "1 d", "2d6k(", "2a5m(", "2c5m(", "b(", "d(", "`a{1", "`a{% 1", "[1,2", "[1..", "{'a':", "{'a':1,", "{a:",
	"x = 1 ?", "a = b = 1 ?", "a.b = 1 ?", "a[0] = 1 ?", "this.x = 3 ?", "x = 2d6 ? ", "^st力量=60 ?", "&x = 1 ?", "x = 1 ? 2, 3 ?", "x = y ||", "x = 1 <", "a[0] = 1 +", "this.x = [1,2] [",
	"func f() { return 1", "func f(", "x = ", "&x = ", "&x.y = ", "this.x = ", "a[0] = ", "a[0:1] = ", "x ? 1, y ?", "x ? 1 :", "x || ", "x && ", "-", "1 +", "1 ?? ",
	"5\n[1,", "5\n[1..", "5\n(1", "5\nf(1", "5\nx[1", "5\nx.y(", "5\n2d6k(", "5\n-", "5\n1 ? 2 : [", "5\n1 ? 2, 3 ? [", "5\nx || y || [", "5\nif", "5\nwhile", "5\nfunc", "5\nreturn [",
	// recorded compile-level findings (KF-C08-*): must stay attributed, never silently disappear from the corpus
	"func g(c) { x = c.d = 2 }; g({})", "func g(c) { if c.d = 2 { 1 } }; g({})", "func g(c) { return [c.d = 2] }; g({})", "a.b = c.d = 2", "this._t = i[0] = []", "x = a[1:2] = 3",
	"[1 ? 2, 3]", "str(1 ? 2, 3)", "[0 ? 2, 3]", "[x ? 1, y ? 2, 3]", "{'a': 0 ? 2, 'b': 3}", "y = 0 || [", "^stA:0 || [", "x = y || z || (",
	"1 || [1,2][0:1]", "0 || [1,2][0:1]", "1 ? 2 : [1,2][0:1]", "[1,2,3][0:1]", "x && [][1:]", "-[1,2,3][0:1]", "1==[1,2,3][0:1]",
	"i=0; while i<3 { i=i+1 }\n[", "if 1 { 2 }\n{'a':", "while 1 { break }\n'a", "`{1}`\n`{", "x=1\n`a{x", "x=1\n`a{% if x {", "1\n^st", "^st力量60 [", "^st力量+=1 [", "^st力量+=[", "^st&a=[",
}

// ---------------------------------------------------------------- corpus: grammar-directed generator
type g08 struct {
	r      *rng
	inLoop int
	inFunc int
}

var g08Idents = []string{"x", "y", "a", "b", "i", "n", "dct", "arr", "f", "g", "力量", "_t", "$t", "val2", "理智"}
var g08Bin = []string{"+", "-", "*", "/", "%", "^", "**", "??", "<", "<=", "==", "!=", ">=", ">", "&", "|", "&&", "||"}

func (g *g08) id() string { return pick(g.r, g08Idents) }
func (g *g08) sp() string {
	if g.r.chance(1, 3) {
		return " "
	}
	return ""
}

func (g *g08) str(d int) string {
	r := g.r
	switch r.intn(6) {
	case 0:
		return pick(r, []string{"''", `""`, "``", "\x1e\x1e"})
	case 1:
		return "'" + pick(r, []string{"a", "abc", "a b", `\n`, `\'`, "力量", "{x}", `a\\b`}) + "'"
	case 2:
		return `"` + pick(r, []string{"a", "abc", "a b", `\n`, `\"`, "力量", "{x}"}) + `"`
	}
	q := "`"
	if r.chance(1, 6) {
		q = "\x1e"
	}
	var sb strings.Builder
	sb.WriteString(q)
	k := 1 + r.intn(4)
	for j := 0; j < k; j++ {
		switch r.intn(5) {
		case 0, 1:
			sb.WriteString(pick(r, []string{"a", "txt ", "=", `\{`, "力量:", " "}))
		case 2:
			if d > 0 {
				sb.WriteString("{" + g.sp() + g.expr(d-1) + g.sp() + "}")
			} else {
				sb.WriteString("{x}")
			}
		case 3:
			if d > 0 {
				sb.WriteString("{%" + g.sp() + g.stmts(d-1, 1+r.intn(2)) + g.sp() + "%}")
			} else {
				sb.WriteString("{% 1 %}")
			}
		case 4:
			if d > 0 {
				sb.WriteString("{" + g.stmts(d-1, 1+r.intn(2)) + "}")
			}
		}
	}
	sb.WriteString(q)
	return sb.String()
}

func (g *g08) nos(d int) string {
	if d > 0 && g.r.chance(1, 4) {
		return "(" + g.expr(d-1) + ")"
	}
	return strconv.Itoa(1 + g.r.intn(12))
}

func (g *g08) dice(d int) string {
	r := g.r
	mod := func() string {
		s := ""
		if r.chance(1, 2) {
			s += pick(r, []string{"k", "kh", "q", "kl", "dh", "dl", "K", "Q"})
			if r.chance(2, 3) {
				s += g.nos(d)
			}
		}
		if r.chance(1, 4) {
			s += pick(r, []string{"min", "max"}) + g.nos(d)
			if r.chance(1, 3) {
				s += "max" + g.nos(d)
			}
		}
		return s
	}
	switch r.intn(14) {
	case 0:
		return pick(r, []string{"d", "D", "d优势", "d劣势", "d優勢", "d劣勢"})
	case 1:
		return g.nos(d) + "d" + mod()
	case 2:
		return "d" + g.nos(d) + pick(r, []string{"", "优势", "劣势", mod()})
	case 3, 4, 5:
		return g.nos(d) + pick(r, []string{"d", "D"}) + g.nos(d) + mod()
	case 6:
		return g.nos(d) + "d" + g.nos(d) + "d" + g.nos(d) + mod()
	case 7:
		return pick(r, []string{"b", "p", "B", "P"}) + pick(r, []string{"", g.nos(d)})
	case 8, 9:
		s := pick(r, []string{"", g.nos(d)}) + pick(r, []string{"a", "A"}) + g.nos(d)
		for r.chance(1, 2) {
			s += pick(r, []string{"m", "k", "q"}) + g.nos(d)
		}
		return s
	case 10, 11:
		s := g.nos(d) + pick(r, []string{"c", "C"}) + g.nos(d)
		for r.chance(1, 3) {
			s += "m" + g.nos(d)
		}
		return s
	case 12:
		return "f"
	}
	return "dk" + g.nos(d)
}

func (g *g08) suffix(d int) string {
	r := g.r
	s := ""
	for r.chance(1, 3) {
		switch r.intn(5) {
		case 0:
			s += "[" + g.expr(d) + "]"
		case 1:
			s += "." + g.id()
		case 2:
			s += "." + pick(r, []string{"len", "sum", "keys", "pop", "push"}) + "(" + g.args(d) + ")"
		case 3:
			s += "[" + pick(r, []string{"", g.expr(d)}) + ":" + pick(r, []string{"", g.expr(d)}) + "]"
			return s
		case 4:
			s += "(" + g.args(d) + ")"
		}
	}
	return s
}

func (g *g08) args(d int) string {
	k := g.r.intn(4)
	var a []string
	for j := 0; j < k; j++ {
		a = append(a, g.expr(d))
	}
	return strings.Join(a, ","+g.sp())
}

func (g *g08) atom(d int) string {
	r := g.r
	if d <= 0 {
		return pick(r, []string{"1", "2", "0", "1.5", "x", "y", "'s'", "null", "true", "i", "d6", "[]", "{}"})
	}
	d--
	switch r.intn(20) {
	case 0:
		return strconv.Itoa(r.intn(100))
	case 1:
		return pick(r, []string{"1.5", ".5", "0.0", "3.25"})
	case 2:
		return pick(r, []string{"true", "false", "null"})
	case 3:
		return g.str(d)
	case 4:
		return g.id() + g.suffix(d)
	case 5:
		return g.id()
	case 6:
		return "&" + g.id() + pick(r, []string{"", "." + g.id()})
	case 7:
		return "this" + pick(r, []string{"", "." + g.id(), "." + g.id() + "." + g.id()})
	case 8:
		k := r.intn(4)
		var a []string
		for j := 0; j < k; j++ {
			a = append(a, g.expr(d))
		}
		return "[" + strings.Join(a, ","+g.sp()) + "]" + pick(r, []string{"", "", "kh", "kl", "kh2", "kl1", "[0]", ".len()", ".sum"})
	case 9:
		return "[" + g.expr(d) + ".." + g.expr(d) + "]" + pick(r, []string{"", "kh", "[1]", ".sum()"})
	case 10:
		k := r.intn(3)
		var a []string
		for j := 0; j < k; j++ {
			key := pick(r, []string{"'k" + strconv.Itoa(j) + "'", g.id(), strconv.Itoa(j), g.expr(d)})
			a = append(a, key+g.sp()+":"+g.sp()+g.expr(d))
		}
		tail := ""
		if k > 0 && r.chance(1, 5) {
			tail = ","
		}
		return "{" + strings.Join(a, ",") + tail + "}" + pick(r, []string{"", "", ".k0", "['k0']", ".keys()"})
	case 11, 12:
		return "(" + g.expr(d) + ")" + g.suffix(d)
	case 13, 14, 15, 16:
		return g.dice(d)
	case 17:
		return g.id() + "(" + g.args(d) + ")" + g.suffix(d)
	case 18:
		return pick(r, []string{"str", "int", "float", "abs", "bool", "typeId", "dir", "ceil", "floor", "round"}) + "(" + g.expr(d) + ")"
	}
	return g.id()
}

func (g *g08) binexpr(d int) string {
	r := g.r
	s := g.unary(d)
	k := r.intn(3)
	for j := 0; j < k; j++ {
		s += g.sp() + pick(r, g08Bin) + g.sp() + g.unary(d)
	}
	return s
}

func (g *g08) unary(d int) string {
	if g.r.chance(1, 8) {
		return pick(g.r, []string{"-", "+"}) + g.atom(d)
	}
	return g.atom(d)
}

// expr: exprRoot (assignments included)
func (g *g08) expr(d int) string {
	r := g.r
	if d <= 0 {
		return g.atom(0)
	}
	switch r.intn(16) {
	case 0:
		return g.binexpr(d-1) + " ? " + g.binexpr(d-1) + " : " + g.binexpr(d-1)
	case 1:
		k := 1 + r.intn(3)
		var a []string
		for j := 0; j < k; j++ {
			a = append(a, g.binexpr(d-1)+" ? "+g.binexpr(d-1))
		}
		return strings.Join(a, ", ")
	case 2:
		return g.id() + g.sp() + "=" + g.sp() + g.expr(d-1)
	case 3:
		switch r.intn(7) {
		case 0:
			return "&" + g.id() + " = " + g.expr(d-1)
		case 1:
			return "&" + g.id() + "." + g.id() + " = " + g.expr(d-1)
		case 2:
			return "this." + g.id() + " = " + g.expr(d-1)
		case 3:
			return g.id() + "." + g.id() + " = " + g.expr(d-1)
		case 4:
			return g.id() + "[" + g.expr(d-1) + "] = " + g.expr(d-1)
		case 5:
			return g.id() + "[" + pick(r, []string{"", g.expr(d - 1)}) + ":" + pick(r, []string{"", g.expr(d - 1)}) + "] = " + g.expr(d-1)
		}
		return g.atom(d-1) + "[" + g.expr(d-1) + "] = " + g.expr(d-1)
	case 4:
		return g.binexpr(d-1) + "[" + pick(r, []string{"", g.expr(d - 1)}) + ":" + pick(r, []string{"", g.expr(d - 1)}) + "]"
	}
	return g.binexpr(d - 1)
}

func (g *g08) block(d int) string {
	if g.r.chance(1, 8) {
		return "{" + g.sp() + "}"
	}
	return "{ " + g.stmts(d, 1+g.r.intn(3)) + " }"
}

func (g *g08) stmt(d int) string {
	r := g.r
	if d <= 0 {
		return g.expr(1)
	}
	switch r.intn(14) {
	case 0, 1:
		s := "if " + g.expr(d-1) + " " + g.block(d-1)
		for r.chance(1, 3) {
			s += " else if " + g.expr(d-1) + " " + g.block(d-1)
		}
		if r.chance(1, 2) {
			s += " else " + g.block(d-1)
		}
		return s
	case 2, 3:
		g.inLoop++
		s := "while " + g.expr(d-1) + " " + g.block(d-1)
		g.inLoop--
		return s
	case 4:
		if g.inLoop > 0 {
			return pick(r, []string{"break", "continue"})
		}
	case 5:
		if g.inLoop > 0 {
			return "if " + g.expr(d-1) + " { " + pick(r, []string{"break", "continue"}) + " }"
		}
	case 6:
		np := r.intn(3)
		var ps []string
		for j := 0; j < np; j++ {
			ps = append(ps, pick(r, []string{"a", "b", "n", "p"})+strconv.Itoa(j))
		}
		saved := g.inLoop
		g.inLoop = 0
		g.inFunc++
		s := "func " + pick(r, []string{"f", "g", "h"}) + "(" + strings.Join(ps, ", ") + ") " + g.block(d-1)
		g.inFunc--
		g.inLoop = saved
		return s
	case 7:
		if g.inFunc > 0 || r.chance(1, 6) {
			return pick(r, []string{"return", "return " + g.expr(d-1)})
		}
	}
	return g.expr(d)
}

// loopNest: a loop whose body mixes exits at different block depths (bare, inside if / else / template blocks, inside an
// inner loop) with definitions (func / computed) whose own bodies contain loops with exits, in random order
func (g *g08) exitStmt(d int) string {
	r := g.r
	e := pick(r, []string{"break", "continue"})
	c := pick(r, []string{"i==3", "i>0", "i==100", "a", "!a", "i%2==0", g.expr(0)})
	switch r.intn(7) {
	case 0:
		return e
	case 1, 2:
		return "if " + c + " { " + e + " }"
	case 3:
		return "if " + c + " { if " + pick(r, []string{"i", "b", "1"}) + " { " + e + " } }"
	case 4:
		return "if " + c + " { n=n+1 } else { " + e + " }"
	case 5:
		return "`{% if " + c + " { " + e + " } %}`"
	}
	return "if " + c + " { n=n+1; " + e + " }"
}
func (g *g08) loopNest(d int) string {
	r := g.r
	v := pick(r, []string{"i", "j", "k"})
	var parts []string
	parts = append(parts, v+"="+v+"+1")
	k := 2 + r.intn(4)
	for j := 0; j < k; j++ {
		switch r.intn(6) {
		case 0, 1, 2:
			parts = append(parts, g.exitStmt(d))
		case 3:
			if d > 0 {
				body := g.loopNest(d - 1)
				if r.chance(1, 2) {
					parts = append(parts, "func "+pick(r, []string{"f", "g", "h"})+"(m) { "+v+"=0; "+body+"; "+v+" }")
				} else {
					parts = append(parts, "&"+pick(r, []string{"c", "e"})+" = `{% "+v+"=0; "+body+"; "+v+" %}`")
				}
			} else {
				parts = append(parts, "n=n+1")
			}
		case 4:
			if d > 0 {
				parts = append(parts, g.loopNest(d-1))
			} else {
				parts = append(parts, "if a { n=n+2 }")
			}
		default:
			parts = append(parts, pick(r, []string{"n=n+1", "if a { n=n+2 }", "`{n}`", "x = d6"}))
		}
	}
	cond := pick(r, []string{v + "<5", v + "<30", "1", "a"})
	return "while " + cond + " { " + strings.Join(parts, "; ") + " }"
}

func (g *g08) stmts(d int, k int) string {
	var sb strings.Builder
	for j := 0; j < k; j++ {
		if j > 0 {
			sb.WriteString(pick(g.r, []string{"; ", ";", "\n", " ;\n", "; "}))
		}
		sb.WriteString(g.stmt(d))
	}
	if g.r.chance(1, 10) {
		sb.WriteString(";")
	}
	return sb.String()
}

func (g *g08) stProgram() string {
	r := g.r
	name := func() string {
		return pick(r, []string{"力量", "敏捷", "智力", "属性", "射击:弓箭", "'a b'", "A", "理智", "属性2"})
	}
	val := func() string {
		return pick(r, []string{"60", "70", "1d6", "(1+2)", "d6", "2d6k1", "x", "1.5", "(1d6+2)", "`{1}`", "x?1:2", "[1,2][0]", "1+1", "'s'"})
	}
	var sb strings.Builder
	sb.WriteString("^st")
	k := 1 + r.intn(4)
	if r.chance(1, 3) {
		for j := 0; j < k; j++ {
			sb.WriteString(name() + pick(r, []string{"+=", "-=", "+", "-"}) + val() + pick(r, []string{" ", ",", ", ", ""}))
		}
		return sb.String()
	}
	for j := 0; j < k; j++ {
		switch r.intn(6) {
		case 0:
			sb.WriteString(name() + val())
		case 1:
			sb.WriteString(name() + pick(r, []string{":", "=", " : ", " = "}) + val())
		case 2:
			sb.WriteString(name() + "*" + pick(r, []string{"2", "2.0", "(2)"}) + ":" + val())
		case 3:
			sb.WriteString(name() + "*:" + val())
		case 4:
			sb.WriteString("&" + name() + "=" + val())
		case 5:
			sb.WriteString(name() + " " + val())
		}
		sb.WriteString(pick(r, []string{" ", ",", ", ", ""}))
	}
	return sb.String()
}

func (g *g08) program() string {
	if g.r.chance(1, 12) {
		return g.stProgram()
	}
	g.inLoop, g.inFunc = 0, 0
	if g.r.chance(1, 6) {
		p := pick(g.r, []string{"", "i=0; n=0; ", "a=1; "}) + g.loopNest(1+g.r.intn(2))
		if g.r.chance(1, 2) {
			p += "; " + pick(g.r, []string{"n", "i+f(3)", "`{n}:{c}`", "g(4)", "[i,n]"})
		}
		return p
	}
	return g.stmts(1+g.r.intn(3), 1+g.r.intn(4))
}

// ---------------------------------------------------------------- corpus: garbage tails and mutations
var c08Tails = []string{
	" [", " {'a':1", " 'abc", "\n`a{1}", " || [", " && (", " ? 1", " ? 1 : [", " (", ")", " d", " 2d", " if", " while 1 {", "\n{'a':1", "\n[x,2", "\n'abc", "\n`a{1", "\n(1",
	"\nf(1,", "\nx[1", "\nx.y(", "\n2d6k(", "\n-", " +", " *", " ?? ", " ||", " &&", " =", " = ", ".", "..", ",", ":", " else", " else {", "}", "]", "%}", "{%", "\x1e", "`", "'", `"`,
	"\nif 1 {", "\nwhile 1 { break", "\nfunc f() {", "\nreturn [", "\n1 ? 2, 3 ? [", "\nx || y || [", "\nb(", "\n2a5m(", "\n2c5m(", "\nd(", "\n^st", " // #EnableDice wod", "\n[1..",
	" ?", "?", " ? ", " ?\n", " ? 2,", " ? 2, 3 ?", " :", " ? :", " ||", " &&", " ??", " <", " ==", " **", " [", " [1:", " [1:2", ".", " .x =", "[0] =", " = ",
	"\n&x = [", "\n&x.y = [", "\nthis.x = [", "\na[0] = [", "\na[0:1] = [", "\n`{% if 1 {", "\n`{% while 1 { break", "\n{a:", "\n{1:[", "\n[[", "\n((", "\n-[", "\nx=[", "\n1+[", "\nf(g(",
}

var c08Tokens = regexp.MustCompile(`[0-9]+\.[0-9]+|[0-9]+|[\p{L}_$][\p{L}\p{Nd}_$]*|\*\*|\?\?|<=|>=|==|!=|&&|\|\||\.\.|\{%|%\}|\s+|.`)
var c08TokPool = []string{"[", "]", "{", "}", "(", ")", ",", ":", ";", "\n", "?", "=", "+", "-", "*", "/", "%", "^", "&", "|", "||", "&&", "??", "<", ">", "==", "!=", ".", "..", "d", "k", "a", "c", "b", "p", "f",
	"if", "else", "while", "break", "continue", "return", "func", "this", "null", "true", "1", "0", "2", "x", "'", "`", `"`, "{%", "%}", "min", "max", "kh", "kl", "dh", "dl", "q", "m", "优势", "^st", " "}

func c08Mutate(r *rng, s string) string {
	if len(s) == 0 {
		return pick(r, c08TokPool)
	}
	if r.chance(1, 2) { // token level
		toks := c08Tokens.FindAllString(s, -1)
		if len(toks) == 0 {
			return s
		}
		k := 1 + r.intn(2)
		for j := 0; j < k && len(toks) > 0; j++ {
			p := r.intn(len(toks))
			switch r.intn(5) {
			case 0:
				toks = append(toks[:p], toks[p+1:]...)
			case 1:
				toks = append(toks[:p+1], append([]string{toks[p]}, toks[p+1:]...)...)
			case 2:
				toks[p] = pick(r, c08TokPool)
			case 3:
				toks = append(toks[:p], append([]string{pick(r, c08TokPool)}, toks[p:]...)...)
			case 4:
				q := r.intn(len(toks))
				toks[p], toks[q] = toks[q], toks[p]
			}
		}
		return strings.Join(toks, "")
	}
	b := []byte(s)
	k := 1 + r.intn(2)
	alphabet := []byte("[]{}(),:;\n?=+-*/%^&|<>.dkacbpfqm01 '`\"\\x")
	for j := 0; j < k && len(b) > 0; j++ {
		p := r.intn(len(b))
		switch r.intn(4) {
		case 0:
			b = append(b[:p], b[p+1:]...)
		case 1:
			b = append(b[:p], append([]byte{pick(r, alphabet)}, b[p:]...)...)
		case 2:
			b[p] = pick(r, alphabet)
		case 3:
			b = b[:p]
		}
	}
	return string(b)
}

// every string literal of the repository's own test files
func c08Scrape(repo string) []string {
	files, _ := filepath.Glob(filepath.Join(repo, "*_test.go"))
	sort.Strings(files)
	seen := map[string]bool{}
	var out []string
	for _, f := range files {
		src, err := os.ReadFile(f)
		if err != nil {
			continue
		}
		fset := token.NewFileSet()
		file := fset.AddFile(f, fset.Base(), len(src))
		var s scanner.Scanner
		s.Init(file, src, nil, 0)
		for {
			_, tok, lit := s.Scan()
			if tok == token.EOF {
				break
			}
			if tok == token.STRING {
				v, err := strconv.Unquote(lit)
				if err == nil && len(v) > 0 && len(v) < 4000 && utf8.ValidString(v) && !seen[v] {
					seen[v] = true
					out = append(out, v)
				}
			}
		}
	}
	return out
}

type c08Row struct {
	Src    string   `json:"src"`
	Cfg    string   `json:"cfg"`
	Origin string   `json:"origin"`
	Code   []c08Op  `json:"code"`
	Lazy   []string `json:"lazy,omitempty"`
}

func init() {
	cmds["c08"] = func(args []string) {
		fs, seed, n := stdFlags("c08")
		repo := fs.String("repo", "/repo", "repository whose *_test.go string literals join the corpus")
		fs.Parse(args)
		r := newRng(*seed)
		g := &g08{r: r}

		type item struct{ src, origin string }
		var corpus []item
		for _, s := range c08Seeds {
			corpus = append(corpus, item{s, "seed"})
		}
		scraped := c08Scrape(*repo)
		for _, s := range scraped {
			corpus = append(corpus, item{s, "test"})
		}
		var valid []string
		valid = append(valid, c08Seeds...)
		for j := 0; j < *n; j++ {
			p := g.program()
			valid = append(valid, p)
			corpus = append(corpus, item{p, "gen"})
		}
		pool := append(append([]string{}, valid...), scraped...)
		for j := 0; j < *n; j++ {
			base := pick(r, pool)
			switch r.intn(4) {
			case 0: // valid prefix + garbage tail
				corpus = append(corpus, item{base + pick(r, c08Tails), "tail"})
			case 1: // valid program, newline, truncated valid program
				other := pick(r, pool)
				cut := r.intn(len(other) + 1)
				for cut < len(other) && !utf8.RuneStart(other[cut]) {
					cut++
				}
				corpus = append(corpus, item{base + pick(r, []string{"\n", ";", "; ", " "}) + other[:cut], "cut"})
			default:
				m := c08Mutate(r, base)
				if utf8.ValidString(m) {
					corpus = append(corpus, item{m, "mut"})
				}
			}
		}

		seenShape := map[string]bool{}
		seenSrc := map[string]bool{}
		stat := map[string]int{}
		var parsePanics []map[string]string
		var emitOne func(src, cfg, origin string, depth int)
		emitOne = func(src, cfg, origin string, depth int) {
			k := cfg + "\x00" + src
			if seenSrc[k] {
				return
			}
			seenSrc[k] = true
			stat["inputs"]++
			stat["inputs_"+origin]++
			vm, err, pan := c08Parse(cfg, src)
			if pan != "" {
				stat["parse_panics"]++
				if len(parsePanics) < 5 {
					parsePanics = append(parsePanics, map[string]string{"src": src, "cfg": cfg, "panic": pan})
				}
				return
			}
			if err != nil {
				stat["rejected_by_parser"]++
				return
			}
			stat["accepted"]++
			stat["accepted_"+origin]++
			full := vm.VerifCode()
			code := c08Compact(full)
			var sb strings.Builder
			c08ShapeKey(code, &sb)
			var lazy []string
			c08Lazy(full, &lazy)
			if !seenShape[sb.String()] {
				seenShape[sb.String()] = true
				emit(c08Row{Src: src, Cfg: cfg, Origin: origin, Code: code, Lazy: lazy})
			}
			// bodies the implementation compiles only when called are themselves inputs of the parser
			if depth < 3 {
				for _, e := range lazy {
					stat["lazy_bodies"]++
					emitOne(e, cfg, "lazy", depth+1)
				}
			}
		}
		for _, it := range corpus {
			for _, cfg := range c08CfgNames {
				emitOne(it.src, cfg, it.origin, 0)
			}
		}
		emit(map[string]any{"stats": stat, "parse_panics": parsePanics, "distinct_shapes": len(seenShape), "scraped_literals": len(scraped)})
	}

	cmds["c08-run"] = c08Run
	cmds["c08-trace"] = c08Trace
}

const c08E3 = "E3:无效的表达式"

// ---------------------------------------------------------------- search: drive rejected programs on the real VM
type c08In struct {
	Src string `json:"src"`
	Cfg string `json:"cfg"`
}

func c08Values() []func() *ds.VMValue {
	return []func() *ds.VMValue{
		func() *ds.VMValue { return ds.NewIntVal(0) },
		func() *ds.VMValue { return ds.NewIntVal(1) },
		func() *ds.VMValue { return ds.NewStrVal("") },
		func() *ds.VMValue { return ds.NewNullVal() },
		func() *ds.VMValue { return ds.NewIntVal(5) },
		func() *ds.VMValue { return ds.NewStrVal("s") },
		func() *ds.VMValue { return ds.NewArrayVal() },
		func() *ds.VMValue { return ds.NewArrayVal(ds.NewIntVal(1), ds.NewIntVal(2), ds.NewIntVal(3)) },
		func() *ds.VMValue { return ds.NewDictVal(nil).V() },
		func() *ds.VMValue { return ds.NewFloatVal(1.5) },
		func() *ds.VMValue { return ds.NewIntVal(-1) },
	}
}

// c08Exec runs fn and reports a Go panic together with the innermost non-runtime frame of its stack
type c08Outcome struct {
	Err    string `json:"err,omitempty"`
	Panic  string `json:"panic,omitempty"`
	Site   string `json:"site,omitempty"`    // innermost frame below the runtime
	InEval bool   `json:"in_eval,omitempty"` // the panic was raised by evaluate() itself (or one of its closures)
	Hang   bool   `json:"hang,omitempty"`
}

func c08PanicSite(stack string) string {
	lines := strings.Split(stack, "\n")
	seenPanic := false
	for _, ln := range lines {
		if ln == "" || ln[0] == '\t' || strings.HasPrefix(ln, "goroutine ") {
			continue
		}
		if strings.HasPrefix(ln, "panic(") {
			seenPanic = true
			continue
		}
		if !seenPanic || strings.HasPrefix(ln, "runtime.") {
			continue
		}
		if k := strings.LastIndex(ln, "("); k > 0 {
			return ln[:k]
		}
		return ln
	}
	return ""
}

func c08Exec(fn func() error) (o c08Outcome) {
	done := make(chan c08Outcome, 1)
	go func() {
		var r c08Outcome
		defer func() {
			if e := recover(); e != nil {
				r.Panic = fmt.Sprint(e)
				r.Site = c08PanicSite(string(debug.Stack()))
				r.InEval = strings.Contains(r.Site, "(*Context).evaluate")
			}
			done <- r
		}()
		if err := fn(); err != nil {
			r.Err = err.Error()
		}
	}()
	select {
	case o = <-done:
	case <-time.After(4 * time.Second):
		o.Hang = true
	}
	return
}

func c08RunOne(src, cfg string, mode int, bind map[string]*ds.VMValue) c08Outcome {
	c := c08Cfg(cfg)
	c.Mode = mode
	c.OpLimit = 20000
	vm := newVM(c, 0x0123456789abcdef, 0xfedcba9876543210, true)
	vm.Config.ParseExprLimit = 3000000
	for k, v := range bind {
		vm.StoreNameLocal(k, v)
	}
	return c08Exec(func() error { return vm.Run(src) })
}

func c08HasExploding(code []ds.VerifOp) bool {
	for _, o := range code {
		if o.Name == "dice.wod" || o.Name == "dice.dc" {
			return true
		}
		if o.Fn != nil && o.Fn.Code != nil && c08HasExploding(o.Fn.Code) {
			return true
		}
	}
	return false
}

func c08Run(args []string) {
	fs, seed, n := stdFlags("c08-run")
	fs.Parse(args)
	r := newRng(*seed)
	sc := bufio.NewScanner(os.Stdin)
	sc.Buffer(make([]byte, 1<<20), 1<<26)
	vals := c08Values()
	for sc.Scan() {
		var in c08In
		if json.Unmarshal(sc.Bytes(), &in) != nil {
			continue
		}
		namesSet := map[string]bool{}
		modes := []int{0, -1, 1}
		if vm, err, pan := c08Parse(in.Cfg, in.Src); pan == "" && err == nil {
			full := vm.VerifCode()
			c08Names(full, namesSet)
			if c08HasExploding(full) {
				modes = []int{0, -1} // exploding pools need not terminate in max mode
			}
		}
		var names []string
		for k := range namesSet {
			names = append(names, k)
		}
		sort.Strings(names)
		runs, hangs := 0, 0
		var hits, other []map[string]any
		try := func(mode int, bind map[string]*ds.VMValue, desc map[string]string) {
			if hangs >= 2 {
				return
			}
			runs++
			o := c08RunOne(in.Src, in.Cfg, mode, bind)
			if o.Hang {
				hangs++
			}
			if o.Panic != "" {
				h := map[string]any{"mode": mode, "vars": desc, "panic": o.Panic, "site": o.Site}
				if o.InEval && len(hits) < 3 {
					hits = append(hits, h)
				} else if !o.InEval && len(other) < 2 {
					other = append(other, h)
				}
			} else if strings.Contains(o.Err, c08E3) && len(hits) < 3 {
				// the VM's own diagnosis of ill-formed code
				hits = append(hits, map[string]any{"mode": mode, "vars": desc, "err": o.Err})
			} else if strings.Contains(o.Err, "嵌套层数过多") && strings.Count(in.Src, "{") < 20 && len(hits) < 3 {
				// more than 20 open blocks although the source has fewer than 20 opening braces in all: on well-formed code
				// the number of open blocks of a body never exceeds its static nesting, so some path leaks a block per round
				hits = append(hits, map[string]any{"mode": mode, "vars": desc, "err": o.Err, "open_braces_in_source": strings.Count(in.Src, "{")})
			}
		}
		for _, mode := range modes {
			try(mode, nil, nil)
			for vi, mk := range vals {
				bind, desc := map[string]*ds.VMValue{}, map[string]string{}
				for _, k := range names {
					v := mk()
					bind[k] = v
					desc[k] = v.ToString()
				}
				_ = vi
				if len(names) > 0 {
					try(mode, bind, desc)
				}
			}
		}
		if len(names) > 1 {
			for j := 0; j < *n; j++ {
				bind, desc := map[string]*ds.VMValue{}, map[string]string{}
				for _, k := range names {
					v := pick(r, vals)()
					bind[k] = v
					desc[k] = v.ToString()
				}
				try(pick(r, modes), bind, desc)
			}
		}
		emit(map[string]any{"src": in.Src, "cfg": in.Cfg, "runs": runs, "names": names, "hits": hits, "other_panics": other, "hangs": hangs})
	}
}

// ---------------------------------------------------------------- executed-path trace of the real VM
var c08TraceLine = regexp.MustCompile(` (\d+)/(\d+) \d+ms(  S\d+)?$`)

func c08Trace(args []string) {
	fs, _, _ := stdFlags("c08-trace")
	fs.Parse(args)
	sc := bufio.NewScanner(os.Stdin)
	sc.Buffer(make([]byte, 1<<20), 1<<26)
	for sc.Scan() {
		var in c08In
		if json.Unmarshal(sc.Bytes(), &in) != nil {
			continue
		}
		// once as is, once with every variable the program loads bound to an integer (deeper runs)
		for _, bind := range []bool{false, true} {
			c08TraceOne(in, bind)
		}
	}
}

func c08TraceOne(in c08In, bind bool) {
	vm, err, pan := c08Parse(in.Cfg, in.Src)
	if pan != "" || err != nil {
		return
	}
	full := vm.VerifCode()
	code := c08Compact(full)
	if bind {
		names := map[string]bool{}
		c08Names(full, names)
		if len(names) == 0 {
			return
		}
		for k := range names {
			vm.StoreNameLocal(k, ds.NewIntVal(2))
		}
	}
	vm.Config.PrintBytecode = true
	vm.Config.OpCountLimit = 4000
	rd, wr, perr := os.Pipe()
	if perr != nil {
		return
	}
	old := os.Stdout
	os.Stdout = wr
	done := make(chan []byte)
	go func() {
		b, _ := io.ReadAll(rd)
		done <- b
	}()
	res := map[string]any{"src": in.Src, "cfg": in.Cfg, "code": code, "bound": bind}
	func() {
		defer func() {
			if r := recover(); r != nil {
				res["panic"] = fmt.Sprint(r)
				site := c08PanicSite(string(debug.Stack()))
				res["site"] = site
				res["in_eval"] = strings.Contains(site, "(*Context).evaluate")
			}
		}()
		e := vm.RunAfterParsed()
		if e != nil {
			res["err"] = e.Error()
		}
	}()
	os.Stdout = old
	wr.Close()
	text := <-done
	rd.Close()
	var pcs []int
	for _, ln := range strings.Split(string(text), "\n") {
		m := c08TraceLine.FindStringSubmatch(ln)
		if m == nil || m[3] != "" {
			continue
		}
		k, _ := strconv.Atoi(m[1])
		pcs = append(pcs, k-1)
	}
	res["trace"] = pcs
	res["top"] = vm.StackTop()
	ended := 0
	if e, ok := res["err"].(string); ok {
		ended = 1
		if strings.Contains(e, c08E3) {
			ended = 3
		}
	}
	if _, ok := res["panic"]; ok {
		ended = 4 // a panic below evaluate (value level): not a statement about the code's shape
		if b, _ := res["in_eval"].(bool); b {
			ended = 2
		}
	}
	res["ended"] = ended
	emit(res)
}
