(* C11 — independent VMs are race-free and behave exactly as when run alone.
   The logic half: (1) the footprint table regenerated from /repo shows that, outside package
   initialisation, package-level state is only read (or accessed under a lock / through the
   explicit host setter); (2) steps that depend only on immutable shared state and the VM's own
   state make every interleaving equivalent to running the VM alone.  Data-race freedom in the
   sense of the Go memory model is evidence from the race detector, not a theorem. *)
From Coq Require Import NArith List Bool String Arith.
From DS Require Import Model.Conc Proofs.ConcProofs Gen.Globals.
Import ListNotations.

Theorem C11_footprint_ok : footprint_ok pkg_vars uses rand_calls = true.
Proof. vm_compute. reflexivity. Qed.

Theorem C11_schedule_independent :
  forall (G S : Type) (step : nat -> G -> S -> S) (g : G) (sched : list nat) (st : nat -> S) (i : nat),
    run_sched G S step g sched st i = iter S (count i sched) (step i g) (st i).
Proof. exact schedule_independent. Qed.

Theorem C11_same_count_same_result :
  forall (G S : Type) (step : nat -> G -> S -> S) (g : G) (s1 s2 : list nat) (st : nat -> S) (i : nat),
    count i s1 = count i s2 -> run_sched G S step g s1 st i = run_sched G S step g s2 st i.
Proof. exact same_count_same_result. Qed.

(* C06 side: the package generator is only touched by the nil-source fallback, under the lock *)
Theorem C11_rand_source_confined : rand_source_confined uses = true.
Proof. vm_compute. reflexivity. Qed.

Print Assumptions C11_footprint_ok.
Print Assumptions C11_schedule_independent.
Print Assumptions C11_same_count_same_result.
Print Assumptions C11_rand_source_confined.

(* non-vacuity: a table with an unsynchronised write is rejected *)
Example C11_nonvacuous :
  footprint_ok [("x"%string, ""%string)] [("x"%string, "Parse"%string, 1%N, false)] [] = false.
Proof. reflexivity. Qed.
Example C11_nonvacuous_sched :
  run_sched unit nat (fun i _ s => s + i + 1) tt [0; 1; 0; 1; 1] (fun _ => 0) 1 = 6.
Proof. reflexivity. Qed.
