package main

import (
	"bufio"
	"encoding/json"
	"flag"
	"fmt"
	"os"
	"sort"
	"sync"
	"sync/atomic"

	ds "github.com/sealdice/dicescript"
)

// one operation: [opcode, key, val]; opcodes: 0 Load 1 Store 2 LoadOrStore 3 LoadAndDelete 4 Delete 5 Clear 6 Range 7 Length
type vmOp [3]int

func keyName(k int) string { return fmt.Sprintf("k%d", k) }

func valOf(v *ds.VMValue) int {
	if v == nil {
		return -1
	}
	x, ok := v.ReadInt()
	if !ok {
		return -2
	}
	return int(x)
}

// applyOp returns the canonical result: a list of ints
func applyOp(m *ds.ValueMap, o vmOp) []int {
	switch o[0] {
	case 0:
		v, ok := m.Load(keyName(o[1]))
		if !ok {
			return []int{0}
		}
		return []int{1, valOf(v)}
	case 1:
		m.Store(keyName(o[1]), ds.NewIntVal(ds.IntType(o[2])))
		return []int{}
	case 2:
		v, loaded := m.LoadOrStore(keyName(o[1]), ds.NewIntVal(ds.IntType(o[2])))
		b := 0
		if loaded {
			b = 1
		}
		return []int{b, valOf(v)}
	case 3:
		v, ok := m.LoadAndDelete(keyName(o[1]))
		if !ok {
			return []int{0}
		}
		return []int{1, valOf(v)}
	case 4:
		m.Delete(keyName(o[1]))
		return []int{}
	case 5:
		m.Clear()
		return []int{}
	case 6:
		type kv struct{ k, v int }
		var l []kv
		m.Range(func(key string, value *ds.VMValue) bool {
			var k int
			fmt.Sscanf(key, "k%d", &k)
			l = append(l, kv{k, valOf(value)})
			return true
		})
		sort.Slice(l, func(i, j int) bool { return l[i].k < l[j].k })
		out := []int{}
		for _, p := range l {
			out = append(out, p.k, p.v)
		}
		return out
	case 7:
		return []int{m.Length()}
	}
	return nil
}

type c12Case struct {
	Ops [][3]int `json:"ops"`
	Res [][]int  `json:"res"`
}

func runSeq(ops []vmOp) c12Case {
	m := &ds.ValueMap{}
	c := c12Case{}
	for _, o := range ops {
		c.Ops = append(c.Ops, o)
		c.Res = append(c.Res, applyOp(m, o))
	}
	return c
}

func allOps(nk, nv int) []vmOp {
	var l []vmOp
	for k := 1; k <= nk; k++ {
		l = append(l, vmOp{0, k, 0}, vmOp{3, k, 0}, vmOp{4, k, 0})
		for v := 1; v <= nv; v++ {
			l = append(l, vmOp{1, k, v}, vmOp{2, k, v})
		}
	}
	l = append(l, vmOp{5, 0, 0}, vmOp{6, 0, 0}, vmOp{7, 0, 0})
	return l
}

func init() {
	// random histories biased toward miss/promotion/expunge patterns
	cmds["c12"] = func(args []string) {
		fs, seed, n := stdFlags("c12")
		maxLen := fs.Int("len", 60, "max history length")
		fs.Parse(args)
		r := newRng(*seed)
		for c := 0; c < *n; c++ {
			nk := 2 + r.intn(4)
			ln := 4 + r.intn(*maxLen-3)
			var ops []vmOp
			for len(ops) < ln {
				k := 1 + r.intn(nk)
				v := 1 + r.intn(9)
				switch r.intn(20) {
				case 0, 1, 2:
					ops = append(ops, vmOp{1, k, v})
				case 3, 4:
					ops = append(ops, vmOp{2, k, v})
				case 5, 6:
					ops = append(ops, vmOp{0, k, 0})
				case 7, 8:
					ops = append(ops, vmOp{3, k, 0})
				case 9:
					ops = append(ops, vmOp{4, k, 0})
				case 10:
					ops = append(ops, vmOp{6, 0, 0})
				case 11, 12:
					ops = append(ops, vmOp{7, 0, 0})
				case 13:
					if r.chance(1, 4) {
						ops = append(ops, vmOp{5, 0, 0})
					}
				case 14: // burst of misses on one key: drives missLocked promotion
					for j := 0; j < 1+r.intn(4); j++ {
						ops = append(ops, vmOp{0, nk + 1 + r.intn(2), 0})
					}
				case 15: // delete then re-store: nil -> expunged -> unexpunge path
					ops = append(ops, vmOp{4, k, 0}, vmOp{1, nk + 1, v}, vmOp{1, k, v}, vmOp{7, 0, 0})
				case 16: // promote then delete then length/range
					ops = append(ops, vmOp{6, 0, 0}, vmOp{3, k, 0}, vmOp{7, 0, 0})
				case 17:
					ops = append(ops, vmOp{2, k, v}, vmOp{2, k, v + 1})
				default:
					ops = append(ops, vmOp{1, k, v}, vmOp{0, k, 0})
				}
			}
			emit(runSeq(ops))
		}
	}

	// exhaustive: all sequences of exactly -len operations over nk keys x nv values (count = |ops|^len)
	cmds["c12-exh"] = func(args []string) {
		fs, _, _ := stdFlags("c12-exh")
		ln := fs.Int("len", 3, "history length")
		nk := fs.Int("keys", 2, "keys")
		nv := fs.Int("vals", 1, "values")
		fs.Parse(args)
		base := allOps(*nk, *nv)
		idx := make([]int, *ln)
		for {
			ops := make([]vmOp, *ln)
			for i, j := range idx {
				ops[i] = base[j]
			}
			emit(runSeq(ops))
			p := *ln - 1
			for p >= 0 {
				idx[p]++
				if idx[p] < len(base) {
					break
				}
				idx[p] = 0
				p--
			}
			if p < 0 {
				break
			}
		}
	}

	// run op sequences given on stdin (one JSON array of [op,key,val] per line)
	cmds["c12-run"] = func(args []string) {
		sc := bufio.NewScanner(os.Stdin)
		sc.Buffer(make([]byte, 1<<20), 1<<26)
		for sc.Scan() {
			var ops []vmOp
			if err := json.Unmarshal(sc.Bytes(), &ops); err != nil {
				continue
			}
			emit(runSeq(ops))
		}
	}

	// dict observations in scripts after arbitrary ValueMap histories: two maps are driven through op sequences (promotions,
	// expunged entries, deleted-and-restored keys), wrapped as dict values a and b, and the script-level `a == b`, `a.len()`,
	// truthiness are compared (by the caller) with what plain maps give
	cmds["c12-eq"] = func(args []string) {
		sc := bufio.NewScanner(os.Stdin)
		sc.Buffer(make([]byte, 1<<20), 1<<26)
		for sc.Scan() {
			var in struct {
				A []vmOp `json:"a"`
				B []vmOp `json:"b"`
			}
			if err := json.Unmarshal(sc.Bytes(), &in); err != nil {
				continue
			}
			ma, mb := &ds.ValueMap{}, &ds.ValueMap{}
			for _, o := range in.A {
				applyOp(ma, o)
			}
			for _, o := range in.B {
				applyOp(mb, o)
			}
			vm := ds.NewVM()
			vm.Config.OpCountLimit = 30000
			vm.Attrs.Store("a", (*ds.VMValue)(ds.NewDictVal(ma)))
			vm.Attrs.Store("b", (*ds.VMValue)(ds.NewDictVal(mb)))
			row := map[string]any{}
			for _, q := range []string{"a == b", "b == a", "a != b", "a.len()", "b.len()", "a ? 1 : 0", "[a] == [b]"} {
				func() {
					defer func() {
						if r := recover(); r != nil {
							row[q] = "panic: " + fmt.Sprint(r)
						}
					}()
					if err := vm.Run(q); err != nil {
						row[q] = "error: " + err.Error()
					} else {
						row[q] = vm.Ret.ToString()
					}
				}()
			}
			emit(row)
		}
	}

	// demonstration for the recorded finding "Range / Length are not atomic snapshots": a writer keeps the invariant
	// "key k2 is live whenever key k1 is not" (Store k2; Delete k1; Store k1; Delete k2; ...), so every state the map
	// is ever in has at least one live key; a concurrent Range that visits nothing (or Length 0) saw no such state
	cmds["c12-snapshot"] = func(args []string) {
		fs := flag.NewFlagSet("c12-snapshot", flag.ExitOnError)
		rounds := fs.Int("rounds", 2000000, "writer rounds")
		fs.Parse(args)
		m := &ds.ValueMap{}
		m.Store("k1", ds.NewIntVal(1))
		var stop int32
		var emptyRange, zeroLen, ranges int64
		var wg sync.WaitGroup
		for i := 0; i < 4; i++ {
			wg.Add(1)
			go func() {
				defer wg.Done()
				for atomic.LoadInt32(&stop) == 0 {
					n := 0
					m.Range(func(string, *ds.VMValue) bool { n++; return true })
					atomic.AddInt64(&ranges, 1)
					if n == 0 {
						atomic.AddInt64(&emptyRange, 1)
					}
					if m.Length() == 0 {
						atomic.AddInt64(&zeroLen, 1)
					}
				}
			}()
		}
		for i := 0; i < *rounds && atomic.LoadInt64(&emptyRange)+atomic.LoadInt64(&zeroLen) == 0; i++ {
			m.Store("k2", ds.NewIntVal(2))
			m.Delete("k1")
			m.Store("k1", ds.NewIntVal(1))
			m.Delete("k2")
		}
		atomic.StoreInt32(&stop, 1)
		wg.Wait()
		emit(map[string]any{"ranges": ranges, "empty_range": emptyRange, "zero_length": zeroLen})
	}

	// concurrent histories: G goroutines hammer one map; each op records invocation and
	// response tickets from one global atomic counter
	cmds["c12-conc"] = func(args []string) {
		fs, seed, n := stdFlags("c12-conc")
		g := fs.Int("g", 3, "goroutines")
		per := fs.Int("per", 4, "ops per goroutine")
		fs.Parse(args)
		r := newRng(*seed)
		type ev struct {
			G   int    `json:"g"`
			Op  [3]int `json:"op"`
			Res []int  `json:"res"`
			Inv int64  `json:"inv"`
			Ret int64  `json:"ret"`
		}
		for c := 0; c < *n; c++ {
			m := &ds.ValueMap{}
			var ticket int64
			plans := make([][]vmOp, *g)
			for gi := range plans {
				for j := 0; j < *per; j++ {
					k := 1 + r.intn(2)
					v := 1 + r.intn(3)
					switch r.intn(8) {
					case 0, 1:
						plans[gi] = append(plans[gi], vmOp{1, k, v})
					case 2:
						plans[gi] = append(plans[gi], vmOp{2, k, v})
					case 3, 4:
						plans[gi] = append(plans[gi], vmOp{0, k, 0})
					case 5:
						plans[gi] = append(plans[gi], vmOp{3, k, 0})
					case 6:
						plans[gi] = append(plans[gi], vmOp{7, 0, 0})
					default:
						plans[gi] = append(plans[gi], vmOp{6, 0, 0})
					}
				}
			}
			evs := make([][]ev, *g)
			var wg sync.WaitGroup
			start := make(chan struct{})
			for gi := 0; gi < *g; gi++ {
				wg.Add(1)
				go func(gi int) {
					defer wg.Done()
					<-start
					for _, o := range plans[gi] {
						inv := atomic.AddInt64(&ticket, 1)
						res := applyOp(m, o)
						ret := atomic.AddInt64(&ticket, 1)
						evs[gi] = append(evs[gi], ev{gi, o, res, inv, ret})
					}
				}(gi)
			}
			close(start)
			wg.Wait()
			var all []ev
			for _, l := range evs {
				all = append(all, l...)
			}
			// final contents once quiescent
			final := applyOp(m, vmOp{6, 0, 0})
			emit(map[string]any{"events": all, "final": final})
		}
	}
}
