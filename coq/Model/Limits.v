(* Small models of the capacity mechanisms of the parser's code buffer and the VM's
   fixed block stacks, parametrised by the constants regenerated in Gen/Limits.v. *)
From Coq Require Import NArith List Bool.
Import ListNotations.
Open Scope N_scope.

(* ParserData.WriteCode / checkStackOverflow: the buffer doubles while the doubled size is <= cap;
   otherwise the write is dropped and an error is recorded (which Parse returns). *)
Record cbuf := { b_len : N; b_idx : N; b_err : bool }.

Definition write_code (cap : N) (b : cbuf) : cbuf :=
  if b_idx b <? b_len b then {| b_len := b_len b; b_idx := b_idx b + 1; b_err := b_err b |}
  else
    let need := b_len b * 2 in
    if need <=? cap then {| b_len := need; b_idx := b_idx b + 1; b_err := b_err b |}
    else {| b_len := b_len b; b_idx := b_idx b; b_err := true |}.

Fixpoint writes (cap : N) (n : nat) (b : cbuf) : cbuf :=
  match n with O => b | S k => writes cap k (write_code cap b) end.

Definition cbuf_init : cbuf := {| b_len := 512; b_idx := 0; b_err := false |}.

(* fixed array of size len with a guard `idx >= thr -> error` in front of `arr[idx] = v; idx++` *)
Inductive push_res := PushOk (idx : N) | PushErr | PushOutOfBounds.
Definition guarded_push (len thr idx : N) : push_res :=
  if thr <=? idx then PushErr else if idx <? len then PushOk (idx + 1) else PushOutOfBounds.
