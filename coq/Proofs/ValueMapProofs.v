(* Refinement proof: the sequential model of valuemap.go (a sync.Map clone, Model/ValueMap.v)
   behaves, for every history of operations, exactly like an ordinary finite map. *)
From stdpp Require Import gmap sorting.
From Coq Require Import NArith Lia.
From DS Require Import Model.ValueMap.

Local Open Scope N_scope.

(* ------------------------------------------------------------------------- *)
(* 1. Sorting by key                                                          *)
(* ------------------------------------------------------------------------- *)

Definition key_lt (p q : key * val) : Prop := p.1 < q.1.

Global Instance key_lt_antisymm : AntiSymm (=) key_lt.
Proof. intros p q Hpq Hqp. unfold key_lt in *. lia. Qed.

Lemma insert_pair_perm p l : insert_pair p l ≡ₚ p :: l.
Proof.
  induction l as [|q r IH]; simpl; [done|].
  destruct (p.1 <=? q.1); [done|]. rewrite IH. apply Permutation_swap.
Qed.

Lemma sort_pairs_perm l : sort_pairs l ≡ₚ l.
Proof.
  induction l as [|p l IH]; simpl; [done|].
  unfold sort_pairs in *. simpl. by rewrite insert_pair_perm, IH.
Qed.

Lemma insert_pair_sorted p l :
  Forall (λ q, q.1 ≠ p.1) l →
  StronglySorted key_lt l → StronglySorted key_lt (insert_pair p l).
Proof.
  induction l as [|q r IH]; simpl; intros Hne Hs.
  { repeat constructor. }
  apply Forall_cons in Hne as [Hq Hne].
  apply StronglySorted_inv in Hs as [Hs Hall].
  destruct (N.leb_spec (p.1) (q.1)) as [Hle|Hlt].
  - constructor; [by constructor|]. assert (p.1 < q.1) as Hpq by lia.
    constructor; [done|]. eapply Forall_impl; [exact Hall|].
    unfold key_lt; simpl; intros; lia.
  - constructor; [by apply IH|]. rewrite insert_pair_perm.
    constructor; [done|done].
Qed.

Lemma sort_pairs_sorted l : NoDup (l.*1) → StronglySorted key_lt (sort_pairs l).
Proof.
  induction l as [|p l IH]; simpl; intros Hnd.
  { constructor. }
  apply NoDup_cons in Hnd as [Hp Hnd]. unfold sort_pairs in *; simpl.
  apply insert_pair_sorted; [|by apply IH].
  rewrite Forall_forall. intros q Hq Heq.
  apply Hp. rewrite <-Heq. apply elem_of_list_fmap_1.
  by rewrite <-(sort_pairs_perm l).
Qed.

Lemma sort_pairs_unique l1 l2 :
  NoDup (l1.*1) → l1 ≡ₚ l2 → sort_pairs l1 = sort_pairs l2.
Proof.
  intros Hnd Hp. apply (StronglySorted_unique key_lt).
  - by apply sort_pairs_sorted.
  - apply sort_pairs_sorted. by rewrite <-Hp.
  - by rewrite !sort_pairs_perm.
Qed.

(* ------------------------------------------------------------------------- *)
(* 2. live_pairs versus map_to_list of an omap                                 *)
(* ------------------------------------------------------------------------- *)

Lemma map_to_list_omap_perm {A B} (f : A → option B) (mp : gmap key A) :
  map_to_list (omap f mp) ≡ₚ
  omap (λ ka, match f ka.2 with Some b => Some (ka.1, b) | None => None end) (map_to_list mp).
Proof.
  induction mp as [|k a mp Hk IH] using map_ind.
  { by rewrite omap_empty, !map_to_list_empty. }
  rewrite (map_to_list_insert mp k a) by done. simpl.
  destruct (f a) as [b|] eqn:Hfa.
  - rewrite (omap_insert_Some f mp k a b) by done.
    rewrite map_to_list_insert; [by rewrite IH|].
    by rewrite lookup_omap, Hk.
  - rewrite (omap_insert_None f mp k a) by done.
    rewrite delete_notin; [done|]. by rewrite lookup_omap, Hk.
Qed.

Lemma live_pairs_perm m mp :
  live_pairs m mp ≡ₚ map_to_list (omap (entry_load m) mp).
Proof.
  rewrite map_to_list_omap_perm. unfold live_pairs.
  erewrite list_omap_ext; [done|].
  apply Forall_Forall2_diag, Forall_forall. intros [k e] _; simpl.
  unfold entry_load. by destruct (get_cell m e).
Qed.

Lemma live_pairs_NoDup m mp : NoDup ((live_pairs m mp).*1).
Proof. rewrite live_pairs_perm. apply NoDup_fst_map_to_list. Qed.

Lemma live_pairs_sorted m mp :
  sort_pairs (live_pairs m mp) = sort_pairs (map_to_list (omap (entry_load m) mp)).
Proof. apply sort_pairs_unique; [apply live_pairs_NoDup|apply live_pairs_perm]. Qed.

Lemma live_pairs_length m mp :
  length (live_pairs m mp) = size (omap (entry_load m) mp).
Proof. unfold size, map_size. by rewrite live_pairs_perm. Qed.

(* ------------------------------------------------------------------------- *)
(* 3. Abstraction function and invariant                                      *)
(* ------------------------------------------------------------------------- *)

Global Instance cell_eq_dec : EqDecision cell.
Proof. solve_decision. Defined.

Local Arguments get_cell : simpl never.
Local Arguments entry_load : simpl never.

(* the map that is complete: dirty when amended, read otherwise *)
Definition full (m : vmap) : gmap key eid :=
  if amended m then default ∅ (dirty m) else rd m.

Definition abs (m : vmap) : gmap key val := omap (entry_load m) (full m).

Record Inv (m : vmap) : Prop := {
  (* I0: the code never panicked *)
  inv_ok : ok m = true;
  (* I1 *)
  inv_amended : amended m = true → is_Some (dirty m);
  (* I2: non-expunged read entries are shared with the dirty map *)
  inv_rd_dirty : ∀ d k e, dirty m = Some d → rd m !! k = Some e →
      get_cell m e ≠ CExp → d !! k = Some e;
  (* I3: expunged read entries: dirty exists and does not have the key *)
  inv_exp : ∀ k e, rd m !! k = Some e → get_cell m e = CExp →
      ∃ d, dirty m = Some d ∧ d !! k = None;
  (* I4: nothing reachable from dirty is expunged *)
  inv_dirty_noexp : ∀ d k e, dirty m = Some d → d !! k = Some e → get_cell m e ≠ CExp;
  (* I5: not amended: dirty is included in read *)
  inv_clean : amended m = false → ∀ d k e, dirty m = Some d → d !! k = Some e →
      rd m !! k = Some e;
  (* I6: no aliasing of entries, allocator is fresh *)
  inv_inj_rd : ∀ k1 k2 e, rd m !! k1 = Some e → rd m !! k2 = Some e → k1 = k2;
  inv_inj_d : ∀ d k1 k2 e, dirty m = Some d → d !! k1 = Some e → d !! k2 = Some e → k1 = k2;
  inv_inj_rd_d : ∀ d k1 k2 e, dirty m = Some d → rd m !! k1 = Some e → d !! k2 = Some e → k1 = k2;
  inv_fresh_rd : ∀ k e, rd m !! k = Some e → e < nexte m;
  inv_fresh_d : ∀ d k e, dirty m = Some d → d !! k = Some e → e < nexte m;
}.

Ltac inv_destruct H :=
  destruct H as [Hok Ham Hrd_d Hexp Hnoexp Hclean Hinj_rd Hinj_d Hinj_rdd Hfr_rd Hfr_d].

(* --- projection lemmas for the helpers ----------------------------------- *)

Lemma get_cell_set_cell m e c e' :
  get_cell (set_cell m e c) e' = if decide (e' = e) then c else get_cell m e'.
Proof.
  unfold get_cell, set_cell; simpl.
  destruct (decide (e' = e)) as [->|]; by simplify_map_eq.
Qed.

Definition cell_val (c : cell) : option val := match c with CVal v => Some v | _ => None end.

Lemma entry_load_cell m e : entry_load m e = cell_val (get_cell m e).
Proof. done. Qed.

Lemma entry_load_set_cell m e c e' :
  entry_load (set_cell m e c) e' = if decide (e' = e) then cell_val c else entry_load m e'.
Proof. rewrite !entry_load_cell, get_cell_set_cell. by destruct decide. Qed.

Lemma get_cell_cells m m' e : cells m' = cells m → get_cell m' e = get_cell m e.
Proof. unfold get_cell. by intros ->. Qed.
Lemma entry_load_cells m m' e : cells m' = cells m → entry_load m' e = entry_load m e.
Proof. intros H. by rewrite !entry_load_cell, (get_cell_cells m m'). Qed.

Lemma rd_dirty_put m k e : rd (dirty_put m k e) = rd m.
Proof. unfold dirty_put. by destruct (dirty m). Qed.
Lemma amended_dirty_put m k e : amended (dirty_put m k e) = amended m.
Proof. unfold dirty_put. by destruct (dirty m). Qed.
Lemma nexte_dirty_put m k e : nexte (dirty_put m k e) = nexte m.
Proof. unfold dirty_put. by destruct (dirty m). Qed.
Lemma cells_dirty_put m k e : cells (dirty_put m k e) = cells m.
Proof. unfold dirty_put. by destruct (dirty m). Qed.
Lemma dirty_dirty_put m k e d :
  dirty m = Some d → dirty (dirty_put m k e) = Some (<[k:=e]> d).
Proof. unfold dirty_put. by intros ->. Qed.
Lemma ok_dirty_put m k e d : dirty m = Some d → ok (dirty_put m k e) = ok m.
Proof. unfold dirty_put. by intros ->. Qed.

Lemma rd_dirty_del m k : rd (dirty_del m k) = rd m.
Proof. unfold dirty_del. by destruct (dirty m). Qed.
Lemma amended_dirty_del m k : amended (dirty_del m k) = amended m.
Proof. unfold dirty_del. by destruct (dirty m). Qed.
Lemma nexte_dirty_del m k : nexte (dirty_del m k) = nexte m.
Proof. unfold dirty_del. by destruct (dirty m). Qed.
Lemma cells_dirty_del m k : cells (dirty_del m k) = cells m.
Proof. unfold dirty_del. by destruct (dirty m). Qed.
Lemma ok_dirty_del m k : ok (dirty_del m k) = ok m.
Proof. unfold dirty_del. by destruct (dirty m). Qed.
Lemma dirty_dirty_del m k : dirty (dirty_del m k) = delete k <$> dirty m.
Proof. unfold dirty_del. destruct (dirty m) eqn:E; simpl; [done|by rewrite E]. Qed.

(* states that agree on everything but the miss counter *)
Definition same (m m' : vmap) : Prop :=
  rd m' = rd m ∧ amended m' = amended m ∧ dirty m' = dirty m ∧
  cells m' = cells m ∧ nexte m' = nexte m ∧ ok m' = ok m.

(* m' is m after promotion of the dirty map *)
Definition promoted (m m' : vmap) : Prop :=
  rd m' = default ∅ (dirty m) ∧ amended m' = false ∧ dirty m' = None ∧
  cells m' = cells m ∧ nexte m' = nexte m ∧ ok m' = ok m.

Lemma miss_locked_cases m : same m (miss_locked m) ∨ promoted m (miss_locked m).
Proof. unfold miss_locked. destruct (_ <? _)%nat; [left|right]; by repeat split. Qed.

Lemma promote_cases m :
  (amended m = true ∧ promoted m (promote m)) ∨ (amended m = false ∧ promote m = m).
Proof. unfold promote. destruct (amended m); [left|right]; by repeat split. Qed.

Lemma same_Inv m m' : same m m' → Inv m → Inv m'.
Proof.
  intros (Hr & Ha & Hd & Hc & Hn & Ho) HI. inv_destruct HI.
  split; rewrite ?Hr, ?Ha, ?Hd, ?Hn, ?Ho; try done;
    intros *; rewrite ?(get_cell_cells m m') by done; eauto.
Qed.

Lemma same_full m m' : same m m' → full m' = full m.
Proof. intros (Hr & Ha & Hd & _). unfold full. by rewrite Hr, Ha, Hd. Qed.

Lemma same_abs m m' : same m m' → abs m' = abs m.
Proof.
  intros Hs. unfold abs. rewrite (same_full _ _ Hs).
  apply map_eq; intros k. rewrite !lookup_omap.
  destruct (full m !! k); simpl; [|done]. apply entry_load_cells, Hs.
Qed.

Lemma promoted_Inv m m' : promoted m m' → amended m = true → Inv m → Inv m'.
Proof.
  intros (Hr & Ha & Hd & Hc & Hn & Ho) Hamd HI. inv_destruct HI.
  destruct (Ham Hamd) as [d Hdm]. rewrite Hdm in Hr; simpl in Hr.
  split; rewrite ?Hr, ?Ha, ?Hd, ?Hn, ?Ho; try done.
  - intros k e Hk. rewrite (get_cell_cells m m') by done. intros He.
    by destruct (Hnoexp d k e).
  - eauto.
  - eauto.
Qed.

Lemma promoted_full m m' : promoted m m' → amended m = true → full m' = full m.
Proof. intros (Hr & Ha & Hd & _) Hamd. unfold full. by rewrite Hr, Ha, Hamd. Qed.

Lemma promoted_abs m m' : promoted m m' → amended m = true → abs m' = abs m.
Proof.
  intros Hp Hamd. unfold abs. rewrite (promoted_full _ _ Hp Hamd).
  apply map_eq; intros k. rewrite !lookup_omap.
  destruct (full m !! k); simpl; [|done]. apply entry_load_cells, Hp.
Qed.

Lemma miss_locked_spec m :
  Inv m → amended m = true →
  Inv (miss_locked m) ∧ abs (miss_locked m) = abs m ∧ full (miss_locked m) = full m ∧
  cells (miss_locked m) = cells m.
Proof.
  intros HI Hamd. destruct (miss_locked_cases m) as [Hs|Hp].
  - split_and!; [by eapply same_Inv|by apply same_abs|by apply same_full|apply Hs].
  - split_and!; [by eapply promoted_Inv|by apply promoted_abs|by apply promoted_full|apply Hp].
Qed.

(* --- the abstraction function agrees with abs_lookup ---------------------- *)

Lemma abs_lookup_spec m k : Inv m → abs m !! k = abs_lookup m k.
Proof.
  intros HI. inv_destruct HI. unfold abs, abs_lookup, full, lookup_live.
  rewrite lookup_omap. destruct (amended m) eqn:Hamd.
  - destruct (Ham eq_refl) as [d Hd]. rewrite Hd; simpl.
    destruct (rd m !! k) as [e|] eqn:Hk; [|done].
    destruct (decide (get_cell m e = CExp)) as [He|He].
    + destruct (Hexp k e Hk He) as (d' & Hd' & Hk'). simplify_eq.
      rewrite Hk'; simpl. by rewrite entry_load_cell, He.
    + by rewrite (Hrd_d d k e Hd Hk He).
  - by destruct (rd m !! k).
Qed.

Lemma abs_lookup_full m k : abs m !! k = full m !! k ≫= entry_load m.
Proof. unfold abs. by rewrite lookup_omap. Qed.

Definition full_inj (m : vmap) : Prop :=
  ∀ k1 k2 e, full m !! k1 = Some e → full m !! k2 = Some e → k1 = k2.

Lemma Inv_full_inj m : Inv m → full_inj m.
Proof.
  intros HI. inv_destruct HI. unfold full_inj, full. destruct (amended m) eqn:Hamd; [|done].
  destruct (Ham eq_refl) as [d Hd]. rewrite Hd; simpl. eauto.
Qed.

(* a read key with a non-expunged entry is in the complete map *)
Lemma full_of_rd m k e :
  Inv m → rd m !! k = Some e → get_cell m e ≠ CExp → full m !! k = Some e.
Proof.
  intros HI Hk He. inv_destruct HI. unfold full. destruct (amended m) eqn:Hamd; [|done].
  destruct (Ham eq_refl) as [d Hd]. rewrite Hd; simpl. eauto.
Qed.

(* --- set_cell -------------------------------------------------------------- *)

Lemma Inv_set_cell m e c :
  Inv m → get_cell m e ≠ CExp → c ≠ CExp → Inv (set_cell m e c).
Proof.
  intros HI He Hc. inv_destruct HI. split; simpl; try done.
  - intros d k e' Hd Hk. rewrite get_cell_set_cell. destruct (decide (e' = e)) as [->|]; eauto.
  - intros k e' Hk. rewrite get_cell_set_cell. destruct decide; [done|]; eauto.
  - intros d k e' Hd Hk. rewrite get_cell_set_cell. destruct decide; eauto.
Qed.

Lemma full_set_cell m e c : full (set_cell m e c) = full m.
Proof. done. Qed.

Lemma abs_set_cell_val m k e v :
  full_inj m → full m !! k = Some e → abs (set_cell m e (CVal v)) = <[k:=v]> (abs m).
Proof.
  intros Hinj Hk. apply map_eq; intros k'. rewrite abs_lookup_full, full_set_cell.
  destruct (decide (k' = k)) as [->|Hne].
  - rewrite Hk, lookup_insert; simpl. by rewrite entry_load_set_cell, decide_True.
  - rewrite lookup_insert_ne, abs_lookup_full by done.
    destruct (full m !! k') as [e'|] eqn:Hk'; simpl; [|done].
    rewrite entry_load_set_cell, decide_False; [done|]. intros ->. apply Hne. eauto.
Qed.

Lemma abs_set_cell_nil m k e :
  full_inj m → full m !! k = Some e → abs (set_cell m e CNil) = delete k (abs m).
Proof.
  intros Hinj Hk. apply map_eq; intros k'. rewrite abs_lookup_full, full_set_cell.
  destruct (decide (k' = k)) as [->|Hne].
  - rewrite Hk, lookup_delete; simpl. by rewrite entry_load_set_cell, decide_True.
  - rewrite lookup_delete_ne, abs_lookup_full by done.
    destruct (full m !! k') as [e'|] eqn:Hk'; simpl; [|done].
    rewrite entry_load_set_cell, decide_False; [done|]. intros ->. apply Hne. eauto.
Qed.

Lemma abs_set_cell_unreach m e c :
  (∀ k, full m !! k ≠ Some e) → abs (set_cell m e c) = abs m.
Proof.
  intros Hun. apply map_eq; intros k. rewrite !abs_lookup_full, full_set_cell.
  destruct (full m !! k) as [e'|] eqn:Hk; simpl; [|done].
  rewrite entry_load_set_cell, decide_False; [done|]. intros ->. by apply (Hun k).
Qed.

(* --- unexpungeLocked followed by m.dirty[k] = e ---------------------------- *)

Lemma unexpunge_spec m k e :
  Inv m → rd m !! k = Some e → get_cell m e = CExp →
  let m' := dirty_put (set_cell m e CNil) k e in
  Inv m' ∧ abs m' = abs m ∧ full m' !! k = Some e ∧ get_cell m' e = CNil ∧ rd m' = rd m.
Proof.
  intros HI Hk He. pose proof (Inv_full_inj _ HI) as Hfi. inv_destruct HI.
  destruct (Hexp k e Hk He) as (d & Hd & Hdk). intros m'.
  assert (rd m' = rd m) as Hr' by (unfold m'; by rewrite rd_dirty_put).
  assert (amended m' = amended m) as Ha' by (unfold m'; by rewrite amended_dirty_put).
  assert (nexte m' = nexte m) as Hn' by (unfold m'; by rewrite nexte_dirty_put).
  assert (ok m' = ok m) as Ho' by (unfold m'; by rewrite (ok_dirty_put _ _ _ d)).
  assert (dirty m' = Some (<[k:=e]> d)) as Hd' by (unfold m'; by rewrite (dirty_dirty_put _ _ _ d)).
  assert (∀ e', get_cell m' e' = if decide (e' = e) then CNil else get_cell m e') as Hc'.
  { intros e'. unfold m'. rewrite (get_cell_cells (set_cell m e CNil)) by apply cells_dirty_put.
    apply get_cell_set_cell. }
  clearbody m'.
  assert (∀ k' e', k' ≠ k → d !! k' = Some e' → e' ≠ e) as Hne_d.
  { intros k' e' Hne Hk' ->. apply Hne. symmetry. eauto. }
  assert (∀ k' e', k' ≠ k → rd m !! k' = Some e' → e' ≠ e) as Hne_r.
  { intros k' e' Hne Hk' ->. apply Hne. eauto. }
  split_and!.
  - split; rewrite ?Hr', ?Ha', ?Hn', ?Ho', ?Hd'; try done.
    + intros d' k' e' [= <-] Hk'. rewrite Hc'. destruct (decide (k' = k)) as [->|Hne].
      * simplify_eq. by rewrite lookup_insert.
      * rewrite lookup_insert_ne by done. rewrite decide_False by eauto. eauto.
    + intros k' e' Hk'. rewrite Hc'. destruct (decide (e' = e)) as [->|Hne]; [done|].
      intros He'. destruct (Hexp k' e' Hk' He') as (d' & Hd'' & Hk''). simplify_eq.
      eexists; split; [done|]. rewrite lookup_insert_ne; [done|]. intros ->. simplify_eq.
    + intros d' k' e' [= <-]. rewrite Hc'. destruct (decide (k' = k)) as [->|Hne].
      * rewrite lookup_insert. intros [= <-]. by rewrite decide_True.
      * rewrite lookup_insert_ne by done. intros Hk'. rewrite decide_False by eauto. eauto.
    + intros Hamd d' k' e' [= <-]. destruct (decide (k' = k)) as [->|Hne].
      * rewrite lookup_insert. by intros [= <-].
      * rewrite lookup_insert_ne by done. eauto.
    + intros d' k1 k2 e' [= <-]. destruct (decide (k1 = k)) as [->|Hne1], (decide (k2 = k)) as [->|Hne2];
        rewrite ?lookup_insert, ?lookup_insert_ne by done; try done.
      * intros [= <-] Hk2. by destruct (Hne_d k2 e).
      * intros Hk1 [= <-]. by destruct (Hne_d k1 e).
      * eauto.
    + intros d' k1 k2 e' [= <-] Hk1. destruct (decide (k2 = k)) as [->|Hne2];
        rewrite ?lookup_insert, ?lookup_insert_ne by done.
      * intros [= <-]. eauto.
      * eauto.
    + intros d' k' e' [= <-]. destruct (decide (k' = k)) as [->|Hne];
        rewrite ?lookup_insert, ?lookup_insert_ne by done; [intros [= <-]|]; eauto.
  - apply map_eq; intros k'. rewrite !abs_lookup_full. unfold full. rewrite Hr', Ha', Hd', Hd.
    assert (∀ e', entry_load m' e' = entry_load m e') as Hl.
    { intros e'. rewrite !entry_load_cell, Hc'. destruct decide as [->|]; [|done]. by rewrite He. }
    destruct (amended m); simpl.
    + destruct (decide (k' = k)) as [->|Hne].
      * rewrite lookup_insert, Hdk; simpl. by rewrite entry_load_cell, Hc', decide_True.
      * rewrite lookup_insert_ne by done. destruct (d !! k'); simpl; [|done]. apply Hl.
    + destruct (rd m !! k'); simpl; [|done]. apply Hl.
  - unfold full. rewrite Hr', Ha', Hd'. destruct (amended m); simpl; [|done]. by rewrite lookup_insert.
  - by rewrite Hc', decide_True.
  - done.
Qed.

(* --- delete(m.dirty, k) ----------------------------------------------------- *)

Lemma dirty_del_spec m k :
  Inv m → amended m = true → rd m !! k = None →
  let m' := dirty_del m k in
  Inv m' ∧ abs m' = delete k (abs m) ∧ amended m' = true ∧ cells m' = cells m ∧
  (∀ e, dirty_get m k = Some e → ∀ k', full m' !! k' ≠ Some e).
Proof.
  intros HI Hamd Hk m'. inv_destruct HI. destruct (Ham Hamd) as [d Hd].
  assert (rd m' = rd m) as Hr' by apply rd_dirty_del.
  assert (amended m' = amended m) as Ha' by apply amended_dirty_del.
  assert (nexte m' = nexte m) as Hn' by apply nexte_dirty_del.
  assert (ok m' = ok m) as Ho' by apply ok_dirty_del.
  assert (cells m' = cells m) as Hc' by apply cells_dirty_del.
  assert (dirty m' = Some (delete k d)) as Hd'.
  { unfold m'. by rewrite dirty_dirty_del, Hd. }
  clearbody m'. split_and!.
  - split; rewrite ?Hr', ?Ha', ?Hn', ?Ho', ?Hd'; try done.
    + intros d' k' e' [= <-] Hk'. rewrite (get_cell_cells m m') by done.
      rewrite lookup_delete_ne by (by intros ->; simplify_eq). eauto.
    + intros k' e' Hk'. rewrite (get_cell_cells m m') by done. intros He'.
      destruct (Hexp k' e' Hk' He') as (d' & Hd'' & Hk''). simplify_eq.
      eexists; split; [done|]. rewrite lookup_delete_None; by right.
    + intros d' k' e' [= <-]. rewrite (get_cell_cells m m') by done.
      rewrite lookup_delete_Some. intros [_ ?]. eauto.
    + by rewrite Hamd.
    + intros d' k1 k2 e' [= <-]. rewrite !lookup_delete_Some. intros [_ ?] [_ ?]. eauto.
    + intros d' k1 k2 e' [= <-] Hk1. rewrite !lookup_delete_Some. intros [_ ?]. eauto.
    + intros d' k' e' [= <-]. rewrite !lookup_delete_Some. intros [_ ?]. eauto.
  - unfold abs, full. rewrite Ha', Hamd, Hd', Hd; simpl. rewrite omap_delete. f_equal.
    apply map_eq; intros k'. rewrite !lookup_omap. destruct (d !! k'); simpl; [|done].
    by apply entry_load_cells.
  - by rewrite Ha'.
  - done.
  - unfold dirty_get, full. rewrite Ha', Hamd, Hd', Hd; simpl. intros e He k'.
    rewrite lookup_delete_Some. intros [Hne Hk']. apply Hne. eauto.
Qed.

(* --- Clear ------------------------------------------------------------------ *)

Lemma vm_clear_spec m : Inv m → Inv (vm_clear m) ∧ abs (vm_clear m) = ∅.
Proof.
  intros HI. unfold vm_clear.
  destruct ((size (rd m) =? 0)%nat && negb (amended m)) eqn:Hc.
  - split; [done|]. apply andb_true_iff in Hc as [Hs Hamd].
    apply Nat.eqb_eq, map_size_empty_inv in Hs. apply negb_true_iff in Hamd.
    unfold abs, full. by rewrite Hamd, Hs, omap_empty.
  - inv_destruct HI. split.
    + split; simpl; try done; intros; by simplify_map_eq.
    + unfold abs, full; simpl. by rewrite omap_empty.
Qed.

(* --- allocation of a fresh entry in the dirty map (amended state) ------------ *)

Definition alloc (m : vmap) (v : val) : vmap :=
  {| rd := rd m; amended := amended m; dirty := dirty m; misses := misses m;
     cells := <[nexte m := CVal v]> (cells m); nexte := nexte m + 1; ok := ok m |}.

Lemma add_new_amended m k v :
  amended m = true → add_new m k v = dirty_put (alloc m v) k (nexte m).
Proof. unfold add_new. by intros ->. Qed.

Lemma add_new_not_amended m k v :
  amended m = false →
  add_new m k v = add_new (set_amended (dirty_locked m) true) k v.
Proof. unfold add_new at 1. intros ->. unfold add_new. done. Qed.

Lemma alloc_put_spec m k v :
  Inv m → amended m = true → rd m !! k = None → dirty_get m k = None →
  let m' := dirty_put (alloc m v) k (nexte m) in
  Inv m' ∧ abs m' = <[k:=v]> (abs m).
Proof.
  intros HI Hamd Hk Hdk m'. inv_destruct HI. destruct (Ham Hamd) as [d Hd].
  unfold dirty_get in Hdk. rewrite Hd in Hdk.
  set (e := nexte m) in *.
  assert (rd m' = rd m) as Hr' by (unfold m'; by rewrite rd_dirty_put).
  assert (amended m' = amended m) as Ha' by (unfold m'; by rewrite amended_dirty_put).
  assert (nexte m' = e + 1) as Hn' by (unfold m'; by rewrite nexte_dirty_put).
  assert (ok m' = ok m) as Ho' by (unfold m'; by rewrite (ok_dirty_put _ _ _ d)).
  assert (dirty m' = Some (<[k:=e]> d)) as Hd' by (unfold m'; by rewrite (dirty_dirty_put _ _ _ d)).
  assert (∀ e', get_cell m' e' = if decide (e' = e) then CVal v else get_cell m e') as Hc'.
  { intros e'. unfold m'. rewrite (get_cell_cells (alloc m v)) by apply cells_dirty_put.
    exact (get_cell_set_cell m e (CVal v) e'). }
  clearbody m'.
  assert (∀ k' e', rd m !! k' = Some e' → e' ≠ e ∧ k' ≠ k) as Hne_r.
  { intros k' e' Hk'. split; [apply Hfr_rd in Hk'; lia|]. intros ->. simplify_eq. }
  assert (∀ k' e', d !! k' = Some e' → e' ≠ e ∧ k' ≠ k) as Hne_d.
  { intros k' e' Hk'. split; [apply (Hfr_d d) in Hk'; [lia|done]|]. intros ->. simplify_eq. }
  split.
  - split; rewrite ?Hr', ?Ha', ?Hn', ?Ho', ?Hd'; try done.
    + intros d' k' e' [= <-] Hk'. rewrite Hc'. destruct (Hne_r _ _ Hk').
      rewrite decide_False, lookup_insert_ne by done. eauto.
    + intros k' e' Hk'. rewrite Hc'. destruct (Hne_r _ _ Hk').
      rewrite decide_False by done. intros He'.
      destruct (Hexp k' e' Hk' He') as (d' & Hd'' & Hk''). simplify_eq.
      eexists; split; [done|]. by rewrite lookup_insert_ne.
    + intros d' k' e' [= <-]. rewrite Hc'. destruct (decide (k' = k)) as [->|Hne].
      * rewrite lookup_insert. intros [= <-]. by rewrite decide_True.
      * rewrite lookup_insert_ne by done. intros Hk'. destruct (Hne_d _ _ Hk').
        rewrite decide_False by done. eauto.
    + by rewrite Hamd.
    + intros d' k1 k2 e' [= <-]. destruct (decide (k1 = k)) as [->|Hne1], (decide (k2 = k)) as [->|Hne2];
        rewrite ?lookup_insert, ?lookup_insert_ne by done; try done.
      * intros [= <-] Hk2. by destruct (Hne_d _ _ Hk2).
      * intros Hk1 [= <-]. by destruct (Hne_d _ _ Hk1).
      * eauto.
    + intros d' k1 k2 e' [= <-] Hk1. destruct (Hne_r _ _ Hk1).
      destruct (decide (k2 = k)) as [->|Hne2]; rewrite ?lookup_insert, ?lookup_insert_ne by done.
      * by intros [= <-].
      * eauto.
    + intros k' e' Hk'. apply Hfr_rd in Hk'. fold e in Hk'. lia.
    + intros d' k' e' [= <-]. destruct (decide (k' = k)) as [->|Hne];
        rewrite ?lookup_insert, ?lookup_insert_ne by done.
      * intros [= <-]. lia.
      * intros Hk'. apply (Hfr_d d) in Hk'; [|done]. fold e in Hk'. lia.
  - apply map_eq; intros k'. rewrite abs_lookup_full. unfold full at 1. rewrite Ha', Hamd, Hd'; simpl.
    destruct (decide (k' = k)) as [->|Hne].
    + rewrite !lookup_insert; simpl. by rewrite entry_load_cell, Hc', decide_True.
    + rewrite !lookup_insert_ne, abs_lookup_full by done. unfold full. rewrite Hamd, Hd; simpl.
      destruct (d !! k') as [e'|] eqn:Hk'; simpl; [|done]. destruct (Hne_d _ _ Hk').
      by rewrite !entry_load_cell, Hc', decide_False.
Qed.

(* --- dirtyLocked ------------------------------------------------------------- *)

Definition cget (cs : gmap eid cell) (e : eid) : cell := default CNil (cs !! e).

Definition dl_step (acc : gmap key eid * gmap eid cell) (ke : key * eid) :=
  let '(d, cs) := acc in let '(k, e) := ke in
  match default CNil (cs !! e) with
  | CNil => (d, <[e := CExp]> cs)
  | CExp => (d, cs)
  | CVal _ => (<[k := e]> d, cs)
  end.

Lemma dirty_locked_None m :
  dirty m = None →
  dirty_locked m =
    let '(d, cs) := fold_left dl_step (map_to_list (rd m)) (∅, cells m) in
    {| rd := rd m; amended := amended m; dirty := Some d; misses := misses m;
       cells := cs; nexte := nexte m; ok := ok m |}.
Proof. unfold dirty_locked. by intros ->. Qed.

Lemma cget_insert cs e c e' :
  cget (<[e:=c]> cs) e' = if decide (e' = e) then c else cget cs e'.
Proof. unfold cget. destruct (decide (e' = e)) as [->|]; by simplify_map_eq. Qed.

Lemma dl_fold_spec cs0 l :
  NoDup (l.*1) →
  ∀ d cs, fold_left dl_step l (∅, cs0) = (d, cs) →
  (∀ k e, d !! k = Some e ↔ (k, e) ∈ l ∧ ∃ v, cget cs0 e = CVal v) ∧
  (∀ e, cget cs e = match cget cs0 e with
                    | CNil => if decide (e ∈ l.*2) then CExp else CNil
                    | c => c
                    end).
Proof.
  induction l as [|[k e] l IH] using rev_ind; intros Hnd d cs.
  { simpl. intros [= <- <-]. split.
    - intros k e. rewrite lookup_empty, elem_of_nil. naive_solver.
    - intros e. destruct (cget cs0 e); try done.
      all: by rewrite decide_False by apply not_elem_of_nil. }
  rewrite fmap_app in Hnd. apply NoDup_app in Hnd as (Hnd & Hfresh & _).
  rewrite fold_left_app. destruct (fold_left dl_step l (∅, cs0)) as [d1 cs1] eqn:E.
  destruct (IH Hnd d1 cs1 eq_refl) as [Hd1 Hc1]. simpl.
  assert (∀ e', e' ≠ e → (e' ∈ (l ++ [(k, e)]).*2 ↔ e' ∈ l.*2)) as Hmem.
  { intros e' Hne. rewrite fmap_app, elem_of_app. simpl. set_solver. }
  assert (∀ e', e' ≠ e →
    cget cs1 e' = match cget cs0 e' with
                  | CNil => if decide (e' ∈ (l ++ [(k, e)]).*2) then CExp else CNil
                  | c => c end) as Hc1'.
  { intros e' Hne. rewrite Hc1. destruct (cget cs0 e'); try done.
    pose proof (Hmem e' Hne). repeat case_decide; naive_solver. }
  assert (e ∈ (l ++ [(k, e)]).*2) as Hin.
  { rewrite fmap_app, elem_of_app. right. simpl. set_solver. }
  pose proof (Hc1 e) as Hce. fold (cget cs1 e).
  destruct (cget cs1 e) as [| |v] eqn:Hcs1; intros [= <- <-].
  - (* CNil: expunge *)
    assert (cget cs0 e = CNil) as Hcs0.
    { destruct (cget cs0 e); try done; try congruence. all: by case_decide. }
    split.
    + intros k' e'. rewrite Hd1, elem_of_app, elem_of_list_singleton. split; [naive_solver|].
      intros [[?|?] [v Hv]]; [naive_solver|]. simplify_eq. congruence.
    + intros e'. rewrite cget_insert. destruct (decide (e' = e)) as [->|Hne]; [|by apply Hc1'].
      by rewrite Hcs0, decide_True.
  - (* CExp *)
    split.
    + intros k' e'. rewrite Hd1, elem_of_app, elem_of_list_singleton. split; [naive_solver|].
      intros [[?|?] [v Hv]]; [naive_solver|]. simplify_eq. rewrite Hv in Hce. done.
    + intros e'. destruct (decide (e' = e)) as [->|Hne]; [|by apply Hc1'].
      rewrite Hcs1. destruct (cget cs0 e); try done. by rewrite decide_True.
  - (* CVal: copy *)
    assert (cget cs0 e = CVal v) as Hcs0.
    { destruct (cget cs0 e); try done; try congruence. all: by case_decide. }
    split.
    + intros k' e'. rewrite lookup_insert_Some, Hd1, elem_of_app, elem_of_list_singleton.
      split.
      * intros [[<- <-]|[Hne [Hin' Hv]]]; [|naive_solver]. split; [by right|by eexists].
      * intros [[Hin'|?] Hv]; [|left; by simplify_eq]. right. split; [|done].
        intros <-. apply (Hfresh k); [|set_solver]. by apply (elem_of_list_fmap_1 fst _ (k, e')).
    + intros e'. destruct (decide (e' = e)) as [->|Hne]; [|by apply Hc1'].
      by rewrite Hcs1, Hcs0.
Qed.

Lemma get_cell_cget m e : get_cell m e = cget (cells m) e.
Proof. done. Qed.

(* the transition `if !read.amended { m.dirtyLocked(); read.amended = true }` *)
Lemma dirty_locked_spec m :
  Inv m → amended m = false →
  let m' := set_amended (dirty_locked m) true in
  Inv m' ∧ abs m' = abs m ∧ amended m' = true ∧ rd m' = rd m ∧
  (∀ k, rd m !! k = None → dirty_get m k = None → dirty_get m' k = None).
Proof.
  intros HI Hamd. destruct (dirty m) as [d|] eqn:Hd; inv_destruct HI.
  - (* dirty already allocated (after Clear): it is included in read *)
    assert (dirty_locked m = m) as -> by (unfold dirty_locked; by rewrite Hd).
    intros m'. split_and!; try done.
    apply map_eq; intros k. rewrite !abs_lookup_full. unfold full; simpl. rewrite Hamd, Hd; simpl.
      destruct (rd m !! k) as [e|] eqn:Hk.
      + change (entry_load m' ) with (entry_load m).
        destruct (decide (get_cell m e = CExp)) as [He|He].
        * destruct (Hexp k e Hk He) as (d' & Hd' & Hk'). simplify_eq. rewrite Hk'; simpl.
           by rewrite entry_load_cell, He.
        * by rewrite (Hrd_d d k e Hd Hk He).
      + destruct (d !! k) as [e|] eqn:Hk'; [|done]. rewrite (Hclean Hamd d k e Hd Hk') in Hk. done.
  - rewrite (dirty_locked_None m Hd).
    destruct (fold_left dl_step (map_to_list (rd m)) (∅, cells m)) as [d' cs'] eqn:E.
    destruct (dl_fold_spec (cells m) (map_to_list (rd m)) (NoDup_fst_map_to_list _) d' cs' E)
      as [Hd' Hc'].
    setoid_rewrite elem_of_map_to_list in Hd'. setoid_rewrite <-get_cell_cget in Hd'.
    intros m'.
    assert (∀ e, get_cell m' e = cget cs' e) as Hg by done.
    assert (∀ k e, rd m !! k = Some e → get_cell m e ≠ CExp) as Hnexp.
    { intros k e Hk He. destruct (Hexp k e Hk He) as (? & ? & _). congruence. }
    assert (∀ k e, rd m !! k = Some e →
      get_cell m' e = match get_cell m e with CVal v => CVal v | _ => CExp end) as Hrd_c.
    { intros k e Hk. rewrite Hg, Hc', <-get_cell_cget. pose proof (Hnexp k e Hk).
      destruct (get_cell m e); try done. rewrite decide_True; [done|].
      apply (elem_of_list_fmap_1 snd _ (k, e)). by apply elem_of_map_to_list. }
    assert (∀ e, entry_load m' e = entry_load m e) as Hl.
    { intros e. rewrite !entry_load_cell, Hg, Hc', <-get_cell_cget.
      destruct (get_cell m e); try done. by case_decide. }
    assert (∀ k e, d' !! k = Some e → get_cell m' e ≠ CExp) as Hd'_c.
    { intros k e [Hk [v Hv]]%Hd'. rewrite (Hrd_c k e Hk), Hv. done. }
    split_and!; try done.
    + split; simpl; try done.
      * intros d0 k e [= <-] Hk He. apply Hd'. split; [done|].
        rewrite (Hrd_c k e Hk) in He. destruct (get_cell m e); try done. by eexists.
      * intros k e Hk He. eexists; split; [done|].
        destruct (d' !! k) as [e'|] eqn:Hk'; [|done]. exfalso.
        pose proof Hk' as [Hk'' _]%Hd'. simplify_eq. by apply (Hd'_c k e).
      * intros d0 k e [= <-]. apply Hd'_c.
      * intros d0 k1 k2 e [= <-] [Hk1 _]%Hd' [Hk2 _]%Hd'. eauto.
      * intros d0 k1 k2 e [= <-] Hk1 [Hk2 _]%Hd'. eauto.
      * intros d0 k e [= <-] [Hk _]%Hd'. eauto.
    + apply map_eq; intros k. rewrite !abs_lookup_full. unfold full; simpl. rewrite Hamd.
      destruct (d' !! k) as [e|] eqn:Hk'; simpl.
      * pose proof Hk' as [Hk _]%Hd'. rewrite Hk; simpl. apply Hl.
      * destruct (rd m !! k) as [e|] eqn:Hk; simpl; [|done].
        destruct (entry_load m e) as [v|] eqn:Hv; [|done].
        assert (d' !! k = Some e) as Hk''; [|by rewrite Hk'' in Hk'].
        apply Hd'. split; [done|]. exists v. rewrite entry_load_cell in Hv.
        by destruct (get_cell m e); simplify_eq/=.
    + intros k Hk _. unfold dirty_get; simpl.
      destruct (d' !! k) as [e|] eqn:Hk'; [|done].
      pose proof Hk' as [Hk'' _]%Hd'. by rewrite Hk in Hk''.
Qed.

(* ------------------------------------------------------------------------- *)
(* 4. The eight operations                                                     *)
(* ------------------------------------------------------------------------- *)

Lemma abs_None m k :
  Inv m → rd m !! k = None → dirty_get m k = None → abs m !! k = None.
Proof.
  intros HI Hk Hdk. rewrite abs_lookup_spec by done. unfold abs_lookup, lookup_live.
  rewrite Hk. destruct (amended m); [|done]. unfold dirty_get in Hdk.
  destruct (dirty m); simpl; [by rewrite Hdk|by rewrite lookup_empty].
Qed.

Lemma dirty_get_full m k e :
  Inv m → rd m !! k = None → dirty_get m k = Some e →
  amended m = true ∧ full m !! k = Some e ∧ get_cell m e ≠ CExp.
Proof.
  intros HI Hk Hdk. inv_destruct HI. unfold dirty_get in Hdk.
  destruct (dirty m) as [d|] eqn:Hd; [|done].
  destruct (amended m) eqn:Hamd.
  - split_and!; [done| |by eauto]. unfold full. by rewrite Hamd, Hd.
  - rewrite (Hclean eq_refl d k e eq_refl Hdk) in Hk. done.
Qed.

Lemma set_val_spec m k e v :
  Inv m → full m !! k = Some e → get_cell m e ≠ CExp →
  Inv (set_cell m e (CVal v)) ∧ abs (set_cell m e (CVal v)) = <[k:=v]> (abs m).
Proof.
  intros HI Hk He. split; [by apply Inv_set_cell|].
  apply abs_set_cell_val; [by apply Inv_full_inj|done].
Qed.

Lemma add_new_spec m k v :
  Inv m → rd m !! k = None → dirty_get m k = None →
  Inv (add_new m k v) ∧ abs (add_new m k v) = <[k:=v]> (abs m).
Proof.
  intros HI Hk Hdk. destruct (amended m) eqn:Hamd.
  - rewrite add_new_amended by done. by apply alloc_put_spec.
  - rewrite add_new_not_amended by done.
    destruct (dirty_locked_spec m HI Hamd) as (HI' & Habs' & Hamd' & Hr' & Hdk').
    rewrite add_new_amended by done. rewrite <-Habs'.
    apply alloc_put_spec; [done|done|by rewrite Hr'|by apply Hdk'].
Qed.

(* Load *)
Lemma vm_load_spec m k :
  Inv m →
  Inv (vm_load m k).1 ∧ (vm_load m k).2 = abs m !! k ∧ abs (vm_load m k).1 = abs m.
Proof.
  intros HI. rewrite abs_lookup_spec by done. unfold vm_load, abs_lookup.
  destruct (rd m !! k) as [e|] eqn:Hk; simpl; [done|].
  destruct (amended m) eqn:Hamd; simpl; [|done].
  destruct (miss_locked_spec m HI Hamd) as (HI' & Habs' & _).
  split_and!; [done| |done]. unfold lookup_live, dirty_get.
  destruct (dirty m); simpl; [done|by rewrite lookup_empty].
Qed.

(* Store *)
Lemma vm_store_spec m k v :
  Inv m → Inv (vm_store m k v) ∧ abs (vm_store m k v) = <[k:=v]> (abs m).
Proof.
  intros HI. unfold vm_store. destruct (rd m !! k) as [e|] eqn:Hk.
  - destruct (get_cell m e) eqn:He.
    + apply set_val_spec; [done| |by rewrite He]. apply full_of_rd; [done|done|by rewrite He].
    + destruct (unexpunge_spec m k e HI Hk He) as (HI' & Habs' & Hk' & He' & _).
      rewrite <-Habs'. apply set_val_spec; [done|done|by rewrite He'].
    + apply set_val_spec; [done| |by rewrite He]. apply full_of_rd; [done|done|by rewrite He].
  - destruct (dirty_get m k) as [e|] eqn:Hdk.
    + destruct (dirty_get_full m k e HI Hk Hdk) as (_ & Hf & He). by apply set_val_spec.
    + by apply add_new_spec.
Qed.

(* LoadOrStore *)
Definition los_res (s : gmap key val) (k : key) (v : val) : option val * bool :=
  match s !! k with Some x => (Some x, true) | None => (Some v, false) end.
Definition los_post (s : gmap key val) (k : key) (v : val) : gmap key val :=
  match s !! k with Some x => s | None => <[k:=v]> s end.

Lemma entry_load_or_store_spec m k e v :
  Inv m → full m !! k = Some e → get_cell m e ≠ CExp →
  let r := entry_load_or_store m e v in
  Inv r.1 ∧ r.2 = los_res (abs m) k v ∧ abs r.1 = los_post (abs m) k v ∧
  amended r.1 = amended m.
Proof.
  intros HI Hk He. unfold los_res, los_post. rewrite abs_lookup_full, Hk; simpl.
  rewrite entry_load_cell. unfold entry_load_or_store.
  destruct (get_cell m e) eqn:Hc; simpl; [|done|done].
  destruct (set_val_spec m k e v HI Hk) as [HI' Habs']; [by rewrite Hc|]. done.
Qed.

Lemma vm_load_or_store_spec m k v :
  Inv m →
  let r := vm_load_or_store m k v in
  Inv r.1 ∧ r.2 = los_res (abs m) k v ∧ abs r.1 = los_post (abs m) k v.
Proof.
  intros HI. unfold vm_load_or_store. destruct (rd m !! k) as [e|] eqn:Hk.
  - destruct (get_cell m e) eqn:He.
    + assert (get_cell m e ≠ CExp) as He' by (by rewrite He).
      destruct (entry_load_or_store_spec m k e v HI (full_of_rd m k e HI Hk He') He') as (?&?&?&_).
      done.
    + destruct (unexpunge_spec m k e HI Hk He) as (HI' & Habs' & Hk' & He' & _).
      rewrite <-Habs'.
      destruct (entry_load_or_store_spec _ k e v HI' Hk') as (?&?&?&_); [by rewrite He'|]. done.
    + assert (get_cell m e ≠ CExp) as He' by (by rewrite He).
      destruct (entry_load_or_store_spec m k e v HI (full_of_rd m k e HI Hk He') He') as (?&?&?&_).
      done.
  - destruct (dirty_get m k) as [e|] eqn:Hdk.
    + destruct (dirty_get_full m k e HI Hk Hdk) as (Hamd & Hf & He).
      destruct (entry_load_or_store_spec m k e v HI Hf He) as (HI1 & Hr & Habs1 & Hamd1).
      destruct (entry_load_or_store m e v) as [m1 r]; simpl in *.
      destruct (miss_locked_spec m1 HI1) as (HI2 & Habs2 & _); [congruence|].
      split_and!; [done|done|congruence].
    + destruct (add_new_spec m k v HI Hk Hdk) as [HI' Habs']. simpl.
      unfold los_res, los_post. by rewrite (abs_None m k HI Hk Hdk).
Qed.

(* LoadAndDelete / Delete *)
Lemma entry_delete_spec m k e :
  Inv m → full m !! k = Some e →
  let r := entry_delete m e in
  Inv r.1 ∧ r.2 = abs m !! k ∧ abs r.1 = delete k (abs m).
Proof.
  intros HI Hk. assert (abs m !! k = entry_load m e) as Habs.
  { by rewrite abs_lookup_full, Hk. }
  rewrite Habs, entry_load_cell. unfold entry_delete.
  rewrite entry_load_cell in Habs.
  destruct (get_cell m e) eqn:Hc; simpl in *.
  - by rewrite delete_notin.
  - by rewrite delete_notin.
  - split_and!; [apply Inv_set_cell; [done|by rewrite Hc|done]|done|].
    apply abs_set_cell_nil; [by apply Inv_full_inj|done].
Qed.

Lemma vm_load_and_delete_spec m k :
  Inv m →
  let r := vm_load_and_delete m k in
  Inv r.1 ∧ r.2 = abs m !! k ∧ abs r.1 = delete k (abs m).
Proof.
  intros HI. unfold vm_load_and_delete. destruct (rd m !! k) as [e|] eqn:Hk.
  - destruct (decide (get_cell m e = CExp)) as [He|He].
    + assert (abs m !! k = None) as Habs.
      { rewrite abs_lookup_spec by done. unfold abs_lookup. by rewrite Hk, entry_load_cell, He. }
      unfold entry_delete. rewrite He, Habs; simpl. by rewrite delete_notin.
    + apply entry_delete_spec; [done|by apply full_of_rd].
  - destruct (amended m) eqn:Hamd.
    + destruct (dirty_del_spec m k HI Hamd Hk) as (HI0 & Habs0 & Hamd0 & Hc0 & Hun0).
      destruct (miss_locked_spec _ HI0 Hamd0) as (HI1 & Habs1 & Hf1 & Hc1).
      set (m1 := miss_locked (dirty_del m k)) in *.
      destruct (dirty_get m k) as [e|] eqn:Hdk.
      * destruct (dirty_get_full m k e HI Hk Hdk) as (_ & Hf & He).
        assert (get_cell m1 e = get_cell m e) as Hg.
        { rewrite (get_cell_cells (dirty_del m k) m1) by done. by apply get_cell_cells. }
        rewrite abs_lookup_full, Hf; simpl. rewrite entry_load_cell.
        unfold entry_delete. rewrite Hg.
        destruct (get_cell m e) eqn:Hc; simpl; try (split_and!; [done|done|congruence]).
        split_and!; [apply Inv_set_cell; [done|by rewrite Hg|done]|done|].
        rewrite abs_set_cell_unreach; [congruence|]. rewrite Hf1. by apply Hun0.
      * simpl. rewrite (abs_None m k HI Hk Hdk). split_and!; [done|done|congruence].
    + simpl. assert (abs m !! k = None) as Habs.
      { rewrite abs_lookup_spec by done. unfold abs_lookup. by rewrite Hk, Hamd. }
      by rewrite Habs, delete_notin.
Qed.

(* Range *)
Lemma vm_range_spec m :
  Inv m →
  Inv (vm_range m).1 ∧ sort_pairs (vm_range m).2 = sort_pairs (map_to_list (abs m)) ∧
  abs (vm_range m).1 = abs m.
Proof.
  intros HI. unfold vm_range; simpl. rewrite live_pairs_sorted.
  assert (Inv (promote m) ∧ abs (promote m) = abs m ∧ amended (promote m) = false) as (HI' & Habs' & Hamd').
  { destruct (promote_cases m) as [[Hamd Hp]|[Hamd ->]]; [|done].
    split_and!; [by eapply promoted_Inv|by apply promoted_abs|apply Hp]. }
  split_and!; [done| |done]. rewrite <-Habs'. unfold abs, full. by rewrite Hamd'.
Qed.

(* Length *)
Lemma vm_length_spec m : vm_length m = size (abs m).
Proof.
  unfold vm_length, abs, full. destruct (amended m); apply live_pairs_length.
Qed.

(* ------------------------------------------------------------------------- *)
(* 5. Main theorems                                                            *)
(* ------------------------------------------------------------------------- *)

Lemma inv_init : Inv vm_init.
Proof. split; simpl; try done; intros; by simplify_map_eq. Qed.

Lemma abs_init : abs vm_init = ∅.
Proof. unfold abs, full; simpl. apply omap_empty. Qed.

Local Arguments sort_pairs : simpl never.

Lemma step_spec m o :
  Inv m →
  Inv (vm_step m o).1 ∧
  (vm_step m o).2 = (spec_step (abs m) o).2 ∧
  abs (vm_step m o).1 = (spec_step (abs m) o).1.
Proof.
  intros HI. destruct o as [k|k v|k v|k|k| | |]; simpl.
  - pose proof (vm_load_spec m k HI) as (? & ? & ?).
    destruct (vm_load m k) as [m' r]; simpl in *. by subst.
  - pose proof (vm_store_spec m k v HI) as (? & ?). done.
  - pose proof (vm_load_or_store_spec m k v HI) as (? & Hr & Ha).
    destruct (vm_load_or_store m k v) as [m' [r b]]; simpl in *.
    unfold los_res in Hr. unfold los_post in Ha.
    unfold spec. destruct (abs m !! k); simpl; by simplify_eq.
  - pose proof (vm_load_and_delete_spec m k HI) as (? & ? & ?).
    destruct (vm_load_and_delete m k) as [m' r]; simpl in *. by subst.
  - pose proof (vm_load_and_delete_spec m k HI) as (? & ? & ?).
    destruct (vm_load_and_delete m k) as [m' r]; simpl in *. by subst.
  - pose proof (vm_clear_spec m HI) as (? & ?). done.
  - pose proof (vm_range_spec m HI) as (? & Hr & ?).
    unfold vm_range in *; simpl in *. by rewrite Hr.
  - by rewrite vm_length_spec.
Qed.

Theorem inv_step m o : Inv m → Inv (vm_step m o).1.
Proof. intros HI. apply step_spec, HI. Qed.

Theorem refines_step m o :
  Inv m →
  (vm_step m o).2 = (spec_step (abs m) o).2 ∧
  abs (vm_step m o).1 = (spec_step (abs m) o).1.
Proof. intros HI. apply step_spec, HI. Qed.

Lemma refines_run_gen ops : ∀ m,
  Inv m →
  Inv (vm_run m ops).1 ∧
  (vm_run m ops).2 = (spec_run (abs m) ops).2 ∧
  abs (vm_run m ops).1 = (spec_run (abs m) ops).1.
Proof.
  induction ops as [|o ops IH]; intros m HI; simpl; [done|].
  destruct (step_spec m o HI) as (HI1 & Hr1 & Ha1).
  destruct (vm_step m o) as [m1 x]; destruct (spec_step (abs m) o) as [s1 y]; simpl in *.
  subst. destruct (IH m1 HI1) as (HI2 & Hr2 & Ha2).
  destruct (vm_run m1 ops) as [m2 xs]; destruct (spec_run (abs m1) ops) as [s2 ys]; simpl in *.
  by subst.
Qed.

Theorem inv_run ops : Inv (vm_run vm_init ops).1.
Proof. apply refines_run_gen, inv_init. Qed.

Theorem refines_run ops : (vm_run vm_init ops).2 = (spec_run ∅ ops).2.
Proof.
  destruct (refines_run_gen ops vm_init inv_init) as (_ & Hr & _). by rewrite abs_init in Hr.
Qed.

Theorem refines_run_state ops : abs (vm_run vm_init ops).1 = (spec_run ∅ ops).1.
Proof.
  destruct (refines_run_gen ops vm_init inv_init) as (_ & _ & Ha). by rewrite abs_init in Ha.
Qed.

(* the model never panics (never writes to a nil dirty map) *)
Corollary never_panics ops : ok (vm_run vm_init ops).1 = true.
Proof. apply inv_ok, inv_run. Qed.

(* the abstraction function, in the "read ∪ dirty" form *)
Lemma abs_union m :
  Inv m →
  abs m = omap (entry_load m) (rd m) ∪
          (if amended m then omap (entry_load m) (default ∅ (dirty m)) else ∅).
Proof.
  intros HI. apply map_eq; intros k. rewrite abs_lookup_spec by done.
  inv_destruct HI. unfold abs_lookup, lookup_live.
  destruct (rd m !! k) as [e|] eqn:Hk.
  - destruct (entry_load m e) as [v|] eqn:Hv.
    + symmetry. apply lookup_union_Some_l. by rewrite lookup_omap, Hk.
    + rewrite lookup_union_r by (by rewrite lookup_omap, Hk).
      destruct (amended m) eqn:Hamd; [|by rewrite lookup_empty].
      destruct (Ham eq_refl) as [d Hd]. rewrite Hd, lookup_omap; simpl.
      destruct (decide (get_cell m e = CExp)) as [He|He].
      * destruct (Hexp k e Hk He) as (d' & Hd' & Hk'). simplify_eq. by rewrite Hk'.
      * by rewrite (Hrd_d d k e Hd Hk He).
  - rewrite lookup_union_r by (by rewrite lookup_omap, Hk).
    destruct (amended m); [|by rewrite lookup_empty]. by rewrite lookup_omap.
Qed.

(* ------------------------------------------------------------------------- *)
(* 6. The unrepaired Length (defect #9) counts tombstones                      *)
(* ------------------------------------------------------------------------- *)

Theorem length_raw_refuted :
  ∃ ops, let m := (vm_run vm_init ops).1 in vm_length_raw m ≠ size (abs m).
Proof. exists [OStore 1 1; OStore 2 2; ORange; ODelete 1]. vm_compute. discriminate. Qed.

(* ------------------------------------------------------------------------- *)
(* 7. Non-vacuity: a reachable amended state with an expunged and a nil entry   *)
(* ------------------------------------------------------------------------- *)

Definition ex_ops : list vop :=
  [OStore 1 1; OStore 2 2; ORange; ODelete 1; OStore 3 3; ODelete 2].
Definition ex_state : vmap := (vm_run vm_init ex_ops).1.

Example ex_nonvacuous :
  Inv ex_state ∧
  amended ex_state = true ∧
  (∃ d, dirty ex_state = Some d ∧ map_to_list d = [(3, 2); (2, 1)]) ∧
  (rd ex_state !! 1 = Some 0 ∧ get_cell ex_state 0 = CExp) ∧
  (rd ex_state !! 2 = Some 1 ∧ get_cell ex_state 1 = CNil) ∧
  get_cell ex_state 2 = CVal 3 ∧
  map_to_list (abs ex_state) = [(3, 3)] ∧
  vm_length ex_state = 1%nat ∧ vm_length_raw ex_state = 2%nat.
Proof.
  split; [apply inv_run|].
  split; [by vm_compute|].
  split; [eexists; split; [reflexivity|by vm_compute]|].
  repeat split; by vm_compute.
Qed.

Print Assumptions abs_lookup_spec.
Print Assumptions inv_init.
Print Assumptions inv_step.
Print Assumptions refines_step.
Print Assumptions refines_run.
Print Assumptions refines_run_state.
Print Assumptions never_panics.
Print Assumptions length_raw_refuted.
Print Assumptions ex_nonvacuous.
