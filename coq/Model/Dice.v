(* Model of roll_func.go: RollCommon, RollCoC, RollFate, RollWoD, RollDoubleCross,
   wodCheck, doubleCrossCheck — as functions of (die source, parameters, mode) returning
   totals, counters and the exact detail text.  int64 additions wrap as in Go. *)
From Coq Require Import String NArith ZArith List Bool.
From DS Require Import Model.PCG Model.Roll Model.Str.
Import ListNotations.
Open Scope string_scope.
Open Scope Z_scope.

Section Source.
  Variable S : Type.
  Variable next : S -> N * S.

  Definition clampdie (dmin dmax : option Z) (die : Z) : Z :=
    let die := match dmax with Some m => if m <? die then m else die | None => die end in
    match dmin with Some m => if die <? m then m else die | None => die end.

  (* for i := 0; i < times; i++ { die := Roll(...); clamp; append } *)
  Fixpoint roll_many (fuel : nat) (k : nat) (d mode : Z) (dmin dmax : option Z) (s : S)
    : outcome (list Z * S) :=
    match k with
    | O => Done ([], s)
    | Datatypes.S k' =>
      match roll next fuel d mode s with
      | OutOfFuel => OutOfFuel
      | Done (die, s1) =>
        match roll_many fuel k' d mode dmin dmax s1 with
        | OutOfFuel => OutOfFuel
        | Done (r, s2) => Done (clampdie dmin dmax die :: r, s2)
        end
      end
    end.

  Fixpoint insert_by (le : Z -> Z -> bool) (x : Z) (l : list Z) : list Z :=
    match l with
    | [] => [x]
    | y :: r => if le x y then x :: l else y :: insert_by le x r
    end.
  Fixpoint sort_by (le : Z -> Z -> bool) (l : list Z) : list Z :=
    match l with [] => [] | x :: r => insert_by le x (sort_by le r) end.

  Definition sum64 (l : list Z) : Z := fold_left (fun a x => wrap64 (a + x)) l 0.

  (* pickNum after the switch / drop / clamp *)
  Definition pick_num (times keep lowNum highNum : Z) : Z :=
    if keep =? 0 then times else
    let p := if (keep =? 1) || (keep =? 3) then lowNum
             else if (keep =? 2) || (keep =? 4) then highNum else times in
    let p := if 2 <? keep then wrap64 (times - p) else p in
    let p := if p <? 0 then 0 else p in
    if times <? p then times else p.

  Definition sorted_nums (keep : Z) (nums : list Z) : list Z :=
    if keep =? 0 then nums
    else if (keep =? 1) || (keep =? 4) then sort_by Z.leb nums
    else sort_by Z.geb nums.

  Fixpoint text_plus (l : list Z) : string :=
    match l with [] => "" | x :: r => show_Z x ++ "+" ++ text_plus r end.
  Fixpoint text_bar (i pick : Z) (l : list Z) : string :=
    match l with
    | [] => ""
    | x :: r => (if i =? pick then "| " else "") ++ show_Z x ++ " " ++ text_bar (i + 1) pick r
    end.

  Definition common_text (times pick : Z) (nums : list Z) : string :=
    if pick =? times then
      (match nums with [] => "" | _ => drop_last (text_plus nums) end)
    else
      "{" ++ (match nums with [] => "" | _ => drop_last (text_bar 0 pick nums) end) ++ "}".

  Definition roll_common (fuel : nat) (times d : Z) (dmin dmax : option Z)
             (keep lowNum highNum mode : Z) (s : S) : outcome ((Z * string) * S) :=
    match roll_many fuel (Z.to_nat times) d mode dmin dmax s with
    | OutOfFuel => OutOfFuel
    | Done (nums, s1) =>
      let nums := sorted_nums keep nums in
      let pick := pick_num times keep lowNum highNum in
      let num := sum64 (firstn (Z.to_nat pick) nums) in
      Done ((num, common_text times pick nums), s1)
    end.

  (* ---- CoC ---- *)
  (* loop state: (texts, diceMin, diceMax, num10Exists) *)
  (* one extra tens die: in min mode a PENALTY die takes face 10 (digit 0), the face that
     minimises a penalty roll (fix of defect #33); otherwise Roll(src, 10, mode) *)
  Definition coc_die (fuel : nat) (isBonus : bool) (mode : Z) (s : S) : outcome (Z * S) :=
    if (mode =? -1) && negb isBonus then Done (10, s) else roll next fuel 10 mode s.

  Fixpoint coc_loop (fuel : nat) (k : nat) (isBonus : bool) (mode : Z) (acc : list string * Z * Z * bool) (s : S)
    : outcome ((list string * Z * Z * bool) * S) :=
    match k with
    | O => Done (acc, s)
    | Datatypes.S k' =>
      match coc_die fuel isBonus mode s with
      | OutOfFuel => OutOfFuel
      | Done (n, s1) =>
        let '(nums, dmin, dmax, ten) := acc in
        let acc' :=
          if n =? 10 then ((nums ++ ["0"])%list, dmin, dmax, true)
          else ((nums ++ [show_Z n])%list, (if n <? dmin then n else dmin), (if dmax <? n then n else dmax), ten) in
        coc_loop fuel k' isBonus mode acc' s1
      end
    end.

  Definition roll_coc (fuel : nat) (isBonus : bool) (diceNum mode : Z) (s : S) : outcome ((Z * string) * S) :=
    match roll next fuel 100 mode s with
    | OutOfFuel => OutOfFuel
    | Done (res, s1) =>
      let tens := Z.quot res 10 in
      let units := Z.rem res 10 in
      match coc_loop fuel (Z.to_nat diceNum) isBonus mode ([], tens, tens, false) s1 with
      | OutOfFuel => OutOfFuel
      | Done ((nums, dmin, dmax, ten), s2) =>
        if isBonus then
          let dmin := if negb (units =? 0) && ten then 0 else dmin in
          Done ((dmin * 10 + units, "(D100=" ++ show_Z res ++ ",奖励" ++ join " " nums ++ ")"), s2)
        else
          let dmax := if (units =? 0) && ten then 10 else dmax in
          Done ((dmax * 10 + units, "(D100=" ++ show_Z res ++ ",惩罚" ++ join " " nums ++ ")"), s2)
      end
    end.

  (* ---- Fate ---- *)
  Fixpoint fate_loop (fuel : nat) (k : nat) (mode : Z) (sum : Z) (detail : string) (s : S)
    : outcome ((Z * string) * S) :=
    match k with
    | O => Done ((sum, detail), s)
    | Datatypes.S k' =>
      match roll next fuel 3 mode s with
      | OutOfFuel => OutOfFuel
      | Done (r, s1) =>
        let n := r - 2 in
        let c := if n =? -1 then "-" else if n =? 0 then "0" else if n =? 1 then "+" else "" in
        fate_loop fuel k' mode (sum + n) (detail ++ c) s1
      end
    end.
  Definition roll_fate (fuel : nat) (mode : Z) (s : S) := fate_loop fuel 4 mode 0 "" s.

  (* ---- WoD ---- *)
  Definition wod_check (addLine pool points threshold : Z) : bool :=
    negb ((pool <? 1) || (20000 <? pool)) &&
    negb (negb (addLine =? 0) && (addLine <? 2)) &&
    negb (points <? 1) && negb (threshold <? 1).

  (* one round of `pool` dice: returns (successes, addCount, texts) *)
  Fixpoint wod_round (fuel : nat) (k : nat) (addLine points threshold : Z) (isGE : bool) (mode : Z)
           (show : bool) (acc : Z * Z * list string) (s : S) : outcome ((Z * Z * list string) * S) :=
    match k with
    | O => Done (acc, s)
    | Datatypes.S k' =>
      match roll next fuel points mode s with
      | OutOfFuel => OutOfFuel
      | Done (one, s1) =>
        let '(succ, add, txt) := acc in
        let reachAdd := negb (addLine =? 0) && (addLine <=? one) in
        let reachSucc := if isGE then threshold <=? one else one <=? threshold in
        let base := show_Z one ++ (if reachSucc then "*" else "") in
        let base := if reachAdd then "<" ++ base ++ ">" else base in
        wod_round fuel k' addLine points threshold isGE mode show
                  (succ + (if reachSucc then 1 else 0), add + (if reachAdd then 1 else 0),
                   if show then (txt ++ [base])%list else txt) s1
      end
    end.

  (* rounds: state (pool, show, all, succ, addTimes, details) *)
  Fixpoint wod_rounds (rfuel fuel : nat) (addLine points threshold : Z) (isGE : bool) (mode : Z)
           (pool : Z) (show : bool) (all succ rounds : Z) (details : list string) (s : S)
    : outcome ((Z * Z * Z * list string) * S) :=
    match rfuel with
    | O => OutOfFuel
    | Datatypes.S rf =>
      match wod_round fuel (Z.to_nat pool) addLine points threshold isGE mode show (0, 0, []) s with
      | OutOfFuel => OutOfFuel
      | Done ((sc, add, txt), s1) =>
        let succ := succ + sc in
        let all := wrap64 (all + add) in
        let '(show, details) := if 100 <? all then (false, []) else (show, details) in
        let details := if show then (details ++ [("{" ++ join "," txt ++ "}")%string])%list else details in
        if 0 <? add then
          wod_rounds rf fuel addLine points threshold isGE mode add show all succ (rounds + 1) details s1
        else Done ((succ, all, rounds, details), s1)
      end
    end.

  Definition roll_wod (rfuel fuel : nat) (addLine pool points threshold : Z) (isGE : bool) (mode : Z) (s : S)
    : outcome ((Z * Z * Z * string) * S) :=
    match wod_rounds rfuel fuel addLine points threshold isGE mode pool (pool <? 15) pool 0 1 [] s with
    | OutOfFuel => OutOfFuel
    | Done ((succ, all, rounds, details), s1) =>
      let roundsText := if 1 <? rounds then " 轮数:" ++ show_Z rounds else "" in
      let detailText := match details with [] => "" | _ => " " ++ join "," details end in
      Done ((succ, all, rounds, "成功" ++ show_Z succ ++ "/" ++ show_Z all ++ roundsText ++ detailText), s1)
    end.

  (* ---- Double Cross ---- *)
  Definition dc_check (addLine pool points : Z) : bool :=
    negb ((pool <? 1) || (20000 <? pool)) && negb (addLine <? 2) && negb (points <? 1).

  (* one round: (maxDice, addCount, texts) *)
  Fixpoint dc_round (fuel : nat) (k : nat) (addLine points mode : Z) (show : bool)
           (acc : Z * Z * list string) (s : S) : outcome ((Z * Z * list string) * S) :=
    match k with
    | O => Done (acc, s)
    | Datatypes.S k' =>
      match roll next fuel points mode s with
      | OutOfFuel => OutOfFuel
      | Done (one, s1) =>
        let '(mx, add, txt) := acc in
        let mx := if mx <? one then one else mx in
        let reachAdd := addLine <=? one in
        let mx := if reachAdd then 10 else mx in
        let base := if reachAdd then "<" ++ show_Z one ++ ">" else show_Z one in
        dc_round fuel k' addLine points mode show
                 (mx, add + (if reachAdd then 1 else 0), if show then (txt ++ [base])%list else txt) s1
      end
    end.

  Fixpoint dc_rounds (rfuel fuel : nat) (addLine points mode : Z)
           (pool : Z) (show : bool) (all result rounds : Z) (details : list string) (s : S)
    : outcome ((Z * Z * Z * list string) * S) :=
    match rfuel with
    | O => OutOfFuel
    | Datatypes.S rf =>
      match dc_round fuel (Z.to_nat pool) addLine points mode show (0, 0, []) s with
      | OutOfFuel => OutOfFuel
      | Done ((mx, add, txt), s1) =>
        let result := wrap64 (result + mx) in
        let all := wrap64 (all + add) in
        let '(show, details) := if 100 <? all then (false, []) else (show, details) in
        let details := if show then (details ++ [("{" ++ join "," txt ++ "}")%string])%list else details in
        if 0 <? add then
          dc_rounds rf fuel addLine points mode add show all result (rounds + 1) details s1
        else Done ((result, all, rounds, details), s1)
      end
    end.

  Definition roll_dc (rfuel fuel : nat) (addLine pool points mode : Z) (s : S)
    : outcome ((Z * Z * Z * string) * S) :=
    match dc_rounds rfuel fuel addLine points mode pool (pool <? 15) pool 0 1 [] s with
    | OutOfFuel => OutOfFuel
    | Done ((result, all, rounds, details), s1) =>
      let detailText := match details with [] => "" | _ => " " ++ join "," details end in
      let roundsText := if 1 <? rounds then " 轮数:" ++ show_Z rounds else "" in
      let body := "出目" ++ show_Z result ++ "/" ++ show_Z all ++ roundsText ++ detailText in
      Done ((result, all, rounds, if result =? 1 then "大失败 " ++ body else body), s1)
    end.
End Source.

Arguments roll_many {S} next fuel k d mode dmin dmax s.
Arguments roll_common {S} next fuel times d dmin dmax keep lowNum highNum mode s.
Arguments roll_coc {S} next fuel isBonus diceNum mode s.
Arguments roll_fate {S} next fuel mode s.
Arguments roll_wod {S} next rfuel fuel addLine pool points threshold isGE mode s.
Arguments roll_dc {S} next rfuel fuel addLine pool points mode s.
Arguments coc_loop {S} next fuel k isBonus mode acc s.
Arguments coc_die {S} next fuel isBonus mode s.
Arguments fate_loop {S} next fuel k mode sum detail s.
Arguments wod_round {S} next fuel k addLine points threshold isGE mode show acc s.
Arguments wod_rounds {S} next rfuel fuel addLine points threshold isGE mode pool show all succ rounds details s.
Arguments dc_round {S} next fuel k addLine points mode show acc s.
Arguments dc_rounds {S} next rfuel fuel addLine points mode pool show all result rounds details s.
