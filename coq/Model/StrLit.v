(* C13 — string literals and templates.
   Byte-level executable model of how roll.peg lexes a string literal for each of the
   four delimiters (rules fstring, strPart1..4, strPart1..4Normal, strEscape,
   fstringStmt/fstringStmt2 hole detection), the printer `escape` for ANY per-character
   choice between the named escape and the raw character, and a small VM fragment
   (push.str, abstract hole code, fstr.block.push/pop, ld.fs) of rollvm.go.

   Bytes are N (as in Model/Str.v: s_of/bytes_of); a text is a list of bytes.
   The parser (pigeon) reads runes with utf8.DecodeRune and adds the error
   "invalid encoding" for every ill-formed byte it steps on, so a source is lexed only
   when it is well-formed UTF-8 (utf8_valid, Go's utf8.Valid as a DFA).  For well-formed
   sources rune-level matching of the ASCII characters the string rules mention
   (delimiters, backslash, braces, escape letters) coincides with byte-level matching,
   because every byte of a multi-byte rune is >= 0x80 (Proofs: ascii_only_at_boundary). *)
From Coq Require Import NArith ZArith List Bool.
From DS Require Import Model.Str.
Import ListNotations.
Open Scope N_scope.

(* ------------------------------------------------------------------ UTF-8 (utf8.Valid) *)
Inductive ustate := U0 | U1 | U2 | U3 | UE0 | UED | UF0 | UF4.

Definition in_rng (lo hi b : N) : bool := if lo <=? b then b <=? hi else false.

(* one byte of Go's decoder: first-byte table + accept ranges (unicode/utf8) *)
Definition ustep (st : ustate) (b : N) : option ustate :=
  match st with
  | U0 =>
    if b <? 128 then Some U0
    else if b <? 194 then None               (* continuation bytes, C0, C1 *)
    else if b <? 224 then Some U1            (* C2..DF *)
    else if b =? 224 then Some UE0           (* E0: A0..BF *)
    else if b =? 237 then Some UED           (* ED: 80..9F (no surrogates) *)
    else if b <? 240 then Some U2            (* E1..EC, EE, EF *)
    else if b =? 240 then Some UF0           (* F0: 90..BF *)
    else if b <? 244 then Some U3            (* F1..F3 *)
    else if b =? 244 then Some UF4           (* F4: 80..8F *)
    else None
  | U1 => if in_rng 128 191 b then Some U0 else None
  | U2 => if in_rng 128 191 b then Some U1 else None
  | U3 => if in_rng 128 191 b then Some U2 else None
  | UE0 => if in_rng 160 191 b then Some U1 else None
  | UED => if in_rng 128 159 b then Some U1 else None
  | UF0 => if in_rng 144 191 b then Some U2 else None
  | UF4 => if in_rng 128 143 b then Some U2 else None
  end.

Fixpoint urun (st : ustate) (l : list N) : option ustate :=
  match l with
  | [] => Some st
  | b :: r => match ustep st b with Some st' => urun st' r | None => None end
  end.

Definition utf8_valid (l : list N) : bool :=
  match urun U0 l with Some U0 => true | _ => false end.

(* ------------------------------------------------------------------ delimiters *)
Inductive delim := DSingle | DDouble | DBack | DRS.

Definition dbyte (d : delim) : N :=
  match d with DSingle => 39 | DDouble => 34 | DBack => 96 | DRS => 30 end.

(* `...` and 0x1E...0x1E are templates: '{' opens a hole (fstringStmt / fstringStmt2) *)
Definition is_template (d : delim) : bool :=
  match d with DBack | DRS => true | _ => false end.

Definition BSL : N := 92.   (* backslash *)
Definition LBR : N := 123.  (* { *)

(* the characters the negated class of strPart<d>Normal lists besides the backslash:
   [^'\\]  [^DQUOTE\\]  [^`\\{]  [^\x1e\\{]  *)
Definition stops (d : delim) (b : N) : bool :=
  if b =? dbyte d then true else if is_template d then b =? LBR else false.

(* ------------------------------------------------------------------ strEscape *)
(* ordered alternatives "\\" key -> bytes; the final alternative of the rule, a lone
   backslash returning a backslash, is built into scan_part *)
Definition esc_table := list (N * list N).

Definition actual_table : esc_table :=
  [ (110, [10]);   (* \n -> LF *)
    (114, [13]);   (* \r -> CR *)
    (102, [12]);   (* \f -> FF *)
    (116, [9]);    (* \t -> TAB *)
    (92,  [92]);   (* \\ -> \  *)
    (39,  [39]);   (* \' -> '  *)
    (34,  [34]);   (* \DQUOTE -> DQUOTE *)
    (123, [123]);  (* \{ -> {  *)
    (125, [125])   (* \} -> }  *)
  ].

Fixpoint lookup (tbl : esc_table) (k : N) : option (list N) :=
  match tbl with
  | [] => None
  | (k', out) :: r => if k =? k' then Some out else lookup r k
  end.

Definition is_key (tbl : esc_table) (k : N) : bool :=
  match lookup tbl k with Some _ => true | None => false end.

(* the escape letter that denotes exactly the one-byte text [b], if any *)
Definition denotes (tbl : esc_table) (b k : N) : bool :=
  match lookup tbl k with
  | Some [x] => x =? b
  | _ => false
  end.

Definition esc_for (tbl : esc_table) (b : N) : option N :=
  find (denotes tbl b) (map fst tbl).

Definition all_lt128 (l : list N) : bool := forallb (fun b => b <? 128) l.

(* what the round-trip theorem needs of a table: escape letters and their values are
   ASCII, and the backslash itself can be written *)
Definition table_ok (tbl : esc_table) : bool :=
  forallb (fun e => if fst e <? 128 then all_lt128 (snd e) else false) tbl
  && match esc_for tbl BSL with Some _ => true | None => false end.

(* ------------------------------------------------------------------ the lexer *)
Section Lexer.
Variable tbl : esc_table.

(* strPart<d> <- items:(strEscape / strPart<d>Normal)+  { PushStr(join items) }
   returns the part's text and the unconsumed input.  Stops (without consuming) at a
   `stop` byte or at the end of input. *)
Fixpoint scan_part (stop : N -> bool) (l : list N) : list N * list N :=
  match l with
  | [] => ([], [])
  | b :: r =>
    if b =? BSL then
      match r with
      | [] => ([BSL], [])                     (* '\\' at end of input: lone backslash *)
      | k :: r' =>
        match lookup tbl k with
        | Some out => let (o, rest) := scan_part stop r' in (out ++ o, rest)
        | None => let (o, rest) := scan_part stop r in (BSL :: o, rest)
        end
      end
    else if stop b then ([], l)
    else let (o, rest) := scan_part stop r in (b :: o, rest)
  end.

(* does (strEscape / strPartNormal) match at least once here? *)
Definition part_starts (stop : N -> bool) (l : list N) : bool :=
  match l with
  | [] => false
  | b :: _ => if b =? BSL then true else negb (stop b)
  end.

(* an element of a literal's body *)
Inductive elem (H : Type) := EPart (p : list N) | EHole (h : H).
Arguments EPart {H} p.
Arguments EHole {H} h.

Section Body.
Variable H : Type.
(* the hole rules: called on input starting with '{'; tries fstringStmt ("{%" ... "%}")
   then fstringStmt2 ("{" ... "}"); returns the compiled hole and the input after the
   closing brace; None = the rule failed, which adds a parse error *)
Variable hole : list N -> option (H * list N).

(* ( strPart / fstringStmt / fstringStmt2 )*  — for the two plain styles holes = false *)
Fixpoint body_loop (fuel : nat) (holes : bool) (stop : N -> bool) (l : list N)
  : option (list (elem H) * list N) :=
  match fuel with
  | O => Some ([], l)
  | S f =>
    if part_starts stop l then
      let (o, rest) := scan_part stop l in
      match body_loop f holes stop rest with
      | Some (es, rest') => Some (EPart o :: es, rest')
      | None => None
      end
    else
      match l with
      | b :: _ =>
        if (if holes then b =? LBR else false) then
          match hole l with
          | Some (h, rest) =>
            match body_loop f holes stop rest with
            | Some (es, rest') => Some (EHole h :: es, rest')
            | None => None
            end
          | None => None
          end
        else Some ([], l)
      | [] => Some ([], l)
      end
  end.

(* rule fstring, alternatives in source order:
     1-4  <d><d>                 { PushStr("") }
     5-8  <d> body* <d>          (CounterPop / AddFormatString)
   result: the elements and the rest of the input, or None (no match / parse error).
   `src` is the whole program text: ill-formed UTF-8 anywhere is a parse error. *)
Definition lex_gen (d : delim) (src : list N) : option (list (elem H) * list N) :=
  if negb (utf8_valid src) then None else
  match src with
  | o :: r =>
    if negb (o =? dbyte d) then None else
    match r with
    | c :: r' =>
      if c =? dbyte d then Some ([EPart []], r')
      else
        match body_loop (S (length r)) (is_template d) (stops d) r with
        | Some (es, c' :: rest) => if c' =? dbyte d then Some (es, rest) else None
        | _ => None
        end
    | [] => None
    end
  | [] => None
  end.
End Body.

(* pure literals: a '{' in a template style is a hole, i.e. not a literal *)
Definition no_hole (l : list N) : option (Empty_set * list N) := None.

Definition parts_of (es : list (elem Empty_set)) : list (list N) :=
  flat_map (fun e => match e with EPart p => [p] | EHole _ => [] end) es.

(* lex d src = Some parts: the whole of src is one literal of style d whose push.str
   operands are `parts` *)
Definition lex (d : delim) (src : list N) : option (list (list N)) :=
  match lex_gen Empty_set no_hole d src with
  | Some (es, []) => Some (parts_of es)
  | _ => None
  end.

(* value of a hole-free literal: the plain styles leave the last push.str on the stack
   (CounterPop discards the count), the template styles run ld.fs over all parts; the
   empty-literal alternatives push "" in all four styles *)
Definition lit_value (d : delim) (parts : list (list N)) : list N :=
  if is_template d then concat parts else last parts [].

(* ------------------------------------------------------------------ the printer *)
(* May byte b (followed in the text by r) be written raw? *)
Definition raw_legal (d : delim) (b : N) (r : list N) : bool :=
  if b =? BSL then
    match r with
    | [] => negb (is_key tbl (dbyte d))                  (* "\" then closing delimiter *)
    | nb :: _ => if is_key tbl nb then false else if stops d nb then false else negb (nb =? BSL)
    end
  else negb (stops d b).

(* choice i b = true: "write character number i (byte b) raw if that is legal".
   forced: the previous byte written was a raw backslash, so this byte is written raw
   (raw_legal guaranteed that this is possible). *)
Fixpoint escape_from (d : delim) (choice : nat -> N -> bool) (i : nat) (forced : bool)
         (s : list N) : list N :=
  match s with
  | [] => []
  | b :: r =>
    if forced then b :: escape_from d choice (S i) false r
    else
      match esc_for tbl b with
      | None => b :: escape_from d choice (S i) false r
      | Some k =>
        if (if raw_legal d b r then choice i b else false)
        then b :: escape_from d choice (S i) (b =? BSL) r
        else BSL :: k :: escape_from d choice (S i) false r
      end
  end.

Definition escape (d : delim) (choice : nat -> N -> bool) (s : list N) : list N :=
  escape_from d choice O false s.

(* texts that can be written at all: every character that would end the part has an
   escape *)
Definition representable (d : delim) (s : list N) : bool :=
  forallb (fun b => if stops d b then match esc_for tbl b with Some _ => true | None => false end
                    else true) s.
End Lexer.

Definition quote (d : delim) (body : list N) : list N := dbyte d :: body ++ [dbyte d].

Definition valid_text (s : list N) : Prop := utf8_valid s = true.

(* ------------------------------------------------------------------ VM fragment *)
(* rollvm.go: typePushString, typeLoadFormatString, typeFStringBlockPush/Pop, and the
   per-instruction stack-overflow test; everything else is "hole code": an arbitrary
   function on (variables, stack).  Stack: head = top.  fb = fstrBlockStack[0..fstrBlockIndex)
   innermost first. *)
Inductive verr := EOverflow | ENesting | EE3 | EOther (n : N).
Inductive outcome (A : Type) := Done (a : A) | Err (e : verr) | Panic | Stale.
Arguments Done {A} a.
Arguments Err {A} e.
Arguments Panic {A}.
Arguments Stale {A}.

Section VM.
Variable V : Type.                    (* values *)
Variable E : Type.                    (* variable store *)
Variable tostr : V -> list N.         (* VMValue.ToString *)
Variable vstr : list N -> V.          (* NewStrVal *)
Variable cap : nat.                   (* len(e.stack) = 1000 *)

Definition FSTR_DEPTH : nat := 20.    (* var fstrBlockStack [20]int *)

Record vmst := { env : E; stk : list V; fb : list nat }.

Definition prim := E -> list V -> outcome (E * list V).

Inductive instr :=
| IPushStr (s : list N)
| IPrim (f : prim)
| IFsPush
| IFsPop
| ILdFs (n : nat).

(* the k bottom-most entries of a stack (head = top) *)
Definition bottom (k : nat) (l : list V) : list V := skipn (length l - k) l.

Definition step (i : instr) (s : vmst) : outcome vmst :=
  if Nat.eqb (length (stk s)) cap then Err EOverflow else   (* "执行栈到达溢出线" *)
  match i with
  | IPushStr x => Done {| env := env s; stk := vstr x :: stk s; fb := fb s |}
  | IPrim f =>
    match f (env s) (stk s) with
    | Done (e', st') => Done {| env := e'; stk := st'; fb := fb s |}
    | Err e => Err e | Panic => Panic | Stale => Stale
    end
  | IFsPush =>
    if Nat.leb FSTR_DEPTH (length (fb s)) then Err ENesting   (* "字符串模板嵌套层数过多" *)
    else Done {| env := env s; stk := stk s; fb := length (stk s) :: fb s |}
  | IFsPop =>
    match fb s with
    | [] => Panic                                    (* fstrBlockStack[-1] *)
    | newTop :: fb' =>
      if Nat.eqb newTop (length (stk s)) then
        Done {| env := env s; stk := vstr [] :: stk s; fb := fb' |}
      else
        match stk s with
        | [] => Panic                                (* stackPop: e.stack[-1] *)
        | v :: below =>
          if Nat.leb newTop (length below)
          then Done {| env := env s; stk := v :: bottom newTop below; fb := fb' |}
          else Stale    (* e.top raised above the live entries: stale slots re-exposed *)
        end
    end
  | ILdFs n =>
    if Nat.ltb (length (stk s)) n then Err EE3      (* "E3:无效的表达式" *)
    else
      let vals := rev (firstn n (stk s)) in         (* stack[top-n .. top) in order *)
      Done {| env := env s; stk := vstr (concat (map tostr vals)) :: skipn n (stk s); fb := fb s |}
  end.

Fixpoint exec (c : list instr) (s : vmst) : outcome vmst :=
  match c with
  | [] => Done s
  | i :: r =>
    match step i s with
    | Done s' => exec r s'
    | Err e => Err e | Panic => Panic | Stale => Stale
    end
  end.

(* ---- the specification side: what a piece of code pushes, independent of the stack
   below it.  sem depth env = the new variables and the values pushed (top first). *)
Definition hsem := nat -> E -> outcome (E * list V).

Definition hole_val (extra : list V) : V :=
  match extra with [] => vstr [] | v :: _ => v end.

(* {% code %} / { code } *)
Definition sem_hole (s : hsem) : hsem := fun depth e =>
  if Nat.leb FSTR_DEPTH depth then Err ENesting else
  match s (S depth) e with
  | Done (e', extra) => Done (e', [hole_val extra])
  | Err x => Err x | Panic => Panic | Stale => Stale
  end.

Definition sem_seq (a b : hsem) : hsem := fun depth e =>
  match a depth e with
  | Done (e1, x1) =>
    match b depth e1 with
    | Done (e2, x2) => Done (e2, x2 ++ x1)
    | Err x => Err x | Panic => Panic | Stale => Stale
    end
  | Err x => Err x | Panic => Panic | Stale => Stale
  end.

Definition sem_nil : hsem := fun _ e => Done (e, []).
Definition sem_push (x : list N) : hsem := fun _ e => Done (e, [vstr x]).
Definition sem_prim (f : prim) : hsem := fun _ e => f e [].

(* ld.fs n after code that pushed exactly n values *)
Definition sem_ldfs (s : hsem) : hsem := fun depth e =>
  match s depth e with
  | Done (e', vals) => Done (e', [vstr (concat (map tostr (rev vals)))])
  | Err x => Err x | Panic => Panic | Stale => Stale
  end.

(* templates: literal segments and holes; a hole carries its compiled code and the
   stack-independent description of that code *)
Inductive tpart := TLit (s : list N) | THole (code : list instr) (sem : hsem).

Definition cpart (p : tpart) : list instr :=
  match p with
  | TLit s => [IPushStr s]
  | THole c _ => IFsPush :: c ++ [IFsPop]
  end.

Definition compile_parts (ps : list tpart) : list instr := flat_map cpart ps.
Definition compile (ps : list tpart) : list instr := compile_parts ps ++ [ILdFs (length ps)].

(* the string a template denotes: segments and hole values in order, variables threaded
   left to right *)
Fixpoint tmpl_text (ps : list tpart) (depth : nat) (e : E) : outcome (E * list N) :=
  match ps with
  | [] => Done (e, [])
  | TLit s :: r =>
    match tmpl_text r depth e with
    | Done (e', t) => Done (e', s ++ t)
    | Err x => Err x | Panic => Panic | Stale => Stale
    end
  | THole _ sem :: r =>
    match sem_hole sem depth e with
    | Done (e1, vs) =>
      match tmpl_text r depth e1 with
      | Done (e2, t) => Done (e2, tostr (hole_val vs) ++ t)
      | Err x => Err x | Panic => Panic | Stale => Stale
      end
    | Err x => Err x | Panic => Panic | Stale => Stale
    end
  end.

Definition tmpl_sem (ps : list tpart) : hsem := fun depth e =>
  match tmpl_text ps depth e with
  | Done (e', t) => Done (e', [vstr t])
  | Err x => Err x | Panic => Panic | Stale => Stale
  end.

(* put a stack-independent result on top of a given stack *)
Definition lift (base : list V) (fbs : list nat) (r : outcome (E * list V)) : outcome vmst :=
  match r with
  | Done (e', extra) => Done {| env := e'; stk := extra ++ base; fb := fbs |}
  | Err x => Err x | Panic => Panic | Stale => Stale
  end.

(* "equal, unless the 1000-entry stack ran full" *)
Definition upto_overflow (actual expected : outcome vmst) : Prop :=
  actual = expected \/ actual = Err EOverflow.

(* code c behaves as sem says on top of ANY stack and inside ANY number of open holes *)
Definition framed (c : list instr) (sem : hsem) : Prop :=
  forall e base fbs,
    upto_overflow (exec c {| env := e; stk := base; fb := fbs |})
                  (lift base fbs (sem (length fbs) e)).

(* abstract hole code is well behaved when it does not look below its own entries *)
Definition prim_ok (f : prim) : Prop :=
  forall e base,
    match f e [] with
    | Done (e', extra) => f e base = Done (e', extra ++ base) \/ f e base = Err EOverflow
    | r => f e base = r \/ f e base = Err EOverflow
    end.

Definition part_ok (p : tpart) : Prop :=
  match p with TLit _ => True | THole c sem => framed c sem end.
End VM.
Arguments IPushStr {V E} s.
Arguments IPrim {V E} f.
Arguments IFsPush {V E}.
Arguments IFsPop {V E}.
Arguments ILdFs {V E} n.
Arguments TLit {V E} s.
Arguments THole {V E} code sem.
Arguments Build_vmst {V E} env stk fb.
Arguments env {V E} v.
Arguments stk {V E} v.
Arguments fb {V E} v.

(* a concrete value type for examples and the correspondence *)
Inductive sval := SStr (s : list N) | SInt (z : Z) | SNull.
Definition sval_tostr (v : sval) : list N :=
  match v with
  | SStr s => s
  | SInt z => bytes_of (show_Z z)
  | SNull => [110; 117; 108; 108]       (* "null" *)
  end.
