//go:build verif

package dicescript

// Read-only accessors and test-only setters used by the verification harness in /verif.
// Compiled only with `-tags verif`; nothing here is referenced by the package itself.

import "golang.org/x/exp/rand"

// VerifGlobalRandSource exposes the package-level generator (used when Context.RandSrc == nil).
func VerifGlobalRandSource() *rand.PCGSource { return randSource }

// VerifRoll64 exposes the unexported 64-bit roll core.
func VerifRoll64(src *rand.PCGSource, dicePoints int64) int64 { return _roll64(src, dicePoints, 0) }

// ---------------------------------------------------------------------------
// structured byte-code dump

// VerifOp is one instruction: numeric opcode, mnemonic (first token of CodeString) and a typed operand.
type VerifOp struct {
	T    int        `json:"t"`
	Name string     `json:"name"`
	I    *int64     `json:"i,omitempty"`    // IntType operand
	F    *uint64    `json:"f,omitempty"`    // float64 operand, IEEE bits
	S    *string    `json:"s,omitempty"`    // string operand
	Span *[2]int64  `json:"span,omitempty"` // mark.detail
	St   *[2]string `json:"st,omitempty"`   // st.mod {op, text}
	Fn   *VerifFunc `json:"fn,omitempty"`   // push.func / push.computed
	Cust *string    `json:"cust,omitempty"` // dice.custom text
	Nil  bool       `json:"nil,omitempty"`  // operand is nil
	Bad  string     `json:"bad,omitempty"`  // operand of an unexpected Go type
}

type VerifFunc struct {
	Kind   string    `json:"kind"` // "func" | "computed"
	Name   string    `json:"name"`
	Params []string  `json:"params"`
	Expr   string    `json:"expr"`
	Code   []VerifOp `json:"code"` // nil when not (yet) compiled
}

func verifOpName(c *ByteCode) string {
	s := c.CodeString()
	for i := 0; i < len(s); i++ {
		if s[i] == ' ' {
			return s[:i]
		}
	}
	return s
}

func verifSafeName(c *ByteCode) (name string) {
	defer func() {
		if recover() != nil {
			name = "?"
		}
	}()
	return verifOpName(c)
}

func VerifDumpCode(code []ByteCode, n int) []VerifOp {
	out := make([]VerifOp, 0, n)
	for idx := 0; idx < n && idx < len(code); idx++ {
		c := code[idx]
		op := VerifOp{T: int(c.T), Name: verifSafeName(&c)}
		switch v := c.Value.(type) {
		case nil:
			op.Nil = true
		case IntType:
			x := int64(v)
			op.I = &x
		case float64:
			x := mathFloat64bits(v)
			op.F = &x
		case string:
			x := v
			op.S = &x
		case BufferSpan:
			op.Span = &[2]int64{int64(v.Begin), int64(v.End)}
		case StInfo:
			op.St = &[2]string{v.Op, v.Text}
		case *customDiceCompiled:
			t := v.text
			op.Cust = &t
		case *VMValue:
			op.Fn = VerifDumpFunc(v)
		default:
			op.Bad = "unexpected operand type"
		}
		out = append(out, op)
	}
	return out
}

func VerifDumpFunc(v *VMValue) *VerifFunc {
	if v == nil {
		return nil
	}
	switch v.TypeId {
	case VMTypeFunction:
		fd, ok := v.ReadFunctionData()
		if !ok || fd == nil {
			return &VerifFunc{Kind: "func-bad"}
		}
		f := &VerifFunc{Kind: "func", Name: fd.Name, Params: fd.Params, Expr: fd.Expr}
		if fd.code != nil {
			f.Code = VerifDumpCode(fd.code, fd.codeIndex)
		}
		return f
	case VMTypeComputedValue:
		cd, ok := v.ReadComputed()
		if !ok || cd == nil {
			return &VerifFunc{Kind: "computed-bad"}
		}
		f := &VerifFunc{Kind: "computed", Expr: cd.Expr}
		if cd.code != nil {
			f.Code = VerifDumpCode(cd.code, cd.codeIndex)
		}
		return f
	}
	return &VerifFunc{Kind: "other"}
}

// VerifCode dumps the compiled program of a context (after Parse).
func (ctx *Context) VerifCode() []VerifOp { return VerifDumpCode(ctx.code, ctx.codeIndex) }

// VerifParseStats: final offset, expression count, furthest failure position, number of collected errors.
type VerifParseStatsT struct {
	Offset   int    `json:"offset"`
	ExprCnt  uint64 `json:"exprCnt"`
	FailLine int    `json:"failLine"`
	FailCol  int    `json:"failCol"`
	FailOff  int    `json:"failOff"`
	NErrs    int    `json:"nErrs"`
}

func (ctx *Context) VerifParseStats() VerifParseStatsT {
	p := ctx.parser
	if p == nil {
		return VerifParseStatsT{Offset: -1}
	}
	st := VerifParseStatsT{Offset: p.pt.offset, FailLine: p.maxFailPos.line, FailCol: p.maxFailPos.col, FailOff: p.maxFailPos.offset}
	if p.Stats != nil {
		st.ExprCnt = p.Stats.ExprCnt
	}
	if p.errs != nil {
		st.NErrs = len(*p.errs)
	}
	return st
}

// ---------------------------------------------------------------------------
// detail spans of the last run (what GetDetailText renders)

type VerifSpan struct {
	Begin      int64  `json:"begin"`
	End        int64  `json:"end"`
	Ret        string `json:"ret"` // Ret.ToString(), "" when Ret is nil
	RetNil     bool   `json:"retNil"`
	Text       string `json:"text"`
	Expr       string `json:"expr"`
	Tag        string `json:"tag"`
	TextOnly   bool   `json:"textOnly"`
	ExprSuffix string `json:"exprSuffix"`
}

func (ctx *Context) VerifDetailSpans() []VerifSpan {
	out := make([]VerifSpan, 0, len(ctx.DetailSpans))
	for _, s := range ctx.DetailSpans {
		v := VerifSpan{Begin: int64(s.Begin), End: int64(s.End), Text: s.Text, Expr: s.Expr, Tag: s.Tag, TextOnly: s.TextOnly, ExprSuffix: s.ExprSuffix}
		if s.Ret == nil {
			v.RetNil = true
		} else {
			v.Ret = s.Ret.ToString()
		}
		out = append(out, v)
	}
	return out
}

// VerifParsedOffset is the parser's final offset (-1 when nothing was parsed).
func (ctx *Context) VerifParsedOffset() int {
	if ctx.parser == nil {
		return -1
	}
	return ctx.parser.pt.offset
}
