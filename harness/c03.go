package main

import (
	"bufio"
	"fmt"
	"strconv"
	"encoding/base64"
	"encoding/json"
	"os"
	"reflect"
	"sort"

	ds "github.com/sealdice/dicescript"
)

type c03In struct {
	Custom bool  `json:"custom"` // register custom dice (a regex one and a stream parser whose Display differs from the consumed text)
	B64   string `json:"b64"`
	Pre   string `json:"pre"` // base64 history program
	Flags []bool `json:"flags"`
	Hi    string `json:"hi"`
	Lo    string `json:"lo"`
}

func varsDump(vm *ds.Context) map[string]*vdump {
	out := map[string]*vdump{}
	if vm.Attrs == nil {
		return out
	}
	vm.Attrs.Range(func(k string, v *ds.VMValue) bool {
		out[k] = dumpValue(v)
		return true
	})
	return out
}

func opsSig(code []ds.VerifOp) []string {
	var out []string
	for _, c := range code {
		s := c.Name
		if c.I != nil {
			s += " " + i(*c.I)
		}
		if c.S != nil {
			s += " " + *c.S
		}
		if c.Fn != nil {
			s += " <" + c.Fn.Kind + ":" + c.Fn.Expr + ">"
		}
		out = append(out, s)
	}
	return out
}

type c03Run struct {
	Out   runOut            `json:"out"`
	Vars  map[string]*vdump `json:"vars"`
	Code  []string          `json:"code"`
	Spans [][2]int64        `json:"spans"`
	Off   int               `json:"off"` // parser's final offset
}

// custom dice used by the C03 / C17 checks: `E<digits>` (regex, value 2n) and `C<digits>T<digits>` (stream parser; value a+b;
// Display is the canonical spelling without leading zeros, i.e. possibly shorter than the consumed text)
func regCustom(vm *ds.Context) {
	_ = vm.RegCustomDice(`E(\d+)`, func(ctx *ds.Context, groups []string, payload any) (*ds.VMValue, string, error) {
		n, _ := strconv.Atoi(groups[1])
		return ds.NewIntVal(ds.IntType(2 * n)), "", nil
	})
	_ = vm.RegCustomDiceParser(func(ctx *ds.Context, st *ds.CustomDiceStream) (*ds.CustomDiceParseResult, error) {
		readNum := func() (int, bool) {
			n, k := 0, 0
			for {
				r, ok := st.Peek()
				if !ok || r < '0' || r > '9' {
					break
				}
				st.Read()
				n = n*10 + int(r-'0')
				k++
			}
			return n, k > 0
		}
		if r, ok := st.Read(); !ok || r != 'C' {
			return nil, nil
		}
		a, ok := readNum()
		if !ok {
			return nil, nil
		}
		if r, ok := st.Read(); !ok || r != 'T' {
			return nil, nil
		}
		b, ok := readNum()
		if !ok {
			return nil, nil
		}
		return &ds.CustomDiceParseResult{Matched: true, Display: fmt.Sprintf("C%dT%d", a, b), Payload: [2]int{a, b}}, nil
	}, func(ctx *ds.Context, groups []string, payload any) (*ds.VMValue, string, error) {
		p := payload.([2]int)
		return ds.NewIntVal(ds.IntType(p[0] + p[1])), "", nil
	})
}

func c03Once(src, pre string, flags []bool, hi, lo uint64, custom bool) (r c03Run) {
	cfg := cfgFromFlags(flags)
	vm := newVM(cfg, hi, lo, true)
	if custom {
		regCustom(vm)
	}
	if pre != "" {
		_ = runScript(vm, pre, false)
		vm.RandSrc = mkSrc(hi, lo)
	}
	r.Out = runScript(vm, src, true)
	r.Vars = varsDump(vm)
	if r.Out.Ok {
		func() {
			defer func() { _ = recover() }()
			r.Code = opsSig(vm.VerifCode())
			r.Off = vm.VerifParsedOffset()
		}()
		for _, s := range vm.DetailSpans {
			r.Spans = append(r.Spans, [2]int64{int64(s.Begin), int64(s.End)})
		}
	}
	return
}

func init() {
	// Matched/RestInput contract: run the input, then run Matched alone from the same seed and prior state
	cmds["c03"] = func(args []string) {
		sc := bufio.NewScanner(os.Stdin)
		sc.Buffer(make([]byte, 1<<20), 1<<26)
		for sc.Scan() {
			var in c03In
			if json.Unmarshal(sc.Bytes(), &in) != nil {
				continue
			}
			raw, _ := base64.StdEncoding.DecodeString(in.B64)
			pre, _ := base64.StdEncoding.DecodeString(in.Pre)
			var hi, lo uint64
			hi, lo = parseU(in.Hi), parseU(in.Lo)
			a := c03Once(string(raw), string(pre), in.Flags, hi, lo, in.Custom)
			row := map[string]any{"full": a}
			if a.Out.Ok {
				b := c03Once(a.Out.Matched, string(pre), in.Flags, hi, lo, in.Custom)
				row["alone"] = b
				row["split_ok"] = a.Out.Matched+a.Out.Rest == string(raw)
				row["same_val"] = reflect.DeepEqual(a.Out.Val, b.Out.Val) && a.Out.Ok == b.Out.Ok
				row["same_detail"] = a.Out.Detail == b.Out.Detail
				if a.Out.Detail != b.Out.Detail || !reflect.DeepEqual(a.Out.Val, b.Out.Val) {
					// Go map iteration order leaks into str(dict)/keys() (recorded under C06): if re-running the
					// SAME text gives differing output, the difference is not about the tail
					for k := 0; k < 5; k++ {
						b2 := c03Once(a.Out.Matched, string(pre), in.Flags, hi, lo, in.Custom)
						if b2.Out.Detail != b.Out.Detail || b2.Out.Str != b.Out.Str {
							row["unstable"] = true
							break
						}
					}
				}
				row["same_vars"] = reflect.DeepEqual(a.Vars, b.Vars)
				row["same_seed"] = a.Out.Hi2 == b.Out.Hi2 && a.Out.Lo2 == b.Out.Lo2
				row["same_code"] = reflect.DeepEqual(a.Code, b.Code)
				row["alone_consumed_all"] = b.Out.Ok && b.Out.Rest == "" && b.Out.Matched == a.Out.Matched
				// first differing instruction (for classifying left-over code)
				if !reflect.DeepEqual(a.Code, b.Code) {
					extra := map[string]bool{}
					inB := map[string]int{}
					for _, s := range b.Code {
						inB[s]++
					}
					for _, s := range a.Code {
						if inB[s] > 0 {
							inB[s]--
						} else {
							op := s
							for k := 0; k < len(s); k++ {
								if s[k] == ' ' {
									op = s[:k]
									break
								}
							}
							extra[op] = true
						}
					}
					var l []string
					for k := range extra {
						l = append(l, k)
					}
					sort.Strings(l)
					row["leftover_ops"] = l
					// is this exactly the left-over code the pinned reference copy produces for this input?
					rc, roff, rok := refCompile(string(raw), string(pre), in.Flags, in.Custom)
					row["ref_same_code"] = rok && reflect.DeepEqual(rc, a.Code) && roff == a.Off
				}
			}
			emit(row)
		}
	}
}
