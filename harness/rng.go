package main

// splitmix64: the harness's own PRNG so that case generation never touches the
// generators under test.
type rng struct{ s uint64 }

func newRng(seed int64) *rng { return &rng{s: uint64(seed)*0x9E3779B97F4A7C15 + 0x1234567} }

func (r *rng) u64() uint64 {
	r.s += 0x9E3779B97F4A7C15
	z := r.s
	z = (z ^ (z >> 30)) * 0xBF58476D1CE4E5B9
	z = (z ^ (z >> 27)) * 0x94D049BB133111EB
	return z ^ (z >> 31)
}
func (r *rng) intn(n int) int {
	if n <= 0 {
		return 0
	}
	return int(r.u64() % uint64(n))
}
func (r *rng) i64n(n int64) int64 {
	if n <= 0 {
		return 0
	}
	return int64(r.u64() % uint64(n))
}
func (r *rng) chance(num, den int) bool { return r.intn(den) < num }
func pick[T any](r *rng, xs []T) T       { return xs[r.intn(len(xs))] }
