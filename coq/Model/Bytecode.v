(* Byte-code of dicescript at SHAPE level (bytecode.go, rollvm.go `evaluate`).

   Only what decides whether the VM can fail *structurally* is kept: how many operands an
   instruction pops and pushes, which auxiliary state it indexes (diceStates[diceStateIndex],
   details[len(details)-1], lastPop, blockStack[blockIndex-1], fstrBlockStack[fstrBlockIndex-1]),
   the Go type assertion on its operand, and where control goes next.  VALUES are abstracted
   away: a conditional jump has BOTH successors, whatever is on the stack.

   STUCK states are the structural failures the property names.  Since commit e33ec38 the VM
   answers most of them with the error "E3:无效的表达式" (before: index out of range [-1]); a
   missing detail span is papered over with a fabricated empty span; a wrong operand type is
   still a failed Go type assertion.  The compiled code is ill-formed in every one of these
   cases, whatever the VM does about it.

   Run-time ERRORS that depend on VALUES (type errors, division by zero, "执行栈到达溢出线" at
   1000 slots, nesting deeper than 20, the operation budget, ...) set ctx.Error and end the
   run; they are ordinary terminations, never stuck states.  They are
   modelled by over-approximation: the successor list contains every state in which the run CAN
   continue, and a run may stop after any instruction.  Safety ("no reachable state is stuck")
   of the over-approximation implies safety of every real run. *)
From Coq Require Import NArith ZArith List Bool String.
Import ListNotations.

(* ---------------------------------------------------------------- instructions *)
(* the Go type of ByteCode.Value as dumped by ctx.VerifCode() *)
Inductive operand :=
| PNil                      (* nil *)
| PInt (z : Z)              (* IntType *)
| PFloat                    (* float64 *)
| PStr                      (* string *)
| PSpan                     (* BufferSpan *)
| PSt                       (* StInfo *)
| PFn                       (* *VMValue holding a function or a computed value *)
| PCust                     (* *customDiceCompiled *)
| PBad.                     (* anything else *)

(* t = numeric CodeType (iota order of bytecode.go), name = first word of CodeString(),
   body = code of the function / computed value carried by push.func / push.computed
   (None: not a function operand, or body not compiled yet) *)
Inductive instr := Instr (t : N) (name : string) (opd : operand) (body : option (list instr)).
Definition code := list instr.

Definition i_t (i : instr) : N := let 'Instr t _ _ _ := i in t.
Definition i_name (i : instr) : string := let 'Instr _ n _ _ := i in n.
Definition i_opd (i : instr) : operand := let 'Instr _ _ o _ := i in o.
Definition i_body (i : instr) : option code := let 'Instr _ _ _ b := i in b.

Open Scope string_scope.
Definition mnemonics : list string :=
  [ "push.int"; "push.flt"; "push.str"; "push.arr"; "push.dict"; "push.range"; "push.computed"; "push.null";
    "push.this"; "push.global"; "push.func"; "push.last"; "push.def_expr";
    "ld.fs"; "ld"; "ld.d"; "ld.raw"; "store"; "store.global"; "store.local";
    "invoke"; "invoke.self"; "item.get"; "item.set"; "attr.get"; "attr.set"; "slice.get"; "slice.set";
    "add"; "sub"; "mul"; "div"; "mod"; "pow"; "nullCoalescing";
    "comp.lt"; "comp.le"; "comp.eq"; "comp.ne"; "comp.ge"; "comp.gt";
    "&"; "|"; "and"; "or"; "neg"; "pos";
    "dice.init"; "dice.setTimes"; "dice.setKeepLow"; "dice.setKeepHigh"; "dice.setDropLow"; "dice.setDropHigh";
    "dice.setMin"; "dice.setMax"; "dice"; "dice.custom";
    "coc.penalty"; "coc.bonus"; "dice.fate"; "dice.wod"; "wod.init"; "wod.pool"; "wod.points"; "wod.threshold";
    "wod.thresholdQ"; "dice.dc"; "dc.setInit"; "dc.setPool"; "dc.setPoints"; "halt"; "mark.detail";
    "pop"; "popn"; "nop"; "jmp"; "je"; "jne"; "je.dup"; "ret";
    "fstr.block.push"; "fstr.block.pop"; "block.push"; "block.pop";
    "st.set"; "st.mod"; "st.x0"; "st.x1" ].
Definition mnemonic (t : N) : string := nth (N.to_nat t) mnemonics "".
Close Scope string_scope.

(* ---------------------------------------------------------------- shapes *)
Inductive reason :=
| Underflow        (* stackPop / store peek / ld.fs with too few values: E3 (was: stack[-1]) *)
| BadJump          (* opIndex leaves [0, len] *)
| BadOperand       (* code.Value.(T) fails: operand nil / of another Go type / negative count *)
| BlockUnderflow   (* block.pop / fstr.block.pop with no open block: E3 (was: blockStack[-1]) *)
| BlockMismatch    (* two paths reach one pc with different numbers of open blocks (checker only) *)
| NoDiceState      (* dice.set* / dice with diceStateIndex = -1: E3 (was: diceStates[-1]) *)
| NoDetail         (* lastDetail() with no span: the VM now fabricates an empty span (was: details[-1]) *)
| NoLastPop.       (* push.last before any pop (the VM diagnoses this one itself) *)

(* straight-line instruction: requirements, then pops, then pushes / state updates *)
Record eff := {
  e_pops : nat;
  e_quiet : bool;      (* operands are read without stackPop (ld.fs): lastPop is not touched *)
  e_push : nat;        (* 0 or 1 *)
  e_need_dice : bool;  (* indexes diceStates[diceStateIndex] *)
  e_need_det : bool;   (* indexes details[len(details)-1] *)
  e_need_last : bool;  (* reads lastPop *)
  e_dice_up : nat;     (* dice.init *)
  e_dice_down : nat;   (* dice *)
  e_det_up : nat       (* mark.detail *)
}.

Definition E (pops push : nat) : eff :=
  {| e_pops := pops; e_quiet := false; e_push := push; e_need_dice := false; e_need_det := false;
     e_need_last := false; e_dice_up := 0; e_dice_down := 0; e_det_up := 0 |}.

Inductive shape :=
| SSimple (e : eff)
| SPeek                      (* store / store.local: reads stack[top-1], leaves it *)
| SJmp (off : Z)
| SJcond (off : Z) (dup : bool)   (* je / jne (dup = false), je.dup (dup = true) *)
| SHalt                      (* halt, ret *)
| SBlockPush | SBlockPop | SFstrPush | SFstrPop
| SBadOperand.

Definition with_int (o : operand) (k : Z -> shape) : shape :=
  match o with PInt z => k z | _ => SBadOperand end.
Definition with_count (o : operand) (k : nat -> shape) : shape :=
  match o with PInt z => if (z <? 0)%Z then SBadOperand else k (Z.to_nat z) | _ => SBadOperand end.
Definition with_str (o : operand) (s : shape) : shape :=
  match o with PStr => s | _ => SBadOperand end.

Definition set_quiet (e : eff) : eff :=
  {| e_pops := e_pops e; e_quiet := true; e_push := e_push e; e_need_dice := e_need_dice e; e_need_det := e_need_det e;
     e_need_last := e_need_last e; e_dice_up := e_dice_up e; e_dice_down := e_dice_down e; e_det_up := e_det_up e |}.
Definition set_dice (e : eff) (down : nat) : eff :=
  {| e_pops := e_pops e; e_quiet := e_quiet e; e_push := e_push e; e_need_dice := true; e_need_det := e_need_det e;
     e_need_last := e_need_last e; e_dice_up := e_dice_up e; e_dice_down := down; e_det_up := e_det_up e |}.
Definition set_det (e : eff) : eff :=
  {| e_pops := e_pops e; e_quiet := e_quiet e; e_push := e_push e; e_need_dice := e_need_dice e; e_need_det := true;
     e_need_last := e_need_last e; e_dice_up := e_dice_up e; e_dice_down := e_dice_down e; e_det_up := e_det_up e |}.
Definition set_last (e : eff) : eff :=
  {| e_pops := e_pops e; e_quiet := e_quiet e; e_push := e_push e; e_need_dice := e_need_dice e; e_need_det := e_need_det e;
     e_need_last := true; e_dice_up := e_dice_up e; e_dice_down := e_dice_down e; e_det_up := e_det_up e |}.
Definition dice_up (e : eff) : eff :=
  {| e_pops := e_pops e; e_quiet := e_quiet e; e_push := e_push e; e_need_dice := e_need_dice e; e_need_det := e_need_det e;
     e_need_last := e_need_last e; e_dice_up := 1; e_dice_down := e_dice_down e; e_det_up := e_det_up e |}.
Definition det_up (e : eff) : eff :=
  {| e_pops := e_pops e; e_quiet := e_quiet e; e_push := e_push e; e_need_dice := e_need_dice e; e_need_det := e_need_det e;
     e_need_last := e_need_last e; e_dice_up := e_dice_up e; e_dice_down := e_dice_down e; e_det_up := 1 |}.

(* One line per `case` of the switch in evaluate(); opcodes without a case fall through the
   switch and do nothing (push.global, store.global, invoke.self, or, nop, and any unknown code). *)
Definition shape_of (t : N) (o : operand) : shape :=
  match t with
  | 0 => with_int o (fun _ => SSimple (E 0 1))                      (* push.int: Value copied into the slot *)
  | 1 => match o with PFloat => SSimple (E 0 1) | _ => SBadOperand end  (* push.flt *)
  | 2 => with_str o (SSimple (E 0 1))                               (* push.str: code.Value.(string) *)
  | 3 => with_count o (fun n => SSimple (E n 1))                    (* push.arr n: stackPopN(n), push *)
  | 4 => with_count o (fun n => SSimple (E (2 * n) 1))              (* push.dict n: stackPopN(2n), push *)
  | 5 => SSimple (E 2 1)                                            (* push.range: stackPop2, push *)
  | 6 | 10 => match o with PFn => SSimple (E 0 1) | _ => SBadOperand end (* push.computed / push.func: code.Value.( *VMValue) *)
  | 7 | 8 => SSimple (E 0 1)                                        (* push.null, push.this *)
  | 11 => SSimple (set_last (E 0 1))                                (* push.last *)
  | 12 => SSimple (E 0 1)                                           (* push.def_expr: push; the span rewrite is skipped when there is no parser, no span or no dice state *)
  | 13 => with_count o (fun n => SSimple (set_quiet (E n 1)))        (* ld.fs n: reads stack[top-n..top) (own bounds check, same E3 error), top -= n, push *)
  | 14 | 16 => with_str o (SSimple (E 0 1))                         (* ld, ld.raw *)
  | 15 => with_str o (SSimple (set_det (E 0 1)))                    (* ld.d: details[len-1] *)
  | 17 | 19 => with_str o SPeek                                     (* store, store.local: e.stack[e.top-1] *)
  | 20 => with_count o (fun n => SSimple (E (S n) 1))               (* invoke n: stackPopN(n), stackPop, push *)
  | 22 => SSimple (E 2 1)                                           (* item.get *)
  | 23 => SSimple (E 3 0)                                           (* item.set *)
  | 24 => with_str o (SSimple (E 1 1))                              (* attr.get *)
  | 25 => with_str o (SSimple (E 2 0))                              (* attr.set *)
  | 26 => SSimple (E 4 1)                                           (* slice.get: step, a, b, obj *)
  | 27 => SSimple (E 5 0)                                           (* slice.set: val, step, a, b, obj *)
  | 28 | 29 | 30 | 31 | 32 | 33 | 34 | 35 | 36 | 37 | 38 | 39 | 40 | 41 | 42 | 43 => SSimple (E 2 1)  (* binary operators, and *)
  | 45 | 46 => SSimple (E 1 1)                                      (* neg, pos *)
  | 47 => SSimple (dice_up (E 0 0))                                 (* dice.init *)
  | 48 | 49 | 50 | 51 | 52 | 53 | 54 => SSimple (set_dice (E 1 0) 0) (* dice.setTimes .. dice.setMax *)
  | 55 => SSimple (set_det (set_dice (E 1 1) 1))                    (* dice *)
  | 56 => match o with PCust => SSimple (E 0 1) | _ => SBadOperand end (* dice.custom: details guarded by len > 0 *)
  | 57 | 58 => SSimple (set_det (E 1 1))                            (* coc.penalty, coc.bonus *)
  | 59 => SSimple (set_det (E 0 1))                                 (* dice.fate *)
  | 60 | 66 => SSimple (set_det (E 1 1))                            (* dice.wod, dice.dc *)
  | 62 | 63 | 64 | 65 | 68 | 69 => SSimple (E 1 0)                  (* wod.pool .. wod.thresholdQ, dc.setPool, dc.setPoints *)
  | 70 | 79 => SHalt                                                (* halt, ret *)
  | 71 => match o with PSpan => SSimple (det_up (E 0 0)) | _ => SBadOperand end (* mark.detail *)
  | 72 => SSimple (E 1 0)                                           (* pop *)
  | 73 => with_count o (fun n => SSimple (E n 0))                   (* popn n *)
  | 75 => with_int o (fun z => SJmp z)                              (* jmp *)
  | 76 | 77 => with_int o (fun z => SJcond z false)                 (* je, jne *)
  | 78 => with_int o (fun z => SJcond z true)                       (* je.dup *)
  | 80 => SFstrPush
  | 81 => SFstrPop
  | 82 => SBlockPush
  | 83 => SBlockPop
  | 84 | 86 => SSimple (E 2 0)                                      (* st.set, st.x0 *)
  | 85 => match o with PSt => SSimple (E 2 0) | _ => SBadOperand end (* st.mod: code.Value.(StInfo) *)
  | 87 => SSimple (E 3 0)                                           (* st.x1 *)
  | _ => SSimple (E 0 0)                                            (* no case in the switch *)
  end%N.

Definition ishape (i : instr) : shape := shape_of (i_t i) (i_opd i).

(* ---------------------------------------------------------------- shape-level machine *)
Record sstate := {
  pc : nat;              (* opIndex *)
  h : nat;               (* e.top *)
  blocks : list nat;     (* blockStack[0..blockIndex), innermost first: saved heights *)
  fblocks : list nat;    (* fstrBlockStack, innermost first *)
  dice : nat;            (* diceStateIndex + 1 *)
  dets : nat;            (* len(details) *)
  lastpop : bool         (* lastPop != nil *)
}.

Definition init_state : sstate :=
  {| pc := 0; h := 0; blocks := []; fblocks := []; dice := 0; dets := 0; lastpop := false |}.

Inductive outcome :=
| Next (l : list sstate)   (* the states in which the run may continue (an error may also end it here) *)
| Halt                     (* halt / ret / opIndex = codeIndex: the loop ends *)
| Stuck (r : reason).      (* a Go panic, or a structural violation the property names *)

(* opIndex += off, then the loop's opIndex += 1; the loop runs while opIndex < codeIndex, so
   landing exactly on len ends the run.  Landing below 0 indexes e.code[-k] (panic); landing
   beyond len silently ends the run in Go — the property calls both "outside its bounds". *)
Definition jump_target (len : nat) (p : nat) (off : Z) : option nat :=
  let t := (Z.of_nat p + off + 1)%Z in
  if (t <? 0)%Z then None else if (Z.of_nat len <? t)%Z then None else Some (Z.to_nat t).

Definition max_blocks : nat := 20.

Definition exec (len : nat) (sh : shape) (s : sstate) : outcome :=
  let nxt := S (pc s) in
  match sh with
  | SBadOperand => Stuck BadOperand
  | SSimple e =>
    if e_need_dice e && (dice s =? 0) then Stuck NoDiceState
    else if h s <? e_pops e then Stuck Underflow
    else if e_need_det e && (dets s =? 0) then Stuck NoDetail
    else if e_need_last e && negb (lastpop s) then Stuck NoLastPop
    else Next [ {| pc := nxt; h := h s - e_pops e + e_push e; blocks := blocks s; fblocks := fblocks s;
                   dice := dice s + e_dice_up e - e_dice_down e; dets := dets s + e_det_up e;
                   lastpop := lastpop s || ((0 <? e_pops e) && negb (e_quiet e)) |} ]
  | SPeek => if h s =? 0 then Stuck Underflow
             else Next [ {| pc := nxt; h := h s; blocks := blocks s; fblocks := fblocks s; dice := dice s;
                            dets := dets s; lastpop := lastpop s |} ]
  | SJmp off =>
    match jump_target len (pc s) off with
    | None => Stuck BadJump
    | Some t => Next [ {| pc := t; h := h s; blocks := blocks s; fblocks := fblocks s; dice := dice s;
                          dets := dets s; lastpop := lastpop s |} ]
    end
  | SJcond off dup =>
    if h s =? 0 then Stuck Underflow
    else match jump_target len (pc s) off with
         | None => Stuck BadJump
         | Some t =>
           Next [ {| pc := nxt; h := h s - 1; blocks := blocks s; fblocks := fblocks s; dice := dice s;
                     dets := dets s; lastpop := true |};
                  {| pc := t; h := if dup then h s else h s - 1; blocks := blocks s; fblocks := fblocks s;
                     dice := dice s; dets := dets s; lastpop := true |} ]
         end
  | SHalt => Halt
  | SBlockPush =>
    if max_blocks <=? List.length (blocks s) then Next []      (* "语句块嵌套层数过多" *)
    else Next [ {| pc := nxt; h := h s; blocks := h s :: blocks s; fblocks := fblocks s; dice := dice s;
                   dets := dets s; lastpop := lastpop s |} ]
  | SBlockPop =>
    match blocks s with
    | [] => Stuck BlockUnderflow
    | b :: r => Next [ {| pc := nxt; h := S b; blocks := r; fblocks := fblocks s; dice := dice s;
                          dets := dets s; lastpop := lastpop s |} ]
    end
  | SFstrPush =>
    if max_blocks <=? List.length (fblocks s) then Next []     (* "字符串模板嵌套层数过多" *)
    else Next [ {| pc := nxt; h := h s; blocks := blocks s; fblocks := h s :: fblocks s; dice := dice s;
                   dets := dets s; lastpop := lastpop s |} ]
  | SFstrPop =>
    match fblocks s with
    | [] => Stuck BlockUnderflow
    | b :: r =>
      (* if newTop != e.top { v = stackPop() }; e.top = newTop; push v or "" *)
      if negb (b =? h s) && (h s =? 0) then Stuck Underflow
      else Next [ {| pc := nxt; h := S b; blocks := blocks s; fblocks := r; dice := dice s;
                     dets := dets s; lastpop := lastpop s || negb (b =? h s) |} ]
    end
  end.

(* one iteration of `for opIndex := 0; opIndex < e.codeIndex; opIndex += 1` *)
Definition sstep (c : code) (s : sstate) : outcome :=
  match nth_error c (pc s) with
  | None => Halt
  | Some i => exec (List.length c) (ishape i) s
  end.

(* reachability under every choice of branch outcomes (and of where an error ends the run) *)
Inductive reachable (c : code) : sstate -> Prop :=
| reach_init : reachable c init_state
| reach_step : forall s l s', reachable c s -> sstep c s = Next l -> In s' l -> reachable c s'.

(* every program a given program can run: itself, and the bodies of the functions and computed
   values it (transitively) defines; each body runs on a fresh VM (FuncInvokeRaw: NewVM, evaluate) *)
Inductive subprogram : code -> code -> Prop :=
| sub_self : forall c, subprogram c c
| sub_body : forall c c' t n o b, subprogram c c' -> In (Instr t n o (Some b)) c' -> subprogram c b.
