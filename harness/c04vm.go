package main

import "fmt"

func init() {
	// VM-syntax half of C04: illegal parameters must be rejected with an error, legal ones evaluate;
	// each row: text, whether the rule says it is legal, outcome
	cmds["c04-vm"] = func(args []string) {
		fs, seed, _ := stdFlags("c04-vm")
		fs.Parse(args)
		r := newRng(*seed)
		type tc struct {
			text  string
			legal bool
			why   string
		}
		var cs []tc
		ill := func(t, why string) { cs = append(cs, tc{t, false, why}) }
		ok := func(t string) { cs = append(cs, tc{t, true, ""}) }
		nonint := []string{"(1.5)", "('a')", "([1])", "(null)", "({})"}
		for _, x := range nonint {
			ill(x+"d6", "non-integer times")
			ill("2d"+x, "non-integer sides")
			for _, m := range []string{"k", "q", "kh", "kl", "dh", "dl", "min", "max"} {
				ill("2d6"+m+x, "non-integer modifier operand")
			}
			ill("b"+x, "non-integer coc count")
			ill("p"+x, "non-integer coc count")
			ill(x+"a10", "non-integer wod pool")
			ill("5a"+x, "non-integer wod addline")
			ill("5a10m"+x, "non-integer wod sides")
			ill("5a10k"+x, "non-integer wod threshold")
			ill("5a10q"+x, "non-integer wod threshold")
			ill(x+"c10", "non-integer dc pool")
			ill("3c"+x, "non-integer dc line")
			ill("3c10m"+x, "non-integer dc sides")
		}
		for _, z := range []string{"0", "(0-1)", "(0-5)"} {
			ill(z+"d6", "times <= 0")
			ill("2d"+z, "sides <= 0")
			ill("2d6k"+z, "keep count <= 0")
			ill("2d6q"+z, "keep count <= 0")
			ill("2d6dh"+z, "drop count <= 0")
			ill("2d6dl"+z, "drop count <= 0")
			ill(z+"a10", "wod pool < 1")
			ill("5a10m"+z, "wod sides < 1")
			ill("5a10k"+z, "wod threshold < 1")
			ill(z+"c10", "dc pool < 1")
			ill("3c10m"+z, "dc sides < 1")
		}
		ill("b(0-1)", "negative coc count")
		ill("p(0-3)", "negative coc count")
		ill("5a1", "wod addline 1")
		ill("5a(0-2)", "wod addline negative")
		ill("20001a10", "wod pool > 20000")
		ill("3c1", "dc line < 2")
		ill("3c0", "dc line < 2")
		ill("20001c10", "dc pool > 20000")
		for k := 0; k < 60; k++ {
			t := 1 + r.intn(8)
			s := pick(r, []int{1, 2, 6, 20, 100})
			ok(fmt.Sprintf("%dd%d", t, s))
			ok(fmt.Sprintf("%dd%dk%d", t, s, 1+r.intn(t)))
			ok(fmt.Sprintf("%dd%ddl%d", t, s, 1+r.intn(t+2)))
			ok(fmt.Sprintf("b%d", r.intn(4)))
			ok(fmt.Sprintf("p%d", r.intn(4)))
			ok(fmt.Sprintf("%da%d", 1+r.intn(10), 7+r.intn(5)))
			ok(fmt.Sprintf("%da0", 1+r.intn(10)))
			ok(fmt.Sprintf("%dc%d", 1+r.intn(10), 7+r.intn(5)))
			ok("f")
		}
		for _, c := range cs {
			for _, mode := range []int{0, -1} {
				cfg := allOn()
				cfg.Mode = mode
				cfg.OpLimit = 30000
				vm := newVM(cfg, r.u64(), r.u64(), true)
				o := runScript(vm, c.text, true)
				emit(map[string]any{"text": c.text, "legal": c.legal, "why": c.why, "mode": mode, "out": o})
			}
		}
	}
}
