(* K1 correspondence: Go's Parse (accept, final offset, exact ExprCnt, furthest failure
   position, set of emitted opcodes) vs the PEG model on the regenerated grammar. *)
From Coq Require Import NArith List Bool String.
From DS Require Import Model.Peg Gen.Grammar.
Import ListNotations.
Open Scope N_scope.

(* flags, input bytes, observed: ok, offset, ExprCnt, maxFail (off,line,col), opcode set *)
Definition k1_case : Type := list bool * list N * (bool * N * N * (N * N * N) * list N).

Definition pfuel : nat := 6000.

Definition run_model (fl : list bool) (bytes : list N) : presult := parse rules classes acts preds pfuel fl bytes.

(* with registered custom dice given as a table offset -> matched byte length *)
Fixpoint assoc_N (o : N) (l : list (N * N)) : option N :=
  match l with [] => None | (k, v) :: r => if k =? o then Some v else assoc_N o r end.
Definition run_model_custom (tbl : list (N * N)) (fl : list bool) (bytes : list N) : presult :=
  parse_custom (fun o => assoc_N o tbl) rules classes acts preds pfuel fl bytes.

Fixpoint subset_N (a b : list N) : bool :=
  match a with [] => true | x :: r => if mem_N x b then subset_N r b else false end.

(* The model's `panic` flag = a pop of an empty parser helper stack. Since the repair of the parser helpers the
   real parser records error E2 there (Parse fails) and carries on; the model stops executing that action's
   remaining effects, so after such an event only "Go rejected the input" is compared. *)
Definition k1_ok (c : k1_case) : bool :=
  let '(fl, bytes, (ok, off_, cnt_, (mo, ml, mc), ops)) := c in
  let r := run_model fl bytes in
  if r_panic r then negb ok && negb (r_unknown r) && negb (r_fuelout r)
  else
  let mok := r_ok r && (r_errs r =? 0) in
  negb (r_unknown r) && negb (r_fuelout r) &&
  Bool.eqb mok ok && (r_cnt r =? cnt_) &&
  (let '(a, b, c') := r_mf r in (a =? mo) && (b =? ml) && (c' =? mc)) &&
  (if ok then (r_off r =? off_) && subset_N ops (r_emitted r) else true).

Definition k1_model (c : k1_case) :=
  let '(fl, bytes, _) := c in
  let r := run_model fl bytes in
  (r_ok r, r_errs r, r_off r, r_cnt r, r_mf r, r_panic r, r_unknown r, r_fuelout r).

Fixpoint bad_k1 (i : N) (l : list k1_case) : list N :=
  match l with
  | [] => []
  | c :: r => if k1_ok c then bad_k1 (i + 1) r else i :: bad_k1 (i + 1) r
  end.
