(* Linearizability checker for histories of the map specification (Wing & Gong style
   search): a history is a list of completed operations with invocation / response
   tickets taken from one global counter. *)
From stdpp Require Import gmap.
From Coq Require Import NArith.
From DS Require Import Model.ValueMap.

Record event := { e_op : vop; e_res : vres; e_inv : N; e_ret : N }.

Definition vres_eqb (a b : vres) : bool :=
  match a, b with
  | RNone, RNone => true
  | ROpt x, ROpt y => bool_decide (x = y)
  | ROptB x b1, ROptB y b2 => bool_decide (x = y) && Bool.eqb b1 b2
  | RPairs x, RPairs y => bool_decide (x = y)
  | RLen x, RLen y => Nat.eqb x y
  | _, _ => false
  end.

(* e may be linearized first among `pending` iff no other pending event returned before e was invoked *)
Definition minimal (e : event) (pending : list event) : bool :=
  forallb (fun f => negb (e_ret f <? e_inv e)%N) pending.

(* all ways to remove one element *)
Fixpoint picks {A} (l : list A) : list (A * list A) :=
  match l with
  | [] => []
  | x :: r => (x, r) :: map (fun p => (p.1, x :: p.2)) (picks r)
  end.

(* NB: written with `if` (not andb/orb/existsb): vm_compute is call-by-value, so only
   `if`/`match` give short-circuit evaluation. *)
Fixpoint lin_search (fuel : nat) (s : spec) (pending : list event) : bool :=
  match pending with
  | [] => true
  | _ =>
    match fuel with
    | O => false
    | S f =>
      (fix try (ps : list (event * list event)) : bool :=
         match ps with
         | [] => false
         | (e, rest) :: ps' =>
           if minimal e pending then
             let '(s', r) := spec_step s (e_op e) in
             if vres_eqb r (e_res e) then
               (if lin_search f s' rest then true else try ps')
             else try ps'
           else try ps'
         end) (picks pending)
    end
  end.

Definition linearizable (h : list event) : bool := lin_search (length h) ∅ h.
