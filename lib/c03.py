"""C03 — the result belongs to the consumed text (Matched/RestInput contract)."""
import base64
import json
import os
import random

import common
import gen
import pegcases
from common import Broken

LEVEL = "proof"
KEY = "leftover-code-of-abandoned-alternative"


def go_c03(cases):
    lines = [json.dumps({"b64": base64.b64encode(c[0]).decode(), "pre": base64.b64encode(c[1]).decode(), "flags": c[2], "hi": str(c[3]), "lo": str(c[4]),
                         "custom": bool(len(c) > 5 and c[5])}) for c in cases]
    rows, _ = common.run_harness(["c03"], stdin="\n".join(lines) + "\n", timeout=900)
    if len(rows) != len(cases):
        raise Broken("harness c03 returned %d rows for %d inputs (crash?)" % (len(rows), len(cases)))
    return rows


def matched_v(items):
    """Coq side: Matched/Rest computed by Model/Matched.v from (input bytes, offset) must equal Go's"""
    def bl(b):
        return "[" + ";".join(str(x) for x in b) + "]"
    body = ";\n".join(f"({bl(inp)}, {off}%nat, {bl(m)}, {bl(r)})" for inp, off, m, r in items)
    return ("From Coq Require Import NArith List Bool.\nFrom DS Require Import Model.Matched.\nImport ListNotations.\nOpen Scope N_scope.\n"
            "Set Printing Width 1000000. Set Printing Depth 10000000.\n"
            "Fixpoint leqb (a b : list N) : bool := match a, b with [], [] => true | x :: r, y :: q => if x =? y then leqb r q else false | _, _ => false end.\n"
            "Definition okc (c : list N * nat * list N * list N) : bool := let '(i, o, m, r) := c in if leqb (matched i o) m then leqb (rest i o) r else false.\n"
            "Fixpoint badi (i : N) (l : list (list N * nat * list N * list N)) : list N := match l with [] => [] | c :: r => if okc c then badi (i+1) r else i :: badi (i+1) r end.\n"
            "Definition cases := [\n" + body + "].\nDefinition bad := Eval vm_compute in badi 0 cases.\nPrint bad.\n")


def run(res, tier, seed):
    common.build_harness()
    rnd = random.Random(seed)
    stats = pegcases.regenerate_grammar()
    res.cov["translator"] = {k: stats[k] for k in ("rules", "functions", "nodes", "untranslated")}
    n = 700 if tier == "quick" else 6000
    cases = []
    pres = [b"", b"x=3; y='s'; arr=[1,2,3]; m={'k':1}", b"func g(u){ u+1 }; &val = 2d1; x = 7"]
    for i in range(n):
        g = gen.G(rnd, max_depth=rnd.choice([1, 2, 2, 3]))
        prog = g.program().encode()
        k = rnd.randrange(10)
        if k < 6:
            b = prog + gen.tail_bytes(rnd.choice(gen.TAILS)) + (gen.tail_bytes(rnd.choice(gen.TAILS)) if rnd.random() < 0.3 else b"")
        elif k < 8:
            b = prog + rnd.choice([b"\n", b" ", b";", b"\n\n", b" \t"]) + gen.mutate(rnd, g.program())
        elif k < 9:
            b = gen.mutate(rnd, prog)
        else:
            b = prog + rnd.choice([" ", "　", " ", "\v", "\f", " ", "\n"]).encode() * rnd.randrange(1, 3) + rnd.choice([b"", b")", b"]"])
        fl = pegcases.ALL_ON if rnd.random() < 0.7 else [rnd.random() < 0.5 for _ in range(7)]
        cases.append((b, rnd.choice(pres), fl, rnd.getrandbits(64), rnd.getrandbits(64), False))
    # registered custom dice at operand starts (the custom alternative advances the parser by itself)
    for i in range(n // 12):
        tok = rnd.choice(["E12", "E7", "C3T2", "C03T2", "C010T20", "C3T002", "E007"])
        b = (rnd.choice(["", "1 + ", "x = ", "2 * ", "1d1 + "]) + tok + rnd.choice(["", " + 1", " + 力量", " * 2"]) +
             rnd.choice(["", " )", " (1,", " ] tail", "\n[", " 体内 )"])).encode()
        cases.append((b, rnd.choice(pres[:2]), pegcases.ALL_ON, rnd.getrandbits(64), rnd.getrandbits(64), True))
    # st lists whose values are parsed under other flags (no bitwise operators, no sides-less dice) than the look-ahead guards
    # that examined them, followed by a tail that makes the whole look like a ternary / slice / comparison: the value stops at the
    # `|` / `&` / `d`, everything behind it is RestInput, and what was parsed evaluates alone to the same effect
    for i in range(n // 10):
        nm = rnd.choice(["力量", "敏捷", "hp", "san", "属性"])
        val = rnd.choice(["1|2", "60 敏捷3d", "*2=1|2", "7&3", "60|1", "3d", "=5|1", ":2d", "+=1|2", "-3d", "60 hp7&1"])
        tail = rnd.choice([" ? 1 : 2", "?1:2", "[0:1]", " ? 1, 2 ? 3", " == 1", " && 1", " || 2", " > 0 ? 'a' : 'b'", "?1", " ? 1 :", ".x", "(1)"])
        cases.append((("^st" + rnd.choice(["", " "]) + nm + val + tail).encode(), rnd.choice(pres[:2]), pegcases.ALL_ON if rnd.random() < 0.8 else [rnd.random() < 0.5 for _ in range(7)],
                      rnd.getrandbits(64), rnd.getrandbits(64), False))
    # a dice term of any family, with any modifier, directly followed (no blank) by a word that begins like a continuation of the
    # dice syntax (d, k, q, m, a, c, b, p, f, D ...) but is none: the term ends before the word, and what was parsed evaluates alone
    for i in range(n // 8):
        term = rnd.choice(["2d6", "d20", "3d6kh2", "4d6d8", "3d", "d", "2d6k1", "4d6dl1", "2d6min2", "2d6max5", "(2d4)d6", "5a8", "3a9m6k4", "3c8", "4c9m10", "b2", "p", "f", "2d(1+1)",
                           "d4d6d8", "1d6q2", "3d6dh1", "[2d6, d4][0]", "2b", "10a"])
        word = rnd.choice(["d", "dm", "dmg", "damage bonus", "D", "k", "kx", "kh", "khx", "kl", "q", "qq", "m", "mi", "min", "ma", "max", "maxx", "dh", "dl", "dlx", "a", "ab", "c", "b", "p", "f", "fx",
                           "dd", "d d6", "d(", "d)", "d+", "k+1", "m5", "力量", "d力量", "a力", "优势", "劣势"])
        pre = rnd.choice(["", "", "x = ", "1 + ", "bonus + ", "[", "(", "g("])
        cases.append(((pre + term + word).encode(), rnd.choice(pres), pegcases.ALL_ON if rnd.random() < 0.8 else [rnd.random() < 0.5 for _ in range(7)],
                      rnd.getrandbits(64), rnd.getrandbits(64), False))
    rows = go_c03(cases)
    accepted = [(c, r) for c, r in zip(cases, rows) if r["full"]["out"]["ok"]]
    for c, r in zip(cases, rows):
        res.count(c[0].hex() + c[1].hex(), nontrivial=r["full"]["out"]["ok"] and r["full"]["out"]["rest"] != "")
    res.cov["rule"] = ("inputs of the form <generated valid program><tail> (tails from an alphabet of opening brackets/quotes/keywords/operators/dice "
                       "letters, closing brackets, CJK and full-width forms, NBSP/U+3000/\\v/\\f which IsSpace trims but the grammar's sp does not skip), "
                       "program+separator+mutated program, mutations; 3 prior variable states; 70% all-flags-on else random flags; each run fully and then "
                       "as Matched alone from the same seed and prior state; distinct = distinct (input, history); non-trivial = accepted with non-empty RestInput")
    res.cov["input_distribution"] = {"inputs": len(cases), "accepted": len(accepted),
                                     "accepted_with_rest": sum(1 for c, r in accepted if r["full"]["out"]["rest"] != ""),
                                     "panics": sum(1 for r in rows if r["full"]["out"].get("panic"))}
    res.sample({"input": cases[0][0].decode("utf-8", "replace"), "matched": rows[0]["full"]["out"].get("matched"), "rest": rows[0]["full"]["out"].get("rest")})
    res.cov["trusted_base"] += [
        "Model/Matched.v (TrimRightFunc/IsSpace/DecodeLastRune on bytes) hand-written, tied by exact Matched/Rest correspondence given Go's final offset",
        "the final offset itself is tied to the PEG model by the K1 correspondence (Model/Peg.v on the regenerated grammar)",
        "the positive half of the property (nothing of the tail contributes) is FALSE of the code today (recorded finding: left-over code of abandoned "
        "grammar alternatives); it is decided per input by the Go-vs-Go monitor, not by a universal theorem",
    ]

    known = {k["key"]: k for k in common.known_for("C03")}
    allowed_ops = set(known.get(KEY, {}).get("leftover_ops", []))
    found = 0
    unstable = 0
    seen_known = set()
    for (b, pre, fl, hi, lo, cust), r in accepted:
        if not r.get("split_ok", True):
            res.violation({"what": "Matched + RestInput != input", "input": b.decode("utf-8", "replace"), "hex": b.hex(),
                           "matched": r["full"]["out"]["matched"], "rest": r["full"]["out"]["rest"]})
            found += 1
            continue
        bad = [k for k in ("same_val", "same_detail", "same_vars", "same_seed", "alone_consumed_all", "same_code") if not r.get(k, True)]
        if not bad:
            continue
        if r.get("unstable"):
            unstable += 1
            continue
        lo_ops = set(r.get("leftover_ops") or [])
        alone_ok = r.get("alone", {}).get("out", {}).get("ok") and r.get("alone_consumed_all", False)
        # the recorded finding explains extra instructions in the compiled code of the full input; it never explains a Matched
        # text that cannot be evaluated on its own
        # ... and it covers exactly the left-over code that the pinned reference copy of the library (harness/refds) compiles for
        # this input: left-over code the recorded grammar does not produce is a new violation
        if KEY in known and alone_ok and lo_ops and lo_ops <= allowed_ops and r.get("ref_same_code") and \
                not r.get("alone", {}).get("out", {}).get("panic"):
            seen_known |= lo_ops
            continue
        res.violation({"what": "evaluating Matched alone differs from evaluating the input: " + ",".join(bad),
                       "input": b.decode("utf-8", "replace"), "hex": b.hex(), "history": pre.decode(), "flags": fl, "seed_state": [str(hi), str(lo)],
                       "matched": r["full"]["out"]["matched"], "rest": r["full"]["out"]["rest"], "leftover_ops": sorted(lo_ops),
                       "pinned_reference_compiles_the_same_code": r.get("ref_same_code"),
                       "value_full": r["full"]["out"].get("str"), "value_alone": r.get("alone", {}).get("out", {}).get("str")})
        found += 1
        if found >= 3:
            break
    res.cov["skipped_nondeterministic_dict_order"] = unstable
    if KEY in known:
        # deterministic replay of the recorded finding
        rr = go_c03([(b"5\n{'a':1", b"", pegcases.ALL_ON, 1, 2, False)])[0]
        if not rr.get("same_code", True):
            res.known(known[KEY]["what"] + f" [left-over opcodes seen this run: {sorted(seen_known | set(rr.get('leftover_ops') or []))}]")

    broken = None
    try:
        info = common.check_property_file("C03")
        res.proof(info, "cd coq && make && coqc -Q . DS Properties/C03.v")
        # Matched/Rest correspondence
        items = []
        for (b, pre, fl, hi, lo, cust), r in accepted:
            o = r["full"]["out"]
            off = len(o["matched"].encode("utf-8", "surrogatepass"))
            items.append((b, off))
        # the offset is not exposed by Run: use len(matched)+trailing spaces is unknown -> take the K1 offset instead
        plain = [(c, r) for c, r in accepted if not c[5]]
        k1rows = pegcases.go_parse([(c[0], c[2]) for c, _ in plain], [c[1] for c, _ in plain])
        mitems = []
        for ((b, pre, fl, hi, lo, cust), r), kr in zip(plain, k1rows):
            if kr["ok"]:
                mitems.append((list(b), kr["offset"], list(bytes.fromhex(r["full"]["out"].get("mhex", ""))),
                               list(bytes.fromhex(r["full"]["out"].get("rhex", "")))))
        badm = []
        shard = 250
        ks = list(range(0, len(mitems), shard))
        outs = common.coq_eval_many([(f"c03m_{k}", matched_v(mitems[k:k + shard])) for k in ks])
        for k, out in zip(ks, outs):
            badm += [k + int(x.replace("%N", "")) for x in common.parse_coq_list(out, "bad")]
        k1in = [(c[0], c[2]) for c in cases if not c[5]]
        k1all = pegcases.go_parse(k1in, [c[1] for c in cases if not c[5]])
        bad = pegcases.correspond(k1in, k1all, "c03k1")
        res.cov["correspondence"] = {"matched_rest_cases": len(mitems), "matched_rest_disagreements": len(badm), "k1_cases": len(k1in), "k1_disagreements": len(bad)}
        if badm:
            broken = Broken("correspondence Model/Matched.v (matched/rest from the final offset) vs Go Matched/RestInput",
                            {"first": [{"input": bytes(mitems[i][0]).decode("utf-8", "replace"), "offset": mitems[i][1],
                                        "go_matched": bytes(mitems[i][2]).decode("utf-8", "replace")} for i in badm[:3]]})
        elif bad:
            broken = Broken("correspondence CorrK1.k1_ok (offset of the PEG model vs Go Parse)",
                            {"first": [{"input": k1in[i][0].decode("utf-8", "replace"), "hex": k1in[i][0].hex(), "flags": k1in[i][1]} for i in bad[:3]]})
    except Broken as b:
        broken = b
    if broken and not found:
        res.violation({"broken": broken.what, "detail": broken.detail}, no_input=True)


def replay(path):
    p = json.load(open(path))
    print(json.dumps(p, indent=1, ensure_ascii=False))
    return 0
