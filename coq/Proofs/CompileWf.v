(* Every program of the fragment of Model/Ast.v compiles (Model/Compile.v) to byte-code that satisfies
   Model/CodeWf.v `code_wf`: the operands have the shapes the VM asserts and no relative jump goes below
   index 0.  Hence (Proofs/VMSafety.v, C01) a compiled program never reaches a Go panic site.

   Route: `code_wf_from len pc` distributes over `++` (the second part is checked from pc + length of the
   first); expressions only jump forwards, so they are well formed at ANY position; a statement compiled
   with offsets (bo, ao) is well formed at every position pc with bo <= pc, provided 0 <= ao:
     continue   the jump sits d instructions after the start pc of the statement and goes back bo + d + 1;
                opIndex after the jump and the loop's increment is pc - bo >= 0 (the head of the loop;
                at top level, where bo counts from the first instruction, index 0);
     break      jumps forwards by ao >= 0;
     while      the closing jump lands on pc + 1, the first instruction of the condition.
   No bound on the size of the program. *)
From Coq Require Import String NArith ZArith List Bool Lia.
From DS Require Import Model.Str Model.Value Model.VM Model.Ast Model.Compile Model.CodeWf.
From DS Require Import Proofs.CompileVerified Proofs.VMSafety.
Import ListNotations.
Open Scope nat_scope.
Local Notation length := List.length.

(* ================================================================ code_wf_from and ++ *)
Lemma wf_from_app len a : forall pc b,
  code_wf_from len pc (a ++ b) = code_wf_from len pc a && code_wf_from len (pc + length a) b.
Proof.
  induction a as [|i r IH]; intros pc b; cbn [app code_wf_from length].
  - rewrite Nat.add_0_r. reflexivity.
  - replace (pc + S (length r)) with (S pc + length r) by lia.
    rewrite IH, andb_assoc. reflexivity.
Qed.

Lemma wf_from_app_true len a pc b :
  code_wf_from len pc a = true -> code_wf_from len (pc + length a) b = true ->
  code_wf_from len pc (a ++ b) = true.
Proof. intros Ha Hb. rewrite wf_from_app, Ha, Hb. reflexivity. Qed.

Lemma wf_from_cons_true len pc i r :
  instr_wf len pc i = true -> code_wf_from len (S pc) r = true -> code_wf_from len pc (i :: r) = true.
Proof. intros Hi Hr. cbn [code_wf_from]. rewrite Hi, Hr. reflexivity. Qed.

(* a forward (non-negative) relative jump is fine anywhere *)
Lemma jump_ok_fwd pc n : (0 <= n)%Z -> jump_ok pc (OInt n) = true.
Proof. intro H. cbn [jump_ok]. apply Z.leb_le. lia. Qed.

Lemma jump_ok_back pc n : (0 <= Z.of_nat pc + n + 1)%Z -> jump_ok pc (OInt n) = true.
Proof. intro H. cbn [jump_ok]. apply Z.leb_le. exact H. Qed.

Lemma instr_wf_bin len pc o : instr_wf len pc (I (bin_opcode o) ONil) = true.
Proof. destruct o; reflexivity. Qed.
Lemma instr_wf_un len pc o : instr_wf len pc (I (un_opcode o) ONil) = true.
Proof. destruct o; reflexivity. Qed.

(* ================================================================ expressions: well formed at any position *)
Definition expr_wfP (e : expr) : Prop := forall len pc, code_wf_from len pc (compile_expr e) = true.

Ltac wf_step :=
  first [ apply wf_from_app_true
        | apply wf_from_cons_true
        | reflexivity
        | apply instr_wf_bin
        | apply instr_wf_un
        | match goal with H : expr_wfP ?e |- code_wf_from _ _ (compile_expr ?e) = true => apply H end ].

Lemma expr_wf : forall e, expr_wfP e.
Proof.
  induction e using expr_ind_nested; unfold expr_wfP; intros len pc.
  1-9, 13-14: cbn [compile_expr]; repeat wf_step.
  - (* EOr *) cbn [compile_expr]. repeat wf_step.
    all: cbv [instr_wf i_op i_arg]; apply jump_ok_fwd; unfold zlen; lia.
  - (* ETern *) cbn [compile_expr]. repeat wf_step.
    all: cbv [instr_wf i_op i_arg]; apply jump_ok_fwd; unfold zlen; lia.
  - (* EArr *) rewrite compile_arr. apply wf_from_app_true; [|reflexivity].
    revert pc. induction H as [|x r Hx Hr IH]; intro pc; cbn [citems]; [reflexivity|].
    apply wf_from_app_true; [apply Hx|apply IH].
Qed.

(* ================================================================ statements *)
Lemma pops_wf len d : forall pc, code_wf_from len pc (pops d) = true.
Proof.
  unfold pops. induction d as [|n IH]; intro pc; cbn [repeat]; [reflexivity|].
  apply wf_from_cons_true; [reflexivity|apply IH].
Qed.

Lemma ssize_ge0 d s : (0 <= ssize d s)%Z.
Proof. rewrite ssize_sl. lia. Qed.

Ltac arith :=
  rewrite ?app_length, ?compile_stmt_len, ?pops_len, ?ssize_sl in *; unfold zlen in *; cbn [length] in *; lia.

Ltac jmp_fwd := cbv [instr_wf i_op i_arg]; apply jump_ok_fwd; arith.
Ltac jmp_back := cbv [instr_wf i_op i_arg]; apply jump_ok_back; arith.

(* a statement compiled with offsets (bo, ao) may sit at any position pc >= bo (bo = distance back to
   the head of the enclosing loop, or to the start of the program) as long as ao >= 0 *)
Lemma stmt_wf : forall s d bo ao len pc,
  (0 <= ao)%Z -> (bo <= Z.of_nat pc)%Z -> code_wf_from len pc (compile_stmt d bo ao s) = true.
Proof.
  induction s as [|e|a IHa b IHb|c t IHt e IHe|c b IHb| |]; intros d bo ao len pc Hao Hbo; cbn [compile_stmt].
  - reflexivity.
  - apply expr_wf.
  - apply wf_from_app_true.
    + apply IHa; [pose proof (ssize_ge0 d b); lia|exact Hbo].
    + apply IHb; [exact Hao|arith].
  - apply wf_from_app_true; [apply expr_wf|]. cbn [app].
    apply wf_from_cons_true; [reflexivity|].
    apply wf_from_cons_true; [jmp_fwd|].
    apply wf_from_app_true; [apply IHt; [pose proof (ssize_ge0 (S d) e); lia|arith]|].
    apply wf_from_cons_true; [jmp_fwd|].
    apply wf_from_app_true; [apply IHe; [lia|arith]|reflexivity].
  - cbn [app]. apply wf_from_cons_true; [reflexivity|].
    apply wf_from_app_true; [apply expr_wf|]. cbn [app].
    apply wf_from_cons_true; [jmp_fwd|].
    apply wf_from_app_true; [apply IHb; [lia|arith]|].
    apply wf_from_cons_true; [jmp_back|reflexivity].
  - apply wf_from_app_true; [apply pops_wf|].
    apply wf_from_cons_true; [jmp_fwd|reflexivity].
  - apply wf_from_app_true; [apply pops_wf|].
    apply wf_from_cons_true; [jmp_back|reflexivity].
Qed.

(* ================================================================ programs *)
Theorem compile_code_wf : forall p : stmt, code_wf (compile p) = true.
Proof.
  intro p. unfold code_wf, compile. apply wf_from_app_true; [|reflexivity].
  apply stmt_wf; lia.
Qed.

(* with C01 (Proofs/VMSafety.v): a compiled program of the fragment never reaches a Go panic site (the one
   exception is the model-only push.range site, which no compiled program contains anyway) *)
Theorem compiled_program_never_panics :
  forall (p : stmt) E src, ftab_wf (e_ftab E) = true ->
  forall fuel st, state_good st ->
  match run fuel E (compile p) src st with OPanic s => s = range_msg | _ => True end.
Proof.
  intros p E src Hft fuel st Hst.
  exact (C01_run_no_panic_partial E (compile p) src (compile_code_wf p) Hft fuel st Hst).
Qed.

Print Assumptions compile_code_wf.
Print Assumptions compiled_program_never_panics.
