(* Compiler correctness, continued: array literals and indexing (values that live in the VM's heap).

   Proofs/CompileProofs.v proves the scalar fragment with a FUNCTION `inj : dv -> value`.  An array of the
   definition (a plain list) is a REFERENCE into the heap on the VM, so here the tie between the two is a
   RELATION relative to the heap:

     arel h a v        the definitional value a is what the VM value v denotes in heap h
     erel h env vars   the same for whole variable maps (same keys, same order, related values)
     heap_le h h'      h' extends h: every array id of h is still there with the same elements

   `arel` / `erel` are monotone in `heap_le`, allocation (`push.arr`, `+`, `*` on arrays) and `store`
   extend the heap in that sense, and nothing in the fragment writes into an existing array. *)
From Coq Require Import String Ascii NArith ZArith List Bool Lia.
From DS Require Import Model.Str Model.PCG Model.Roll Model.Dice Model.Value Model.VM Model.Ast Model.Denote Model.Compile
                       Proofs.CompileProofs.
Import ListNotations.
Open Scope Z_scope.

(* ------------------------------------------------------------------ heaps *)
Definition heap_le (h h' : heap) : Prop :=
  (h_next h <= h_next h')%N /\ (forall id, (id < h_next h)%N -> get_arr id h' = get_arr id h).

Lemma heap_le_refl : forall h, heap_le h h.
Proof. intros h; split; [lia|reflexivity]. Qed.
Lemma heap_le_trans : forall a b c, heap_le a b -> heap_le b c -> heap_le a c.
Proof.
  intros a b c [H1 H2] [H3 H4]. split; [lia|]. intros id Hid. rewrite H4 by lia. apply H2; exact Hid.
Qed.
Lemma heap_le_alloc : forall l h, heap_le h (snd (alloc_arr l h)).
Proof.
  intros l h. unfold alloc_arr; cbn [snd]. split; cbn [h_next]; [lia|].
  intros id Hid. unfold get_arr. cbn [h_arrs aget].
  replace (id =? h_next h)%N with false by (symmetry; apply N.eqb_neq; lia). reflexivity.
Qed.
Lemma heap_le_set_map : forall id m h, heap_le h (set_map id m h).
Proof. intros; split; cbn [set_map h_next]; [lia|reflexivity]. Qed.
Lemma get_arr_alloc_new : forall l h, get_arr (h_next h) (snd (alloc_arr l h)) = l.
Proof. intros; unfold get_arr, alloc_arr; cbn [snd h_arrs aget]. rewrite N.eqb_refl. reflexivity. Qed.

(* ------------------------------------------------------------------ values *)
Inductive arel (h : heap) : dv -> value -> Prop :=
| ar_int : forall z, arel h (DvInt z) (VInt z)
| ar_str : forall s, arel h (DvStr s) (VStr s)
| ar_null : arel h DvNull VNull
| ar_arr : forall l id, (id < h_next h)%N -> Forall2 (arel h) l (get_arr id h) -> arel h (DvArr l) (VArr id).

Section ArelInd.
  Variable h : heap.
  Variable P : dv -> value -> Prop.
  Hypothesis Hi : forall z, P (DvInt z) (VInt z).
  Hypothesis Hs : forall s, P (DvStr s) (VStr s).
  Hypothesis Hn : P DvNull VNull.
  Hypothesis Ha : forall l id, (id < h_next h)%N -> Forall2 (arel h) l (get_arr id h) ->
                               Forall2 P l (get_arr id h) -> P (DvArr l) (VArr id).
  Fixpoint arel_ind' (a : dv) (v : value) (H : arel h a v) {struct H} : P a v :=
    match H in arel _ a v return P a v with
    | ar_int _ z => Hi z
    | ar_str _ s => Hs s
    | ar_null _ => Hn
    | ar_arr _ l id Hlt HF =>
      Ha l id Hlt HF
         ((fix go (l : list dv) (vs : list value) (HF : Forall2 (arel h) l vs) {struct HF} : Forall2 P l vs :=
             match HF in Forall2 _ l vs return Forall2 P l vs with
             | Forall2_nil _ => Forall2_nil P
             | Forall2_cons x y Hxy Hr => Forall2_cons x y (arel_ind' x y Hxy) (go _ _ Hr)
             end) l (get_arr id h) HF)
    end.
End ArelInd.

Lemma arel_mono : forall h h' a v, heap_le h h' -> arel h a v -> arel h' a v.
Proof.
  intros h h' a v [Hn Hg] H. induction H using arel_ind'; try constructor.
  - lia.
  - rewrite Hg by exact H. exact H1.
Qed.
Lemma Forall2_arel_mono : forall h h' l vs, heap_le h h' -> Forall2 (arel h) l vs -> Forall2 (arel h') l vs.
Proof. intros h h' l vs Hle H; induction H; constructor; [eapply arel_mono; eassumption|assumption]. Qed.

(* a VM value denotes at most one value of the definition *)
Lemma arel_fun : forall h a v, arel h a v -> forall b, arel h b v -> a = b.
Proof.
  intros h a v H. induction H using arel_ind'; intros b Hb; inversion Hb; subst; try reflexivity.
  f_equal. clear - H1 H5. revert l0 H5. induction H1; intros l0 H5; inversion H5; subst; [reflexivity|].
  f_equal; [apply H; assumption|apply IHForall2; assumption].
Qed.

Lemma Forall2_len : forall A B (R : A -> B -> Prop) l l', Forall2 R l l' -> length l = length l'.
Proof. intros A B R l l' H; induction H; cbn [length]; [reflexivity|rewrite IHForall2; reflexivity]. Qed.
Lemma Forall2_zlen : forall A B (R : A -> B -> Prop) l l', Forall2 R l l' -> zlen l = zlen l'.
Proof. intros A B R l l' H; induction H; [reflexivity|rewrite !zlen_cons, IHForall2; reflexivity]. Qed.

Lemma arel_truthy : forall fn h a v, arel h a v -> as_bool fn h v = truthy a.
Proof.
  intros fn h a v H; inversion H; subst; cbn [as_bool truthy]; try reflexivity.
  inversion H1; reflexivity.
Qed.

(* ------------------------------------------------------------------ variable maps *)
Definition erel (h : heap) (env : denv) (m : vmap) : Prop :=
  Forall2 (fun kv kv' => fst kv = fst kv' /\ arel h (snd kv) (snd kv')) env m.

Lemma erel_mono : forall h h' env m, heap_le h h' -> erel h env m -> erel h' env m.
Proof.
  intros h h' env m Hle H; induction H as [|[k a] [k' v] env m [Hk Hv] Hr IH]; constructor; [|exact IH].
  split; [exact Hk|eapply arel_mono; eassumption].
Qed.
Lemma erel_get : forall h env m x, erel h env m ->
  match dget x env, mget x m with
  | Some a, Some b => arel h a b
  | None, None => True
  | _, _ => False
  end.
Proof.
  intros h env m x H; induction H as [|[k a] [k' v] env m [Hk Hv] Hr IH]; cbn [dget mget]; [exact Logic.I|].
  cbn [fst snd] in *. subst k'. destruct (String.eqb x k); [exact Hv|exact IH].
Qed.
Lemma erel_lookup : forall h env m x, erel h env m ->
  arel h (dlookup x env) (match mget x m with Some v => v | None => VNull end).
Proof.
  intros h env m x H. pose proof (erel_get h env m x H) as G. unfold dlookup.
  destruct (dget x env), (mget x m); try contradiction; [exact G|constructor].
Qed.
Lemma erel_set : forall h env m x a v, erel h env m -> arel h a v -> erel h (dset x a env) (mset x v m).
Proof.
  intros h env m x a v H Hv; induction H as [|[k b] [k' w] env m [Hk Hw] Hr IH]; cbn [dset mset].
  - constructor; [split; [reflexivity|exact Hv]|constructor].
  - cbn [fst snd] in *. subst k'. destruct (String.eqb x k).
    + constructor; [split; [reflexivity|exact Hv]|exact Hr].
    + constructor; [split; [reflexivity|exact Hw]|exact IH].
Qed.

(* on scalar environments the relation is the equality of CompileProofs *)
Lemma arel_inj : forall h a, scalar a -> arel h a (inj a).
Proof. intros h a Hs; destruct a; try contradiction; constructor. Qed.
Lemma erel_inj_env : forall h env, scalar_env env -> erel h env (inj_env env).
Proof.
  intros h env H; induction H as [|[k a] env Ha Hr IH]; cbn; constructor; [|exact IH].
  split; [reflexivity|apply arel_inj; exact Ha].
Qed.

(* ------------------------------------------------------------------ structural equality *)
Section DvInd.
  Variable P : dv -> Prop.
  Hypothesis Hi : forall z, P (DvInt z).
  Hypothesis Hs : forall s, P (DvStr s).
  Hypothesis Hn : P DvNull.
  Hypothesis Ha : forall l, Forall P l -> P (DvArr l).
  Fixpoint dv_ind' (a : dv) : P a :=
    match a with
    | DvInt z => Hi z
    | DvStr s => Hs s
    | DvNull => Hn
    | DvArr l => Ha l ((fix go (l : list dv) : Forall P l :=
                          match l with [] => Forall_nil P | x :: r => Forall_cons x (dv_ind' x) (go r) end) l)
    end.
End DvInd.

Fixpoint depth_list (dep : dv -> nat) (l : list dv) : nat :=
  match l with [] => O | x :: r => Nat.max (dep x) (depth_list dep r) end.
(* nesting depth of arrays: the recursion fuel structural equality needs on the VM *)
Fixpoint dv_depth (a : dv) : nat :=
  match a with
  | DvArr l => S ((fix go (l : list dv) : nat := match l with [] => O | x :: r => Nat.max (dv_depth x) (go r) end) l)
  | _ => O
  end.
Lemma dv_depth_arr : forall l, dv_depth (DvArr l) = S (depth_list dv_depth l).
Proof. intros l. cbn [dv_depth]. f_equal. induction l as [|x r IH]; cbn [depth_list]; [reflexivity|rewrite IH; reflexivity]. Qed.

Fixpoint eqb_list (l1 l2 : list dv) : bool :=
  match l1, l2 with
  | [], [] => true
  | x :: r1, y :: r2 => if dv_eqb x y then eqb_list r1 r2 else false
  | _, _ => false
  end.
Lemma dv_eqb_arr : forall l1 l2, dv_eqb (DvArr l1) (DvArr l2) = eqb_list l1 l2.
Proof.
  intros l1 l2. cbn [dv_eqb]. revert l2. induction l1 as [|x r IH]; intros [|y r2]; cbn [eqb_list]; try reflexivity.
Qed.
Lemma eqb_list_length : forall l1 l2, eqb_list l1 l2 = true -> length l1 = length l2.
Proof.
  induction l1 as [|x r IH]; intros [|y r2]; cbn [eqb_list length]; try discriminate; [reflexivity|].
  destruct (dv_eqb x y); [intros H; f_equal; apply IH; exact H|discriminate].
Qed.
Lemma dv_eqb_refl : forall a, dv_eqb a a = true.
Proof.
  induction a using dv_ind'; try reflexivity.
  - cbn [dv_eqb]. apply Z.eqb_refl.
  - cbn [dv_eqb]. apply String.eqb_refl.
  - rewrite dv_eqb_arr. induction H as [|x r Hx Hr IH]; cbn [eqb_list]; [reflexivity|]. rewrite Hx. exact IH.
Qed.

Fixpoint veq_list (f : nat) (fn : fnames) (h : heap) (vis : list (N * N)) (l1 l2 : list value) : option bool :=
  match l1, l2 with
  | u :: r1, w :: r2 =>
    match value_equal_v f fn h vis u w with
    | None => None
    | Some false => Some false
    | Some true => veq_list f fn h vis r1 r2
    end
  | _, _ => Some true
  end.
Lemma value_equal_arr : forall f fn h vis x y,
  value_equal_v (S f) fn h vis (VArr x) (VArr y) =
  if negb (Nat.eqb (length (get_arr x h)) (length (get_arr y h))) then Some false
  else if (x =? y)%N || mem_pair x y vis then Some true
  else veq_list f fn h ((x, y) :: vis) (get_arr x h) (get_arr y h).
Proof.
  intros. cbn [value_equal_v]. destruct (negb _); [reflexivity|]. destruct (_ || _); [reflexivity|].
  generalize (get_arr y h). induction (get_arr x h) as [|u r1 IH]; intros [|w r2]; cbn [veq_list]; try reflexivity.
  destruct (value_equal_v f fn h ((x, y) :: vis) u w) as [[|]|]; try reflexivity. apply IH.
Qed.

Lemma value_equal_arel : forall fn h a va, arel h a va -> forall b vb, arel h b vb ->
  forall f vis, (dv_depth a < f)%nat ->
    (forall p q d, mem_pair p q vis = true -> arel h d (VArr p) -> (dv_depth a < dv_depth d)%nat) ->
    value_equal_v f fn h vis va vb = Some (dv_eqb a b).
Proof.
  intros fn h a va H. induction H using arel_ind'; intros b vb Hb f vis Hf Hvis; (destruct f as [|f]; [lia|]).
  - inversion Hb; subst; reflexivity.
  - inversion Hb; subst; reflexivity.
  - inversion Hb; subst; reflexivity.
  - inversion Hb as [| | |l2 id2 Hlt2 HF2]; subst; try reflexivity.
    rewrite value_equal_arr, dv_eqb_arr.
    assert (Ha : arel h (DvArr l) (VArr id)) by (constructor; assumption).
    rewrite <- (Forall2_len _ _ _ _ _ H0), <- (Forall2_len _ _ _ _ _ HF2).
    destruct (Nat.eqb (length l) (length l2)) eqn:El; cbn [negb].
    2:{ destruct (eqb_list l l2) eqn:Eq; [|reflexivity]. apply eqb_list_length in Eq. apply Nat.eqb_neq in El. contradiction. }
    apply Nat.eqb_eq in El.
    destruct (id =? id2)%N eqn:Eid; cbn [orb].
    { apply N.eqb_eq in Eid. subst id2. pose proof (arel_fun h _ _ Ha _ Hb) as X. inversion X; subst l2.
      rewrite <- dv_eqb_arr. rewrite dv_eqb_refl. reflexivity. }
    destruct (mem_pair id id2 vis) eqn:Em.
    { pose proof (Hvis id id2 _ Em Ha). lia. }
    rewrite dv_depth_arr in Hf, Hvis.
    assert (Hvis' : forall x, (dv_depth x <= depth_list dv_depth l)%nat ->
              forall p q d, mem_pair p q ((id, id2) :: vis) = true -> arel h d (VArr p) -> (dv_depth x < dv_depth d)%nat).
    { intros x Hx p q d Hm Hd. cbn [mem_pair] in Hm. destruct ((p =? id) && (q =? id2))%N eqn:Epq.
      - apply andb_true_iff in Epq. destruct Epq as [Ep _]. apply N.eqb_eq in Ep. subst p.
        rewrite <- (arel_fun h _ _ Ha _ Hd). rewrite dv_depth_arr. lia.
      - pose proof (Hvis p q d Hm Hd). lia. }
    clear Hvis Hb Ha H0 Em Eid.
    revert l2 HF2 El. generalize dependent (get_arr id2 h). 
    induction H1 as [|x y l vs Hxy Hr IH]; intros vs2 l2 HF2 El; inversion HF2 as [|x2 y2 l2' vs2' Hxy2 Hr2]; subst;
      cbn [length] in El; try discriminate; cbn [veq_list eqb_list]; [reflexivity|].
    cbn [depth_list] in Hf, Hvis'.
    rewrite (Hxy x2 y2 Hxy2 f ((id, id2) :: vis)); [| lia | apply Hvis'; lia].
    destruct (dv_eqb x x2); [|reflexivity].
    apply IH; try assumption; try lia.
    intros z Hz. apply Hvis'. lia.
Qed.

(* ------------------------------------------------------------------ operators on related values *)
Lemma arel_scalar : forall h a va, arel h a va -> scalar a -> va = inj a.
Proof. intros h a va H Hs; inversion H; subst; try reflexivity; contradiction. Qed.

(* a helper of the VM answered with a value related to v, in a heap that extends the old one and has the same maps *)
Definition okres (w : world) (v : dv) (r : R value) : Prop :=
  exists vv h', r = ROk vv (w_set_heap w h') /\ heap_le (w_heap w) h' /\ arel h' v vv
                /\ (forall id, get_map id h' = get_map id (w_heap w)).

Lemma okres_same : forall w v vv, arel (w_heap w) v vv -> okres w v (ROk vv w).
Proof.
  intros [h p s c] v vv H. exists vv, h. cbn [w_heap] in *.
  split; [reflexivity|]. split; [apply heap_le_refl|]. split; [exact H|reflexivity].
Qed.
Lemma new_arr_ok : forall w l vs, Forall2 (arel (w_heap w)) l vs -> okres w (DvArr l) (new_arr vs w).
Proof.
  intros w l vs H. unfold new_arr, alloc_arr. cbv beta iota.
  eexists _, _. split; [reflexivity|].
  pose proof (heap_le_alloc vs (w_heap w)) as Hle. unfold alloc_arr in Hle; cbn [snd] in Hle.
  split; [exact Hle|]. split; [|reflexivity].
  constructor; [cbn [h_next]; lia|].
  pose proof (get_arr_alloc_new vs (w_heap w)) as G. unfold alloc_arr in G; cbn [snd] in G. rewrite G.
  eapply Forall2_arel_mono; eassumption.
Qed.
Lemma Forall2_repeat_list : forall A B (R : A -> B -> Prop) l vs n,
  Forall2 R l vs -> Forall2 R (repeat_list l n) (repeat_list vs n).
Proof. intros A B R l vs n H; induction n; cbn [repeat_list]; [constructor|apply Forall2_app; assumption]. Qed.

Lemma array_repeat_ok : forall w l id t vt,
  Forall2 (arel (w_heap w)) l (get_arr id (w_heap w)) -> arel (w_heap w) t vt ->
  match arr_repeat l t with
  | inl v => okres w v (array_repeat id vt w)
  | inr e => array_repeat id vt w = RFail e w
  end.
Proof.
  intros w l id t vt HF Ht. inversion Ht; subst; cbn [arr_repeat array_repeat]; try reflexivity.
  rewrite <- (Forall2_zlen _ _ _ _ _ HF). unfold arr_limit.
  destruct (z <? 0); [reflexivity|].
  destruct ((512 <? wrap64 (zlen l * z)) || ((0 <? zlen l) && (512 <? z))); [reflexivity|].
  apply new_arr_ok. inversion HF; subst; [constructor|]. apply Forall2_repeat_list. constructor; assumption.
Qed.

Lemma bin_op_arel : forall E r o a b va vb w,
  arel (w_heap w) a va -> arel (w_heap w) b vb -> o <> BAnd -> (dv_depth a <= r)%nat ->
  match bin_sem (e_cfg E) o a b with
  | BV v => okres w v (bin_op (S r) E (bin_opcode o) va vb w)
  | BE c => bin_op (S r) E (bin_opcode o) va vb w = RFail c w
  | BU _ => True
  end.
Proof.
  intros E r o a b va vb w Ha Hb Ho Hr.
  assert (Heq : value_equal (S r) (e_fn E) (w_heap w) va vb = Some (dv_eqb a b)).
  { unfold value_equal. eapply value_equal_arel; try eassumption; [lia|]. intros p q d Hm; discriminate. }
  destruct o; try congruence; cbn [bin_sem bin_opcode].
  - (* + *)
    inversion Ha; inversion Hb; subst; cbn [bin_op]; try reflexivity; try (apply okres_same; constructor).
    rewrite <- (Forall2_zlen _ _ _ _ _ H0), <- (Forall2_zlen _ _ _ _ _ H4). unfold arr_limit.
    destruct (512 <? zlen l + zlen l0); [reflexivity|]. apply new_arr_ok. apply Forall2_app; assumption.
  - inversion Ha; inversion Hb; subst; cbn [bin_op int_op]; try reflexivity; apply okres_same; constructor.
  - (* * *)
    inversion Ha; subst; cbn [bin_op].
    + inversion Hb; subst; try reflexivity; [apply okres_same; constructor|].
      pose proof (array_repeat_ok w l id (DvInt z) (VInt z) H0 Ha) as X.
      destruct (arr_repeat l (DvInt z)); exact X.
    + inversion Hb; subst; reflexivity.
    + inversion Hb; subst; reflexivity.
    + pose proof (array_repeat_ok w l id b vb H0 Hb) as X. destruct (arr_repeat l b); exact X.
  - (* / *)
    inversion Ha; inversion Hb; subst; cbn [bin_op int_op]; try reflexivity.
    destruct (z0 =? 0); [destruct (cfg_ignore_div0 (e_cfg E))|]; try reflexivity; apply okres_same; constructor.
  - inversion Ha; inversion Hb; subst; cbn [bin_op int_op]; try reflexivity.
    destruct (z0 =? 0); try reflexivity; apply okres_same; constructor.
  - inversion Ha; inversion Hb; subst; cbn [bin_op int_op]; try reflexivity.
    destruct (int_pow z z0); [apply okres_same; constructor|exact Logic.I].
  - (* ?? *)
    cbn [bin_op]. apply okres_same. inversion Ha; subst; try assumption.
  - inversion Ha; inversion Hb; subst; cbn [bin_op int_op]; try reflexivity; apply okres_same; unfold dbool, vbool; constructor.
  - inversion Ha; inversion Hb; subst; cbn [bin_op int_op]; try reflexivity; apply okres_same; unfold dbool, vbool; constructor.
  - cbn [bin_op]. rewrite Heq. apply okres_same. unfold dbool, vbool; constructor.
  - cbn [bin_op]. rewrite Heq. apply okres_same. unfold dbool, vbool; constructor.
  - inversion Ha; inversion Hb; subst; cbn [bin_op int_op]; try reflexivity; apply okres_same; unfold dbool, vbool; constructor.
  - inversion Ha; inversion Hb; subst; cbn [bin_op int_op]; try reflexivity; apply okres_same; unfold dbool, vbool; constructor.
  - inversion Ha; inversion Hb; subst; cbn [bin_op int_op]; try reflexivity; apply okres_same; constructor.
  - inversion Ha; inversion Hb; subst; cbn [bin_op int_op]; try reflexivity; apply okres_same; constructor.
Qed.

Lemma item_get_arel : forall a i va vi w,
  arel (w_heap w) a va -> arel (w_heap w) i vi ->
  match index_sem a i with
  | BV v => exists vv, item_get va vi w = ROk vv w /\ arel (w_heap w) v vv
  | BE c => item_get va vi w = RFail c w
  | BU _ => True
  end.
Proof.
  intros a i va vi w Ha Hi. inversion Ha; subst; cbn [index_sem item_get]; try reflexivity.
  - inversion Hi; subst; try reflexivity. cbv zeta.
    destruct (get_real_index z (zlen (runes s))); [|reflexivity]. eexists; split; [reflexivity|constructor].
  - inversion Hi; subst; try reflexivity. cbv zeta.
    rewrite <- (Forall2_zlen _ _ _ _ _ H0).
    destruct (get_real_index z (zlen l)) as [k|]; [|reflexivity]. eexists; split; [reflexivity|].
    unfold znth. generalize (Z.to_nat k). clear - H0. induction H0; intros [|n]; cbn [nth]; try constructor; auto.
Qed.

Lemma bin_op_fuel_indep : forall E r1 r2 o a b va vb w,
  arel (w_heap w) a va -> arel (w_heap w) b vb -> (dv_depth a <= r1)%nat -> (dv_depth a <= r2)%nat ->
  bin_op (S r1) E (bin_opcode o) va vb w = bin_op (S r2) E (bin_opcode o) va vb w.
Proof.
  intros E r1 r2 o a b va vb w Ha Hb H1 H2.
  assert (Heq : forall r, (dv_depth a <= r)%nat -> value_equal (S r) (e_fn E) (w_heap w) va vb = Some (dv_eqb a b)).
  { intros r Hr. unfold value_equal. eapply value_equal_arel; try eassumption; [lia|]. intros p q d Hm; discriminate. }
  destruct o; try reflexivity; cbn [bin_opcode bin_op]; rewrite (Heq r1 H1), (Heq r2 H2); reflexivity.
Qed.

(* ------------------------------------------------------------------ the fragment *)
Section ExprInd.
  Variable P : expr -> Prop.
  Hypothesis HInt : forall n, P (EInt n).
  Hypothesis HStr : forall s, P (EStr s).
  Hypothesis HNull : P ENull.
  Hypothesis HTrue : P ETrue.
  Hypothesis HFalse : P EFalse.
  Hypothesis HVar : forall x, P (EVar x).
  Hypothesis HAssign : forall x e, P e -> P (EAssign x e).
  Hypothesis HUn : forall o e, P e -> P (EUn o e).
  Hypothesis HBin : forall o l r, P l -> P r -> P (EBin o l r).
  Hypothesis HOr : forall l r, P l -> P r -> P (EOr l r).
  Hypothesis HTern : forall c a b, P c -> P a -> P b -> P (ETern c a b).
  Hypothesis HArr : forall l, Forall P l -> P (EArr l).
  Hypothesis HIdx : forall e i, P e -> P i -> P (EIdx e i).
  Hypothesis HRoll : forall x y, P x -> P y -> P (ERoll x y).
  Fixpoint expr_ind' (e : expr) : P e :=
    match e with
    | EInt n => HInt n
    | EStr s => HStr s
    | ENull => HNull
    | ETrue => HTrue
    | EFalse => HFalse
    | EVar x => HVar x
    | EAssign x e1 => HAssign x e1 (expr_ind' e1)
    | EUn o e1 => HUn o e1 (expr_ind' e1)
    | EBin o l r => HBin o l r (expr_ind' l) (expr_ind' r)
    | EOr l r => HOr l r (expr_ind' l) (expr_ind' r)
    | ETern c a b => HTern c a b (expr_ind' c) (expr_ind' a) (expr_ind' b)
    | EArr l => HArr l ((fix go (l : list expr) : Forall P l :=
                           match l with [] => Forall_nil P | x :: r => Forall_cons x (expr_ind' x) (go r) end) l)
    | EIdx e1 i => HIdx e1 i (expr_ind' e1) (expr_ind' i)
    | ERoll x y => HRoll x y (expr_ind' x) (expr_ind' y)
    end.
End ExprInd.

(* expressions inside the induction: everything except dice terms *)
Fixpoint arr_expr (e : expr) : Prop :=
  match e with
  | EInt _ | EStr _ | ENull | ETrue | EFalse => True
  | EVar x => mem_s x builtin_names = false
  | EAssign _ e1 | EUn _ e1 => arr_expr e1
  | EBin _ l r | EOr l r | EIdx l r => arr_expr l /\ arr_expr r
  | ETern c a b => arr_expr c /\ arr_expr a /\ arr_expr b
  | EArr l => (fix go (l : list expr) : Prop := match l with [] => True | x :: r => arr_expr x /\ go r end) l
  | ERoll _ _ => False
  end.
Fixpoint arr_items (l : list expr) : Prop := match l with [] => True | x :: r => arr_expr x /\ arr_items r end.
Lemma arr_expr_arr : forall l, arr_expr (EArr l) = arr_items l.
Proof. intros l. reflexivity. Qed.

(* operand-stack slots an expression needs above the current top: the items of an array literal stay on the
   stack until push.arr collects them *)
Fixpoint aneed (e : expr) : Z :=
  match e with
  | EAssign _ e1 | EUn _ e1 => aneed e1
  | EBin _ l r | EIdx l r => Z.max (aneed l) (1 + aneed r)
  | EOr l r => Z.max (aneed l) (aneed r)
  | ETern c a b => Z.max (aneed c) (Z.max (aneed a) (aneed b))
  | EArr l => Z.max 1 ((fix go (l : list expr) : Z := match l with [] => 0 | x :: r => Z.max (aneed x) (1 + go r) end) l)
  | _ => 1
  end.
Fixpoint need_items (l : list expr) : Z := match l with [] => 0 | x :: r => Z.max (aneed x) (1 + need_items r) end.
Lemma aneed_arr : forall l, aneed (EArr l) = Z.max 1 (need_items l).
Proof. intros l. reflexivity. Qed.
Lemma aneed_pos : forall e, 1 <= aneed e.
Proof. induction e using expr_ind'; try rewrite aneed_arr; cbn [aneed]; lia. Qed.
Lemma need_items_len : forall l, zlen l <= need_items l.
Proof. induction l as [|x r IH]; cbn [need_items]; [rewrite zlen_nil; lia|rewrite zlen_cons; pose proof (aneed_pos x); lia]. Qed.
Lemma aneed_core : forall e, core_expr e -> aneed e = need e.
Proof.
  induction e using expr_ind'; cbn [core_expr aneed need]; intros Hc; try reflexivity; try contradiction;
    repeat match goal with H : _ /\ _ |- _ => destruct H end;
    rewrite ?IHe, ?IHe1, ?IHe2, ?IHe3 by assumption; reflexivity.
Qed.
Lemma core_arr_expr : forall e, core_expr e -> arr_expr e.
Proof.
  induction e using expr_ind'; cbn [core_expr arr_expr]; intros Hc; try exact Hc; try contradiction; auto;
    repeat match goal with H : _ /\ _ |- _ => destruct H end; repeat split; auto.
Qed.

Fixpoint citems (l : list expr) : code := match l with [] => [] | x :: r => compile_expr x ++ citems r end.
Lemma compile_arr : forall l, compile_expr (EArr l) = citems l ++ [I OpPushArr (OInt (zlen l))].
Proof. intros l. reflexivity. Qed.
Fixpoint ditems (cfg : config) (l : list expr) (env : denv) (acc : list dv) : eres :=
  match l with
  | [] => EV (DvArr (rev acc)) env
  | x :: r => match dexpr cfg x env with
              | EV v env1 => ditems cfg r env1 (v :: acc)
              | y => y
              end
  end.
Lemma dexpr_arr : forall cfg l env, dexpr cfg (EArr l) env = ditems cfg l env [].
Proof.
  intros cfg l env. cbn [dexpr]. generalize (@nil dv). revert env.
  induction l as [|x r IH]; intros env acc; cbn [ditems]; [reflexivity|].
  destruct (dexpr cfg x env); try reflexivity. apply IH.
Qed.
Lemma Forall2_rev : forall A B (R : A -> B -> Prop) l l', Forall2 R l l' -> Forall2 R (rev l) (rev l').
Proof. intros A B R l l' H; induction H; cbn [rev]; [constructor|apply Forall2_app; [assumption|repeat constructor; assumption]]. Qed.

(* loop-free statements over those expressions *)
Fixpoint arr_stmt (s : stmt) : Prop :=
  match s with
  | SNop => True
  | SExpr e => arr_expr e
  | SSeq a b => arr_stmt a /\ arr_stmt b
  | SIf c t e => arr_expr c /\ arr_stmt t /\ arr_stmt e
  | SWhile _ _ | SBreak | SContinue => False
  end.
Fixpoint asneed (s : stmt) : Z :=
  match s with
  | SExpr e => aneed e
  | SSeq a b => Z.max (asneed a) (leaves a + asneed b)
  | SIf c t e => Z.max 2 (Z.max (aneed c) (Z.max (asneed t) (asneed e)))
  | _ => 0
  end.
Lemma leaves_le_asneed : forall s, leaves s <= asneed s.
Proof. induction s; cbn [leaves asneed]; try lia. pose proof (aneed_pos e); lia. Qed.
Lemma asneed_nonneg : forall s, 0 <= asneed s.
Proof. induction s; cbn [asneed]; try lia. pose proof (aneed_pos e); lia. Qed.
Lemma core_arr_stmt : forall s, core_stmt s -> arr_stmt s.
Proof.
  induction s; cbn [core_stmt arr_stmt]; intros Hc; try exact Hc; try (apply core_arr_expr; exact Hc).
  - destruct Hc; split; auto.
  - destruct Hc as [H1 [H2 H3]]. split; [apply core_arr_expr; exact H1|split; auto].
Qed.
Lemma asneed_core : forall s, core_stmt s -> asneed s = sneed s.
Proof.
  induction s; cbn [core_stmt asneed sneed]; intros Hc; try reflexivity.
  - apply aneed_core; exact Hc.
  - destruct Hc. rewrite IHs1, IHs2 by assumption. reflexivity.
  - destruct Hc as [H1 [H2 H3]]. rewrite IHs1, IHs2, (aneed_core _ H1) by assumption. reflexivity.
Qed.

(* ------------------------------------------------------------------ loops: the fragment and its stack budget *)
(* every statement; every expression except dice terms *)
Fixpoint loop_stmt (s : stmt) : Prop :=
  match s with
  | SNop | SBreak | SContinue => True
  | SExpr e => arr_expr e
  | SSeq a b => loop_stmt a /\ loop_stmt b
  | SIf c t e => arr_expr c /\ loop_stmt t /\ loop_stmt e
  | SWhile c b => arr_expr c /\ loop_stmt b
  end.
(* operand-stack slots a statement leaves behind when it completes normally (`while` ends with block.pop: one slot) *)
Fixpoint wleaves (s : stmt) : Z :=
  match s with
  | SExpr _ => 1
  | SSeq a b => wleaves a + wleaves b
  | SIf _ _ _ => 2
  | SWhile _ _ => 1
  | _ => 0
  end.
(* operand-stack slots a statement needs when every execution of a loop makes at most n iterations: each iteration
   leaves the slots of its body behind (finding while-body-stack-leak), they are only released when the loop ends *)
Fixpoint wneed (n : Z) (s : stmt) : Z :=
  match s with
  | SNop => 0
  | SExpr e => aneed e
  | SSeq a b => Z.max (wneed n a) (wleaves a + wneed n b)
  | SIf c t e => Z.max 2 (Z.max (aneed c) (Z.max (wneed n t) (wneed n e)))
  | SWhile c b => n * wleaves b + Z.max 1 (Z.max (aneed c) (wneed n b))
  | SBreak | SContinue => 2
  end.
Fixpoint wbneed (s : stmt) : Z :=
  match s with
  | SSeq a b => Z.max (wbneed a) (wbneed b)
  | SIf _ t e => 1 + Z.max (wbneed t) (wbneed e)
  | SWhile _ b => 1 + wbneed b
  | _ => 0
  end.
Lemma wleaves_nonneg : forall s, 0 <= wleaves s.
Proof. induction s; cbn [wleaves]; lia. Qed.
Lemma wbneed_nonneg : forall s, 0 <= wbneed s.
Proof. induction s; cbn [wbneed]; lia. Qed.
Lemma wneed_nonneg : forall n s, 0 <= n -> 0 <= wneed n s.
Proof.
  intros n s Hn; induction s; cbn [wneed]; try lia.
  - pose proof (aneed_pos e); lia.
  - pose proof (wleaves_nonneg s). nia.
Qed.
Lemma wleaves_le_wneed : forall n s, 0 <= n -> wleaves s <= wneed n s.
Proof.
  intros n s Hn; induction s; cbn [wleaves wneed]; try lia.
  - pose proof (aneed_pos e); lia.
  - pose proof (wleaves_nonneg s). nia.
Qed.
Lemma wleaves_arr : forall s, arr_stmt s -> wleaves s = leaves s.
Proof. induction s; cbn [arr_stmt wleaves leaves]; intros H; try reflexivity; try contradiction. destruct H; rewrite IHs1, IHs2; auto. Qed.
Lemma wneed_arr : forall n s, arr_stmt s -> wneed n s = asneed s.
Proof.
  intros n; induction s; cbn [arr_stmt wneed asneed]; intros H; try reflexivity; try contradiction.
  - destruct H. rewrite IHs1, IHs2, wleaves_arr by assumption. reflexivity.
  - destruct H as [_ [H1 H2]]. rewrite IHs1, IHs2 by assumption. reflexivity.
Qed.
Lemma wbneed_arr : forall s, arr_stmt s -> wbneed s = bneed s.
Proof.
  induction s; cbn [arr_stmt wbneed bneed]; intros H; try reflexivity; try contradiction.
  - destruct H. rewrite IHs1, IHs2 by assumption. reflexivity.
  - destruct H as [_ [H1 H2]]. rewrite IHs1, IHs2 by assumption. reflexivity.
Qed.
Lemma arr_loop_stmt : forall s, arr_stmt s -> loop_stmt s.
Proof.
  induction s; cbn [arr_stmt loop_stmt]; intros H; try exact H; try contradiction; auto.
  - destruct H; split; auto.
  - destruct H as [H0 [H1 H2]]; repeat split; auto.
Qed.

(* the iterations of one execution of `while c { b }` *)
Fixpoint dloop (cfg : config) (fuel : nat) (c : expr) (b : stmt) (n : nat) (env : denv) : sres :=
  match n with
  | O => SFuelR
  | S n' =>
    match dexpr cfg c env with
    | EV vc env1 =>
      if truthy vc then
        match dstmt cfg fuel b env1 with
        | SNorm _ env2 | SCont env2 => dloop cfg fuel c b n' env2
        | SBrk env2 => SNorm (Some DvNull) env2
        | r => r
        end
      else SNorm (Some DvNull) env1
    | EE k env1 => SErrR k env1
    | EU w => SUnsupR w
    end
  end.
Lemma dstmt_while : forall cfg fuel c b env, dstmt cfg fuel (SWhile c b) env = dloop cfg fuel c b fuel env.
Proof.
  intros cfg fuel c b env. cbn [dstmt].
  match goal with |- ?f fuel env = _ => assert (H : forall n e, f n e = dloop cfg fuel c b n e) end.
  { induction n as [|n IH]; intros e; [reflexivity|]. cbn [dloop].
    destruct (dexpr cfg c e) as [v e1|k e1|w]; try reflexivity. destruct (truthy v); [|reflexivity].
    destruct (dstmt cfg fuel b e1); try reflexivity; apply IH. }
  apply H.
Qed.

(* the saved heights of the `if` blocks open inside a loop body: innermost first, non-increasing, none below lo *)
Fixpoint desc (lo : Z) (l : list Z) : Prop :=
  match l with
  | [] => True
  | a :: r => lo <= a /\ match r with [] => True | b :: _ => b <= a end /\ desc lo r
  end.
Lemma desc_last : forall lo a r, desc lo (a :: r) -> last (a :: r) 0 <= a.
Proof.
  intros lo a r; revert a; induction r as [|b r IH]; intros a H; [cbn; lia|].
  destruct H as [_ [Hb Hr]]. change (last (a :: b :: r) 0) with (last (b :: r) 0). pose proof (IH b Hr). lia.
Qed.

(* ------------------------------------------------------------------ the machine *)
Section RunA.
  Variable E : env.
  Hypothesis Hlim : cfg_op_limit (e_cfg E) = 0.
  Variable prog : code.
  Variables (dice : list dstate) (wod : wodstate) (dc : dcstate) (src : option string)
            (pcg0 : pcg) (st0 : list stcall) (attrs : N).

  Notation M := (CompileProofs.M prog dice wod dc src pcg0 st0 attrs).
  Notation steps := (CompileProofs.steps E).
  Notation counted := (CompileProofs.counted E).
  Notation popped := (CompileProofs.popped E).
  Notation code_at := (CompileProofs.code_at prog).

  (* m reaches m' in some number of instructions, whatever fuel (at least K) is left: the fuel left is also the
     recursion fuel of structural equality inside one instruction, and arrays nest *)
  Definition stepsK (m m' : machine) : Prop :=
    exists n K, forall fuel, (K <= fuel)%nat -> exec (n + S fuel) E m = exec (S fuel) E m'.
  Lemma stepsK_refl : forall m, stepsK m m.
  Proof. intros; exists 0%nat, 0%nat; reflexivity. Qed.
  Lemma stepsK_trans : forall a b c, stepsK a b -> stepsK b c -> stepsK a c.
  Proof.
    intros a b c [n1 [K1 H1]] [n2 [K2 H2]]. exists (n1 + n2)%nat, (Nat.max K1 K2). intros fuel Hf.
    replace (n1 + n2 + S fuel)%nat with (n1 + S (n2 + fuel))%nat by lia. rewrite H1 by lia.
    replace (S (n2 + fuel)) with (n2 + S fuel)%nat by lia. apply H2. lia.
  Qed.
  Lemma steps_stepsK : forall a b, steps a b -> stepsK a b.
  Proof. intros a b [n H]. exists n, 0%nat. intros fuel _. apply H. Qed.

  (* m fails with class c (the same final machine whatever fuel is left), leaving variables related to env *)
  Definition failsR (m : machine) (c : eclass) (env : denv) : Prop :=
    exists n K m', (forall fuel, (K <= fuel)%nat -> exec (n + S fuel) E m = Fail c m')
                   /\ erel (w_heap (m_w m')) env (vars_of_m m').
  Lemma stepsK_failsR : forall a b c env, stepsK a b -> failsR b c env -> failsR a c env.
  Proof.
    intros a b c env [n1 [K1 H1]] [n2 [K2 [m' [H2 Hv]]]]. exists (n1 + n2)%nat, (Nat.max K1 K2), m'. split; [|exact Hv].
    intros fuel Hf.
    replace (n1 + n2 + S fuel)%nat with (n1 + S (n2 + fuel))%nat by lia. rewrite H1 by lia.
    replace (S (n2 + fuel)) with (n2 + S fuel)%nat by lia. apply H2. lia.
  Qed.

  Ltac simp_m :=
    cbv beta iota delta [mk fr_set_stack fr_set_pc fr_set_blocks fr_set_details fr_set_err w_set_heap jump];
    cbn [m_fr m_w fr_code fr_pc fr_live fr_dead fr_top
         fr_last fr_blocks fr_fblocks fr_dice fr_wod fr_dc fr_details fr_src fr_err w_heap w_pcg w_st w_chain tl
         v_dead v_last v_details v_ops].
  Ltac exec1 fuel Hpc Hn Htop :=
    rewrite (exec_S E Hlim prog dice wod dc src pcg0 st0 attrs fuel _ _ _ _ _ _ Hpc Hn Htop).
  Ltac one_step Hpc Hn Htop :=
    apply steps_stepsK; exists 1%nat; intros fuel; change (1 + S fuel)%nat with (S (S fuel)); exec1 (S fuel) Hpc Hn Htop.
  Ltac one_stepK K Hpc Hn Htop :=
    exists 1%nat, K; intros fuel Hfuel; change (1 + S fuel)%nat with (S (S fuel)); exec1 (S fuel) Hpc Hn Htop.
  Ltac eq_m := unfold CompileProofs.M; simp_m; rewrite ?zlen_cons; repeat f_equal; try lia.

  Lemma failsR_now : forall pc live blocks h j ins c env K,
    0 <= pc -> nth_error prog (Z.to_nat pc) = Some ins -> zlen live <> stack_size -> erel h env (get_map attrs h) ->
    (exists fr, forall fuel, (K <= fuel)%nat ->
       step (exec fuel E) fuel E ins (M pc live blocks h (counted j))
       = SFail c (mk fr (m_w (M pc live blocks h (counted j))))) ->
    failsR (M pc live blocks h j) c env.
  Proof.
    intros pc live blocks h j ins c env K Hpc Hn Hne Henv [fr Hs]. exists 0%nat, K. eexists. split.
    - intros fuel Hf. change (0 + S fuel)%nat with (S fuel). exec1 fuel Hpc Hn Hne. rewrite (Hs fuel Hf). reflexivity.
    - exact Henv.
  Qed.

  (* ---- variables *)
  Lemma load_arel : forall x h env,
    erel h env (get_map attrs h) -> mem_s x builtin_names = false ->
    exists v, arel h (dlookup x env) v /\
      forall call ops,
        load_name call E x false {| w_heap := h; w_pcg := pcg0; w_st := st0; w_chain := [{| c_attrs := attrs; c_ops := ops |}] |}
        = ROk v {| w_heap := h; w_pcg := pcg0; w_st := st0; w_chain := [{| c_attrs := attrs; c_ops := ops |}] |}.
  Proof.
    intros x h env Henv Hb. pose proof (erel_lookup h env _ x Henv) as G.
    eexists. split; [exact G|]. intros call ops.
    unfold load_name. cbn [w_chain length load_walk nth_error c_attrs w_heap].
    remember (dlookup x env) as a eqn:Ea. clear Ea.
    remember (match mget x (get_map attrs h) with Some v => v | None => VNull end) as v eqn:Ev. clear Ev.
    destruct G; cbn [sync_to sync_back rmapw rbind load_walk]; try reflexivity.
    unfold load_global. rewrite Hb. reflexivity.
  Qed.

  Lemma step_ldd' : forall pc live blocks h j x env,
    erel h env (get_map attrs h) -> mem_s x builtin_names = false ->
    0 <= pc -> nth_error prog (Z.to_nat pc) = Some (I OpLdD (OStr x)) -> zlen live < 999 ->
    exists v j', stepsK (M pc live blocks h j) (M (pc + 1) (v :: live) blocks h j') /\ arel h (dlookup x env) v.
  Proof.
    intros pc live blocks h j x env Henv Hb Hpc Hn Htop.
    assert (Hne : zlen live <> stack_size) by (unfold stack_size; lia).
    destruct (load_arel x h env Henv Hb) as [v [Hv Hl]].
    exists v, {| v_dead := tl (v_dead j); v_last := v_last j;
                 v_details := match v_details j with [] => [(0, 0)] | _ => v_details j end; v_ops := v_ops (counted j) |}.
    split; [|exact Hv].
    one_step Hpc Hn Hne. cbn [step i_op i_arg CompileProofs.M m_fr m_w arg_str].
    rewrite Hl.
    unfold lift, check_err, last_detail. cbn [fr_details v_details CompileProofs.counted].
    destruct (v_details j) eqn:Ed; simp_m; unfold do_push, push; simp_m; rewrite (leb_size live Htop); eq_m.
  Qed.

  (* ---- unary *)
  Lemma step_unary' : forall pc a va live blocks h j o env,
    arel h a va -> erel h env (get_map attrs h) ->
    0 <= pc -> nth_error prog (Z.to_nat pc) = Some (I (un_opcode o) ONil) -> zlen (va :: live) < 1000 ->
    match un_sem o a with
    | BV v => exists vv j', stepsK (M pc (va :: live) blocks h j) (M (pc + 1) (vv :: live) blocks h j') /\ arel h v vv
    | BE c => failsR (M pc (va :: live) blocks h j) c env
    | BU _ => True
    end.
  Proof.
    intros pc a va live blocks h j o env Ha Henv Hpc Hn Htop.
    assert (Hne : zlen (va :: live) <> stack_size) by (unfold stack_size; lia).
    assert (Hl : zlen live < 999) by (rewrite zlen_cons in Htop; lia).
    destruct Ha; cbn [un_sem].
    - eexists _, {| v_dead := v_dead j; v_last := LSlot (zlen live + 1 - 1); v_details := v_details j; v_ops := v_ops (counted j) |}.
      split; [|constructor].
      one_step Hpc Hn Hne. destruct o; cbn [un_opcode step i_op i_arg CompileProofs.M m_fr m_w with_pop pop fr_live];
        simp_m; unfold do_push, push; simp_m; rewrite zlen_cons;
        (replace (stack_size <=? zlen live + 1 - 1) with false by (symmetry; apply Z.leb_gt; unfold stack_size; lia));
        eq_m.
    - eapply (failsR_now _ _ _ _ _ _ _ _ 0%nat Hpc Hn Hne Henv). eexists. intros fuel _.
      destruct o; cbn [un_opcode step i_op i_arg CompileProofs.M m_fr m_w with_pop pop fr_live]; reflexivity.
    - eapply (failsR_now _ _ _ _ _ _ _ _ 0%nat Hpc Hn Hne Henv). eexists. intros fuel _.
      destruct o; cbn [un_opcode step i_op i_arg CompileProofs.M m_fr m_w with_pop pop fr_live]; reflexivity.
    - eapply (failsR_now _ _ _ _ _ _ _ _ 0%nat Hpc Hn Hne Henv). eexists. intros fuel _.
      destruct o; cbn [un_opcode step i_op i_arg CompileProofs.M m_fr m_w with_pop pop fr_live]; reflexivity.
  Qed.

  (* ---- binary operators *)
  Lemma step_binop' : forall pc a b va vb live blocks h j o env,
    arel h a va -> arel h b vb -> erel h env (get_map attrs h) -> o <> BAnd ->
    0 <= pc -> nth_error prog (Z.to_nat pc) = Some (I (bin_opcode o) ONil) -> zlen (vb :: va :: live) < 1000 ->
    match bin_sem (e_cfg E) o a b with
    | BV v => exists vv h' j', stepsK (M pc (vb :: va :: live) blocks h j) (M (pc + 1) (vv :: live) blocks h' j')
                               /\ arel h' v vv /\ heap_le h h' /\ get_map attrs h' = get_map attrs h
    | BE c => failsR (M pc (vb :: va :: live) blocks h j) c env
    | BU _ => True
    end.
  Proof.
    intros pc a b va vb live blocks h j o env Ha Hb Henv Ho Hpc Hn Htop.
    assert (Hne : zlen (vb :: va :: live) <> stack_size) by (unfold stack_size; lia).
    assert (Hl : zlen live < 998) by (rewrite !zlen_cons in Htop; lia).
    set (W := fun ops => {| w_heap := h; w_pcg := pcg0; w_st := st0; w_chain := [{| c_attrs := attrs; c_ops := ops |}] |}).
    assert (Hind : forall r ops, (dv_depth a <= r)%nat ->
              bin_op (S r) E (bin_opcode o) va vb (W ops) = bin_op (S (dv_depth a)) E (bin_opcode o) va vb (W ops)).
    { intros r ops Hr. apply (bin_op_fuel_indep E r (dv_depth a) o a b va vb (W ops)); auto. }
    pose proof (bin_op_arel E (dv_depth a) o a b va vb (W (v_ops (counted j))) Ha Hb Ho (Nat.le_refl _)) as X.
    destruct (bin_sem (e_cfg E) o a b) as [v|c|why]; [| |exact Logic.I].
    - destruct X as [vv [h' [Hr [Hle [Hv Hmaps]]]]].
      exists vv, h', {| v_dead := vb :: v_dead j; v_last := LSlot (zlen live + 1 + 1 - 1 - 1); v_details := v_details j; v_ops := v_ops (counted j) |}.
      split; [|split; [exact Hv|split; [exact Hle|apply Hmaps]]].
      one_stepK (dv_depth a) Hpc Hn Hne. rewrite (step_bin_shape _ _ _ o _ Ho).
      cbn [CompileProofs.M m_fr m_w with_pop2 with_pop pop fr_live]. simp_m. cbn [with_pop pop fr_live]. simp_m.
      fold (W (v_ops (counted j))). rewrite (Hind _ _ Hfuel), Hr. unfold lift, check_err. simp_m. unfold do_push, push. simp_m.
      rewrite !zlen_cons.
      (replace (stack_size <=? zlen live + 1 + 1 - 1 - 1) with false by (symmetry; apply Z.leb_gt; unfold stack_size; lia)).
      unfold W. eq_m.
    - eapply (failsR_now _ _ _ _ _ _ _ _ (S (dv_depth a)) Hpc Hn Hne Henv). eexists. intros fuel Hfuel.
      destruct fuel as [|fuel]; [lia|].
      rewrite (step_bin_shape _ _ _ o _ Ho).
      cbn [CompileProofs.M m_fr m_w with_pop2 with_pop pop fr_live]. simp_m. cbn [with_pop pop fr_live]. simp_m.
      fold (W (v_ops (counted j))). rewrite (Hind fuel _ ltac:(lia)), X. destruct c; reflexivity.
  Qed.

  Lemma step_and' : forall pc va vb live blocks h j,
    0 <= pc -> nth_error prog (Z.to_nat pc) = Some (I OpAnd ONil) -> zlen (vb :: va :: live) < 1000 ->
    exists j', stepsK (M pc (vb :: va :: live) blocks h j)
                      (M (pc + 1) ((if as_bool (e_fn E) h va then vb else va) :: live) blocks h j').
  Proof.
    intros pc va vb live blocks h j Hpc Hn Htop.
    assert (Hne : zlen (vb :: va :: live) <> stack_size) by (unfold stack_size; lia).
    assert (Hl : zlen live < 998) by (rewrite !zlen_cons in Htop; lia).
    exists {| v_dead := vb :: v_dead j; v_last := LSlot (zlen live + 1 + 1 - 1 - 1); v_details := v_details j; v_ops := v_ops (counted j) |}.
    one_step Hpc Hn Hne.
    cbn [step i_op i_arg CompileProofs.M m_fr m_w with_pop2 with_pop pop fr_live]. simp_m. cbn [with_pop pop fr_live]. simp_m.
    unfold do_push, push. simp_m. rewrite !zlen_cons.
    (replace (stack_size <=? zlen live + 1 + 1 - 1 - 1) with false by (symmetry; apply Z.leb_gt; unfold stack_size; lia)).
    destruct (as_bool (e_fn E) h va); eq_m.
  Qed.

  (* ---- jumps on any value *)
  Lemma step_jne' : forall pc v live blocks h j off,
    0 <= pc -> nth_error prog (Z.to_nat pc) = Some (I OpJne (OInt off)) -> zlen (v :: live) < 1000 ->
    stepsK (M pc (v :: live) blocks h j)
           (M (if as_bool (e_fn E) h v then pc + 1 else pc + off + 1) live blocks h (popped v (zlen live) j)).
  Proof.
    intros pc v live blocks h j off Hpc Hn Htop.
    assert (Hne : zlen (v :: live) <> stack_size) by (unfold stack_size; lia).
    one_step Hpc Hn Hne.
    cbn [step i_op i_arg CompileProofs.M m_fr m_w with_pop pop fr_live arg_int]. simp_m.
    unfold CompileProofs.popped. destruct (as_bool (e_fn E) h v); eq_m.
  Qed.

  Lemma step_jedup_true' : forall pc v live blocks h j off,
    as_bool (e_fn E) h v = true ->
    0 <= pc -> nth_error prog (Z.to_nat pc) = Some (I OpJeDup (OInt off)) -> zlen (v :: live) < 1000 ->
    exists j', stepsK (M pc (v :: live) blocks h j) (M (pc + off + 1) (v :: live) blocks h j').
  Proof.
    intros pc v live blocks h j off Ht Hpc Hn Htop.
    assert (Hne : zlen (v :: live) <> stack_size) by (unfold stack_size; lia).
    assert (Hl : zlen live < 999) by (rewrite !zlen_cons in Htop; lia).
    exists {| v_dead := v_dead j; v_last := LSlot (zlen live + 1 - 1); v_details := v_details j; v_ops := v_ops (counted j) |}.
    one_step Hpc Hn Hne.
    cbn [step i_op i_arg CompileProofs.M m_fr m_w with_pop pop fr_live arg_int]. simp_m.
    rewrite Ht. unfold do_push, push. simp_m. rewrite !zlen_cons.
    (replace (stack_size <=? zlen live + 1 - 1) with false by (symmetry; apply Z.leb_gt; unfold stack_size; lia)).
    eq_m.
  Qed.

  Lemma step_jedup_false' : forall pc v live blocks h j off,
    as_bool (e_fn E) h v = false ->
    0 <= pc -> nth_error prog (Z.to_nat pc) = Some (I OpJeDup (OInt off)) -> zlen (v :: live) < 1000 ->
    stepsK (M pc (v :: live) blocks h j) (M (pc + 1) live blocks h (popped v (zlen live) j)).
  Proof.
    intros pc v live blocks h j off Ht Hpc Hn Htop.
    assert (Hne : zlen (v :: live) <> stack_size) by (unfold stack_size; lia).
    one_step Hpc Hn Hne.
    cbn [step i_op i_arg CompileProofs.M m_fr m_w with_pop pop fr_live arg_int]. simp_m.
    rewrite Ht. unfold CompileProofs.popped. eq_m.
  Qed.

  (* ---- e[i] *)
  Lemma step_itemget : forall pc a i va vi live blocks h j env,
    arel h a va -> arel h i vi -> erel h env (get_map attrs h) ->
    0 <= pc -> nth_error prog (Z.to_nat pc) = Some (I OpItemGet ONil) -> zlen (vi :: va :: live) < 1000 ->
    match index_sem a i with
    | BV v => exists vv j', stepsK (M pc (vi :: va :: live) blocks h j) (M (pc + 1) (vv :: live) blocks h j') /\ arel h v vv
    | BE c => failsR (M pc (vi :: va :: live) blocks h j) c env
    | BU _ => True
    end.
  Proof.
    intros pc a i va vi live blocks h j env Ha Hi Henv Hpc Hn Htop.
    assert (Hne : zlen (vi :: va :: live) <> stack_size) by (unfold stack_size; lia).
    assert (Hl : zlen live < 998) by (rewrite !zlen_cons in Htop; lia).
    set (W := fun ops => {| w_heap := h; w_pcg := pcg0; w_st := st0; w_chain := [{| c_attrs := attrs; c_ops := ops |}] |}).
    pose proof (item_get_arel a i va vi (W (v_ops (counted j))) Ha Hi) as X.
    destruct (index_sem a i) as [v|c|why]; [| |exact Logic.I].
    - destruct X as [vv [Hr Hv]].
      exists vv, {| v_dead := vi :: v_dead j; v_last := LSlot (zlen live + 1 + 1 - 1 - 1); v_details := v_details j; v_ops := v_ops (counted j) |}.
      split; [|exact Hv].
      one_step Hpc Hn Hne.
      cbn [step i_op i_arg CompileProofs.M m_fr m_w with_pop2 with_pop pop fr_live]. simp_m. cbn [with_pop pop fr_live]. simp_m.
      fold (W (v_ops (counted j))). rewrite Hr. unfold lift, check_err. simp_m. unfold do_push, push. simp_m.
      rewrite !zlen_cons.
      (replace (stack_size <=? zlen live + 1 + 1 - 1 - 1) with false by (symmetry; apply Z.leb_gt; unfold stack_size; lia)).
      unfold W. eq_m.
    - eapply (failsR_now _ _ _ _ _ _ _ _ 0%nat Hpc Hn Hne Henv). eexists. intros fuel _.
      cbn [step i_op i_arg CompileProofs.M m_fr m_w with_pop2 with_pop pop fr_live]. simp_m. cbn [with_pop pop fr_live]. simp_m.
      fold (W (v_ops (counted j))). rewrite X. reflexivity.
  Qed.

  (* ---- [e1, .., en] *)
  Lemma pop_n_aux_M : forall a pc live blocks h j acc,
    exists j', pop_n_aux (length a) (m_fr (M pc (a ++ live) blocks h j)) acc = (rev a ++ acc, m_fr (M pc live blocks h j'))
               /\ v_details j' = v_details j /\ v_ops j' = v_ops j.
  Proof.
    induction a as [|x a IH]; intros pc live blocks h j acc.
    - exists j. repeat split; reflexivity.
    - cbn [length pop_n_aux app].
      set (j1 := {| v_dead := x :: v_dead j; v_last := LSlot (zlen (x :: a ++ live) - 1); v_details := v_details j; v_ops := v_ops j |}).
      assert (Hp : pop (m_fr (M pc (x :: a ++ live) blocks h j)) = (x, m_fr (M pc (a ++ live) blocks h j1))).
      { unfold pop. cbn [CompileProofs.M m_fr fr_live]. simp_m. f_equal. unfold j1. simp_m. rewrite zlen_cons. f_equal; lia. }
      rewrite Hp. destruct (IH pc live blocks h j1 (x :: acc)) as [j' [H1 [H2 H3]]].
      exists j'. rewrite H1. cbn [rev]. rewrite <- app_assoc. repeat split; assumption.
  Qed.

  Lemma step_pusharr : forall pc vs live blocks h j,
    0 <= pc -> nth_error prog (Z.to_nat pc) = Some (I OpPushArr (OInt (zlen vs))) -> zlen (vs ++ live) < 1000 ->
    exists j', stepsK (M pc (vs ++ live) blocks h j) (M (pc + 1) (VArr (h_next h) :: live) blocks (snd (alloc_arr (rev vs) h)) j').
  Proof.
    intros pc vs live blocks h j Hpc Hn Htop.
    assert (Hne : zlen (vs ++ live) <> stack_size) by (unfold stack_size; lia).
    assert (Hl : zlen live < 1000) by (rewrite zlen_app in Htop; pose proof (zlen_nonneg _ vs); lia).
    assert (Hls : (stack_size <=? zlen live) = false) by (apply Z.leb_gt; unfold stack_size; lia).
    destruct vs as [|x vs'] eqn:Evs.
    - exists {| v_dead := tl (v_dead j); v_last := v_last j; v_details := v_details j; v_ops := v_ops (counted j) |}.
      one_step Hpc Hn Hne. cbn [step i_op i_arg CompileProofs.M m_fr m_w arg_int app]. unfold with_pop_n, pop_n.
      change (zlen (@nil value) <=? 0) with true. cbv iota beta. unfold alloc_arr. simp_m. unfold do_push, push. simp_m.
      rewrite Hls. cbn [rev snd]. eq_m.
    - rewrite <- Evs in *.
      destruct (pop_n_aux_M vs pc live blocks h (counted j) []) as [j1 [Hp [Hd Ho]]].
      exists {| v_dead := tl (v_dead j1); v_last := match rev vs ++ [] with v :: _ => LVal v | [] => v_last j1 end;
                v_details := v_details j1; v_ops := v_ops j1 |}.
      one_step Hpc Hn Hne. cbn [step i_op i_arg arg_int]. unfold with_pop_n, pop_n.
      assert (Hz : (zlen vs <=? 0) = false) by (apply Z.leb_gt; rewrite Evs, zlen_cons; pose proof (zlen_nonneg _ vs'); lia).
      rewrite Hz. replace (Z.to_nat (zlen vs)) with (length vs) by (unfold zlen; lia).
      rewrite Hp. cbv iota beta. unfold alloc_arr. cbn [CompileProofs.M m_fr m_w]. simp_m. unfold do_push, push. simp_m.
      rewrite Hls. cbn [snd]. rewrite app_nil_r. unfold CompileProofs.M. simp_m. rewrite ?zlen_cons. rewrite Ho. reflexivity.
  Qed.

  Lemma step_binop_all' : forall pc a b va vb live blocks h j o env,
    arel h a va -> arel h b vb -> erel h env (get_map attrs h) ->
    0 <= pc -> nth_error prog (Z.to_nat pc) = Some (I (bin_opcode o) ONil) -> zlen (vb :: va :: live) < 1000 ->
    match bin_sem (e_cfg E) o a b with
    | BV v => exists vv h' j', stepsK (M pc (vb :: va :: live) blocks h j) (M (pc + 1) (vv :: live) blocks h' j')
                               /\ arel h' v vv /\ heap_le h h' /\ get_map attrs h' = get_map attrs h
    | BE c => failsR (M pc (vb :: va :: live) blocks h j) c env
    | BU _ => True
    end.
  Proof.
    intros pc a b va vb live blocks h j o env Ha Hb Henv Hpc Hn Htop.
    destruct o; try (apply step_binop'; try assumption; discriminate).
    cbn [bin_sem]. destruct (step_and' pc va vb live blocks h j Hpc Hn Htop) as [j' Hj].
    rewrite (arel_truthy _ _ _ _ Ha) in Hj.
    exists (if truthy a then vb else va), h, j'. split; [exact Hj|].
    split; [destruct (truthy a); assumption|]. split; [apply heap_le_refl|reflexivity].
  Qed.

  (* ---- expressions *)
  Ltac splits := repeat match goal with |- _ /\ _ => split end.
  Ltac pcfix := repeat rewrite ?zlen_app, ?zlen_cons, ?zlen_nil; lia.
  Notation old L := (L E Hlim prog dice wod dc src pcg0 st0 attrs) (only parsing).

  Definition expr_post' (e : expr) (env : denv) (pc : Z) (live : list value) (blocks : list Z) (h : heap) (j : vol) : Prop :=
    match dexpr (e_cfg E) e env with
    | EV v env' => exists vv h' j', stepsK (M pc live blocks h j) (M (pc + zlen (compile_expr e)) (vv :: live) blocks h' j')
                                    /\ arel h' v vv /\ erel h' env' (get_map attrs h') /\ heap_le h h'
    | EE c env' => failsR (M pc live blocks h j) c env'
    | EU _ => True
    end.
  Definition expr_ok (e : expr) : Prop :=
    arr_expr e -> forall env pc live blocks h j,
      code_at pc (compile_expr e) -> erel h env (get_map attrs h) -> zlen live + aneed e <= 999 ->
      expr_post' e env pc live blocks h j.

  Lemma lit_correct : forall e ins v dvv, compile_expr e = [ins] -> aneed e = 1 ->
    (forall env, dexpr (e_cfg E) e env = EV dvv env) ->
    (forall call f m, step call f E ins m = do_push v (m_fr m) (m_w m)) -> (forall h, arel h dvv v) -> expr_ok e.
  Proof.
    intros e ins v dvv Hc Hnd Hd Hs Hv _ env pc live blocks h j Hat Henv Hneed. unfold expr_post'.
    rewrite Hd, Hc in *. destruct (code_at_head _ _ _ _ Hat) as [Hpc Hn].
    destruct ((old step_push) pc live blocks h j ins v Hs Hpc Hn) as [j' Hj]; [lia|].
    exists v, h, j'. rewrite zlen_cons, zlen_nil. splits; auto using heap_le_refl. apply steps_stepsK; exact Hj.
  Qed.

  Lemma items_correct : forall l, Forall expr_ok l -> arr_items l ->
    forall env pc live blocks h j acc vacc,
      code_at pc (citems l) -> erel h env (get_map attrs h) -> Forall2 (arel h) acc vacc ->
      zlen (vacc ++ live) + need_items l <= 999 ->
      match ditems (e_cfg E) l env acc with
      | EV v env' => exists acc' vacc' h' j', v = DvArr (rev acc') /\
            stepsK (M pc (vacc ++ live) blocks h j) (M (pc + zlen (citems l)) (vacc' ++ live) blocks h' j')
            /\ Forall2 (arel h') acc' vacc' /\ erel h' env' (get_map attrs h') /\ heap_le h h'
            /\ zlen vacc' = zlen vacc + zlen l
      | EE c env' => failsR (M pc (vacc ++ live) blocks h j) c env'
      | EU _ => True
      end.
  Proof.
    intros l HF. induction HF as [|x r Hx Hr IH]; intros Hok env pc live blocks h j acc vacc Hat Henv Hacc Hneed;
      cbn [ditems citems need_items arr_items] in *.
    - exists acc, vacc, h, j. rewrite zlen_nil, !Z.add_0_r. splits; auto using heap_le_refl, stepsK_refl.
    - destruct Hok as [Hokx Hokr].
      pose proof (Hx Hokx env pc (vacc ++ live) blocks h j (code_at_app_l _ _ _ _ Hat) Henv ltac:(lia)) as X. unfold expr_post' in X.
      destruct (dexpr (e_cfg E) x env) as [v env1|c env1|w]; [|exact X|exact Logic.I].
      destruct X as [vv [h1 [j1 [Hst [Hv [Henv1 Hle]]]]]].
      pose proof (IH Hokr env1 (pc + zlen (compile_expr x)) live blocks h1 j1 (v :: acc) (vv :: vacc)
                     (code_at_app_r _ _ _ _ Hat) Henv1) as Y.
      assert (Hacc1 : Forall2 (arel h1) (v :: acc) (vv :: vacc)).
      { constructor; [exact Hv|eapply Forall2_arel_mono; eassumption]. }
      specialize (Y Hacc1). cbn [app] in Y. rewrite zlen_cons in Y. specialize (Y ltac:(lia)).
      destruct (ditems (e_cfg E) r env1 (v :: acc)) as [v2 env2|c env2|w]; [|eapply stepsK_failsR; eassumption|exact Logic.I].
      destruct Y as [acc' [vacc' [h2 [j2 [Hv2 [Hst2 [Hacc2 [Henv2 [Hle2 Hlen]]]]]]]]].
      exists acc', vacc', h2, j2. splits; auto.
      + replace (pc + zlen (compile_expr x ++ citems r)) with (pc + zlen (compile_expr x) + zlen (citems r)) by pcfix.
        eapply stepsK_trans; eassumption.
      + eapply heap_le_trans; eassumption.
      + rewrite Hlen, !zlen_cons. lia.
  Qed.

  Lemma expr_correct' : forall e, expr_ok e.
  Proof.
    induction e using expr_ind'; try (eapply lit_correct; try reflexivity; intros; constructor; fail);
      unfold expr_ok; intros Hcore env pc live blocks h j Hat Henv Hneed; unfold expr_post'; cbn [arr_expr] in Hcore; try contradiction.
    - (* EVar *)
      cbn [dexpr compile_expr aneed] in *. destruct (code_at_head _ _ _ _ Hat) as [Hpc Hn].
      destruct (code_at_head _ _ _ _ (code_at_tail _ _ _ _ Hat)) as [Hpc2 Hn2].
      destruct ((old step_mark) pc live blocks h j 0 0 Hpc Hn) as [j1 [Hj1 _]]; [lia|].
      destruct (step_ldd' (pc + 1) live blocks h j1 x env Henv Hcore Hpc2 Hn2) as [v [j2 [Hj2 Hv]]]; [lia|].
      exists v, h, j2. splits; auto using heap_le_refl.
      replace (pc + zlen [I OpMarkDetail (OSpan 0 0); I OpLdD (OStr x)]) with (pc + 1 + 1) by pcfix.
      eapply stepsK_trans; [apply steps_stepsK|]; eassumption.
    - (* EAssign *)
      cbn [dexpr compile_expr aneed] in *.
      pose proof (IHe Hcore env pc live blocks h j (code_at_app_l _ _ _ _ Hat) Henv Hneed) as IH. unfold expr_post' in IH.
      destruct (dexpr (e_cfg E) e env) as [v env1|c env1|w]; [|exact IH|exact Logic.I].
      destruct IH as [vv [h1 [j1 [Hst [Hv [Henv1 Hle]]]]]].
      destruct (code_at_head _ _ _ _ (code_at_app_r _ _ _ _ Hat)) as [Hpc Hn].
      destruct ((old step_store) (pc + zlen (compile_expr e)) vv live blocks h1 j1 x Hpc Hn) as [j2 Hj2].
      { rewrite zlen_cons. pose proof (aneed_pos e). lia. }
      set (h2 := set_map attrs (mset x vv (get_map attrs h1)) h1) in *.
      assert (Hle2 : heap_le h1 h2) by apply heap_le_set_map.
      exists vv, h2, j2. splits.
      + replace (pc + zlen (compile_expr e ++ [I OpStore (OStr x)])) with (pc + zlen (compile_expr e) + 1) by pcfix.
        eapply stepsK_trans; [|apply steps_stepsK]; eassumption.
      + eapply arel_mono; eassumption.
      + unfold h2 at 2. rewrite get_map_set_map. eapply erel_mono; [exact Hle2|]. apply erel_set; assumption.
      + eapply heap_le_trans; eassumption.
    - (* EUn *)
      cbn [dexpr compile_expr aneed] in *.
      pose proof (IHe Hcore env pc live blocks h j (code_at_app_l _ _ _ _ Hat) Henv Hneed) as IH. unfold expr_post' in IH.
      destruct (dexpr (e_cfg E) e env) as [v env1|c env1|w]; [|exact IH|exact Logic.I].
      destruct IH as [vv [h1 [j1 [Hst [Hv [Henv1 Hle]]]]]].
      destruct (code_at_head _ _ _ _ (code_at_app_r _ _ _ _ Hat)) as [Hpc Hn].
      pose proof (step_unary' (pc + zlen (compile_expr e)) v vv live blocks h1 j1 o env1 Hv Henv1 Hpc Hn) as Hu.
      assert (Hb : zlen (vv :: live) < 1000) by (rewrite zlen_cons; pose proof (aneed_pos e); lia).
      specialize (Hu Hb). destruct (un_sem o v) as [r|c|w]; cbn [lift_b].
      + destruct Hu as [rv [j2 [Hj2 Hr]]]. exists rv, h1, j2. splits; auto.
        replace (pc + zlen (compile_expr e ++ [I (un_opcode o) ONil])) with (pc + zlen (compile_expr e) + 1) by pcfix.
        eapply stepsK_trans; eassumption.
      + eapply stepsK_failsR; eassumption.
      + exact Logic.I.
    - (* EBin *)
      cbn [dexpr compile_expr aneed] in *. destruct Hcore as [Hc1 Hc2].
      pose proof (IHe1 Hc1 env pc live blocks h j (code_at_app_l _ _ _ _ Hat) Henv ltac:(lia)) as IH1. unfold expr_post' in IH1.
      destruct (dexpr (e_cfg E) e1 env) as [a env1|c env1|w]; [|exact IH1|exact Logic.I].
      destruct IH1 as [va [h1 [j1 [Hst1 [Ha [Henv1 Hle1]]]]]].
      pose proof (code_at_app_r _ _ _ _ Hat) as Hat2.
      pose proof (IHe2 Hc2 env1 (pc + zlen (compile_expr e1)) (va :: live) blocks h1 j1 (code_at_app_l _ _ _ _ Hat2) Henv1) as IH2.
      assert (Hn2 : zlen (va :: live) + aneed e2 <= 999) by (rewrite zlen_cons; lia).
      specialize (IH2 Hn2). unfold expr_post' in IH2.
      destruct (dexpr (e_cfg E) e2 env1) as [b env2|c env2|w]; [|eapply stepsK_failsR; eassumption|exact Logic.I].
      destruct IH2 as [vb [h2 [j2 [Hst2 [Hb [Henv2 Hle2]]]]]].
      destruct (code_at_head _ _ _ _ (code_at_app_r _ _ _ _ Hat2)) as [Hpc Hn].
      pose proof (step_binop_all' (pc + zlen (compile_expr e1) + zlen (compile_expr e2)) a b va vb live blocks h2 j2 o env2
                                  (arel_mono _ _ _ _ Hle2 Ha) Hb Henv2 Hpc Hn) as Hop.
      assert (Hb3 : zlen (vb :: va :: live) < 1000) by (rewrite !zlen_cons; pose proof (aneed_pos e2); lia).
      specialize (Hop Hb3). destruct (bin_sem (e_cfg E) o a b) as [r|c|w]; cbn [lift_b].
      + destruct Hop as [rv [h3 [j3 [Hj3 [Hr [Hle3 Hmaps]]]]]]. exists rv, h3, j3. splits; auto.
        * replace (pc + zlen (compile_expr e1 ++ compile_expr e2 ++ [I (bin_opcode o) ONil]))
            with (pc + zlen (compile_expr e1) + zlen (compile_expr e2) + 1) by pcfix.
          eapply stepsK_trans; [exact Hst1|]. eapply stepsK_trans; eassumption.
        * rewrite Hmaps. eapply erel_mono; eassumption.
        * eapply heap_le_trans; [exact Hle1|]. eapply heap_le_trans; eassumption.
      + eapply stepsK_failsR; [exact Hst1|]. eapply stepsK_failsR; eassumption.
      + exact Logic.I.
    - (* EOr *)
      cbn [dexpr compile_expr aneed] in *. destruct Hcore as [Hc1 Hc2].
      set (cl := compile_expr e1) in *. set (cr := compile_expr e2) in *.
      pose proof (IHe1 Hc1 env pc live blocks h j (code_at_app_l _ _ _ _ Hat) Henv ltac:(lia)) as IH1. unfold expr_post' in IH1.
      destruct (dexpr (e_cfg E) e1 env) as [a env1|c env1|w]; [|exact IH1|exact Logic.I].
      destruct IH1 as [va [h1 [j1 [Hst1 [Ha [Henv1 Hle1]]]]]]. fold cl in Hst1.
      pose proof (code_at_app_r _ _ _ _ Hat) as Hat2. cbn [app] in Hat2.
      destruct (code_at_head _ _ _ _ Hat2) as [Hpc1 Hn1].
      pose proof (code_at_tail _ _ _ _ Hat2) as Hat3.
      assert (Hb1 : zlen (va :: live) < 1000) by (rewrite zlen_cons; pose proof (aneed_pos e1); lia).
      assert (Hend : pc + zlen (cl ++ I OpJeDup (OInt (zlen cr + 2)) :: cr ++ [I OpJeDup (OInt 1); I OpPushLast ONil])
                     = pc + zlen cl + zlen cr + 3) by pcfix.
      cbn [app]. rewrite Hend.
      pose proof (arel_truthy (e_fn E) _ _ _ Ha) as Tva.
      destruct (truthy a) eqn:Ta.
      + destruct (step_jedup_true' (pc + zlen cl) va live blocks h1 j1 _ Tva Hpc1 Hn1 Hb1) as [j2 Hj2].
        exists va, h1, j2. splits; auto.
        replace (pc + zlen cl + zlen cr + 3) with (pc + zlen cl + (zlen cr + 2) + 1) by lia.
        eapply stepsK_trans; eassumption.
      + pose proof (step_jedup_false' (pc + zlen cl) va live blocks h1 j1 _ Tva Hpc1 Hn1 Hb1) as Hj2.
        pose proof (IHe2 Hc2 env1 (pc + zlen cl + 1) live blocks h1 (popped va (zlen live) j1)
                         (code_at_app_l _ _ _ _ Hat3) Henv1 ltac:(lia)) as IH2. unfold expr_post' in IH2.
        destruct (dexpr (e_cfg E) e2 env1) as [b env2|c env2|w];
          [|eapply stepsK_failsR; [exact Hst1|]; eapply stepsK_failsR; eassumption|exact Logic.I].
        destruct IH2 as [vb [h2 [j2 [Hst2 [Hb [Henv2 Hle2]]]]]]. fold cr in Hst2.
        pose proof (code_at_app_r _ _ _ _ Hat3) as Hat4.
        destruct (code_at_head _ _ _ _ Hat4) as [Hpc2 Hn2].
        destruct (code_at_head _ _ _ _ (code_at_tail _ _ _ _ Hat4)) as [Hpc3 Hn3].
        assert (Hb2 : zlen (vb :: live) < 1000) by (rewrite zlen_cons; pose proof (aneed_pos e2); lia).
        assert (Hpre : stepsK (M pc live blocks h j) (M (pc + zlen cl + 1 + zlen cr) (vb :: live) blocks h2 j2)).
        { eapply stepsK_trans; [exact Hst1|]. eapply stepsK_trans; eassumption. }
        assert (Hle : heap_le h h2) by (eapply heap_le_trans; eassumption).
        pose proof (arel_truthy (e_fn E) _ _ _ Hb) as Tvb.
        destruct (truthy b) eqn:Tb.
        * destruct (step_jedup_true' (pc + zlen cl + 1 + zlen cr) vb live blocks h2 j2 _ Tvb Hpc2 Hn2 Hb2) as [j3 Hj3].
          exists vb, h2, j3. splits; auto.
          replace (pc + zlen cl + zlen cr + 3) with (pc + zlen cl + 1 + zlen cr + 1 + 1) by lia.
          eapply stepsK_trans; eassumption.
        * pose proof (step_jedup_false' (pc + zlen cl + 1 + zlen cr) vb live blocks h2 j2 _ Tvb Hpc2 Hn2 Hb2) as Hj3.
          destruct ((old step_pushlast) (pc + zlen cl + 1 + zlen cr + 1) vb live blocks h2 j2 Hpc3 Hn3) as [j4 Hj4].
          { pose proof (aneed_pos e2); lia. }
          exists vb, h2, j4. splits; auto.
          replace (pc + zlen cl + zlen cr + 3) with (pc + zlen cl + 1 + zlen cr + 1 + 1) by lia.
          eapply stepsK_trans; [exact Hpre|]. eapply stepsK_trans; [|apply steps_stepsK]; eassumption.
    - (* ETern *)
      cbn [dexpr compile_expr aneed] in *. destruct Hcore as [Hc1 [Hc2 Hc3]].
      set (cc := compile_expr e1) in *. set (ca := compile_expr e2) in *. set (cb := compile_expr e3) in *.
      pose proof (IHe1 Hc1 env pc live blocks h j (code_at_app_l _ _ _ _ Hat) Henv ltac:(lia)) as IH1. unfold expr_post' in IH1.
      destruct (dexpr (e_cfg E) e1 env) as [vc env1|c env1|w]; [|exact IH1|exact Logic.I].
      destruct IH1 as [vvc [h1 [j1 [Hst1 [Hvc [Henv1 Hle1]]]]]]. fold cc in Hst1.
      pose proof (code_at_app_r _ _ _ _ Hat) as Hat2. cbn [app] in Hat2.
      destruct (code_at_head _ _ _ _ Hat2) as [Hpc1 Hn1].
      pose proof (code_at_tail _ _ _ _ Hat2) as Hat3.
      assert (Hb1 : zlen (vvc :: live) < 1000) by (rewrite zlen_cons; pose proof (aneed_pos e1); lia).
      pose proof (step_jne' (pc + zlen cc) vvc live blocks h1 j1 _ Hpc1 Hn1 Hb1) as Hj.
      rewrite (arel_truthy (e_fn E) _ _ _ Hvc) in Hj.
      assert (Hend : pc + zlen (cc ++ I OpJne (OInt (zlen ca + 1)) :: ca ++ I OpJmp (OInt (zlen cb)) :: cb)
                     = pc + zlen cc + 1 + zlen ca + 1 + zlen cb) by pcfix.
      cbn [app]. rewrite Hend.
      destruct (truthy vc) eqn:Tc.
      + pose proof (IHe2 Hc2 env1 (pc + zlen cc + 1) live blocks h1 (popped vvc (zlen live) j1)
                         (code_at_app_l _ _ _ _ Hat3) Henv1 ltac:(lia)) as IH2. unfold expr_post' in IH2.
        destruct (dexpr (e_cfg E) e2 env1) as [va env2|c env2|w];
          [|eapply stepsK_failsR; [exact Hst1|]; eapply stepsK_failsR; eassumption|exact Logic.I].
        destruct IH2 as [vva [h2 [j2 [Hst2 [Hva [Henv2 Hle2]]]]]]. fold ca in Hst2.
        destruct (code_at_head _ _ _ _ (code_at_app_r _ _ _ _ Hat3)) as [Hpc2 Hn2].
        assert (Hb2 : zlen (vva :: live) < 1000) by (rewrite zlen_cons; pose proof (aneed_pos e2); lia).
        pose proof ((old step_jmp) (pc + zlen cc + 1 + zlen ca) (vva :: live) blocks h2 j2 _ Hpc2 Hn2 Hb2) as Hj2.
        exists vva, h2, (counted j2). splits; auto.
        * replace (pc + zlen cc + 1 + zlen ca + 1 + zlen cb) with (pc + zlen cc + 1 + zlen ca + zlen cb + 1) by lia.
          eapply stepsK_trans; [exact Hst1|]. eapply stepsK_trans; [exact Hj|]. eapply stepsK_trans; [|apply steps_stepsK]; eassumption.
        * eapply heap_le_trans; eassumption.
      + pose proof (code_at_tail _ _ _ _ (code_at_app_r _ _ _ _ Hat3)) as Hat4.
        pose proof (IHe3 Hc3 env1 (pc + zlen cc + 1 + zlen ca + 1) live blocks h1 (popped vvc (zlen live) j1)
                         Hat4 Henv1 ltac:(lia)) as IH3. unfold expr_post' in IH3.
        replace (pc + zlen cc + (zlen ca + 1) + 1) with (pc + zlen cc + 1 + zlen ca + 1) in Hj by lia.
        destruct (dexpr (e_cfg E) e3 env1) as [vb env2|c env2|w];
          [|eapply stepsK_failsR; [exact Hst1|]; eapply stepsK_failsR; eassumption|exact Logic.I].
        destruct IH3 as [vvb [h2 [j2 [Hst2 [Hvb [Henv2 Hle2]]]]]]. fold cb in Hst2.
        exists vvb, h2, j2. splits; auto.
        * eapply stepsK_trans; [exact Hst1|]. eapply stepsK_trans; eassumption.
        * eapply heap_le_trans; eassumption.
    - (* EArr *)
      change (arr_items l) in Hcore. rewrite dexpr_arr. rewrite compile_arr in *. rewrite aneed_arr in Hneed.
      pose proof (items_correct l H Hcore env pc live blocks h j [] [] (code_at_app_l _ _ _ _ Hat) Henv (Forall2_nil _)) as X.
      cbn [app] in X. specialize (X ltac:(lia)).
      destruct (ditems (e_cfg E) l env []) as [v env1|c env1|w]; [|exact X|exact Logic.I].
      destruct X as [acc' [vacc' [h1 [j1 [Hv [Hst [Hacc [Henv1 [Hle Hlen]]]]]]]]].
      rewrite zlen_nil, Z.add_0_l in Hlen.
      destruct (code_at_head _ _ _ _ (code_at_app_r _ _ _ _ Hat)) as [Hpc Hn]. rewrite <- Hlen in Hn.
      pose proof (need_items_len l) as Hnl.
      destruct (step_pusharr (pc + zlen (citems l)) vacc' live blocks h1 j1 Hpc Hn) as [j2 Hj2]; [rewrite zlen_app; lia|].
      set (h2 := snd (alloc_arr (rev vacc') h1)) in *.
      assert (Hle2 : heap_le h1 h2) by apply heap_le_alloc.
      exists (VArr (h_next h1)), h2, j2. splits.
      + replace (pc + zlen (citems l ++ [I OpPushArr (OInt (zlen l))])) with (pc + zlen (citems l) + 1) by pcfix.
        eapply stepsK_trans; eassumption.
      + subst v. constructor; [unfold h2, alloc_arr; cbn [snd h_next]; lia|].
        unfold h2 at 2. rewrite get_arr_alloc_new. apply Forall2_rev. eapply Forall2_arel_mono; eassumption.
      + change (get_map attrs h2) with (get_map attrs h1). eapply erel_mono; eassumption.
      + eapply heap_le_trans; eassumption.
    - (* EIdx *)
      cbn [dexpr compile_expr aneed] in *. destruct Hcore as [Hc1 Hc2].
      pose proof (IHe1 Hc1 env pc live blocks h j (code_at_app_l _ _ _ _ Hat) Henv ltac:(lia)) as IH1. unfold expr_post' in IH1.
      destruct (dexpr (e_cfg E) e1 env) as [a env1|c env1|w]; [|exact IH1|exact Logic.I].
      destruct IH1 as [va [h1 [j1 [Hst1 [Ha [Henv1 Hle1]]]]]].
      pose proof (code_at_app_r _ _ _ _ Hat) as Hat2.
      pose proof (IHe2 Hc2 env1 (pc + zlen (compile_expr e1)) (va :: live) blocks h1 j1 (code_at_app_l _ _ _ _ Hat2) Henv1) as IH2.
      assert (Hn2 : zlen (va :: live) + aneed e2 <= 999) by (rewrite zlen_cons; lia).
      specialize (IH2 Hn2). unfold expr_post' in IH2.
      destruct (dexpr (e_cfg E) e2 env1) as [b env2|c env2|w]; [|eapply stepsK_failsR; eassumption|exact Logic.I].
      destruct IH2 as [vb [h2 [j2 [Hst2 [Hb [Henv2 Hle2]]]]]].
      destruct (code_at_head _ _ _ _ (code_at_app_r _ _ _ _ Hat2)) as [Hpc Hn].
      pose proof (step_itemget (pc + zlen (compile_expr e1) + zlen (compile_expr e2)) a b va vb live blocks h2 j2 env2
                               (arel_mono _ _ _ _ Hle2 Ha) Hb Henv2 Hpc Hn) as Hop.
      assert (Hb3 : zlen (vb :: va :: live) < 1000) by (rewrite !zlen_cons; pose proof (aneed_pos e2); lia).
      specialize (Hop Hb3). destruct (index_sem a b) as [r|c|w]; cbn [lift_b].
      + destruct Hop as [rv [j3 [Hj3 Hr]]]. exists rv, h2, j3. splits; auto.
        * replace (pc + zlen (compile_expr e1 ++ compile_expr e2 ++ [I OpItemGet ONil]))
            with (pc + zlen (compile_expr e1) + zlen (compile_expr e2) + 1) by pcfix.
          eapply stepsK_trans; [exact Hst1|]. eapply stepsK_trans; eassumption.
        * eapply heap_le_trans; eassumption.
      + eapply stepsK_failsR; [exact Hst1|]. eapply stepsK_failsR; eassumption.
      + exact Logic.I.
  Qed.

  (* ------------------------------------------------------------------ statements (loop-free fragment) *)
  Definition stmt_post' (d : nat) (bo ao : Z) (fuel : nat) (s : stmt) (env : denv)
             (pc : Z) (live : list value) (blocks : list Z) (h : heap) (j : vol) : Prop :=
    match dstmt (e_cfg E) fuel s env with
    | SNorm v env' =>
      exists h' j' junk,
        stepsK (M pc live blocks h j) (M (pc + zlen (compile_stmt d bo ao s)) (junk ++ live) blocks h' j')
        /\ erel h' env' (get_map attrs h') /\ heap_le h h' /\ zlen junk <= leaves s
        /\ match v with
           | Some x => exists vx junk', junk = vx :: junk' /\ arel h' x vx
           | None => junk = [] /\ compile_stmt d bo ao s = [] /\ h' = h /\ j' = j
           end
    | SErrR c env' => failsR (M pc live blocks h j) c env'
    | _ => True
    end.

  Lemma stmt_correct' : forall s, arr_stmt s -> forall d bo ao fuel env pc live blocks h j,
    code_at pc (compile_stmt d bo ao s) -> erel h env (get_map attrs h) ->
    zlen live + asneed s <= 999 -> zlen blocks + bneed s <= 20 ->
    stmt_post' d bo ao fuel s env pc live blocks h j.
  Proof.
    induction s; intros Hcore d bo ao fuel env pc live blocks h j Hat Henv Hneed Hbn; unfold stmt_post';
      cbn [arr_stmt] in Hcore; try contradiction.
    - (* SNop *)
      cbn [dstmt compile_stmt leaves]. exists h, j, []. rewrite zlen_nil, Z.add_0_r. cbn [app].
      splits; auto using heap_le_refl, stepsK_refl; try lia. rewrite zlen_nil; lia.
    - (* SExpr *)
      cbn [dstmt compile_stmt leaves asneed] in *.
      pose proof (expr_correct' e Hcore env pc live blocks h j Hat Henv Hneed) as IH. unfold expr_post' in IH.
      destruct (dexpr (e_cfg E) e env) as [v env1|c env1|w]; [|exact IH|exact Logic.I].
      destruct IH as [vv [h1 [j1 [Hst [Hv [Henv1 Hle]]]]]].
      exists h1, j1, [vv]. cbn [app]. splits; auto; try (rewrite zlen_cons, zlen_nil; lia).
      exists vv, []; split; [reflexivity|exact Hv].
    - (* SSeq *)
      cbn [dstmt compile_stmt leaves asneed bneed] in *. destruct Hcore as [Hc1 Hc2].
      set (ca := compile_stmt d bo (ao + ssize d s2) s1) in *. set (cb := compile_stmt d (bo + ssize d s1) ao s2) in *.
      pose proof (IHs1 Hc1 d bo (ao + ssize d s2) fuel env pc live blocks h j (code_at_app_l _ _ _ _ Hat) Henv ltac:(lia) ltac:(lia)) as IH1.
      unfold stmt_post' in IH1. fold ca in IH1.
      destruct (dstmt (e_cfg E) fuel s1 env) as [v1 env1|e1|e1|c env1| |w]; try exact Logic.I; [|exact IH1].
      destruct IH1 as [h1 [j1 [junk1 [Hst1 [Henv1 [Hle1 [Hl1 Hv1]]]]]]].
      pose proof (IHs2 Hc2 d (bo + ssize d s1) ao fuel env1 (pc + zlen ca) (junk1 ++ live) blocks h1 j1
                       (code_at_app_r _ _ _ _ Hat) Henv1) as IH2.
      assert (Hn2 : zlen (junk1 ++ live) + asneed s2 <= 999) by (rewrite zlen_app; lia).
      specialize (IH2 Hn2 ltac:(lia)). unfold stmt_post' in IH2. fold cb in IH2.
      destruct (dstmt (e_cfg E) fuel s2 env1) as [v2 env2|e2|e2|c env2| |w]; try exact Logic.I;
        [|eapply stepsK_failsR; eassumption].
      destruct IH2 as [h2 [j2 [junk2 [Hst2 [Henv2 [Hle2 [Hl2 Hv2]]]]]]].
      exists h2, j2, (junk2 ++ junk1). rewrite <- app_assoc. splits; auto.
      + replace (pc + zlen (ca ++ cb)) with (pc + zlen ca + zlen cb) by pcfix. eapply stepsK_trans; eassumption.
      + eapply heap_le_trans; eassumption.
      + rewrite zlen_app; lia.
      + destruct v2 as [x2|].
        * destruct Hv2 as [vx [junk' [-> Hx]]]. exists vx, (junk' ++ junk1). split; [reflexivity|exact Hx].
        * destruct Hv2 as [-> [Hcb [-> ->]]]. cbn [app]. destruct v1 as [x1|]; [exact Hv1|].
          destruct Hv1 as [-> [Hca [-> ->]]]. splits; auto. rewrite Hca, Hcb. reflexivity.
    - (* SIf *)
      cbn [dstmt compile_stmt leaves asneed bneed] in *. destruct Hcore as [Hc0 [Hc1 Hc2]].
      set (cc := compile_expr c) in *.
      set (T := compile_stmt (S d) (bo + zlen cc + 2) (ao + 1 + ssize (S d) s2 + 1) s1) in *.
      set (F := compile_stmt (S d) (bo + zlen cc + 2 + ssize (S d) s1 + 1) (ao + 1) s2) in *.
      assert (HT : ssize (S d) s1 = zlen T) by (symmetry; apply ssize_compile).
      assert (HF : ssize (S d) s2 = zlen F) by (symmetry; apply ssize_compile).
      rewrite HT, HF in Hat.
      pose proof (expr_correct' c Hc0 env pc live blocks h j (code_at_app_l _ _ _ _ Hat) Henv ltac:(lia)) as IH0. unfold expr_post' in IH0.
      destruct (dexpr (e_cfg E) c env) as [vc env1|k env1|w]; [|exact IH0|exact Logic.I].
      destruct IH0 as [vvc [h1 [j1 [Hst0 [Hvc [Henv1 Hle0]]]]]]. fold cc in Hst0.
      pose proof (code_at_app_r _ _ _ _ Hat) as Hat1. cbn [app] in Hat1.
      destruct (code_at_head _ _ _ _ Hat1) as [Hpc1 Hn1].
      pose proof (code_at_tail _ _ _ _ Hat1) as Hat2.
      destruct (code_at_head _ _ _ _ Hat2) as [Hpc2 Hn2].
      pose proof (code_at_tail _ _ _ _ Hat2) as Hat3.
      pose proof (aneed_pos c) as Hnc. pose proof (bneed_nonneg s1) as Hb1. pose proof (bneed_nonneg s2) as Hb2.
      pose proof (asneed_nonneg s1) as Hsn1. pose proof (asneed_nonneg s2) as Hsn2.
      assert (Hl1 : zlen (vvc :: live) < 1000) by (rewrite zlen_cons; lia).
      pose proof ((old step_blockpush) (pc + zlen cc) (vvc :: live) blocks h1 j1 Hpc1 Hn1 Hl1 ltac:(lia)) as Hbp.
      rewrite zlen_cons in Hbp.
      pose proof (step_jne' (pc + zlen cc + 1) vvc live (zlen live + 1 :: blocks) h1 (counted j1) _ Hpc2 Hn2 Hl1) as Hj.
      rewrite (arel_truthy (e_fn E) _ _ _ Hvc) in Hj.
      set (jj := popped vvc (zlen live) (counted j1)) in *.
      assert (Hpre : stepsK (M pc live blocks h j)
                            (M (if truthy vc then pc + zlen cc + 1 + 1 else pc + zlen cc + 1 + (zlen T + 1) + 1) live (zlen live + 1 :: blocks) h1 jj)).
      { eapply stepsK_trans; [exact Hst0|]. eapply stepsK_trans; [apply steps_stepsK|]; eassumption. }
      assert (Hblk : zlen (zlen live + 1 :: blocks) + Z.max (bneed s1) (bneed s2) <= 20) by (rewrite zlen_cons; lia).
      assert (Hend : pc + zlen (cc ++ I OpBlockPush ONil :: I OpJne (OInt (zlen T + 1)) :: T ++ I OpJmp (OInt (zlen F)) :: F ++ [I OpBlockPop ONil])
                     = pc + zlen cc + 2 + zlen T + 1 + zlen F + 1) by pcfix.
      cbn [app]. rewrite HT, HF, Hend.
      pose proof (code_at_app_r _ _ _ _ Hat3) as Hat4.
      destruct (code_at_head _ _ _ _ Hat4) as [Hpc4 Hn4].
      pose proof (code_at_tail _ _ _ _ Hat4) as Hat5.
      destruct (code_at_head _ _ _ _ (code_at_app_r _ _ _ _ Hat5)) as [Hpc6 Hn6].
      destruct (truthy vc) eqn:Tc.
      + (* then-branch *)
        pose proof (IHs1 Hc1 (S d) (bo + zlen cc + 2) (ao + 1 + ssize (S d) s2 + 1) fuel env1 (pc + zlen cc + 1 + 1) live
                         (zlen live + 1 :: blocks) h1 jj (code_at_app_l _ _ _ _ Hat3) Henv1 ltac:(lia) ltac:(lia)) as IH1.
        unfold stmt_post' in IH1. fold T in IH1.
        destruct (dstmt (e_cfg E) fuel s1 env1) as [v1 env2|e1|e1|k env2| |w]; try exact Logic.I;
          [|eapply stepsK_failsR; eassumption].
        destruct IH1 as [h2 [j2 [junk [Hst1 [Henv2 [Hle2 [Hlv Hv1]]]]]]].
        pose proof (leaves_le_asneed s1) as Hls.
        assert (Hl2 : zlen (junk ++ live) < 1000) by (rewrite zlen_app; lia).
        pose proof ((old step_jmp) (pc + zlen cc + 1 + 1 + zlen T) (junk ++ live) (zlen live + 1 :: blocks) h2 j2 _ Hpc4 Hn4 Hl2) as Hjmp.
        destruct ((old blockpop_after) (pc + zlen cc + 1 + 1 + zlen T + zlen F + 1) junk live blocks h2 (counted j2) vvc) as [j3 [y Hpop]].
        { lia. }
        { replace (pc + zlen cc + 1 + 1 + zlen T + zlen F + 1) with (pc + zlen cc + 1 + 1 + zlen T + 1 + zlen F) by lia. exact Hn6. }
        { exact Hl2. } { lia. }
        { intros ->. destruct v1 as [x|]; [destruct Hv1 as [vx [junk' [Hx _]]]; discriminate|].
          destruct Hv1 as [_ [_ [_ ->]]]. reflexivity. }
        exists h2, j3, [VNull; y]. cbn [app]. splits; auto.
        * replace (pc + zlen cc + 2 + zlen T + 1 + zlen F + 1) with (pc + zlen cc + 1 + 1 + zlen T + zlen F + 1 + 1) by lia.
          eapply stepsK_trans; [exact Hpre|]. eapply stepsK_trans; [exact Hst1|].
          eapply stepsK_trans; apply steps_stepsK; eassumption.
        * eapply heap_le_trans; eassumption.
        * rewrite !zlen_cons, zlen_nil; lia.
        * exists VNull, [y]; split; [reflexivity|constructor].
      + (* else-branch *)
        pose proof (IHs2 Hc2 (S d) (bo + zlen cc + 2 + ssize (S d) s1 + 1) (ao + 1) fuel env1 (pc + zlen cc + 1 + (zlen T + 1) + 1) live
                         (zlen live + 1 :: blocks) h1 jj) as IH2.
        assert (Hat6 : code_at (pc + zlen cc + 1 + (zlen T + 1) + 1) (compile_stmt (S d) (bo + zlen cc + 2 + ssize (S d) s1 + 1) (ao + 1) s2)).
        { fold F. replace (pc + zlen cc + 1 + (zlen T + 1) + 1) with (pc + zlen cc + 1 + 1 + zlen T + 1) by lia.
          exact (code_at_app_l _ _ _ _ Hat5). }
        specialize (IH2 Hat6 Henv1 ltac:(lia) ltac:(lia)). unfold stmt_post' in IH2. fold F in IH2.
        destruct (dstmt (e_cfg E) fuel s2 env1) as [v1 env2|e1|e1|k env2| |w]; try exact Logic.I;
          [|eapply stepsK_failsR; eassumption].
        destruct IH2 as [h2 [j2 [junk [Hst1 [Henv2 [Hle2 [Hlv Hv1]]]]]]].
        pose proof (leaves_le_asneed s2) as Hls.
        assert (Hl2 : zlen (junk ++ live) < 1000) by (rewrite zlen_app; lia).
        destruct ((old blockpop_after) (pc + zlen cc + 1 + (zlen T + 1) + 1 + zlen F) junk live blocks h2 j2 vvc) as [j3 [y Hpop]].
        { lia. }
        { replace (pc + zlen cc + 1 + (zlen T + 1) + 1 + zlen F) with (pc + zlen cc + 1 + 1 + zlen T + 1 + zlen F) by lia. exact Hn6. }
        { exact Hl2. } { lia. }
        { intros ->. destruct v1 as [x|]; [destruct Hv1 as [vx [junk' [Hx _]]]; discriminate|].
          destruct Hv1 as [_ [_ [_ ->]]]. reflexivity. }
        exists h2, j3, [VNull; y]. cbn [app]. splits; auto.
        * replace (pc + zlen cc + 2 + zlen T + 1 + zlen F + 1) with (pc + zlen cc + 1 + (zlen T + 1) + 1 + zlen F + 1) by lia.
          eapply stepsK_trans; [exact Hpre|]. eapply stepsK_trans; [exact Hst1|]. apply steps_stepsK; exact Hpop.
        * eapply heap_le_trans; eassumption.
        * rewrite !zlen_cons, zlen_nil; lia.
        * exists VNull, [y]; split; [reflexivity|constructor].
  Qed.

  (* ------------------------------------------------------------------ loops *)
  (* block.pop back to a saved height that is at most the current one *)
  Lemma step_blockpop_lower' : forall pc a live blocks h j,
    0 <= pc -> nth_error prog (Z.to_nat pc) = Some (I OpBlockPop ONil) -> zlen (a ++ live) < 1000 ->
    exists j', stepsK (M pc (a ++ live) (zlen live :: blocks) h j) (M (pc + 1) (VNull :: live) blocks h j').
  Proof.
    intros pc a live blocks h j Hpc Hn Htop.
    assert (Hne : zlen (a ++ live) <> stack_size) by (unfold stack_size; lia).
    rewrite zlen_app in Htop. pose proof (zlen_nonneg _ a) as Ha. pose proof (zlen_nonneg _ live) as Hl.
    exists {| v_dead := tl (rev a ++ v_dead j); v_last := v_last j; v_details := v_details j; v_ops := v_ops (counted j) |}.
    one_step Hpc Hn Hne. cbn [step i_op i_arg CompileProofs.M m_fr m_w fr_blocks]. unfold set_top. simp_m.
    rewrite zlen_app.
    (replace (zlen live <=? zlen a + zlen live) with true by (symmetry; apply Z.leb_le; lia)).
    replace (Z.to_nat (zlen a + zlen live - zlen live)) with (length a) by (unfold zlen; lia).
    rewrite lower_top_app. simp_m. unfold do_push, push. simp_m.
    (replace (stack_size <=? zlen live) with false by (symmetry; apply Z.leb_gt; unfold stack_size; lia)).
    simp_m. eq_m.
  Qed.

  Definition head_ok (ifb : list Z) (live : list value) (j : vol) : Prop :=
    match ifb with
    | [] => True
    | a :: _ => a <= zlen live + 1 /\ (a = zlen live + 1 -> exists y, v_dead j = y :: tl (v_dead j))
    end.

  (* block.pop to any saved height between the base of the loop and one above the current top *)
  Lemma step_blockpop_any : forall pc live pre base a blocks h j,
    live = pre ++ base -> zlen base <= a -> a <= zlen live + 1 ->
    (a = zlen live + 1 -> exists y, v_dead j = y :: tl (v_dead j)) ->
    zlen live <= 999 -> a <= 998 ->
    0 <= pc -> nth_error prog (Z.to_nat pc) = Some (I OpBlockPop ONil) ->
    exists j' junk, stepsK (M pc live (a :: blocks) h j) (M (pc + 1) (VNull :: junk ++ base) blocks h j')
                    /\ zlen (junk ++ base) = a.
  Proof.
    intros pc live pre base a blocks h j Hlive Hlo Hhi Hdead Hl Ha Hpc Hn.
    destruct (Z.eq_dec a (zlen live + 1)) as [Heq|Hneq].
    - destruct (Hdead Heq) as [y Hy]. subst a.
      destruct ((old step_blockpop_raise) pc y live blocks h j Hpc Hn ltac:(lia) Hy) as [j' Hj].
      exists j', (y :: pre). split; [apply steps_stepsK; subst live; exact Hj|].
      subst live. cbn [app]. apply zlen_cons.
    - assert (Hle : a <= zlen live) by lia.
      set (k := Z.to_nat (zlen live - a)).
      assert (Hk : (k <= length pre)%nat).
      { subst live. rewrite zlen_app in Hle. unfold k. rewrite zlen_app. unfold zlen in *. lia. }
      assert (Hsplit : live = firstn k live ++ (skipn k pre ++ base)).
      { rewrite <- (firstn_skipn k live) at 1. f_equal. subst live. rewrite skipn_app.
        replace (k - length pre)%nat with 0%nat by lia. reflexivity. }
      assert (Hz : zlen (skipn k pre ++ base) = a).
      { assert (Hlen : length live = (length (firstn k live) + length (skipn k pre ++ base))%nat)
          by (rewrite Hsplit at 1; apply app_length).
        rewrite firstn_length in Hlen.
        assert (k <= length live)%nat by (subst live; rewrite app_length; lia).
        unfold zlen in *. unfold k in *. lia. }
      rewrite Hsplit, <- Hz.
      destruct (step_blockpop_lower' pc (firstn k live) (skipn k pre ++ base) blocks h j Hpc Hn) as [j' Hj].
      { rewrite <- Hsplit. lia. }
      exists j', (skipn k pre). split; [exact Hj|reflexivity].
  Qed.

  Lemma pops_correct : forall ifb lb base rest pre live j pc h,
    code_at pc (pops (length ifb) ++ rest) -> live = pre ++ base -> desc (zlen base) ifb -> head_ok ifb live j ->
    zlen live <= 999 -> (match ifb with [] => True | a :: _ => a <= 998 end) ->
    exists j' junk, stepsK (M pc live (ifb ++ lb) h j) (M (pc + zlen (pops (length ifb))) (junk ++ base) lb h j')
                    /\ zlen (junk ++ base) = match ifb with [] => zlen live | _ => last ifb 0 + 1 end.
  Proof.
    induction ifb as [|a r IH]; intros lb base rest pre live j pc h Hat Hlive Hdesc Hhead Hl Ha.
    - exists j, pre. cbn [length pops repeat app]. rewrite zlen_nil, Z.add_0_r. subst live. split; [apply stepsK_refl|reflexivity].
    - cbn [length pops repeat app] in Hat |- *. destruct Hhead as [Hh1 Hh2]. destruct Hdesc as [Hd1 [Hd2 Hd3]].
      destruct (code_at_head _ _ _ _ Hat) as [Hpc Hn].
      destruct (step_blockpop_any pc live pre base a (r ++ lb) h j Hlive Hd1 Hh1 Hh2 Hl Ha Hpc Hn) as [j1 [junk1 [Hst1 Hz1]]].
      destruct (IH lb base rest (VNull :: junk1) (VNull :: junk1 ++ base) j1 (pc + 1) h (code_at_tail _ _ _ _ Hat) eq_refl Hd3)
        as [j2 [junk2 [Hst2 Hz2]]].
      { destruct r as [|b r']; [exact Logic.I|]. unfold head_ok. rewrite zlen_cons, Hz1. split; [lia|intros; lia]. }
      { rewrite zlen_cons, Hz1. lia. }
      { destruct r as [|b r']; [exact Logic.I|lia]. }
      exists j2, junk2. split.
      + rewrite zlen_cons. fold (pops (length r)). replace (pc + (zlen (pops (length r)) + 1)) with (pc + 1 + zlen (pops (length r))) by lia.
        eapply stepsK_trans; eassumption.
      + rewrite Hz2. destruct r as [|b r']; [rewrite zlen_cons, Hz1; reflexivity|reflexivity].
  Qed.

  Definition cont_top (ifb : list Z) (live : list value) (s : stmt) : Z :=
    match ifb with [] => zlen live + wleaves s | _ => last ifb 0 + 1 end.

  (* what a statement does inside a loop body: d `if` blocks (saved heights ifb) are open between the loop and the
     statement, lb are the blocks from the loop's own block outwards, base is the operand stack at the loop's
     block.push; pc - bo is the loop condition, pc + |s| + ao the loop's block.pop *)
  Definition gpost (d : nat) (bo ao : Z) (ifb lb : list Z) (base : list value) (fuel : nat) (s : stmt) (env : denv)
             (pc : Z) (live : list value) (h : heap) (j : vol) : Prop :=
    match dstmt (e_cfg E) fuel s env with
    | SNorm v env' =>
      exists h' j' junk,
        stepsK (M pc live (ifb ++ lb) h j) (M (pc + zlen (compile_stmt d bo ao s)) (junk ++ live) (ifb ++ lb) h' j')
        /\ erel h' env' (get_map attrs h') /\ heap_le h h' /\ zlen junk <= wleaves s
        /\ match v with
           | Some x => exists vx junk', junk = vx :: junk' /\ arel h' x vx
           | None => junk = [] /\ h' = h /\ j' = j
           end
    | SBrk env' =>
      exists h' j' stk,
        stepsK (M pc live (ifb ++ lb) h j) (M (pc + zlen (compile_stmt d bo ao s) + ao) stk lb h' j')
        /\ erel h' env' (get_map attrs h') /\ heap_le h h' /\ (exists junk, stk = junk ++ base)
        /\ zlen stk <= zlen live + wneed (Z.of_nat fuel) s
    | SCont env' =>
      exists h' j' stk,
        stepsK (M pc live (ifb ++ lb) h j) (M (pc - bo) stk lb h' j')
        /\ erel h' env' (get_map attrs h') /\ heap_le h h' /\ (exists junk, stk = junk ++ base)
        /\ zlen stk <= cont_top ifb live s
    | SErrR c env' => failsR (M pc live (ifb ++ lb) h j) c env'
    | _ => True
    end.

  Lemma gstmt_correct : forall s, loop_stmt s -> forall d bo ao ifb lb base fuel env pc live h j,
    code_at pc (compile_stmt d bo ao s) -> erel h env (get_map attrs h) ->
    zlen live + wneed (Z.of_nat fuel) s <= 999 -> zlen (ifb ++ lb) + wbneed s <= 20 ->
    length ifb = d -> (exists pre, live = pre ++ base) -> desc (zlen base) ifb -> head_ok ifb live j ->
    gpost d bo ao ifb lb base fuel s env pc live h j.
  Proof.
    induction s; intros Hcore d bo ao ifb lb base fuel env pc live h j Hat Henv Hneed Hbn Hd Hpre Hdesc Hhead;
      unfold gpost; cbn [loop_stmt] in Hcore.
    - (* SNop *)
      cbn [dstmt compile_stmt wleaves]. exists h, j, []. rewrite zlen_nil, Z.add_0_r. cbn [app].
      splits; auto using heap_le_refl, stepsK_refl; try lia. rewrite zlen_nil; lia.
    - (* SExpr *)
      cbn [dstmt compile_stmt wleaves wneed] in *.
      pose proof (expr_correct' e Hcore env pc live (ifb ++ lb) h j Hat Henv Hneed) as IH. unfold expr_post' in IH.
      destruct (dexpr (e_cfg E) e env) as [v env1|c env1|w]; [|exact IH|exact Logic.I].
      destruct IH as [vv [h1 [j1 [Hst [Hv [Henv1 Hle]]]]]].
      exists h1, j1, [vv]. cbn [app]. splits; auto; try (rewrite zlen_cons, zlen_nil; lia).
      exists vv, []; split; [reflexivity|exact Hv].
    - (* SSeq *)
      cbn [dstmt compile_stmt wleaves wneed wbneed] in *. destruct Hcore as [Hc1 Hc2].
      set (N := Z.of_nat fuel) in *. assert (HN : 0 <= N) by lia.
      set (ca := compile_stmt d bo (ao + ssize d s2) s1) in *. set (cb := compile_stmt d (bo + ssize d s1) ao s2) in *.
      assert (Hca : zlen ca = ssize d s1) by apply ssize_compile.
      assert (Hcb : zlen cb = ssize d s2) by apply ssize_compile.
      pose proof (wleaves_nonneg s1) as Hw1. pose proof (wleaves_nonneg s2) as Hw2.
      pose proof (wneed_nonneg N s1 HN) as Hn1. pose proof (wneed_nonneg N s2 HN) as Hn2.
      pose proof (IHs1 Hc1 d bo (ao + ssize d s2) ifb lb base fuel env pc live h j (code_at_app_l _ _ _ _ Hat) Henv
                       ltac:(fold N; lia) ltac:(lia) Hd Hpre Hdesc Hhead) as IH1.
      unfold gpost in IH1. fold ca in IH1. fold N in IH1.
      destruct (dstmt (e_cfg E) fuel s1 env) as [v1 env1|env1|env1|c env1| |w]; try exact Logic.I.
      + (* s1 completes *)
        destruct IH1 as [h1 [j1 [junk1 [Hst1 [Henv1 [Hle1 [Hl1 Hv1]]]]]]].
        destruct Hpre as [pre Hpre].
        assert (Hhead1 : head_ok ifb (junk1 ++ live) j1).
        { unfold head_ok in *. destruct ifb as [|a r]; [exact Logic.I|]. destruct Hhead as [Hh1 Hh2].
          rewrite zlen_app. pose proof (zlen_nonneg _ junk1). split; [lia|]. intros Ha.
          destruct v1 as [x1|].
          - destruct Hv1 as [vx [junk' [-> _]]]. rewrite zlen_cons in *. pose proof (zlen_nonneg _ junk'). lia.
          - destruct Hv1 as [-> [_ ->]]. apply Hh2. rewrite zlen_nil in Ha. lia. }
        assert (Hpre1 : exists pre1, junk1 ++ live = pre1 ++ base).
        { exists (junk1 ++ pre). rewrite Hpre, app_assoc. reflexivity. }
        pose proof (IHs2 Hc2 d (bo + ssize d s1) ao ifb lb base fuel env1 (pc + zlen ca) (junk1 ++ live) h1 j1
                         (code_at_app_r _ _ _ _ Hat) Henv1 ltac:(fold N; rewrite zlen_app; lia) ltac:(lia) Hd Hpre1 Hdesc Hhead1) as IH2.
        unfold gpost in IH2. fold cb in IH2. fold N in IH2.
        destruct (dstmt (e_cfg E) fuel s2 env1) as [v2 env2|env2|env2|c env2| |w]; try exact Logic.I.
        * destruct IH2 as [h2 [j2 [junk2 [Hst2 [Henv2 [Hle2 [Hl2 Hv2]]]]]]].
          exists h2, j2, (junk2 ++ junk1). rewrite <- app_assoc. splits; auto.
          -- replace (pc + zlen (ca ++ cb)) with (pc + zlen ca + zlen cb) by pcfix. eapply stepsK_trans; eassumption.
          -- eapply heap_le_trans; eassumption.
          -- rewrite zlen_app; lia.
          -- destruct v2 as [x2|].
             ++ destruct Hv2 as [vx [junk' [-> Hx]]]. exists vx, (junk' ++ junk1). split; [reflexivity|exact Hx].
             ++ destruct Hv2 as [-> [-> ->]]. cbn [app]. exact Hv1.
        * destruct IH2 as [h2 [j2 [stk [Hst2 [Henv2 [Hle2 [Hb Hz]]]]]]].
          exists h2, j2, stk. splits; auto.
          -- replace (pc + zlen (ca ++ cb) + ao) with (pc + zlen ca + zlen cb + ao) by pcfix. eapply stepsK_trans; eassumption.
          -- eapply heap_le_trans; eassumption.
          -- rewrite zlen_app in Hz. lia.
        * destruct IH2 as [h2 [j2 [stk [Hst2 [Henv2 [Hle2 [Hb Hz]]]]]]].
          exists h2, j2, stk. splits; auto.
          -- replace (pc - bo) with (pc + zlen ca - (bo + ssize d s1)) by lia. eapply stepsK_trans; eassumption.
          -- eapply heap_le_trans; eassumption.
          -- unfold cont_top in *. destruct ifb; [rewrite zlen_app in Hz; cbn [wleaves]; lia|exact Hz].
        * eapply stepsK_failsR; eassumption.
      + (* s1 breaks *)
        destruct IH1 as [h1 [j1 [stk [Hst1 [Henv1 [Hle1 [Hb Hz]]]]]]].
        exists h1, j1, stk. splits; auto; [|lia].
        replace (pc + zlen (ca ++ cb) + ao) with (pc + zlen ca + (ao + ssize d s2)) by pcfix. exact Hst1.
      + (* s1 continues *)
        destruct IH1 as [h1 [j1 [stk [Hst1 [Henv1 [Hle1 [Hb Hz]]]]]]].
        exists h1, j1, stk. splits; auto.
        unfold cont_top in *. destruct ifb; [cbn [wleaves]; lia|exact Hz].
      + exact IH1.
    - (* SIf *)
      cbn [dstmt compile_stmt wleaves wneed wbneed] in *. destruct Hcore as [Hc0 [Hc1 Hc2]].
      set (N := Z.of_nat fuel) in *. assert (HN : 0 <= N) by lia.
      set (cc := compile_expr c) in *.
      set (T := compile_stmt (S d) (bo + zlen cc + 2) (ao + 1 + ssize (S d) s2 + 1) s1) in *.
      set (F := compile_stmt (S d) (bo + zlen cc + 2 + ssize (S d) s1 + 1) (ao + 1) s2) in *.
      assert (HT : ssize (S d) s1 = zlen T) by (symmetry; apply ssize_compile).
      assert (HF : ssize (S d) s2 = zlen F) by (symmetry; apply ssize_compile).
      rewrite HT, HF in Hat.
      pose proof (expr_correct' c Hc0 env pc live (ifb ++ lb) h j (code_at_app_l _ _ _ _ Hat) Henv ltac:(lia)) as IH0. unfold expr_post' in IH0.
      destruct (dexpr (e_cfg E) c env) as [vc env1|k env1|w]; [|exact IH0|exact Logic.I].
      destruct IH0 as [vvc [h1 [j1 [Hst0 [Hvc [Henv1 Hle0]]]]]]. fold cc in Hst0.
      pose proof (code_at_app_r _ _ _ _ Hat) as Hat1. cbn [app] in Hat1.
      destruct (code_at_head _ _ _ _ Hat1) as [Hpc1 Hn1].
      pose proof (code_at_tail _ _ _ _ Hat1) as Hat2.
      destruct (code_at_head _ _ _ _ Hat2) as [Hpc2 Hn2].
      pose proof (code_at_tail _ _ _ _ Hat2) as Hat3.
      pose proof (aneed_pos c) as Hnc. pose proof (wbneed_nonneg s1) as Hb1. pose proof (wbneed_nonneg s2) as Hb2.
      pose proof (wneed_nonneg N s1 HN) as Hsn1. pose proof (wneed_nonneg N s2 HN) as Hsn2.
      assert (Hl1 : zlen (vvc :: live) < 1000) by (rewrite zlen_cons; lia).
      pose proof ((old step_blockpush) (pc + zlen cc) (vvc :: live) (ifb ++ lb) h1 j1 Hpc1 Hn1 Hl1 ltac:(lia)) as Hbp.
      rewrite zlen_cons in Hbp.
      pose proof (step_jne' (pc + zlen cc + 1) vvc live (zlen live + 1 :: ifb ++ lb) h1 (counted j1) _ Hpc2 Hn2 Hl1) as Hj.
      rewrite (arel_truthy (e_fn E) _ _ _ Hvc) in Hj.
      set (jj := popped vvc (zlen live) (counted j1)) in *.
      assert (Hpre0 : stepsK (M pc live (ifb ++ lb) h j)
                             (M (if truthy vc then pc + zlen cc + 1 + 1 else pc + zlen cc + 1 + (zlen T + 1) + 1) live
                                ((zlen live + 1 :: ifb) ++ lb) h1 jj)).
      { cbn [app]. eapply stepsK_trans; [exact Hst0|]. eapply stepsK_trans; [apply steps_stepsK|]; eassumption. }
      assert (Hblk : zlen ((zlen live + 1 :: ifb) ++ lb) + Z.max (wbneed s1) (wbneed s2) <= 20) by (cbn [app]; rewrite zlen_cons; lia).
      assert (Hd' : length (zlen live + 1 :: ifb) = S d) by (cbn [length]; f_equal; exact Hd).
      assert (Hdesc' : desc (zlen base) (zlen live + 1 :: ifb)).
      { destruct Hpre as [pre Hp]. cbn [desc]. splits; [|destruct ifb as [|b r]; [exact Logic.I|exact (proj1 Hhead)]|exact Hdesc].
        rewrite Hp, zlen_app. pose proof (zlen_nonneg _ pre). lia. }
      assert (Hhead' : head_ok (zlen live + 1 :: ifb) live jj).
      { unfold head_ok. split; [lia|]. intros _. exists vvc. reflexivity. }
      assert (Hend : pc + zlen (cc ++ I OpBlockPush ONil :: I OpJne (OInt (zlen T + 1)) :: T ++ I OpJmp (OInt (zlen F)) :: F ++ [I OpBlockPop ONil])
                     = pc + zlen cc + 2 + zlen T + 1 + zlen F + 1) by pcfix.
      cbn [app]. rewrite HT, HF, Hend.
      pose proof (code_at_app_r _ _ _ _ Hat3) as Hat4.
      destruct (code_at_head _ _ _ _ Hat4) as [Hpc4 Hn4].
      pose proof (code_at_tail _ _ _ _ Hat4) as Hat5.
      destruct (code_at_head _ _ _ _ (code_at_app_r _ _ _ _ Hat5)) as [Hpc6 Hn6].
      assert (Hct : forall s', cont_top (zlen live + 1 :: ifb) live s' <= cont_top ifb live (SIf c s1 s2)).
      { intros s'. unfold cont_top. destruct ifb as [|b r]; [cbn [last wleaves]; lia|].
        change (last (zlen live + 1 :: b :: r) 0) with (last (b :: r) 0). lia. }
      destruct (truthy vc) eqn:Tc.
      + (* then-branch *)
        pose proof (IHs1 Hc1 (S d) (bo + zlen cc + 2) (ao + 1 + ssize (S d) s2 + 1) (zlen live + 1 :: ifb) lb base fuel env1
                         (pc + zlen cc + 1 + 1) live h1 jj (code_at_app_l _ _ _ _ Hat3) Henv1 ltac:(fold N; lia) ltac:(lia)
                         Hd' Hpre Hdesc' Hhead') as IH1.
        unfold gpost in IH1. fold T in IH1. fold N in IH1. rewrite HF in IH1.
        destruct (dstmt (e_cfg E) fuel s1 env1) as [v1 env2|env2|env2|k env2| |w]; try exact Logic.I.
        * destruct IH1 as [h2 [j2 [junk [Hst1 [Henv2 [Hle2 [Hlv Hv1]]]]]]].
          pose proof (wleaves_le_wneed N s1 HN) as Hls.
          assert (Hl2 : zlen (junk ++ live) < 1000) by (rewrite zlen_app; lia).
          pose proof ((old step_jmp) (pc + zlen cc + 1 + 1 + zlen T) (junk ++ live) (zlen live + 1 :: ifb ++ lb) h2 j2 _ Hpc4 Hn4 Hl2) as Hjmp.
          destruct ((old blockpop_after) (pc + zlen cc + 1 + 1 + zlen T + zlen F + 1) junk live (ifb ++ lb) h2 (counted j2) vvc) as [j3 [y Hpop]].
          { lia. }
          { replace (pc + zlen cc + 1 + 1 + zlen T + zlen F + 1) with (pc + zlen cc + 1 + 1 + zlen T + 1 + zlen F) by lia. exact Hn6. }
          { exact Hl2. } { lia. }
          { intros ->. destruct v1 as [x|]; [destruct Hv1 as [vx [junk' [Hx _]]]; discriminate|].
            destruct Hv1 as [_ [_ ->]]. reflexivity. }
          exists h2, j3, [VNull; y]. cbn [app]. splits; auto.
          -- replace (pc + zlen cc + 2 + zlen T + 1 + zlen F + 1) with (pc + zlen cc + 1 + 1 + zlen T + zlen F + 1 + 1) by lia.
             eapply stepsK_trans; [exact Hpre0|]. eapply stepsK_trans; [exact Hst1|].
             eapply stepsK_trans; apply steps_stepsK; eassumption.
          -- eapply heap_le_trans; eassumption.
          -- rewrite !zlen_cons, zlen_nil; lia.
          -- exists VNull, [y]; split; [reflexivity|constructor].
        * destruct IH1 as [h2 [j2 [stk [Hst1 [Henv2 [Hle2 [Hb Hz]]]]]]].
          exists h2, j2, stk. splits; auto; [| |lia].
          -- replace (pc + zlen cc + 2 + zlen T + 1 + zlen F + 1 + ao) with (pc + zlen cc + 1 + 1 + zlen T + (ao + 1 + zlen F + 1)) by lia.
             eapply stepsK_trans; eassumption.
          -- eapply heap_le_trans; eassumption.
        * destruct IH1 as [h2 [j2 [stk [Hst1 [Henv2 [Hle2 [Hb Hz]]]]]]].
          exists h2, j2, stk. splits; auto.
          -- replace (pc - bo) with (pc + zlen cc + 1 + 1 - (bo + zlen cc + 2)) by lia. eapply stepsK_trans; eassumption.
          -- eapply heap_le_trans; eassumption.
          -- pose proof (Hct s1). lia.
        * eapply stepsK_failsR; eassumption.
      + (* else-branch *)
        assert (Hat6 : code_at (pc + zlen cc + 1 + (zlen T + 1) + 1) (compile_stmt (S d) (bo + zlen cc + 2 + ssize (S d) s1 + 1) (ao + 1) s2)).
        { fold F. replace (pc + zlen cc + 1 + (zlen T + 1) + 1) with (pc + zlen cc + 1 + 1 + zlen T + 1) by lia.
          exact (code_at_app_l _ _ _ _ Hat5). }
        pose proof (IHs2 Hc2 (S d) (bo + zlen cc + 2 + ssize (S d) s1 + 1) (ao + 1) (zlen live + 1 :: ifb) lb base fuel env1
                         (pc + zlen cc + 1 + (zlen T + 1) + 1) live h1 jj Hat6 Henv1 ltac:(fold N; lia) ltac:(lia)
                         Hd' Hpre Hdesc' Hhead') as IH2.
        unfold gpost in IH2. fold F in IH2. fold N in IH2. rewrite HT in IH2.
        destruct (dstmt (e_cfg E) fuel s2 env1) as [v1 env2|env2|env2|k env2| |w]; try exact Logic.I.
        * destruct IH2 as [h2 [j2 [junk [Hst1 [Henv2 [Hle2 [Hlv Hv1]]]]]]].
          pose proof (wleaves_le_wneed N s2 HN) as Hls.
          assert (Hl2 : zlen (junk ++ live) < 1000) by (rewrite zlen_app; lia).
          destruct ((old blockpop_after) (pc + zlen cc + 1 + (zlen T + 1) + 1 + zlen F) junk live (ifb ++ lb) h2 j2 vvc) as [j3 [y Hpop]].
          { lia. }
          { replace (pc + zlen cc + 1 + (zlen T + 1) + 1 + zlen F) with (pc + zlen cc + 1 + 1 + zlen T + 1 + zlen F) by lia. exact Hn6. }
          { exact Hl2. } { lia. }
          { intros ->. destruct v1 as [x|]; [destruct Hv1 as [vx [junk' [Hx _]]]; discriminate|].
            destruct Hv1 as [_ [_ ->]]. reflexivity. }
          exists h2, j3, [VNull; y]. cbn [app]. splits; auto.
          -- replace (pc + zlen cc + 2 + zlen T + 1 + zlen F + 1) with (pc + zlen cc + 1 + (zlen T + 1) + 1 + zlen F + 1) by lia.
             eapply stepsK_trans; [exact Hpre0|]. eapply stepsK_trans; [exact Hst1|]. apply steps_stepsK; exact Hpop.
          -- eapply heap_le_trans; eassumption.
          -- rewrite !zlen_cons, zlen_nil; lia.
          -- exists VNull, [y]; split; [reflexivity|constructor].
        * destruct IH2 as [h2 [j2 [stk [Hst1 [Henv2 [Hle2 [Hb Hz]]]]]]].
          exists h2, j2, stk. splits; auto; [| |lia].
          -- replace (pc + zlen cc + 2 + zlen T + 1 + zlen F + 1 + ao) with (pc + zlen cc + 1 + (zlen T + 1) + 1 + zlen F + (ao + 1)) by lia.
             eapply stepsK_trans; eassumption.
          -- eapply heap_le_trans; eassumption.
        * destruct IH2 as [h2 [j2 [stk [Hst1 [Henv2 [Hle2 [Hb Hz]]]]]]].
          exists h2, j2, stk. splits; auto.
          -- replace (pc - bo) with (pc + zlen cc + 1 + (zlen T + 1) + 1 - (bo + zlen cc + 2 + zlen T + 1)) by lia.
             eapply stepsK_trans; eassumption.
          -- eapply heap_le_trans; eassumption.
          -- pose proof (Hct s2). lia.
        * eapply stepsK_failsR; eassumption.
    - (* SWhile *)
      rewrite dstmt_while. cbn [compile_stmt wleaves wneed wbneed] in *. destruct Hcore as [Hc0 Hc1].
      set (N := Z.of_nat fuel) in *. assert (HN : 0 <= N) by lia.
      set (cc := compile_expr c) in *.
      set (B := compile_stmt 0 (zlen cc + 1) 1 s) in *.
      assert (HB : ssize 0 s = zlen B) by (symmetry; apply ssize_compile).
      rewrite HB in Hat. cbn [app] in Hat.
      set (wl := wleaves s) in *. pose proof (wleaves_nonneg s) as Hwl. fold wl in Hwl.
      pose proof (aneed_pos c) as Hnc. pose proof (wneed_nonneg N s HN) as Hns. pose proof (wbneed_nonneg s) as Hbs.
      assert (HNwl : 0 <= N * wl) by nia.
      destruct (code_at_head _ _ _ _ Hat) as [Hpc0 Hn0].
      pose proof (code_at_tail _ _ _ _ Hat) as Hat1.                        (* cc ++ jne :: B ++ [jmp; block.pop] *)
      pose proof (code_at_app_r _ _ _ _ Hat1) as Hat2.
      destruct (code_at_head _ _ _ _ Hat2) as [Hpc2 Hn2].
      pose proof (code_at_tail _ _ _ _ Hat2) as Hat3.                       (* B ++ [jmp; block.pop] *)
      pose proof (code_at_app_r _ _ _ _ Hat3) as Hat4.
      destruct (code_at_head _ _ _ _ Hat4) as [Hpc4 Hn4].
      destruct (code_at_head _ _ _ _ (code_at_tail _ _ _ _ Hat4)) as [Hpc5 Hn5].
      set (lb' := zlen live :: ifb ++ lb) in *.
      set (X := pc + 1 + zlen cc + 1 + zlen B + 1) in *.
      replace (pc + 1 + zlen cc + 1 + zlen B + 1) with X in Hn5 by reflexivity.
      assert (Hloop : forall n env0 junk h0 j0, erel h0 env0 (get_map attrs h0) ->
                zlen junk + Z.of_nat n * wl <= N * wl ->
                match dloop (e_cfg E) fuel c s n env0 with
                | SNorm v env' =>
                  v = Some DvNull /\ exists h' j',
                    stepsK (M (pc + 1) (junk ++ live) lb' h0 j0) (M (X + 1) (VNull :: live) (ifb ++ lb) h' j')
                    /\ erel h' env' (get_map attrs h') /\ heap_le h0 h'
                | SErrR k env' => failsR (M (pc + 1) (junk ++ live) lb' h0 j0) k env'
                | SBrk _ | SCont _ => False
                | SFuelR | SUnsupR _ => True
                end).
      { induction n as [|n IHn]; intros env0 junk h0 j0 Henv0 Hjunk; cbn [dloop]; [exact Logic.I|].
        rewrite Nat2Z.inj_succ, Z.mul_succ_l in Hjunk.
        assert (Hn0wl : 0 <= Z.of_nat n * wl) by nia.
        pose proof (zlen_nonneg _ junk) as Hjn.
        pose proof (expr_correct' c Hc0 env0 (pc + 1) (junk ++ live) lb' h0 j0 (code_at_app_l _ _ _ _ Hat1) Henv0
                                  ltac:(rewrite zlen_app; lia)) as IH0. unfold expr_post' in IH0.
        destruct (dexpr (e_cfg E) c env0) as [vc env1|k env1|w]; [|exact IH0|exact Logic.I].
        destruct IH0 as [vvc [h1 [j1 [Hst0 [Hvc [Henv1 Hle0]]]]]]. fold cc in Hst0.
        assert (Hl1 : zlen (vvc :: junk ++ live) < 1000) by (rewrite zlen_cons, zlen_app; lia).
        pose proof (step_jne' (pc + 1 + zlen cc) vvc (junk ++ live) lb' h1 j1 _ Hpc2 Hn2 Hl1) as Hj.
        rewrite (arel_truthy (e_fn E) _ _ _ Hvc) in Hj.
        set (jj := popped vvc (zlen (junk ++ live)) j1) in *.
        destruct (truthy vc) eqn:Tc.
        - (* one more iteration *)
          pose proof (IHs Hc1 0%nat (zlen cc + 1) 1 [] lb' live fuel env1 (pc + 1 + zlen cc + 1) (junk ++ live) h1 jj
                          (code_at_app_l _ _ _ _ Hat3) Henv1 ltac:(fold N; rewrite zlen_app; lia)
                          ltac:(cbn [app]; unfold lb'; rewrite zlen_cons; lia) eq_refl (ex_intro _ junk eq_refl) Logic.I Logic.I) as IHb.
          unfold gpost in IHb. fold B in IHb. fold N in IHb. cbn [app] in IHb.
          destruct (dstmt (e_cfg E) fuel s env1) as [v2 env2|env2|env2|k env2| |w]; try exact Logic.I.
          + (* the body completes: jump back *)
            destruct IHb as [h2 [j2 [junk2 [Hst1 [Henv2 [Hle2 [Hlv _]]]]]]]. fold wl in Hlv.
            pose proof (zlen_nonneg _ junk2) as Hj2n.
            assert (Hl2 : zlen (junk2 ++ junk ++ live) < 1000) by (rewrite !zlen_app; lia).
            pose proof ((old step_jmp) (pc + 1 + zlen cc + 1 + zlen B) (junk2 ++ junk ++ live) lb' h2 j2 _ Hpc4 Hn4 Hl2) as Hjmp.
            replace (pc + 1 + zlen cc + 1 + zlen B + - (zlen cc + 1 + zlen B + 1) + 1) with (pc + 1) in Hjmp by lia.
            pose proof (IHn env2 (junk2 ++ junk) h2 (counted j2) Henv2 ltac:(rewrite zlen_app; lia)) as Y.
            rewrite <- app_assoc in Y.
            assert (Hpre1 : stepsK (M (pc + 1) (junk ++ live) lb' h0 j0) (M (pc + 1) (junk2 ++ junk ++ live) lb' h2 (counted j2))).
            { eapply stepsK_trans; [exact Hst0|]. eapply stepsK_trans; [exact Hj|]. eapply stepsK_trans; [exact Hst1|].
              apply steps_stepsK; exact Hjmp. }
            destruct (dloop (e_cfg E) fuel c s n env2) as [v3 env3|env3|env3|k env3| |w]; try exact Y.
            * destruct Y as [Hv3 [h3 [j3 [Hst3 [Henv3 Hle3]]]]]. split; [exact Hv3|]. exists h3, j3. splits; auto.
              -- eapply stepsK_trans; eassumption.
              -- eapply heap_le_trans; [exact Hle0|]. eapply heap_le_trans; eassumption.
            * eapply stepsK_failsR; eassumption.
          + (* break *)
            destruct IHb as [h2 [j2 [stk [Hst1 [Henv2 [Hle2 [[junkb Hb] Hz]]]]]]]. subst stk.
            rewrite !zlen_app in Hz.
            replace (pc + 1 + zlen cc + 1 + zlen B + 1) with X in Hst1 by reflexivity.
            assert (Hlt : zlen (junkb ++ live) < 1000). { rewrite zlen_app. lia. }
            destruct (step_blockpop_lower' X junkb live (ifb ++ lb) h2 j2 Hpc5 Hn5 Hlt) as [j3 Hpop].
            split; [reflexivity|]. exists h2, j3. splits; auto.
            * eapply stepsK_trans; [exact Hst0|]. eapply stepsK_trans; [exact Hj|]. eapply stepsK_trans; eassumption.
            * eapply heap_le_trans; eassumption.
          + (* continue *)
            destruct IHb as [h2 [j2 [stk [Hst1 [Henv2 [Hle2 [[junkc Hc] Hz]]]]]]]. subst stk.
            unfold cont_top in Hz. fold wl in Hz. rewrite !zlen_app in Hz.
            replace (pc + 1 + zlen cc + 1 - (zlen cc + 1)) with (pc + 1) in Hst1 by lia.
            pose proof (IHn env2 junkc h2 j2 Henv2 ltac:(lia)) as Y.
            assert (Hpre1 : stepsK (M (pc + 1) (junk ++ live) lb' h0 j0) (M (pc + 1) (junkc ++ live) lb' h2 j2)).
            { eapply stepsK_trans; [exact Hst0|]. eapply stepsK_trans; [exact Hj|]. exact Hst1. }
            destruct (dloop (e_cfg E) fuel c s n env2) as [v3 env3|env3|env3|k env3| |w]; try exact Y.
            * destruct Y as [Hv3 [h3 [j3 [Hst3 [Henv3 Hle3]]]]]. split; [exact Hv3|]. exists h3, j3. splits; auto.
              -- eapply stepsK_trans; eassumption.
              -- eapply heap_le_trans; [exact Hle0|]. eapply heap_le_trans; eassumption.
            * eapply stepsK_failsR; eassumption.
          + (* error in the body *)
            eapply stepsK_failsR; [exact Hst0|]. eapply stepsK_failsR; eassumption.
        - (* the condition is false: leave through block.pop *)
          replace (pc + 1 + zlen cc + (zlen B + 1) + 1) with X in Hj by (unfold X; lia).
          destruct (step_blockpop_lower' X junk live (ifb ++ lb) h1 jj Hpc5 Hn5 ltac:(rewrite zlen_app; lia)) as [j3 Hpop].
          split; [reflexivity|]. exists h1, j3. splits; auto.
          eapply stepsK_trans; [exact Hst0|]. eapply stepsK_trans; eassumption. }
      pose proof ((old step_blockpush) pc live (ifb ++ lb) h j Hpc0 Hn0 ltac:(lia) ltac:(lia)) as Hbp. fold lb' in Hbp.
      pose proof (Hloop fuel env [] h (counted j) Henv ltac:(rewrite zlen_nil; fold N; lia)) as Y. cbn [app] in Y.
      assert (Hend : pc + zlen (I OpBlockPush ONil :: cc ++ I OpJne (OInt (zlen B + 1)) :: B ++
                                  [I OpJmp (OInt (- (zlen cc + 1 + zlen B + 1))); I OpBlockPop ONil]) = X + 1)
        by (unfold X; pcfix).
      cbn [app]. rewrite HB, Hend.
      destruct (dloop (e_cfg E) fuel c s fuel env) as [v3 env3|env3|env3|k env3| |w]; try exact Logic.I; try contradiction.
      + destruct Y as [-> [h3 [j3 [Hst3 [Henv3 Hle3]]]]]. exists h3, j3, [VNull]. cbn [app]. splits; auto.
        * eapply stepsK_trans; [apply steps_stepsK; exact Hbp|exact Hst3].
        * rewrite zlen_cons, zlen_nil. lia.
        * exists VNull, []. split; [reflexivity|constructor].
      + eapply stepsK_failsR; [apply steps_stepsK; exact Hbp|exact Y].
    - (* SBreak *)
      cbn [dstmt compile_stmt wleaves wneed] in *. destruct Hpre as [pre Hpre]. subst d.
      assert (Hl : zlen live <= 999) by lia.
      assert (Ha : match ifb with [] => True | a :: _ => a <= 998 end).
      { destruct ifb as [|a r]; [exact Logic.I|]. destruct Hhead as [Hh _]. lia. }
      destruct (pops_correct ifb lb base [I OpJmp (OInt ao)] pre live j pc h Hat Hpre Hdesc Hhead Hl Ha) as [j1 [junk [Hst Hz]]].
      assert (Hz2 : zlen (junk ++ base) <= zlen live + 2).
      { rewrite Hz. destruct ifb as [|a r]; [lia|]. pose proof (desc_last _ _ _ Hdesc). destruct Hhead as [Hh _]. lia. }
      destruct (code_at_head _ _ _ _ (code_at_app_r _ _ _ _ Hat)) as [Hpc Hn].
      pose proof ((old step_jmp) (pc + zlen (pops (length ifb))) (junk ++ base) lb h j1 ao Hpc Hn ltac:(lia)) as Hj.
      exists h, (counted j1), (junk ++ base). splits; auto using heap_le_refl.
      + replace (pc + zlen (pops (length ifb) ++ [I OpJmp (OInt ao)]) + ao) with (pc + zlen (pops (length ifb)) + ao + 1) by pcfix.
        eapply stepsK_trans; [exact Hst|apply steps_stepsK; exact Hj].
      + exists junk; reflexivity.
    - (* SContinue *)
      cbn [dstmt compile_stmt wleaves wneed] in *. destruct Hpre as [pre Hpre]. subst d.
      assert (Hl : zlen live <= 999) by lia.
      assert (Ha : match ifb with [] => True | a :: _ => a <= 998 end).
      { destruct ifb as [|a r]; [exact Logic.I|]. destruct Hhead as [Hh _]. lia. }
      destruct (pops_correct ifb lb base _ pre live j pc h Hat Hpre Hdesc Hhead Hl Ha) as [j1 [junk [Hst Hz]]].
      assert (Hz2 : zlen (junk ++ base) <= zlen live + 2).
      { rewrite Hz. destruct ifb as [|a r]; [lia|]. pose proof (desc_last _ _ _ Hdesc). destruct Hhead as [Hh _]. lia. }
      destruct (code_at_head _ _ _ _ (code_at_app_r _ _ _ _ Hat)) as [Hpc Hn].
      pose proof ((old step_jmp) (pc + zlen (pops (length ifb))) (junk ++ base) lb h j1 _ Hpc Hn ltac:(lia)) as Hj.
      exists h, (counted j1), (junk ++ base). splits; auto using heap_le_refl.
      + replace (pc - bo) with (pc + zlen (pops (length ifb)) + - (bo + Z.of_nat (length ifb) + 1) + 1)
          by (unfold pops; rewrite zlen_repeat; lia).
        eapply stepsK_trans; [exact Hst|apply steps_stepsK; exact Hj].
      + exists junk; reflexivity.
      + unfold cont_top. rewrite Hz. destruct ifb; cbn [wleaves]; lia.
  Qed.
End RunA.

(* ------------------------------------------------------------------ whole programs *)
(* For every loop-free program without dice terms (array literals, indexing, arrays in variables included): a value of
   the definition is the result of compile + run, related through the final heap, with related variables; an error
   of the definition is an error of the same class with related variables.  `fuel0`: every larger amount of fuel
   gives the same outcome (the same final state). *)
Definition prog_post_arr (cfg : config) (ftab : ftab) (fuel : nat) (p : stmt) (env : denv) (src : string) (st : vmstate) : Prop :=
  match denote fuel cfg p env with
  | DVal v env' =>
    exists fuel0 st' vv,
      (forall fuel', (fuel0 <= fuel')%nat -> run fuel' {| e_ftab := ftab; e_cfg := cfg |} (compile p) src st = Val vv st')
      /\ arel (vs_heap st') v vv /\ erel (vs_heap st') env' (vars_of_state st')
      /\ vs_attrs st' = vs_attrs st /\ heap_le (vs_heap st) (vs_heap st')
  | DErr c env' =>
    exists fuel0 st',
      (forall fuel', (fuel0 <= fuel')%nat -> run fuel' {| e_ftab := ftab; e_cfg := cfg |} (compile p) src st = Err c st')
      /\ erel (vs_heap st') env' (vars_of_state st')
  | DOutOfFuel | DUnsup _ => True
  end.

Theorem compile_correct_arrays_stable : forall p, arr_stmt p -> asneed p <= 999 -> bneed p <= 20 ->
  forall cfg ftab fuel env src st,
    cfg_op_limit cfg = 0 -> erel (vs_heap st) env (vars_of_state st) ->
    prog_post_arr cfg ftab fuel p env src st.
Proof.
  intros p Hcore Hsn Hbn cfg ftab fuel env src st Hlim Henv. unfold prog_post_arr, denote.
  set (E := {| e_ftab := ftab; e_cfg := cfg |}).
  set (prog := compile p).
  set (j0 := {| v_dead := []; v_last := LNone; v_details := []; v_ops := 0 |}).
  set (wod0 := {| w_pool := 0; w_points := 0; w_threshold := 0; w_isge := false |}).
  set (dc0 := {| c_pool := 0; c_points := 0 |}).
  assert (Hat : code_at prog 0 (compile_stmt 0 0 0 p)).
  { exists [], [I OpHalt ONil]. split; reflexivity. }
  pose proof (stmt_correct' E Hlim prog [] wod0 dc0 (Some src) (vs_pcg st) [] (vs_attrs st) p Hcore 0%nat 0 0 fuel env 0 [] []
                            (vs_heap st) j0 Hat Henv) as H.
  specialize (H ltac:(rewrite zlen_nil; lia) ltac:(rewrite zlen_nil; lia)). unfold stmt_post' in H.
  change (e_cfg E) with cfg in H.
  assert (Hrun : forall f, run f E prog src st =
                           match exec f E (M prog [] wod0 dc0 (Some src) (vs_pcg st) [] (vs_attrs st) 0 [] [] (vs_heap st) j0) with
                           | Fin m => Val (match fr_live (m_fr m) with v :: _ => v | [] => VNull end) (state_of m)
                           | Fail e m => Err e (state_of m)
                           | Panic s => OPanic s
                           | OutOfFuel => OOutOfFuel
                           | Unsupported s => OUnsupported s
                           end) by (intros; reflexivity).
  destruct (dstmt cfg fuel p env) as [v env1|e1|e1|c env1| |w]; try exact Logic.I.
  - destruct H as [h1 [j1 [junk [[n [K Hst]] [Henv1 [Hle [Hl Hv]]]]]]].
    assert (Hhalt : nth_error prog (Z.to_nat (0 + zlen (compile_stmt 0 0 0 p))) = Some (I OpHalt ONil)).
    { unfold prog, compile. rewrite Z.add_0_l. apply nth_error_mid. }
    pose proof (leaves_le_asneed p) as Hls. pose proof (zlen_nonneg _ (compile_stmt 0 0 0 p)) as Hnn.
    assert (Hne : zlen (junk ++ []) <> stack_size) by (rewrite zlen_app, zlen_nil; unfold stack_size; lia).
    assert (Hpc : 0 <= 0 + zlen (compile_stmt 0 0 0 p)) by lia.
    exists (n + S K)%nat. eexists. eexists. split; [|split; [|split; [|split]]].
    + intros fuel' Hf. replace fuel' with (n + S (fuel' - n - 1))%nat by lia.
      rewrite Hrun, (Hst (fuel' - n - 1)%nat ltac:(lia)).
      rewrite (exec_S E Hlim prog [] wod0 dc0 (Some src) (vs_pcg st) [] (vs_attrs st) _ _ _ _ _ _ _ Hpc Hhalt Hne).
      cbn [step i_op]. reflexivity.
    + cbn [CompileProofs.M m_fr fr_live state_of m_w w_heap vs_heap]. destruct v as [x|].
      * destruct Hv as [vx [junk' [-> Hx]]]. exact Hx.
      * destruct Hv as [-> _]. constructor.
    + exact Henv1.
    + reflexivity.
    + exact Hle.
  - destruct H as [n [K [m' [Hf Hv]]]].
    exists (n + S K)%nat, (state_of m'). split; [|exact Hv].
    intros fuel' Hfu. replace fuel' with (n + S (fuel' - n - 1))%nat by lia.
    rewrite Hrun, (Hf (fuel' - n - 1)%nat ltac:(lia)). reflexivity.
Qed.

Theorem compile_correct_arrays : forall p, arr_stmt p -> asneed p <= 999 -> bneed p <= 20 ->
  forall cfg ftab fuel env src st,
    cfg_op_limit cfg = 0 -> erel (vs_heap st) env (vars_of_state st) ->
    match denote fuel cfg p env with
    | DVal v env' =>
      exists fuel' st' vv, run fuel' {| e_ftab := ftab; e_cfg := cfg |} (compile p) src st = Val vv st'
                           /\ arel (vs_heap st') v vv /\ erel (vs_heap st') env' (vars_of_state st')
                           /\ vs_attrs st' = vs_attrs st /\ heap_le (vs_heap st) (vs_heap st')
    | DErr c env' =>
      exists fuel' st', run fuel' {| e_ftab := ftab; e_cfg := cfg |} (compile p) src st = Err c st'
                        /\ erel (vs_heap st') env' (vars_of_state st')
    | DOutOfFuel | DUnsup _ => True
    end.
Proof.
  intros p Hcore Hsn Hbn cfg ftab fuel env src st Hlim Henv.
  pose proof (compile_correct_arrays_stable p Hcore Hsn Hbn cfg ftab fuel env src st Hlim Henv) as H.
  unfold prog_post_arr in H. destruct (denote fuel cfg p env) as [v env'|c env'| |w]; try exact Logic.I.
  - destruct H as [fuel0 [st' [vv [Hr Hrest]]]]. exists fuel0, st', vv. split; [apply Hr; lia|exact Hrest].
  - destruct H as [fuel0 [st' [Hr Hrest]]]. exists fuel0, st'. split; [apply Hr; lia|exact Hrest].
Qed.

(* ------------------------------------------------------------------ whole programs with loops *)
(* Every statement of Model/Ast.v (while / break / continue included), every expression except dice terms.
   `fuel` is the fuel of the definition: the number of iterations ONE execution of a loop may make.  The VM leaks the
   operand-stack slots of a loop body once per iteration, so the hypothesis asks for room for `fuel` iterations of every
   loop (`wneed (Z.of_nat fuel) p <= 999`); with it, the definition and compile + run agree. *)
Theorem compile_correct_loops_stable : forall p fuel, loop_stmt p -> wneed (Z.of_nat fuel) p <= 999 -> wbneed p <= 20 ->
  forall cfg ftab env src st,
    cfg_op_limit cfg = 0 -> erel (vs_heap st) env (vars_of_state st) ->
    prog_post_arr cfg ftab fuel p env src st.
Proof.
  intros p fuel Hcore Hsn Hbn cfg ftab env src st Hlim Henv. unfold prog_post_arr, denote.
  set (E := {| e_ftab := ftab; e_cfg := cfg |}).
  set (prog := compile p).
  set (j0 := {| v_dead := []; v_last := LNone; v_details := []; v_ops := 0 |}).
  set (wod0 := {| w_pool := 0; w_points := 0; w_threshold := 0; w_isge := false |}).
  set (dc0 := {| c_pool := 0; c_points := 0 |}).
  assert (Hat : code_at prog 0 (compile_stmt 0 0 0 p)).
  { exists [], [I OpHalt ONil]. split; reflexivity. }
  pose proof (gstmt_correct E Hlim prog [] wod0 dc0 (Some src) (vs_pcg st) [] (vs_attrs st) p Hcore 0%nat 0 0 [] [] [] fuel env 0 []
                            (vs_heap st) j0 Hat Henv) as H.
  specialize (H ltac:(rewrite zlen_nil; lia) ltac:(cbn [app]; rewrite zlen_nil; lia) eq_refl (ex_intro _ [] eq_refl) Logic.I Logic.I).
  unfold gpost in H. cbn [app] in H.
  change (e_cfg E) with cfg in H.
  assert (Hrun : forall f, run f E prog src st =
                           match exec f E (M prog [] wod0 dc0 (Some src) (vs_pcg st) [] (vs_attrs st) 0 [] [] (vs_heap st) j0) with
                           | Fin m => Val (match fr_live (m_fr m) with v :: _ => v | [] => VNull end) (state_of m)
                           | Fail e m => Err e (state_of m)
                           | Panic s => OPanic s
                           | OutOfFuel => OOutOfFuel
                           | Unsupported s => OUnsupported s
                           end) by (intros; reflexivity).
  destruct (dstmt cfg fuel p env) as [v env1|e1|e1|c env1| |w]; try exact Logic.I.
  - destruct H as [h1 [j1 [junk [[n [K Hst]] [Henv1 [Hle [Hl Hv]]]]]]].
    assert (Hhalt : nth_error prog (Z.to_nat (0 + zlen (compile_stmt 0 0 0 p))) = Some (I OpHalt ONil)).
    { unfold prog, compile. rewrite Z.add_0_l. apply nth_error_mid. }
    pose proof (wleaves_le_wneed (Z.of_nat fuel) p ltac:(lia)) as Hls. pose proof (zlen_nonneg _ (compile_stmt 0 0 0 p)) as Hnn.
    assert (Hne : zlen (junk ++ []) <> stack_size) by (rewrite zlen_app, zlen_nil; unfold stack_size; lia).
    assert (Hpc : 0 <= 0 + zlen (compile_stmt 0 0 0 p)) by lia.
    exists (n + S K)%nat. eexists. eexists. split; [|split; [|split; [|split]]].
    + intros fuel' Hf. replace fuel' with (n + S (fuel' - n - 1))%nat by lia.
      rewrite Hrun, (Hst (fuel' - n - 1)%nat ltac:(lia)).
      rewrite (exec_S E Hlim prog [] wod0 dc0 (Some src) (vs_pcg st) [] (vs_attrs st) _ _ _ _ _ _ _ Hpc Hhalt Hne).
      cbn [step i_op]. reflexivity.
    + cbn [CompileProofs.M m_fr fr_live state_of m_w w_heap vs_heap]. destruct v as [x|].
      * destruct Hv as [vx [junk' [-> Hx]]]. exact Hx.
      * destruct Hv as [-> _]. constructor.
    + exact Henv1.
    + reflexivity.
    + exact Hle.
  - destruct H as [n [K [m' [Hf Hv]]]].
    exists (n + S K)%nat, (state_of m'). split; [|exact Hv].
    intros fuel' Hfu. replace fuel' with (n + S (fuel' - n - 1))%nat by lia.
    rewrite Hrun, (Hf (fuel' - n - 1)%nat ltac:(lia)). reflexivity.
Qed.

Theorem compile_correct_loops : forall p fuel, loop_stmt p -> wneed (Z.of_nat fuel) p <= 999 -> wbneed p <= 20 ->
  forall cfg ftab env src st,
    cfg_op_limit cfg = 0 -> erel (vs_heap st) env (vars_of_state st) ->
    match denote fuel cfg p env with
    | DVal v env' =>
      exists fuel' st' vv, run fuel' {| e_ftab := ftab; e_cfg := cfg |} (compile p) src st = Val vv st'
                           /\ arel (vs_heap st') v vv /\ erel (vs_heap st') env' (vars_of_state st')
                           /\ vs_attrs st' = vs_attrs st /\ heap_le (vs_heap st) (vs_heap st')
    | DErr c env' =>
      exists fuel' st', run fuel' {| e_ftab := ftab; e_cfg := cfg |} (compile p) src st = Err c st'
                        /\ erel (vs_heap st') env' (vars_of_state st')
    | DOutOfFuel | DUnsup _ => True
    end.
Proof.
  intros p fuel Hcore Hsn Hbn cfg ftab env src st Hlim Henv.
  pose proof (compile_correct_loops_stable p fuel Hcore Hsn Hbn cfg ftab env src st Hlim Henv) as H.
  unfold prog_post_arr in H. destruct (denote fuel cfg p env) as [v env'|c env'| |w]; try exact Logic.I.
  - destruct H as [fuel0 [st' [vv [Hr Hrest]]]]. exists fuel0, st', vv. split; [apply Hr; lia|exact Hrest].
  - destruct H as [fuel0 [st' [Hr Hrest]]]. exists fuel0, st'. split; [apply Hr; lia|exact Hrest].
Qed.

(* ------------------------------------------------------------------ non-vacuity *)
Definition st_init : vmstate := init_vmstate {| hi := 1; lo := 2 |}.
Lemma erel_init : erel (vs_heap st_init) [] (vars_of_state st_init).
Proof. vm_compute. constructor. Qed.

(* arrays built, stored, read back, indexed (also from the end), concatenated, repeated and compared *)
Definition example_arrays : stmt :=
  SSeq (SExpr (EAssign "a" (EArr [EInt 1; EArr [EInt 2; EStr "x"]; ENull])))
  (SSeq (SExpr (EAssign "b" (EBin BAdd (EVar "a") (EBin BMul (EArr [EIdx (EVar "a") (EUn UNeg (EInt 3))]) (EInt 2)))))
  (SSeq (SIf (EBin BEq (EIdx (EVar "b") (EInt 1)) (EArr [EInt 2; EStr "x"]))
             (SExpr (EAssign "c" (EIdx (EIdx (EVar "b") (EInt 1)) (EInt 1))))
             (SExpr (EAssign "c" (EInt 0))))
        (SExpr (EArr [EVar "c"; EIdx (EVar "b") (EInt 4)])))).
Example example_arrays_ok :
  arr_stmt example_arrays /\ asneed example_arrays <= 999 /\ bneed example_arrays <= 20 /\
  denote 0 cfg0 example_arrays [] =
    DVal (DvArr [DvStr "x"; DvInt 1])
         [("a"%string, DvArr [DvInt 1; DvArr [DvInt 2; DvStr "x"]; DvNull]);
          ("b"%string, DvArr [DvInt 1; DvArr [DvInt 2; DvStr "x"]; DvNull; DvInt 1; DvInt 1]);
          ("c"%string, DvStr "x")].
Proof. repeat split; vm_compute; try reflexivity; discriminate. Qed.
Example example_arrays_error :
  denote 0 cfg0 (SSeq (SExpr (EAssign "a" (EArr [EInt 1]))) (SExpr (EIdx (EVar "a") (EInt 1)))) []
  = DErr EIndex [("a"%string, DvArr [DvInt 1])].
Proof. vm_compute. reflexivity. Qed.

(* loops: the example of CompileProofs (while, break, continue) satisfies the hypotheses with fuel 20 *)
Example example_loop_ok :
  loop_stmt example_prog /\ wneed (Z.of_nat 20) example_prog <= 999 /\ wbneed example_prog <= 20 /\
  denote 20 cfg0 example_prog [] = DVal (DvInt 32) [("x"%string, DvInt 16); ("i"%string, DvInt 9)].
Proof. repeat split; vm_compute; try reflexivity; discriminate. Qed.
(* the leak is what the hypothesis measures: 900 iterations fit, the 2000 of leak_witness do not *)
Definition count_to (n : N) : stmt :=
  SSeq (SExpr (EAssign "i" (EInt 0)))
       (SSeq (SWhile (EBin BLt (EVar "i") (EInt n)) (SExpr (EAssign "i" (EBin BAdd (EVar "i") (EInt 1)))))
             (SExpr (EVar "i"))).
Example count_900_fits : wneed (Z.of_nat 901) (count_to 900) <= 999 /\ denote 901 cfg0 (count_to 900) [] = DVal (DvInt 900) [("i"%string, DvInt 900)].
Proof. split; vm_compute; [discriminate|reflexivity]. Qed.
Example leak_witness_does_not_fit : leak_witness = count_to 2000 /\ 999 < wneed (Z.of_nat 2001) leak_witness.
Proof. split; vm_compute; reflexivity. Qed.

(* the theorems applied: the VM answers what the definition says *)
Example example_arrays_run :
  exists fuel' st' vv, run fuel' {| e_ftab := []; e_cfg := cfg0 |} (compile example_arrays) "" st_init = Val vv st'
                       /\ arel (vs_heap st') (DvArr [DvStr "x"; DvInt 1]) vv.
Proof.
  destruct example_arrays_ok as [H1 [H2 [H3 H4]]].
  pose proof (compile_correct_arrays example_arrays H1 H2 H3 cfg0 [] 0%nat [] ""%string st_init eq_refl erel_init) as X.
  rewrite H4 in X. destruct X as [f [st' [vv [Hr [Hv _]]]]]. exists f, st', vv. split; assumption.
Qed.
Example count_900_run :
  exists fuel' st', run fuel' {| e_ftab := []; e_cfg := cfg0 |} (compile (count_to 900)) "" st_init = Val (VInt 900) st'.
Proof.
  destruct count_900_fits as [H1 H2].
  assert (Hl : loop_stmt (count_to 900)) by (vm_compute; repeat split; reflexivity).
  assert (Hb : wbneed (count_to 900) <= 20) by (vm_compute; discriminate).
  pose proof (compile_correct_loops (count_to 900) 901%nat Hl H1 Hb cfg0 [] [] ""%string st_init eq_refl erel_init) as X.
  rewrite H2 in X. destruct X as [f [st' [vv [Hr [Hv _]]]]]. inversion Hv; subst. exists f, st'. exact Hr.
Qed.
