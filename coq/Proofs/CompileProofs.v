(* Compiler correctness for the core fragment: the reference compiler (Model/Compile.v) against the
   validated VM model (Model/VM.v), with the definitional semantics (Model/Denote.v) as specification. *)
From Coq Require Import String Ascii NArith ZArith List Bool Lia.
From DS Require Import Model.Str Model.PCG Model.Roll Model.Dice Model.Value Model.VM Model.Ast Model.Denote Model.Compile.
Import ListNotations.
Open Scope Z_scope.

(* ------------------------------------------------------------------ small facts *)
Lemma zlen_nil : forall A, @zlen A [] = 0. Proof. reflexivity. Qed.
Lemma zlen_cons : forall A (x : A) l, zlen (x :: l) = zlen l + 1.
Proof. intros; unfold zlen; cbn [length]; lia. Qed.
Lemma zlen_app : forall A (l1 l2 : list A), zlen (l1 ++ l2) = zlen l1 + zlen l2.
Proof. intros; unfold zlen; rewrite app_length; lia. Qed.
Lemma zlen_nonneg : forall A (l : list A), 0 <= zlen l.
Proof. intros; unfold zlen; lia. Qed.

Lemma nth_error_mid : forall A (pre post : list A) x, nth_error (pre ++ x :: post) (Z.to_nat (zlen pre)) = Some x.
Proof.
  intros. unfold zlen. rewrite Nat2Z.id. rewrite nth_error_app2 by lia. rewrite Nat.sub_diag. reflexivity.
Qed.

(* ------------------------------------------------------------------ value embedding *)
Definition inj (v : dv) : value :=
  match v with
  | DvInt z => VInt z
  | DvStr s => VStr s
  | DvNull => VNull
  | DvArr _ => VNull          (* arrays are outside the proved fragment *)
  end.
Definition scalar (v : dv) : Prop := match v with DvArr _ => False | _ => True end.
Definition inj_env (m : denv) : vmap := map (fun kv => (fst kv, inj (snd kv))) m.
Definition scalar_env (m : denv) : Prop := Forall (fun kv => scalar (snd kv)) m.

Lemma mget_inj : forall x m, mget x (inj_env m) = option_map inj (dget x m).
Proof. unfold inj_env; induction m as [|[k v] r IH]; cbn; [reflexivity|]. destruct (String.eqb x k); [reflexivity|exact IH]. Qed.
Lemma mset_inj : forall x v m, mset x (inj v) (inj_env m) = inj_env (dset x v m).
Proof. unfold inj_env; induction m as [|[k w] r IH]; cbn; [reflexivity|]. destruct (String.eqb x k); cbn; [reflexivity|]. rewrite IH; reflexivity. Qed.
Lemma dset_scalar : forall x v m, scalar v -> scalar_env m -> scalar_env (dset x v m).
Proof.
  induction m as [|[k w] r IH]; cbn; intros Hv Hm.
  - constructor; [exact Hv|constructor].
  - inversion Hm as [|? ? H1 H2]; subst. destruct (String.eqb x k).
    + constructor; [exact Hv|exact H2].
    + constructor; [exact H1|apply IH; assumption].
Qed.
Lemma dlookup_scalar : forall x m, scalar_env m -> scalar (dlookup x m).
Proof.
  unfold dlookup; induction m as [|[k w] r IH]; cbn; intros Hm; [exact Logic.I|].
  inversion Hm; subst. destruct (String.eqb x k); auto.
Qed.

Lemma aget_aset_same : forall A k (v : A) m, aget k (aset k v m) = Some v.
Proof.
  induction m as [|[k' v'] r IH]; cbn.
  - rewrite N.eqb_refl; reflexivity.
  - destruct (k =? k')%N eqn:E; cbn; rewrite ?N.eqb_refl, ?E; auto.
Qed.
Lemma get_map_set_map : forall id m h, get_map id (set_map id m h) = m.
Proof. intros; unfold get_map, set_map; cbn. rewrite aget_aset_same; reflexivity. Qed.

(* ------------------------------------------------------------------ machines of the shape the proof walks through *)
Record vol := { v_dead : list value; v_last : lastpop; v_details : list (Z * Z); v_ops : Z }.

Section Run.
  Variable E : env.
  Hypothesis Hlim : cfg_op_limit (e_cfg E) = 0.
  Variable prog : code.
  Variables (dice : list dstate) (wod : wodstate) (dc : dcstate) (src : option string)
            (pcg0 : pcg) (st0 : list stcall) (attrs : N).

  Definition M (pc : Z) (live : list value) (blocks : list Z) (h : heap) (j : vol) : machine :=
    {| m_fr := {| fr_code := prog; fr_pc := pc; fr_live := live; fr_dead := v_dead j; fr_top := zlen live;
                  fr_last := v_last j; fr_blocks := blocks; fr_fblocks := []; fr_dice := dice; fr_wod := wod;
                  fr_dc := dc; fr_details := v_details j; fr_src := src; fr_err := None |};
       m_w := {| w_heap := h; w_pcg := pcg0; w_st := st0; w_chain := [{| c_attrs := attrs; c_ops := v_ops j |}] |} |}.

  (* m reaches m' in some number of instructions, whatever fuel is left *)
  Definition steps (m m' : machine) : Prop := exists n, forall fuel, exec (n + fuel) E m = exec fuel E m'.
  Lemma steps_refl : forall m, steps m m.
  Proof. intros; exists 0%nat; reflexivity. Qed.
  Lemma steps_trans : forall a b c, steps a b -> steps b c -> steps a c.
  Proof.
    intros a b c [n1 H1] [n2 H2]. exists (n1 + n2)%nat. intros fuel.
    rewrite <- Nat.add_assoc, H1, H2. reflexivity.
  Qed.

  Definition counted (j : vol) : vol :=
    {| v_dead := v_dead j; v_last := v_last j; v_details := v_details j;
       v_ops := fst (ops_add (e_cfg E) (v_ops j) 1) |}.

  Lemma ops_not_over : forall ops n, snd (ops_add (e_cfg E) ops n) = false.
  Proof. intros; unfold ops_add; cbn [snd]. rewrite Hlim. reflexivity. Qed.

  (* one turn of the loop of evaluate() *)
  Lemma exec_S : forall fuel pc live blocks h j ins,
    0 <= pc -> nth_error prog (Z.to_nat pc) = Some ins -> zlen live <> stack_size ->
    exec (S fuel) E (M pc live blocks h j) =
    match step (exec fuel E) fuel E ins (M pc live blocks h (counted j)) with
    | SNext m2 => exec fuel E {| m_fr := fr_set_pc (m_fr m2) (fr_pc (m_fr m2) + 1); m_w := m_w m2 |}
    | SStop m2 => Fin m2
    | SFail e m2 => Fail e m2
    | SPanic s => Panic s
    | SFuel => OutOfFuel
    | SUnsup s => Unsupported s
    end.
  Proof.
    intros fuel pc live blocks h j ins Hpc Hn Htop.
    assert (Hlt : zlen prog <=? pc = false).
    { apply Z.leb_gt. assert (Z.to_nat pc < length prog)%nat by (apply nth_error_Some; congruence). unfold zlen; lia. }
    cbn [exec]. cbn [M m_fr fr_code fr_pc]. rewrite Hlt.
    unfold count_op. cbn [M m_w w_self w_chain hd c_ops].
    destruct (ops_add (e_cfg E) (v_ops j) 1) as [ops' over] eqn:Eo.
    assert (over = false) by (pose proof (ops_not_over (v_ops j) 1) as X; rewrite Eo in X; exact X). subst over.
    cbn [fr_err fr_top]. 
    assert (Ht : (zlen live =? stack_size) = false) by (apply Z.eqb_neq; exact Htop). rewrite Ht.
    assert (Hp : (pc <? 0) = false) by (apply Z.ltb_ge; lia). rewrite Hp. rewrite Hn.
    unfold counted. rewrite Eo. cbn [fst]. reflexivity.
  Qed.

  Lemma leb_size : forall l : list value, zlen l < 999 -> (stack_size <=? zlen l) = false.
  Proof. intros; apply Z.leb_gt; unfold stack_size; lia. Qed.

  Ltac simp_m :=
    cbv beta iota;
    cbn [m_fr m_w mk fr_set_stack fr_set_pc fr_set_blocks fr_set_details fr_set_err fr_code fr_pc fr_live fr_dead fr_top
         fr_last fr_blocks fr_fblocks fr_dice fr_wod fr_dc fr_details fr_src fr_err w_heap w_pcg w_st w_chain tl
         v_dead v_last v_details v_ops].

  Ltac one_step Hpc Hn Htop :=
    exists 1%nat; intros fuel; change (1 + fuel)%nat with (S fuel);
    rewrite (exec_S fuel _ _ _ _ _ _ Hpc Hn Htop).

  Ltac eq_m := unfold M; simp_m; rewrite ?zlen_cons; repeat f_equal; try lia.

  (* m fails with class c, leaving the variables vars *)
  Definition vars_of_m (m : machine) : vmap := get_map (c_attrs (w_self (m_w m))) (w_heap (m_w m)).
  Definition fails (m : machine) (c : eclass) (vars : vmap) : Prop :=
    exists n, forall fuel, exists m', exec (n + S fuel) E m = Fail c m' /\ vars_of_m m' = vars.
  Lemma steps_fails : forall a b c vars, steps a b -> fails b c vars -> fails a c vars.
  Proof.
    intros a b c vars [n1 H1] [n2 H2]. exists (n1 + n2)%nat. intros fuel.
    destruct (H2 fuel) as [m' [Hm Hv]]. exists m'. split; [|exact Hv].
    rewrite <- Nat.add_assoc, H1. exact Hm.
  Qed.

  (* ---- pushes *)
  Lemma step_push : forall pc live blocks h j ins v,
    (forall call f m, step call f E ins m = do_push v (m_fr m) (m_w m)) ->
    0 <= pc -> nth_error prog (Z.to_nat pc) = Some ins -> zlen live < 999 ->
    exists j', steps (M pc live blocks h j) (M (pc + 1) (v :: live) blocks h j').
  Proof.
    intros pc live blocks h j ins v Hs Hpc Hn Htop.
    assert (Hne : zlen live <> stack_size) by (unfold stack_size; lia).
    exists {| v_dead := tl (v_dead j); v_last := v_last j; v_details := v_details j; v_ops := v_ops (counted j) |}.
    one_step Hpc Hn Hne. rewrite Hs.
    cbn [M m_fr m_w]. unfold do_push, push. cbn [fr_top].
    rewrite (leb_size live Htop). eq_m.
  Qed.

  Lemma step_mark : forall pc live blocks h j b e,
    0 <= pc -> nth_error prog (Z.to_nat pc) = Some (I OpMarkDetail (OSpan b e)) -> zlen live < 999 ->
    exists j', steps (M pc live blocks h j) (M (pc + 1) live blocks h j') /\ v_details j' <> [].
  Proof.
    intros pc live blocks h j b e Hpc Hn Htop.
    assert (Hne : zlen live <> stack_size) by (unfold stack_size; lia).
    exists {| v_dead := v_dead j; v_last := v_last j; v_details := (b, e) :: v_details j; v_ops := v_ops (counted j) |}.
    split; [|discriminate].
    one_step Hpc Hn Hne. cbn [step i_op i_arg M m_fr m_w]. eq_m.
  Qed.

  (* ---- variables *)
  Lemma load_scalar : forall call x h ops env,
    get_map attrs h = inj_env env -> scalar_env env -> mem_s x builtin_names = false ->
    load_name call E x false {| w_heap := h; w_pcg := pcg0; w_st := st0; w_chain := [{| c_attrs := attrs; c_ops := ops |}] |}
    = ROk (inj (dlookup x env)) {| w_heap := h; w_pcg := pcg0; w_st := st0; w_chain := [{| c_attrs := attrs; c_ops := ops |}] |}.
  Proof.
    intros call x h ops env Hh Hs Hb. unfold load_name. cbn [w_chain length load_walk nth_error c_attrs w_heap].
    rewrite Hh, mget_inj. unfold dlookup. unfold load_global. rewrite Hb.
    pose proof (dlookup_scalar x env Hs) as Hsc. unfold dlookup in Hsc.
    destruct (dget x env) as [v|]; cbn [option_map]; [|reflexivity].
    destruct v; cbn [inj rbind]; try reflexivity; contradiction.
  Qed.

  Lemma step_ldd : forall pc live blocks h j x env,
    get_map attrs h = inj_env env -> scalar_env env -> mem_s x builtin_names = false ->
    0 <= pc -> nth_error prog (Z.to_nat pc) = Some (I OpLdD (OStr x)) -> zlen live < 999 ->
    exists j', steps (M pc live blocks h j) (M (pc + 1) (inj (dlookup x env) :: live) blocks h j').
  Proof.
    intros pc live blocks h j x env Hh Hs Hb Hpc Hn Htop.
    assert (Hne : zlen live <> stack_size) by (unfold stack_size; lia).
    exists {| v_dead := tl (v_dead j); v_last := v_last j;
              v_details := match v_details j with [] => [(0, 0)] | _ => v_details j end; v_ops := v_ops (counted j) |}.
    one_step Hpc Hn Hne. cbn [step i_op i_arg M m_fr m_w arg_str].
    rewrite (load_scalar _ x h _ env Hh Hs Hb).
    unfold lift, check_err, last_detail. cbn [fr_details v_details counted].
    destruct (v_details j) eqn:Ed; simp_m; unfold do_push, push; simp_m; rewrite (leb_size live Htop); eq_m.
  Qed.

  Lemma step_store : forall pc v live blocks h j x,
    0 <= pc -> nth_error prog (Z.to_nat pc) = Some (I OpStore (OStr x)) -> zlen (v :: live) < 1000 ->
    exists j', steps (M pc (v :: live) blocks h j)
                     (M (pc + 1) (v :: live) blocks (set_map attrs (mset x v (get_map attrs h)) h) j').
  Proof.
    intros pc v live blocks h j x Hpc Hn Htop.
    assert (Hne : zlen (v :: live) <> stack_size) by (unfold stack_size; lia).
    exists (counted j).
    one_step Hpc Hn Hne. cbn [step i_op i_arg M m_fr m_w arg_str fr_live].
    unfold store_name, w_set_heap, w_self. simp_m. cbn [hd c_attrs]. eq_m.
  Qed.

  (* ---- truthiness *)
  Lemma as_bool_inj : forall fn h v, scalar v -> as_bool fn h (inj v) = truthy v.
  Proof. intros fn h v Hs; destruct v; cbn; try reflexivity; contradiction. Qed.

  (* ---- unary *)
  Lemma step_unary : forall pc a live blocks h j o,
    scalar a -> 0 <= pc -> nth_error prog (Z.to_nat pc) = Some (I (un_opcode o) ONil) -> zlen (inj a :: live) < 1000 ->
    match un_sem o a with
    | BV v => exists j', steps (M pc (inj a :: live) blocks h j) (M (pc + 1) (inj v :: live) blocks h j') /\ scalar v
    | BE c => fails (M pc (inj a :: live) blocks h j) c (get_map attrs h)
    | BU _ => True
    end.
  Proof.
    intros pc a live blocks h j o Hsa Hpc Hn Htop.
    assert (Hne : zlen (inj a :: live) <> stack_size) by (unfold stack_size; lia).
    assert (Hl : zlen live < 999) by (rewrite zlen_cons in Htop; lia).
    destruct a; try contradiction; cbn [un_sem inj].
    - (* int *)
      exists {| v_dead := v_dead j; v_last := LSlot (zlen live + 1 - 1); v_details := v_details j; v_ops := v_ops (counted j) |}.
      split; [|exact Logic.I].
      one_step Hpc Hn Hne. destruct o; cbn [un_opcode step i_op i_arg M m_fr m_w with_pop pop fr_live inj];
        simp_m; unfold do_push, push; simp_m; rewrite zlen_cons;
        (replace (stack_size <=? zlen live + 1 - 1) with false by (symmetry; apply Z.leb_gt; unfold stack_size; lia));
        eq_m.
      Show.
    - exists 0%nat. intros fuel. eexists. split.
      + change (0 + S fuel)%nat with (S fuel). rewrite (exec_S fuel _ _ _ _ _ _ Hpc Hn Hne).
        destruct o; cbn [un_opcode step i_op i_arg M m_fr m_w with_pop pop fr_live]; reflexivity.
      + reflexivity.
    - exists 0%nat. intros fuel. eexists. split.
      + change (0 + S fuel)%nat with (S fuel). rewrite (exec_S fuel _ _ _ _ _ _ Hpc Hn Hne).
        destruct o; cbn [un_opcode step i_op i_arg M m_fr m_w with_pop pop fr_live]; reflexivity.
      + reflexivity.
  Qed.
End Run.
