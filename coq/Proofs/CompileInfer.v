(* Every program of the fragment is accepted by the INFERENCE of Model/Verify.v:
     verify (to_shape (compile p)) = true      for every p : stmt.
   Proofs/CompileVerified.v gives the inductive annotation; Proofs/InferComplete.v reduces acceptance by
   `verify` to the structure of the backward jumps.  Here: the backward jumps of compiled code are the
   closing jump of each `while` and the jumps of `continue` (at top level: to the first
   instruction); the region of a loop is its condition, its body and its closing jump; nothing outside
   a loop jumps into it; and a loop has an inductive annotation whatever the state at its head. *)
From Coq Require Import NArith ZArith List Bool String Lia.
From DS Require Import Model.Str Model.Value Model.VM Model.Ast Model.Compile.
From DS Require Import Model.Bytecode Model.Verify Proofs.VerifyProofs Proofs.CompileVerified Proofs.InferComplete.
Import ListNotations.
Open Scope nat_scope.
Local Notation length := List.length.

(* ================================================================ no template blocks *)
Lemma shape_fstr_push op arg : shape_of (opnum op) (shp_opd arg) = SFstrPush -> op = OpFstrPush.
Proof.
  destruct op; try reflexivity; cbn [opnum shape_of]; destruct arg; cbn [shp_opd with_int with_count with_str];
    try discriminate; destruct (z <? 0)%Z; discriminate.
Qed.

Definition nofs (c : VM.code) : Prop := Forall (fun i => VM.i_op i <> OpFstrPush) c.

Lemma nofs_app a b : nofs a -> nofs b -> nofs (a ++ b).
Proof. intros; apply Forall_app; split; assumption. Qed.
Lemma nofs_one op arg : op <> OpFstrPush -> nofs [I op arg].
Proof. intro H. constructor; [exact H|constructor]. Qed.
Lemma nofs_cons op arg r : op <> OpFstrPush -> nofs r -> nofs (I op arg :: r).
Proof. intros H Hr. constructor; [exact H|exact Hr]. Qed.

Ltac nofs_tac :=
  repeat first [ apply nofs_app | apply nofs_cons | apply nofs_one | apply Forall_nil | assumption
               | discriminate
               | match goal with |- bin_opcode ?o <> _ => destruct o; discriminate end
               | match goal with |- un_opcode ?o <> _ => destruct o; discriminate end ].

Lemma nofs_expr : forall e, nofs (compile_expr e).
Proof.
  induction e using expr_ind_nested; try (cbn [compile_expr]; nofs_tac; fail).
  rewrite compile_arr. apply nofs_app; [|nofs_tac].
  induction H as [|x r Hx Hr IH]; cbn [citems]; [apply Forall_nil|]. apply nofs_app; assumption.
Qed.

Lemma nofs_pops dd : nofs (pops dd).
Proof. unfold pops. induction dd as [|n IH]; cbn [repeat]; [apply Forall_nil|]. apply nofs_cons; [discriminate|exact IH]. Qed.

Lemma nofs_stmt : forall s dd bo ao, nofs (compile_stmt dd bo ao s).
Proof.
  induction s; intros dd bo ao; cbn [compile_stmt];
    repeat first [ apply nofs_app | apply nofs_cons | apply nofs_one | apply Forall_nil | apply nofs_expr | apply nofs_pops
                 | apply IHs1 | apply IHs2 | apply IHs | discriminate ].
Qed.

Lemma compile_no_fstr p : forall i, In i (to_shape (compile p)) -> ishape i <> SFstrPush.
Proof.
  intros i Hin. unfold to_shape in Hin. apply in_map_iff in Hin. destruct Hin as [[op arg] [<- Hin]].
  assert (N : nofs (compile p)) by (unfold compile; apply nofs_app; [apply nofs_stmt|apply nofs_one; discriminate]).
  unfold nofs in N. rewrite Forall_forall in N. specialize (N _ Hin). cbn [VM.i_op] in N.
  intro Hs. apply N. apply (shape_fstr_push op arg). exact Hs.
Qed.

(* ================================================================ where control goes *)
Lemma jump_target_eq len q off t : jump_target len q off = Some t -> (Z.of_nat t = Z.of_nat q + off + 1)%Z.
Proof.
  unfold jump_target. destruct (Z.of_nat q + off + 1 <? 0)%Z eqn:E1; [discriminate|].
  destruct (Z.of_nat len <? Z.of_nat q + off + 1)%Z; [discriminate|]. intro H; inversion H. lia.
Qed.

Lemma in_tg_simple len q i e u : ishape i = SSimple e -> In u (targets len q (ishape i)) -> u = S q.
Proof. intros ->. cbn [targets]. intros [<-|[]]. reflexivity. Qed.
Lemma in_tg_peek len q i u : ishape i = SPeek -> In u (targets len q (ishape i)) -> u = S q.
Proof. intros ->. cbn [targets]. intros [<-|[]]. reflexivity. Qed.
Lemma in_tg_bpush len q i u : ishape i = SBlockPush -> In u (targets len q (ishape i)) -> u = S q.
Proof. intros ->. cbn [targets]. intros [<-|[]]. reflexivity. Qed.
Lemma in_tg_bpop len q i u : ishape i = SBlockPop -> In u (targets len q (ishape i)) -> u = S q.
Proof. intros ->. cbn [targets]. intros [<-|[]]. reflexivity. Qed.
Lemma in_tg_halt len q i u : ishape i = SHalt -> In u (targets len q (ishape i)) -> False.
Proof. intros ->. cbn [targets]. intros []. Qed.
Lemma in_tg_jmp len q i off u :
  ishape i = SJmp off -> In u (targets len q (ishape i)) -> (Z.of_nat u = Z.of_nat q + off + 1)%Z.
Proof.
  intros ->. cbn [targets]. destruct (jump_target len q off) as [t|] eqn:E; [|intros []].
  intros [<-|[]]. eapply jump_target_eq; eauto.
Qed.
Lemma in_tg_jcond len q i off dup u :
  ishape i = SJcond off dup -> In u (targets len q (ishape i)) -> u = S q \/ (Z.of_nat u = Z.of_nat q + off + 1)%Z.
Proof.
  intros ->. cbn [targets]. destruct (jump_target len q off) as [t|] eqn:E; [|intros []].
  intros [<-|[<-|[]]]; [left; reflexivity|right; eapply jump_target_eq; eauto].
Qed.

(* a property of every (instruction, successor) pair of a segment *)
Definition seg_all (C : Bytecode.code) (p n : nat) (F : nat -> nat -> Prop) : Prop :=
  forall q i u, p <= q < p + n -> nth_error C q = Some i -> In u (targets (length C) q (ishape i)) -> F q u.

Lemma seg_all_nil C p (F : nat -> nat -> Prop) : seg_all C p 0 F.
Proof. intros q i u Hq. lia. Qed.
Lemma seg_all_one C p i (F : nat -> nat -> Prop) :
  nth_error C p = Some i -> (forall u, In u (targets (length C) p (ishape i)) -> F p u) -> seg_all C p 1 F.
Proof. intros HC H q i' u Hq Hi Hu. assert (q = p) by lia. subst q. rewrite HC in Hi. inversion Hi; subst i'. auto. Qed.
Lemma seg_all_split C p n n1 n2 (F : nat -> nat -> Prop) :
  n = n1 + n2 -> seg_all C p n1 F -> seg_all C (p + n1) n2 F -> seg_all C p n F.
Proof.
  intros -> H1 H2 q i u Hq Hi Hu. destruct (Nat.lt_ge_cases q (p + n1)); [eapply H1|eapply H2]; eauto; lia.
Qed.
Lemma seg_all_mono C p n (F G : nat -> nat -> Prop) :
  (forall q u, p <= q < p + n -> F q u -> G q u) -> seg_all C p n F -> seg_all C p n G.
Proof. intros H HF q i u Hq Hi Hu. apply H; [exact Hq|]. eapply HF; eauto. Qed.

(* ---------------------------------------------------------------- tactics (those of CompileVerified.v are local to its section) *)
Ltac segs :=
  repeat match goal with
         | H : at_seg _ _ (to_shape (_ ++ _)) |- _ => rewrite to_shape_app in H
         | H : at_seg _ _ (to_shape (_ :: _)) |- _ => rewrite to_shape_cons in H
         | H : at_seg _ _ (_ ++ _) |- _ => apply at_seg_app in H; destruct H
         | H : at_seg _ _ (_ :: _) |- _ => apply at_seg_cons in H; destruct H
         | H : at_seg _ _ (to_shape []) |- _ => clear H
         | H : at_seg _ _ [] |- _ => clear H
         end.

Ltac pos :=
  match goal with
  | H : nth_error ?L ?q' = _ |- nth_error ?L ?q = _ => first [exact H | replace q with q' by lia; exact H]
  | H : at_seg ?L ?q' _ |- at_seg ?L ?q _ => first [exact H | replace q with q' by lia; exact H]
  end.

Ltac shp := first [reflexivity | apply shape_bin | apply shape_un | apply shape_arr].

Ltac cprep :=
  unfold zlen in *; segs; change (to_shape []) with (@nil Bytecode.instr) in *;
  rewrite ?to_shape_len, ?compile_stmt_len, ?pops_len, ?ssize_sl, ?app_length in *; cbn [length] in *.

(* one instruction whose only successor is the next one *)
Ltac one_next :=
  eapply seg_all_one; [pos|];
  let u := fresh "u" in let Hu := fresh "Hu" in
  intros u Hu;
  first [ eapply in_tg_simple in Hu; [|shp] | eapply in_tg_peek in Hu; [|shp]
        | eapply in_tg_bpush in Hu; [|shp] | eapply in_tg_bpop in Hu; [|shp] ];
  subst u.
Ltac one_jmp :=
  eapply seg_all_one; [pos|];
  let u := fresh "u" in let Hu := fresh "Hu" in
  intros u Hu; eapply in_tg_jmp in Hu; [|shp].
Ltac one_jcond :=
  eapply seg_all_one; [pos|];
  let u := fresh "u" in let Hu := fresh "Hu" in
  intros u Hu; eapply in_tg_jcond in Hu; [|shp]; destruct Hu as [Hu|Hu]; [subst u|].

(* ================================================================ expressions: every successor is forward, inside or at the end *)
Definition expr_fwdP (e : expr) : Prop :=
  forall C p, at_seg C p (to_shape (compile_expr e)) ->
              seg_all C p (length (compile_expr e)) (fun q u => q < u <= p + length (compile_expr e)).

Lemma items_fwd l :
  Forall expr_fwdP l ->
  forall C p, at_seg C p (to_shape (citems l)) ->
              seg_all C p (length (citems l)) (fun q u => q < u <= p + length (citems l)).
Proof.
  induction 1 as [|x r Hx Hr IH]; intros C p HC; cbn [citems] in *; [apply seg_all_nil|]. cprep.
  apply (seg_all_split _ _ _ (length (compile_expr x)) (length (citems r))); [lia| |].
  - eapply seg_all_mono; [|apply Hx; pos]. cbn beta. intros; lia.
  - eapply seg_all_mono; [|apply IH; pos]. cbn beta. intros; lia.
Qed.

Lemma expr_fwd : forall e, expr_fwdP e.
Proof.
  induction e using expr_ind_nested; unfold expr_fwdP in *; intros C p HC.
  1-5: cbn [compile_expr] in *; cprep; one_next; lia.
  - (* EVar *)
    cbn [compile_expr] in *; cprep.
    apply (seg_all_split _ _ _ 1 1); [lia| |]; one_next; lia.
  - (* EAssign *)
    cbn [compile_expr] in *; cprep.
    apply (seg_all_split _ _ _ (length (compile_expr e)) 1); [lia| |].
    + eapply seg_all_mono; [|apply IHe; pos]. cbn beta. intros; lia.
    + one_next; lia.
  - (* EUn *)
    cbn [compile_expr] in *; cprep.
    apply (seg_all_split _ _ _ (length (compile_expr e)) 1); [lia| |].
    + eapply seg_all_mono; [|apply IHe; pos]. cbn beta. intros; lia.
    + one_next; lia.
  - (* EBin *)
    cbn [compile_expr] in *; cprep.
    apply (seg_all_split _ _ _ (length (compile_expr e1)) (length (compile_expr e2) + 1)); [lia| |].
    + eapply seg_all_mono; [|apply IHe1; pos]. cbn beta. intros; lia.
    + apply (seg_all_split _ _ _ (length (compile_expr e2)) 1); [lia| |].
      * eapply seg_all_mono; [|apply IHe2; pos]. cbn beta. intros; lia.
      * one_next; lia.
  - (* EOr *)
    cbn [compile_expr] in *; cprep.
    set (nl := length (compile_expr e1)) in *. set (nr := length (compile_expr e2)) in *.
    apply (seg_all_split _ _ _ nl (1 + (nr + 2))); [lia| |].
    + eapply seg_all_mono; [|apply IHe1; pos]. cbn beta. intros; lia.
    + apply (seg_all_split _ _ _ 1 (nr + 2)); [lia| |].
      * one_jcond; lia.
      * apply (seg_all_split _ _ _ nr 2); [lia| |].
        -- eapply seg_all_mono; [|apply IHe2; pos]. cbn beta. fold nr. intros; lia.
        -- apply (seg_all_split _ _ _ 1 1); [lia| |].
           ++ one_jcond; lia.
           ++ one_next; lia.
  - (* ETern *)
    cbn [compile_expr] in *; cprep.
    set (nc := length (compile_expr e1)) in *. set (na := length (compile_expr e2)) in *.
    set (nb := length (compile_expr e3)) in *.
    apply (seg_all_split _ _ _ nc (1 + (na + (1 + nb)))); [lia| |].
    + eapply seg_all_mono; [|apply IHe1; pos]. cbn beta. fold nc. intros; lia.
    + apply (seg_all_split _ _ _ 1 (na + (1 + nb))); [lia| |].
      * one_jcond; lia.
      * apply (seg_all_split _ _ _ na (1 + nb)); [lia| |].
        -- eapply seg_all_mono; [|apply IHe2; pos]. cbn beta. fold na. intros; lia.
        -- apply (seg_all_split _ _ _ 1 nb); [lia| |].
           ++ one_jmp; lia.
           ++ eapply seg_all_mono; [|apply IHe3; pos]. cbn beta. fold nb. intros; lia.
  - (* EArr *)
    rewrite compile_arr in *. cprep.
    apply (seg_all_split _ _ _ (length (citems l)) 1); [lia| |].
    + eapply seg_all_mono; [|apply items_fwd; [exact H|pos]]. cbn beta. intros; lia.
    + one_next; lia.
  - (* EIdx *)
    cbn [compile_expr] in *; cprep.
    apply (seg_all_split _ _ _ (length (compile_expr e1)) (length (compile_expr e2) + 1)); [lia| |].
    + eapply seg_all_mono; [|apply IHe1; pos]. cbn beta. intros; lia.
    + apply (seg_all_split _ _ _ (length (compile_expr e2)) 1); [lia| |].
      * eapply seg_all_mono; [|apply IHe2; pos]. cbn beta. intros; lia.
      * one_next; lia.
  - (* ERoll *)
    cbn [compile_expr] in *; cprep.
    set (nx := length (compile_expr e1)) in *. set (ny := length (compile_expr e2)) in *.
    apply (seg_all_split _ _ _ nx (1 + (1 + (ny + (1 + 1))))); [lia| |].
    + eapply seg_all_mono; [|apply IHe1; pos]. cbn beta. fold nx. intros; lia.
    + apply (seg_all_split _ _ _ 1 (1 + (ny + (1 + 1)))); [lia| |].
      * one_next; lia.
      * apply (seg_all_split _ _ _ 1 (ny + (1 + 1))); [lia| |].
        -- one_next; lia.
        -- apply (seg_all_split _ _ _ ny (1 + 1)); [lia| |].
           ++ eapply seg_all_mono; [|apply IHe2; pos]. cbn beta. fold ny. intros; lia.
           ++ apply (seg_all_split _ _ _ 1 1); [lia| |]; one_next; lia.
Qed.

(* ================================================================ regions *)
(* the annotation of the loop `while c { b }` compiled at p, for an arbitrary state E at its head
   (the first instruction of the condition, p + 1): condition, jne, body, closing jump, and the exit *)
Definition loopW (c : expr) (b : stmt) (p : nat) (E : astate) : annotation :=
  let lo := a_lo E in let B := a_blocks E in let d := a_dice E in
  let dt := a_det E in let ls := a_last E in
  repeat None (S p) ++ ann_expr dt ls c lo B d ++ [Some (st (S lo) B d dt ls)]
  ++ ann_stmt dt ls b lo [] B d ++ [Some (st lo B d dt ls)] ++ [Some (st lo B d dt ls)].

(* the loops of a statement compiled at p: head = first instruction of the condition, end = closing jump *)
Fixpoint sregs (dd : nat) (s : stmt) (p : nat) : list region :=
  match s with
  | SSeq a b => sregs dd a p ++ sregs dd b (p + sl dd a)
  | SIf c t e =>
    sregs (S dd) t (p + length (compile_expr c) + 2)
    ++ sregs (S dd) e (p + length (compile_expr c) + 2 + sl (S dd) t + 1)
  | SWhile c b =>
    {| r_t := S p; r_e := p + 1 + length (compile_expr c) + 1 + sl 0 b; r_W := loopW c b p |}
    :: sregs 0 b (p + 1 + length (compile_expr c) + 1)
  | _ => []
  end.

(* where a successor u of an instruction q of a statement ending at pn can be: further on inside the
   statement (or right after it), the exit PX of the enclosing loop, the head PL of the enclosing
   loop, or the head of a loop of the statement that contains q *)
Definition jcl (regs : list region) (PL PX pn : nat) (q u : nat) : Prop :=
  (q < u <= pn) \/ (q < u /\ u = PX) \/ u = PL \/ (exists r, In r regs /\ u = r_t r /\ r_t r <= q <= r_e r).

Lemma jcl_mono regs regs' PL PX pn pn' q u :
  (forall r, In r regs -> In r regs') -> pn <= pn' -> jcl regs PL PX pn q u -> jcl regs' PL PX pn' q u.
Proof.
  intros Hin Hle [H|[H|[H|[r [Hr H]]]]]; [left; lia|right; left; exact H|right; right; left; exact H|].
  right; right; right. exists r; split; [apply Hin; exact Hr|exact H].
Qed.

Lemma jcl_noentry C regs PL PX p n t e :
  seg_all C p n (jcl regs PL PX (p + n)) -> p + n <= t -> PL <= p -> e < PX ->
  seg_all C p n (fun q u => ~ (t < u <= e)).
Proof.
  intros H Hpt HPL HPX. eapply seg_all_mono; [|exact H]. cbn beta.
  intros q u Hq [Hj|[Hj|[Hj|[r [_ [Hu Hr]]]]]]; lia.
Qed.

Lemma pops_next : forall dd C p, at_seg C p (to_shape (pops dd)) -> seg_all C p dd (fun q u => u = S q).
Proof.
  induction dd as [|n IH]; intros C p HC; [apply seg_all_nil|].
  unfold pops in HC. cbn [repeat] in HC. fold (pops n) in HC. rewrite to_shape_cons in HC.
  apply at_seg_cons in HC. destruct HC as [H1 H2].
  apply (seg_all_split _ _ _ 1 n); [lia| |].
  - one_next. reflexivity.
  - replace (p + 1) with (S p) by lia. apply IH. exact H2.
Qed.

Definition stmt_strP (s : stmt) : Prop :=
  forall C p dd bo ao PL PX,
    at_seg C p (to_shape (compile_stmt dd bo ao s)) ->
    (bo = Z.of_nat p - Z.of_nat PL)%Z -> PL <= p ->
    (ao = Z.of_nat PX - Z.of_nat (p + sl dd s))%Z -> p + sl dd s <= PX ->
    seg_all C p (sl dd s) (jcl (sregs dd s p) PL PX (p + sl dd s)) /\
    (forall r, In r (sregs dd s p) ->
               p < r_t r /\ r_e r + 1 < p + sl dd s /\
               seg_all C p (r_t r - p) (fun q u => ~ (r_t r < u <= r_e r))).

Ltac jleft := left; lia.
Ltac sapos Q := match goal with |- seg_all _ ?q _ _ => first [constr_eq q Q | replace q with Q by lia] end.

Lemma stmt_str : forall s, stmt_strP s.
Proof.
  induction s; unfold stmt_strP in *; intros C p dd bo ao PL PX HC Hbo HPL Hao HPX; cbn [compile_stmt sl sregs] in *.
  - (* SNop *) split; [apply seg_all_nil|intros r []].
  - (* SExpr *)
    split; [|intros r []]. eapply seg_all_mono; [|apply expr_fwd; exact HC]. cbn beta. intros q u Hq Hqu. jleft.
  - (* SSeq *)
    cprep. set (na := sl dd s1) in *. set (nb := sl dd s2) in *.
    destruct (IHs1 C p dd bo (ao + Z.of_nat nb)%Z PL PX ltac:(pos) Hbo HPL ltac:(fold na; lia) ltac:(fold na; lia)) as [Ja Na].
    destruct (IHs2 C (p + na) dd (bo + Z.of_nat na)%Z ao PL PX ltac:(pos) ltac:(lia) ltac:(lia)
                   ltac:(fold nb; lia) ltac:(fold nb; lia)) as [Jb Nb].
    fold na in Ja, Na. fold nb in Jb, Nb. split.
    + apply (seg_all_split _ _ _ na nb); [lia| |].
      * eapply seg_all_mono; [|exact Ja]. cbn beta. intros q u _. apply jcl_mono; [intros; apply in_or_app; left; assumption|lia].
      * eapply seg_all_mono; [|exact Jb]. cbn beta. intros q u _. apply jcl_mono; [intros; apply in_or_app; right; assumption|lia].
    + intros r Hr. apply in_app_or in Hr. destruct Hr as [Hr|Hr].
      * destruct (Na r Hr) as (N1 & N2 & N3). split; [exact N1|]. split; [lia|exact N3].
      * destruct (Nb r Hr) as (N1 & N2 & N3). split; [lia|]. split; [lia|].
        apply (seg_all_split _ _ _ na (r_t r - (p + na))); [lia| |exact N3].
        eapply jcl_noentry; [exact Ja|lia|lia|lia].
  - (* SIf *)
    cprep. set (nc := length (compile_expr c)) in *. set (nt := sl (S dd) s1) in *. set (ne := sl (S dd) s2) in *.
    destruct (IHs1 C (p + nc + 2) (S dd) (bo + Z.of_nat nc + 2)%Z (ao + 1 + Z.of_nat ne + 1)%Z PL PX ltac:(pos) ltac:(lia) ltac:(lia)
                   ltac:(fold nt; lia) ltac:(fold nt; lia)) as [Jt Nt].
    destruct (IHs2 C (p + nc + 2 + nt + 1) (S dd) (bo + Z.of_nat nc + 2 + Z.of_nat nt + 1)%Z (ao + 1)%Z PL PX ltac:(pos)
                   ltac:(lia) ltac:(lia) ltac:(fold ne; lia) ltac:(fold ne; lia)) as [Je Ne].
    fold nt in Jt, Nt. fold ne in Je, Ne.
    (* condition, block.push, jne: forward, to the then-branch or to the else-branch *)
    assert (Pre : seg_all C p (nc + 2) (fun q u => q < u /\ (u <= p + nc + 2 \/ u = p + nc + 2 + nt + 1))).
    { apply (seg_all_split _ _ _ nc 2); [lia| |].
      - eapply seg_all_mono; [|apply expr_fwd; pos]. cbn beta. fold nc. intros; lia.
      - apply (seg_all_split _ _ _ 1 1); [lia| |]; [one_next; lia|one_jcond; lia]. }
    split.
    + apply (seg_all_split _ _ _ (nc + 2) (nt + (1 + (ne + 1)))); [lia| |].
      { eapply seg_all_mono; [|exact Pre]. cbn beta. intros q u Hq Hqu. jleft. }
      apply (seg_all_split _ _ _ nt (1 + (ne + 1))); [lia| |].
      { sapos (p + nc + 2). eapply seg_all_mono; [|exact Jt]. cbn beta. intros q u _.
        apply jcl_mono; [intros; apply in_or_app; left; assumption|lia]. }
      apply (seg_all_split _ _ _ 1 (ne + 1)); [lia| |].
      { one_jmp. jleft. }
      apply (seg_all_split _ _ _ ne 1); [lia| |].
      { replace (p + (nc + 2) + nt + 1) with (p + nc + 2 + nt + 1) by lia.
        eapply seg_all_mono; [|exact Je]. cbn beta. intros q u _.
        apply jcl_mono; [intros; apply in_or_app; right; assumption|lia]. }
      one_next. jleft.
    + intros r Hr. apply in_app_or in Hr. destruct Hr as [Hr|Hr].
      * destruct (Nt r Hr) as (N1 & N2 & N3). split; [lia|]. split; [lia|].
        apply (seg_all_split _ _ _ (nc + 2) (r_t r - (p + nc + 2))); [lia| |].
        -- eapply seg_all_mono; [|exact Pre]. cbn beta. intros; lia.
        -- replace (p + (nc + 2)) with (p + nc + 2) by lia. exact N3.
      * destruct (Ne r Hr) as (N1 & N2 & N3). split; [lia|]. split; [lia|].
        apply (seg_all_split _ _ _ (nc + 2 + nt + 1) (r_t r - (p + nc + 2 + nt + 1))); [lia| |].
        -- apply (seg_all_split _ _ _ (nc + 2) (nt + 1)); [lia| |].
           ++ eapply seg_all_mono; [|exact Pre]. cbn beta. intros; lia.
           ++ apply (seg_all_split _ _ _ nt 1); [lia| |].
              ** replace (p + (nc + 2)) with (p + nc + 2) by lia.
                 eapply jcl_noentry; [exact Jt|lia|lia|lia].
              ** one_jmp. lia.
        -- replace (p + (nc + 2 + nt + 1)) with (p + nc + 2 + nt + 1) by lia. exact N3.
  - (* SWhile *)
    cprep. set (nc := length (compile_expr c)) in *. set (nb := sl 0 s) in *.
    destruct (IHs C (p + 1 + nc + 1) 0 (Z.of_nat nc + 1)%Z 1%Z (S p) (p + 1 + nc + 1 + nb + 1) ltac:(pos) ltac:(lia) ltac:(lia)
                  ltac:(fold nb; lia) ltac:(fold nb; lia)) as [Jb Nb].
    fold nb in Jb, Nb.
    set (R0 := {| r_t := S p; r_e := p + 1 + nc + 1 + nb; r_W := loopW c s p |}) in *.
    (* block.push, condition, jne: forward, to the body or to the exit *)
    assert (Pre : seg_all C p (1 + nc + 1) (fun q u => q < u /\ (u <= p + 1 + nc + 1 \/ u = p + 1 + nc + 1 + nb + 1))).
    { apply (seg_all_split _ _ _ 1 (nc + 1)); [lia| |].
      - one_next. lia.
      - apply (seg_all_split _ _ _ nc 1); [lia| |].
        + eapply seg_all_mono; [|apply expr_fwd; pos]. cbn beta. fold nc. intros; lia.
        + one_jcond; lia. }
    split.
    + apply (seg_all_split _ _ _ (1 + nc + 1) (nb + (1 + 1))); [lia| |].
      { eapply seg_all_mono; [|exact Pre]. cbn beta. intros q u Hq Hqu. jleft. }
      apply (seg_all_split _ _ _ nb (1 + 1)); [lia| |].
      { replace (p + (1 + nc + 1)) with (p + 1 + nc + 1) by lia.
        eapply seg_all_mono; [|exact Jb]. cbn beta.
        intros q u Hq [Hj|[Hj|[Hj|[r [Hr Hj]]]]].
        - jleft.
        - jleft.
        - right; right; right. exists R0. split; [left; reflexivity|]. cbn [r_t r_e R0]. lia.
        - right; right; right. exists r. split; [right; exact Hr|exact Hj]. }
      apply (seg_all_split _ _ _ 1 1); [lia| |].
      { one_jmp. right; right; right. exists R0. split; [left; reflexivity|]. cbn [r_t r_e R0]. lia. }
      one_next. jleft.
    + intros r [Hr|Hr].
      * subst r. cbn [r_t r_e R0]. split; [lia|]. split; [lia|].
        replace (S p - p) with 1 by lia. one_next. lia.
      * destruct (Nb r Hr) as (N1 & N2 & N3). split; [lia|]. split; [lia|].
        apply (seg_all_split _ _ _ (1 + nc + 1) (r_t r - (p + 1 + nc + 1))); [lia| |].
        -- eapply seg_all_mono; [|exact Pre]. cbn beta. intros; lia.
        -- replace (p + (1 + nc + 1)) with (p + 1 + nc + 1) by lia. exact N3.
  - (* SBreak *)
    cprep. split; [|intros r []].
    apply (seg_all_split _ _ _ dd 1); [lia| |].
    + eapply seg_all_mono; [|apply pops_next; pos]. cbn beta. intros q u Hq ->. jleft.
    + one_jmp. right; left. lia.
  - (* SContinue *)
    cprep. split; [|intros r []].
    apply (seg_all_split _ _ _ dd 1); [lia| |].
    + eapply seg_all_mono; [|apply pops_next; pos]. cbn beta. intros q u Hq ->. jleft.
    + one_jmp. right; right; left. lia.
Qed.

(* ================================================================ a loop has an inductive annotation whatever the state at its head *)
Ltac flag :=
  intros; repeat match goal with H : _ = true |- _ => rewrite H end; cbn; try reflexivity; try apply orb_true_r.
Ltac side :=
  cbn; try reflexivity; try lia; try (intros; discriminate); try (intros; reflexivity); auto; try solve [flag].
Ltac wk := first [eassumption | apply aleb_st_refl].
Ltac step_jcond T := apply ok_one; eapply ck_jcond with (t := T); [pos|pos|shp|unfold zlen; lia|lia|pos|wk|pos|wk|..]; side.
Ltac step_jmp T := apply ok_one; eapply ck_jmp with (t := T); [pos|pos|shp|unfold zlen; lia|lia|pos|wk|..]; side.
Ltac okpos Q := match goal with |- ok _ _ ?q _ => first [constr_eq q Q | replace q with Q by lia] end.

Lemma plain_st E : plain E -> E = st (a_lo E) (a_blocks E) (a_dice E) (a_det E) (a_last E).
Proof. destruct E as [lo B fb fd d dt ls]. unfold plain, st. cbn. intros [-> ->]. reflexivity. Qed.

Lemma at_seg_pre {X} (pre seg : list X) : at_seg (pre ++ seg) (length pre) seg.
Proof. pose proof (at_seg_mid pre seg []) as H. rewrite app_nil_r in H. exact H. Qed.

Lemma loop_fam c b C p dd bo ao E :
  at_seg C p (to_shape (compile_stmt dd bo ao (SWhile c b))) ->
  p + sl dd (SWhile c b) <= length C -> plain E ->
  nth_error (loopW c b p E) (S p) = Some (Some E) /\
  forall q, S p <= q <= p + 1 + length (compile_expr c) + 1 + sl 0 b -> check_pc C (loopW c b p E) q = true.
Proof.
  intros HC Hlen PE. pose proof (plain_st E PE) as EE.
  unfold loopW.
  set (lo := a_lo E). set (B := a_blocks E). set (d := a_dice E). set (dt := a_det E). set (ls := a_last E).
  match goal with |- context [repeat None (S p) ++ ?seg] => set (SEG := seg) end.
  set (W := repeat None (S p) ++ SEG).
  assert (HA : at_seg W (S p) SEG).
  { pose proof (at_seg_pre (repeat None (S p)) SEG) as H. rewrite repeat_length in H. exact H. }
  subst SEG. cbn [compile_stmt sl] in *.
  unfold zlen in *; segs; change (to_shape []) with (@nil Bytecode.instr) in *;
    rewrite ?to_shape_len, ?ann_expr_len, ?compile_stmt_len, ?ann_stmt_len, ?ssize_sl, ?app_length in *; cbn [length] in *.
  set (nc := length (compile_expr c)) in *. set (nb := sl 0 b) in *.
  match goal with H : at_seg W (S p) (ann_expr _ _ _ _ _ _) |- _ => pose proof (at_seg_hd_expr _ _ _ _ _ _ _ _ H) as Hhd end.
  split; [rewrite Hhd; do 2 f_equal; unfold lo, B, d, dt, ls; symmetry; exact EE|].
  destruct (stmt_entry dt ls b W (S p + nc + 1) lo [] B d (st lo B d dt ls)) as [XB [HXB HXBle]];
    [pos|cbn [length]; pos|apply aleb_st_refl|]. cbn [app] in HXBle.
  assert (OK : ok C W (S p) (nc + (1 + (nb + 1)))).
  { apply (ok_split _ _ _ _ nc (1 + (nb + 1))); [lia| |].
    { eapply (expr_ok dt ls c); [pos|pos|lia|pos|wk]. }
    apply (ok_split _ _ _ _ 1 (nb + 1)); [lia| |].
    { step_jcond (S p + nc + 1 + nb + 1). }
    apply (ok_split _ _ _ _ nb 1); [lia| |].
    { pose proof (stmt_ok dt ls b C W (S p + nc + 1) lo [] B d) as IB. cbn [length app] in IB. fold nb in IB.
      okpos (S p + nc + 1).
      eapply IB with (PL := S p) (PX := S p + nc + 1 + nb + 1);
        [pos|pos|constructor|pos|wk|lia|lia|lia|lia|lia|pos|wk|pos|wk]. }
    step_jmp (S p). }
  intros q Hq. apply OK. lia.
Qed.

Lemma sregs_fam : forall s C p dd bo ao,
  at_seg C p (to_shape (compile_stmt dd bo ao s)) -> p + sl dd s <= length C ->
  forall r, In r (sregs dd s p) -> forall E, plain E ->
  nth_error (r_W r E) (r_t r) = Some (Some E) /\
  forall q, r_t r <= q <= r_e r -> check_pc C (r_W r E) q = true.
Proof.
  induction s; intros C p dd bo ao HC Hlen r Hr E PE; cbn [sregs] in Hr; try (destruct Hr; fail).
  - (* SSeq *)
    cbn [compile_stmt sl] in *. cprep. apply in_app_or in Hr. destruct Hr as [Hr|Hr].
    + eapply IHs1; [pos|lia|exact Hr|exact PE].
    + eapply IHs2; [pos|lia|exact Hr|exact PE].
  - (* SIf *)
    cbn [compile_stmt sl] in *. cprep. apply in_app_or in Hr. destruct Hr as [Hr|Hr].
    + eapply IHs1; [pos|lia|exact Hr|exact PE].
    + eapply IHs2; [pos|lia|exact Hr|exact PE].
  - (* SWhile *)
    destruct Hr as [<-|Hr].
    + cbn [r_t r_e r_W]. eapply loop_fam; eauto.
    + cbn [compile_stmt sl] in *. cprep. eapply IHs; [pos|lia|exact Hr|exact PE].
Qed.

(* the whole program, entered in an arbitrary state: the region of a top-level `continue` *)
Definition topW (p : stmt) (E : astate) : annotation :=
  ann_stmt (a_det E) (a_last E) p (a_lo E) [] (a_blocks E) (a_dice E)
  ++ [Some (st (a_lo E) (a_blocks E) (a_dice E) (a_det E) (a_last E))].

Lemma top_fam p E :
  plain E ->
  nth_error (topW p E) 0 = Some (Some E) /\
  forall q, q <= sl 0 p -> check_pc (to_shape (compile p)) (topW p E) q = true.
Proof.
  intros PE. pose proof (plain_st E PE) as EE. unfold topW, compile.
  set (lo := a_lo E). set (B := a_blocks E). set (d := a_dice E). set (dt := a_det E). set (ls := a_last E).
  set (C := to_shape (compile_stmt 0 0 0 p ++ [I OpHalt ONil])).
  set (A := ann_stmt dt ls p lo [] B d ++ [Some (st lo B d dt ls)]).
  assert (HC : at_seg C 0 (to_shape (compile_stmt 0 0 0 p))).
  { subst C. rewrite to_shape_app. apply (at_seg_mid [] _ _). }
  assert (HA : at_seg A 0 (ann_stmt dt ls p lo [] B d)) by apply (at_seg_mid [] _ _).
  assert (HH : nth_error A (sl 0 p) = Some (Some (st lo B d dt ls))).
  { subst A. rewrite nth_error_app2; rewrite ann_stmt_len; cbn [length]; [|lia]. rewrite Nat.sub_diag. reflexivity. }
  assert (HCh : nth_error C (sl 0 p) = Some (shp_instr (I OpHalt ONil))).
  { subst C. rewrite to_shape_app. rewrite nth_error_app2; rewrite to_shape_len, compile_stmt_len; [|lia].
    rewrite Nat.sub_diag. reflexivity. }
  assert (LC : length C = sl 0 p + 1).
  { subst C. rewrite to_shape_len, app_length, compile_stmt_len. reflexivity. }
  assert (H0 : nth_error A 0 = Some (Some (st lo B d dt ls))).
  { destruct (ann_stmt_hd dt ls p lo [] B d) as [E0|[t E0]].
    - pose proof (ann_stmt_len dt ls p lo [] B d) as L. rewrite E0 in L. cbn [length] in L. rewrite <- L in HH. exact HH.
    - subst A. rewrite E0. reflexivity. }
  split; [rewrite H0; do 2 f_equal; unfold lo, B, d, dt, ls; symmetry; exact EE|].
  intros q Hq. destruct (Nat.lt_ge_cases q (sl 0 p)) as [Hlt|Hge].
  - pose proof (stmt_ok dt ls p C A 0 lo [] B d 0%Z 0%Z 0 (sl 0 p) (st lo B d dt ls) (st lo B d dt ls) (st lo B d dt ls)) as Hs.
    cbn [length app Nat.add] in Hs.
    apply Hs; try assumption; try apply aleb_st_refl; try lia. constructor.
  - replace q with (sl 0 p) by lia. eapply ck_halt; [exact HCh|exact HH|reflexivity].
Qed.

(* ================================================================ the theorem *)
Definition regions (p : stmt) : list region :=
  {| r_t := 0; r_e := sl 0 p; r_W := topW p |} :: sregs 0 p 0.

Theorem compile_verified : forall p : stmt, verify (to_shape (compile p)) = true.
Proof.
  intro p.
  set (C := to_shape (compile p)).
  assert (HC : at_seg C 0 (to_shape (compile_stmt 0 0 0 p))).
  { subst C. unfold compile. rewrite to_shape_app. apply (at_seg_mid [] _ _). }
  assert (HCh : nth_error C (sl 0 p) = Some (shp_instr (I OpHalt ONil))).
  { subst C. unfold compile. rewrite to_shape_app. rewrite nth_error_app2; rewrite to_shape_len, compile_stmt_len; [|lia].
    rewrite Nat.sub_diag. reflexivity. }
  assert (LC : length C = sl 0 p + 1).
  { subst C. unfold compile. rewrite to_shape_len, app_length, compile_stmt_len. reflexivity. }
  destruct (stmt_str p C 0 0 0%Z 0%Z 0 (sl 0 p) HC ltac:(lia) ltac:(lia) ltac:(lia) ltac:(lia)) as [J N].
  cbn [Nat.add] in J.
  apply (verify_accepts C (annot p) (regions p)).
  - apply compile_check.
  - apply compile_no_fstr.
  - (* backward jumps *)
    intros k i u Hi Hu Hle.
    assert (Hk : k < length C) by (apply nth_error_Some; congruence).
    destruct (Nat.lt_ge_cases k (sl 0 p)) as [Hlt|Hge].
    + destruct (J k i u ltac:(lia) Hi Hu) as [Hj|[Hj|[Hj|[r [Hr [Hu' Hrange]]]]]]; try lia.
      * exists {| r_t := 0; r_e := sl 0 p; r_W := topW p |}. split; [left; reflexivity|]. cbn [r_t r_e]. lia.
      * exists r. split; [right; exact Hr|]. split; [congruence|lia].
    + exfalso. replace k with (sl 0 p) in * by lia. rewrite HCh in Hi. inversion Hi; subst i.
      eapply in_tg_halt; [|exact Hu]. reflexivity.
  - (* nothing enters a loop from before *)
    intros r q i u [<-|Hr] Hq Hi Hu; cbn [r_t r_e] in *; [lia|].
    destruct (N r Hr) as (N1 & N2 & N3). eapply N3; eauto. lia.
  - (* families *)
    intros r E [<-|Hr] PE; cbn [r_t r_e r_W].
    + destruct (top_fam p E PE) as [H1 H2]. split; [exact H1|]. intros q Hq. apply H2. lia.
    + eapply sregs_fam; eauto. lia.
Qed.

(* hence, through the inference as well as through the explicit annotation *)
Corollary compile_verify_all : forall p : stmt, verify_all (to_shape (compile p)) = true.
Proof.
  intro p. unfold verify_all. rewrite compile_verified. apply all_ok_intro.
  intros i Hi. unfold to_shape in Hi. apply in_map_iff in Hi. destruct Hi as [j [<- _]]. reflexivity.
Qed.

Print Assumptions compile_verified.
Print Assumptions compile_verify_all.

(* the statement of C08 for compiled code, through `verify_all` (Proofs/VerifyProofs.v): the program
   and every body it defines (none, in this fragment) never gets stuck, and every instruction is
   reached with one fixed number of open blocks *)
Corollary compile_verified_safe :
  forall (p : stmt) b, subprogram (to_shape (compile p)) b ->
  (forall st, reachable b st -> forall r, sstep b st <> Stuck r) /\
  (forall s1 s2, reachable b s1 -> reachable b s2 -> pc s1 = pc s2 ->
     length (blocks s1) = length (blocks s2) /\ length (fblocks s1) = length (fblocks s2)).
Proof. intros p. exact (verify_all_safe _ (compile_verify_all p)). Qed.

Print Assumptions compile_verified_safe.
