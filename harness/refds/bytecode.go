package dicescript

import (
	"fmt"
	"strconv"
)

type CodeType uint8

type ByteCode struct {
	T     CodeType
	Value any
}

const (
	typePushIntNumber CodeType = iota
	typePushFloatNumber
	typePushString
	typePushArray
	typePushDict
	typePushRange
	typePushComputed
	typePushNull
	typePushThis
	typePushGlobal
	typePushFunction
	typePushLast
	typePushDefaultExpr

	typeLoadFormatString
	typeLoadName
	typeLoadNameWithDetail
	typeLoadNameRaw // 如遇到computed，这个版本不取出其内容
	typeStoreName
	typeStoreNameGlobal
	typeStoreNameLocal

	typeInvoke
	typeInvokeSelf
	typeItemGet
	typeItemSet
	typeAttrGet
	typeAttrSet
	typeSliceGet
	typeSliceSet

	typeAdd // 注意，修改顺序时一定要顺带修改下面的数组
	typeSubtract
	typeMultiply
	typeDivide
	typeModulus
	typeExponentiation
	typeNullCoalescing

	typeCompLT
	typeCompLE
	typeCompEQ
	typeCompNE
	typeCompGE
	typeCompGT

	typeBitwiseAnd
	typeBitwiseOr
	typeLogicAnd
	typeLogicOr

	typeNegation
	typePositive

	typeDiceInit
	typeDiceSetTimes
	typeDiceSetKeepLowNum
	typeDiceSetKeepHighNum
	typeDiceSetDropLowNum
	typeDiceSetDropHighNum
	typeDiceSetMin
	typeDiceSetMax
	typeDice
	typeCustomDice

	typeDiceCocPenalty
	typeDiceCocBonus
	typeDiceFate
	typeDiceWod
	typeWodSetInit       // 重置参数
	typeWodSetPool       // 设置骰池(骰数)
	typeWodSetPoints     // 面数
	typeWodSetThreshold  // 阈值 >=
	typeWodSetThresholdQ // 阈值 <=
	typeDiceDC
	typeDCSetInit
	typeDCSetPool   // 骰池
	typeDCSetPoints // 面数
	typeHalt
	typeDetailMark

	typePop
	typePopN

	typeNop

	typeJmp
	typeJe
	typeJne
	typeJeDup
	typeReturn

	typeFStringBlockPush // fstring标记 用于栈平衡
	typeFStringBlockPop

	typeBlockPush
	typeBlockPop

	typeStSetName
	typeStModify
	typeStX0
	typeStX1
)

func (code *ByteCode) CodeString() string {
	switch code.T {
	case typePushIntNumber:
		return "push.int " + strconv.FormatInt(int64(code.Value.(IntType)), 10)
	case typePushFloatNumber:
		return "push.flt " + strconv.FormatFloat(code.Value.(float64), 'f', 2, 64)
	case typePushString:
		return "push.str " + code.Value.(string)
	case typePushRange:
		return "push.range"
	case typePushArray:
		return "push.arr " + strconv.FormatInt(int64(code.Value.(IntType)), 10)
	case typePushDict:
		return "push.dict " + strconv.FormatInt(int64(code.Value.(IntType)), 10)
	case typePushComputed:
		computed, _ := code.Value.(*VMValue).ReadComputed()
		return "push.computed " + computed.Expr
	case typePushNull:
		return "push.null"
	case typePushThis:
		return "push.this"
	case typePushGlobal:
		return "push.global"
	case typePushFunction:
		computed, _ := code.Value.(*VMValue).ReadFunctionData()
		return "push.func " + computed.Name

	case typeInvoke:
		return "invoke " + strconv.FormatInt(int64(code.Value.(IntType)), 10)

	case typeInvokeSelf:
		return "invoke.self " + code.Value.(string)
	case typeItemGet:
		return "item.get"
	case typeItemSet:
		return "item.set"
	case typeAttrSet:
		return "attr.set " + code.Value.(string)
	case typeAttrGet:
		return "attr.get " + code.Value.(string)
	case typeSliceGet:
		return "slice.get"
	case typeSliceSet:
		return "slice.set"

	case typeAdd:
		return "add"
	case typeSubtract:
		return "sub"
	case typeMultiply:
		return "mul"
	case typeDivide:
		return "div"
	case typeModulus:
		return "mod"
	case typeExponentiation:
		return "pow"
	case typeNullCoalescing:
		return "nullCoalescing"

	case typeLogicAnd:
		return "and"
	case typeLogicOr:
		return "or"

	case typeBitwiseAnd:
		return "&"
	case typeBitwiseOr:
		return "|"

	case typeNegation:
		return "neg"
	case typePositive:
		return "pos"

	case typeDiceInit:
		return "dice.init"
	case typeDiceSetTimes:
		return "dice.setTimes"
	case typeDiceSetKeepLowNum:
		return "dice.setKeepLow"
	case typeDiceSetKeepHighNum:
		return "dice.setKeepHigh"
	case typeDiceSetDropLowNum:
		return "dice.setDropLow"
	case typeDiceSetDropHighNum:
		return "dice.setDropHigh"
	case typeDiceSetMin:
		return "dice.setMin"
	case typeDiceSetMax:
		return "dice.setMax"
	case typeDice:
		return "dice"
	case typeCustomDice:
		return "dice.custom"

	case typeDiceCocPenalty:
		return "coc.penalty"
	case typeDiceCocBonus:
		return "coc.bonus"
	case typeDiceFate:
		return "dice.fate"
	case typeWodSetInit:
		return "wod.init"
	case typeWodSetPool:
		return "wod.pool"
	case typeWodSetPoints:
		return "wod.points"
	case typeWodSetThreshold:
		return "wod.threshold"
	case typeWodSetThresholdQ:
		return "wod.thresholdQ"
	case typeDiceDC:
		return "dice.dc"
	case typeDCSetInit:
		return "dc.setInit"
	case typeDCSetPool:
		return "dc.setPool"
	case typeDCSetPoints:
		return "dc.setPoints"
	case typeDiceWod:
		return "dice.wod"
	case typeLoadName:
		return "ld " + code.Value.(string)
	case typeLoadNameWithDetail:
		return "ld.d " + code.Value.(string)
	case typeLoadNameRaw:
		return "ld.raw " + code.Value.(string)
	case typeLoadFormatString:
		return fmt.Sprintf("ld.fs %d", code.Value)
	case typeStoreName:
		return fmt.Sprintf("store %s", code.Value)
	case typeStoreNameGlobal:
		return fmt.Sprintf("store.global %s", code.Value)
	case typeStoreNameLocal:
		return fmt.Sprintf("store.local %s", code.Value)
	case typeHalt:
		return "halt"
	case typeDetailMark:
		v := code.Value.(BufferSpan)
		return fmt.Sprintf("mark.detail %d, %d", v.Begin, v.End)
	case typeJmp:
		return fmt.Sprintf("jmp %d", code.Value)
	case typeJe:
		return fmt.Sprintf("je %d", code.Value)
	case typeJeDup:
		return fmt.Sprintf("je.dup %d", code.Value)
	case typeJne:
		return fmt.Sprintf("jne %d", code.Value)
	case typeCompLT:
		return "comp.lt"
	case typeCompLE:
		return "comp.le"
	case typeCompEQ:
		return "comp.eq"
	case typeCompNE:
		return "comp.ne"
	case typeCompGE:
		return "comp.ge"
	case typeCompGT:
		return "comp.gt"
	case typePushLast:
		return "push.last"
	case typePushDefaultExpr:
		return "push.def_expr"
	case typePop:
		return "pop"
	case typePopN:
		return fmt.Sprintf("popn %d", code.Value)
	case typeNop:
		return "nop"
	case typeReturn:
		return "ret"

	case typeBlockPush:
		return "block.push"
	case typeBlockPop:
		return "block.pop"

	case typeFStringBlockPush:
		return "fstr.block.push"
	case typeFStringBlockPop:
		return "fstr.block.pop"

	case typeStSetName:
		return "st.set"
	case typeStModify:
		return fmt.Sprintf("st.mod %s", code.Value)
	case typeStX0:
		return "st.x0"
	case typeStX1:
		return "st.x1"
	}
	return ""
}
