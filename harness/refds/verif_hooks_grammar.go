//go:build verif

package dicescript

// Reflection dump of the generated PEG grammar `g` for the verification translator
// (/verif/tools): every node with a pre-order id, literals, character classes with their
// Unicode range tables expanded, and the names of the action/predicate functions.

import (
	"math"
	"reflect"
	"runtime"
	"strings"
	"unicode"
)

func mathFloat64bits(f float64) uint64 { return math.Float64bits(f) }

type VerifNode struct {
	Id      int          `json:"id"`
	Kind    string       `json:"kind"`
	Kids    []*VerifNode `json:"kids,omitempty"`
	Fn      string       `json:"fn,omitempty"`
	Lit     []int32      `json:"lit,omitempty"` // runes of the literal (already lower-cased by pigeon when ignoreCase)
	IC      bool         `json:"ic,omitempty"`
	Inv     bool         `json:"inv,omitempty"`
	Chars   []int32      `json:"chars,omitempty"`
	Ranges  []int32      `json:"ranges,omitempty"` // lo,hi pairs
	Classes [][][3]int32 `json:"classes,omitempty"`
	Label   string       `json:"label,omitempty"`
	TextCap bool         `json:"textCap,omitempty"`
	Ref     int          `json:"ref,omitempty"`
	RefName string       `json:"refName,omitempty"`
	NotSkip bool         `json:"notSkip,omitempty"`
	Val     string       `json:"val,omitempty"`
}

type VerifRule struct {
	Name      string     `json:"name"`
	VarExists bool       `json:"varExists"`
	Expr      *VerifNode `json:"expr"`
}

func verifFnName(f any) string {
	n := runtime.FuncForPC(reflect.ValueOf(f).Pointer()).Name()
	if i := strings.LastIndex(n, "."); i >= 0 {
		n = n[i+1:]
	}
	return strings.TrimSuffix(n, "-fm")
}

func verifTable(t *unicode.RangeTable) [][3]int32 {
	var out [][3]int32
	for _, r := range t.R16 {
		out = append(out, [3]int32{int32(r.Lo), int32(r.Hi), int32(r.Stride)})
	}
	for _, r := range t.R32 {
		out = append(out, [3]int32{int32(r.Lo), int32(r.Hi), int32(r.Stride)})
	}
	return out
}

func VerifGrammar() []VerifRule {
	id := 0
	var walk func(e any) *VerifNode
	kids := func(n *VerifNode, es ...any) {
		for _, e := range es {
			n.Kids = append(n.Kids, walk(e))
		}
	}
	walk = func(e any) *VerifNode {
		n := &VerifNode{Id: id}
		id++
		switch x := e.(type) {
		case *actionExpr:
			n.Kind, n.Fn = "action", verifFnName(x.run)
			kids(n, x.expr)
		case *seqExpr:
			n.Kind = "seq"
			kids(n, x.exprs...)
		case *choiceExpr:
			n.Kind = "choice"
			kids(n, x.alternatives...)
		case *labeledExpr:
			n.Kind, n.Label, n.TextCap = "label", x.label, x.textCapture
			kids(n, x.expr)
		case *andExpr:
			n.Kind = "and"
			kids(n, x.expr)
		case *notExpr:
			n.Kind = "not"
			kids(n, x.expr)
		case *andLogicalExpr:
			n.Kind = "andL"
			kids(n, x.expr)
		case *notLogicalExpr:
			n.Kind = "notL"
			kids(n, x.expr)
		case *zeroOrOneExpr:
			n.Kind = "opt"
			kids(n, x.expr)
		case *zeroOrMoreExpr:
			n.Kind = "star"
			kids(n, x.expr)
		case *oneOrMoreExpr:
			n.Kind = "plus"
			kids(n, x.expr)
		case *ruleIRefExpr:
			n.Kind, n.Ref = "ref", x.index
		case *ruleRefExpr:
			n.Kind, n.RefName = "refName", x.name
		case *andCodeExpr:
			n.Kind, n.Fn = "andCode", verifFnName(x.run)
		case *notCodeExpr:
			n.Kind, n.Fn = "notCode", verifFnName(x.run)
		case *codeExpr:
			n.Kind, n.Fn, n.NotSkip = "code", verifFnName(x.run), x.notSkip
		case *litMatcher:
			n.Kind, n.IC, n.Val = "lit", x.ignoreCase, x.val
			for _, r := range x.val {
				n.Lit = append(n.Lit, int32(r))
			}
		case *charClassMatcher:
			n.Kind, n.IC, n.Inv, n.Val = "class", x.ignoreCase, x.inverted, x.val
			for _, r := range x.chars {
				n.Chars = append(n.Chars, int32(r))
			}
			for _, r := range x.ranges {
				n.Ranges = append(n.Ranges, int32(r))
			}
			for _, t := range x.classes {
				n.Classes = append(n.Classes, verifTable(t))
			}
		case *anyMatcher:
			n.Kind = "any"
		default:
			n.Kind = "unknown:" + reflect.TypeOf(e).String()
		}
		return n
	}
	var out []VerifRule
	for _, r := range g.rules {
		out = append(out, VerifRule{Name: r.name, VarExists: r.varExists, Expr: walk(r.expr)})
	}
	return out
}
