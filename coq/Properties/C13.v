(* C13 — string literals and templates reproduce text exactly.
   Only statements + `exact lemma` + Print Assumptions live here. *)
From Coq Require Import NArith ZArith List Bool.
From DS Require Import Model.Str Model.StrLit Proofs.StrLitProofs.
Import ListNotations.
Open Scope N_scope.

(* ---- literals: for EVERY escape table satisfying table_ok, every delimiter, every
   well-formed text that can be written at all, and every way of choosing between the
   named escape and the raw character, the literal lexes back to exactly the text (one
   push.str part), and the value the VM computes from that part is the text *)
Theorem C13_literal_roundtrip :
  forall (tbl : esc_table) (d : delim) (choice : nat -> N -> bool) (s : list N),
    table_ok tbl = true -> valid_text s -> representable tbl d s = true ->
    lex tbl d (quote d (escape tbl d choice s)) = Some [s] /\ lit_value d [s] = s.
Proof.
  intros tbl d choice s Ht Hv Hr. split.
  - exact (literal_roundtrip tbl Ht d choice s Hv Hr).
  - exact (literal_value d s).
Qed.
Print Assumptions C13_literal_roundtrip.

(* the table read off roll.peg (and re-checked against the real lexer on every run) *)
Theorem C13_actual_table_ok : table_ok actual_table = true.
Proof. exact actual_table_ok. Qed.
Print Assumptions C13_actual_table_ok.

(* which texts can be written: all of them in '...' and "...", all without the delimiter
   in `...` and 0x1E...0x1E  *)
Theorem C13_representable :
  (forall s, representable actual_table DSingle s = true) /\
  (forall s, representable actual_table DDouble s = true) /\
  (forall s, representable actual_table DBack s = true <-> ~ In 96 s) /\
  (forall s, representable actual_table DRS s = true <-> ~ In 30 s).
Proof.
  split; [exact representable_single|]. split; [exact representable_double|].
  split; intros s; [exact (representable_template DBack s eq_refl)|exact (representable_template DRS s eq_refl)].
Qed.
Print Assumptions C13_representable.

(* ... and that restriction is forced by the code: NO hole-free literal of a style
   evaluates to a text containing a byte that stops the style's part rule and has no
   escape (so no `...` literal contains a backtick, no 0x1E literal a 0x1E) *)
Theorem C13_representable_necessary :
  forall (d : delim) (src : list N) (parts : list (list N)),
    lex actual_table d src = Some parts -> representable actual_table d (concat parts) = true.
Proof. exact lex_representable. Qed.
Print Assumptions C13_representable_necessary.

(* byte-level reasoning is exact: in well-formed UTF-8 an ASCII byte (delimiters,
   backslash, braces, escape letters) is never part of a multi-byte rune *)
Theorem C13_ascii_not_in_multibyte :
  forall st b st', b < 128 -> ustep st b = Some st' -> st = U0 /\ st' = U0.
Proof. exact ascii_only_at_boundary. Qed.
Print Assumptions C13_ascii_not_in_multibyte.

(* non-vacuity: a text with every troublesome character, all four styles, three choice
   functions; and the hypotheses are satisfiable / not always satisfied *)
Example C13_nonvacuous_literal :
  let s := [39; 34; 96; 92; 110; 123; 125; 37; 13; 10; 9; 12; 0; 228; 184; 173; 240; 159; 152; 128; 204; 129; 92] in
  let s' := [39; 34; 30; 92; 110; 123; 125; 37; 13; 10; 9; 12; 0; 228; 184; 173; 240; 159; 152; 128; 204; 129; 92] in
  valid_text s /\
  representable actual_table DSingle s = true /\ representable actual_table DBack s = false /\
  representable actual_table DBack s' = true /\
  escape actual_table DBack (fun _ _ => true) s' =
    [39; 34; 30; 92; 92; 110; 92; 123; 125; 37; 13; 10; 9; 12; 0; 228; 184; 173; 240; 159; 152; 128; 204; 129; 92] /\
  lex actual_table DBack (quote DBack (escape actual_table DBack (fun _ _ => true) s')) = Some [s'] /\
  lex actual_table DSingle (quote DSingle (escape actual_table DSingle (fun i _ => Nat.even i) s)) = Some [s] /\
  lex actual_table DDouble (quote DDouble (escape actual_table DDouble (fun _ _ => false) s)) = Some [s] /\
  (* a raw backtick ends the literal early; a trailing backslash swallows the closing quote *)
  lex actual_table DBack [96; 97; 96; 98; 96] = None /\
  lex actual_table DSingle [39; 97; 92; 39] = None /\
  utf8_valid [39; 255; 39] = false.
Proof. vm_compute. repeat split. Qed.

(* ---- templates, on the VM fragment {push.str, abstract hole code, fstr.block.push/pop,
   ld.fs} with the 20-slot hole stack and the 1000-entry value stack of rollvm.go *)

(* hole_pushes_one: whatever the hole's code left above the saved height (any number of
   values, any variable changes), after fstr.block.pop exactly one value is left there:
   its top value, or "" if it left nothing; the stack below and the enclosing holes'
   saved heights are untouched *)
Theorem C13_hole_pushes_one :
  forall (V E : Type) (tostr : V -> list N) (vstr : list N -> V) (cap : nat)
         (c : list (instr V E)) (e : E) (base : list V) (fbs : list nat) (e' : E) (extra : list V),
    (length fbs < FSTR_DEPTH)%nat -> length base <> cap -> length (extra ++ base) <> cap ->
    exec V E tostr vstr cap c {| env := e; stk := base; fb := length base :: fbs |} =
      Done {| env := e'; stk := extra ++ base; fb := length base :: fbs |} ->
    exec V E tostr vstr cap (IFsPush :: c ++ [IFsPop]) {| env := e; stk := base; fb := fbs |} =
      Done {| env := e'; stk := hole_val V vstr extra :: base; fb := fbs |}.
Proof. exact hole_pushes_one_direct. Qed.
Print Assumptions C13_hole_pushes_one.

(* the same at any accepted nesting depth, on any stack (frame form) *)
Theorem C13_hole_framed :
  forall (V E : Type) (tostr : V -> list N) (vstr : list N -> V) (cap : nat)
         (c : list (instr V E)) (s : hsem V E),
    framed V E tostr vstr cap c s ->
    framed V E tostr vstr cap (IFsPush :: c ++ [IFsPop]) (sem_hole V E vstr s).
Proof. exact framed_hole. Qed.
Print Assumptions C13_hole_framed.

(* template_concat: a template whose holes hold well-behaved code (code that does not
   look below its own stack entries — e.g. another template, to any depth) evaluates, on
   top of ANY stack and inside ANY number of open holes, to exactly one string: the
   concatenation in order of its literal segments and the string forms of its holes'
   values; the variables are those the holes left, in order; a hole's error, the nesting
   error at the 21st open hole, or the full-stack error are the only alternatives *)
Theorem C13_template_concat :
  forall (V E : Type) (tostr : V -> list N) (vstr : list N -> V) (cap : nat),
    (forall s, tostr (vstr s) = s) ->
    forall ps : list (tpart V E),
      Forall (part_ok V E tostr vstr cap) ps ->
      framed V E tostr vstr cap (compile V E ps) (tmpl_sem V E tostr vstr ps).
Proof. exact template_concat. Qed.
Print Assumptions C13_template_concat.

(* the value being assembled is not disturbed: a template used as a hole is again
   well-behaved, so the statement nests *)
Theorem C13_template_nests :
  forall (V E : Type) (tostr : V -> list N) (vstr : list N -> V) (cap : nat),
    (forall s, tostr (vstr s) = s) ->
    forall ps : list (tpart V E),
      Forall (part_ok V E tostr vstr cap) ps ->
      part_ok V E tostr vstr cap (THole (compile V E ps) (tmpl_sem V E tostr vstr ps)).
Proof. exact template_is_part. Qed.
Print Assumptions C13_template_nests.

Theorem C13_nesting_limit_is_error :
  forall (V E : Type) (tostr : V -> list N) (vstr : list N -> V) (cap : nat) (s : vmst V E),
    (FSTR_DEPTH <= length (fb s))%nat ->
    step V E tostr vstr cap IFsPush s = Err ENesting \/ step V E tostr vstr cap IFsPush s = Err EOverflow.
Proof. exact nesting_limit_is_error. Qed.
Print Assumptions C13_nesting_limit_is_error.

(* abstract hole code built from the frame-respecting primitives is well-behaved *)
Theorem C13_prim_framed :
  forall (V E : Type) (tostr : V -> list N) (vstr : list N -> V) (cap : nat) (f : prim V E),
    prim_ok V E f -> framed V E tostr vstr cap [IPrim f] (sem_prim V E f).
Proof. exact framed_prim. Qed.
Print Assumptions C13_prim_framed.

(* non-vacuity on a concrete instance: values = sval, one integer variable.
   `a{% x = x + 1 %}b{% x = x * 2 (no value) %}{`<{x}>`}` from x = 4, on a non-empty stack *)
Definition ex_incr : prim sval Z := fun e st => Done ((e + 1)%Z, SInt (e + 1) :: SNull :: st).
Definition ex_dbl : prim sval Z := fun e st => Done ((e * 2)%Z, st).
Definition ex_load : prim sval Z := fun e st => Done (e, SInt e :: st).
Definition ex_hole (f : prim sval Z) : tpart sval Z := THole [IPrim f] (sem_prim sval Z f).
Definition ex_inner : list (tpart sval Z) := [TLit [60]; ex_hole ex_load; TLit [62]].
Definition ex_tmpl : list (tpart sval Z) :=
  [TLit [97]; ex_hole ex_incr; TLit [98]; ex_hole ex_dbl;
   THole (compile sval Z ex_inner) (tmpl_sem sval Z sval_tostr SStr ex_inner)].
Fixpoint ex_nest (n : nat) : list (tpart sval Z) :=
  match n with
  | O => [TLit [55]]
  | S k => let inner := ex_nest k in
           [TLit [76]; THole (compile sval Z inner) (tmpl_sem sval Z sval_tostr SStr inner)]
  end.
Definition ex_run (ps : list (tpart sval Z)) (x : Z) (base : list sval) :=
  exec sval Z sval_tostr SStr 1000%nat (compile sval Z ps) {| env := x; stk := base; fb := [] |}.

Example C13_nonvacuous_template :
  (* "a5b<10>" with x = 10 afterwards, the stack below untouched *)
  ex_run ex_tmpl 4 [SInt 9] = Done {| env := 10%Z; stk := [SStr [97; 53; 98; 60; 49; 48; 62]; SInt 9]; fb := [] |} /\
  tmpl_sem sval Z sval_tostr SStr ex_tmpl 0%nat 4%Z = Done (10%Z, [SStr [97; 53; 98; 60; 49; 48; 62]]) /\
  (* 20 nested holes are accepted, the 21st is the nesting error *)
  ex_run (ex_nest 20%nat) 0 [] = Done {| env := 0%Z; stk := [SStr (repeat 76 20%nat ++ [55])]; fb := [] |} /\
  ex_run (ex_nest 21%nat) 0 [] = Err ENesting /\
  (* a stack that is full is the overflow error *)
  exec sval Z sval_tostr SStr 1%nat (compile sval Z ex_tmpl) {| env := 0%Z; stk := [SNull]; fb := [] |} = Err EOverflow /\
  (* code that pops below the saved height is outside the theorem: stale slots / panic *)
  exec sval Z sval_tostr SStr 1000%nat [IFsPush; IPrim (fun e st => Done (e, tl (tl st))); IFsPop]
       {| env := 0%Z; stk := [SNull; SNull; SNull]; fb := [] |} = Stale.
Proof. vm_compute. repeat split. Qed.

Example C13_nonvacuous_prims : prim_ok sval Z ex_incr /\ prim_ok sval Z ex_dbl /\ prim_ok sval Z ex_load.
Proof. repeat split; intros e base; left; reflexivity. Qed.
