(* C10 — deserialising untrusted or outdated JSON never yields a booby-trapped value.
   Only statements, `exact lemma`, Print Assumptions.  Model: Model/Json.v (decoder modelled
   branch by branch over ARBITRARY JSON ASTs; raw values can express nil pointers, a tag without
   payload and tag/payload mismatches). *)
From Coq Require Import String NArith ZArith List.
From DS Require Import Model.Json Proofs.JsonProofs.
Import ListNotations.
Open Scope string_scope.

(* Whatever the document — missing, extra, ill-typed, null or duplicated fields, unknown type
   ids (incl. the internal 20 / 21), unknown native names, null elements or entries — if
   VMValueFromJSON does not return an error, the value is well-formed: the dynamic type of
   Value agrees with TypeId, no array element / dict entry / attribute is nil, a native
   function is one of the builtins, ints are int64, floats are finite, map keys are unique.
   Holds for EVERY tag table. *)
Theorem C10_of_json_wf :
  forall T j v, of_json T j = Some v -> wf T v = true.
Proof. exact of_json_wf. Qed.

(* the same for json.Unmarshal into a ValueMap (restoring variables) *)
Theorem C10_of_json_map_wf :
  forall T j m, of_json_map T j = Some m -> wf_map T m = true.
Proof. exact of_json_map_wf. Qed.

(* On a well-formed value the modelled observers — ToString/ToRepr, AsBool, ToJSON, ValueEqual in
   both argument positions — never reach a failed type assertion or a nil dereference. *)
Theorem C10_wf_no_trap :
  forall T, tags_ok T = true ->
  forall r, wf T r = true ->
    notrap (r_to_string T r) /\ notrap (r_truthy T r) /\ notrap (r_to_json T r) /\
    (forall r2, wf T r2 = true -> notrap (r_equal T r r2) /\ notrap (r_equal T r2 r)).
Proof. exact wf_no_trap. Qed.

(* together: a decoded value is never a trap for these observers *)
Theorem C10_decoded_no_trap :
  forall T, tags_ok T = true ->
  forall j v, of_json T j = Some v ->
    notrap (r_to_string T v) /\ notrap (r_truthy T v) /\ notrap (r_to_json T v) /\ notrap (r_equal T v v).
Proof. exact decoded_no_trap. Qed.

Print Assumptions C10_of_json_wf.
Print Assumptions C10_of_json_map_wf.
Print Assumptions C10_wf_no_trap.
Print Assumptions C10_decoded_no_trap.

(* ---- non-vacuity: the decoder accepts plenty, including sloppy documents ---------------- *)
Example C10_accepts_sloppy :
  of_json actual_table (JObj [("T", JInt 6); ("zz", JBool true);
                              ("V", JObj [("LIST", JArr [JObj [("t", JInt 4)]; JObj []; JNull])])]) = None /\
  of_json actual_table (JObj [("T", JInt 6); ("zz", JBool true);
                              ("V", JObj [("LIST", JArr [JObj [("t", JInt 4)]; JObj []])])])
  = Some (RArr 6 [RNone 4; RInt 0 0]) /\
  of_json actual_table JNull = Some (RInt 0 0) /\
  of_json actual_table (JObj [("t", JInt 1); ("v", JInt 5)]) = Some (RFloat 1 4617315517961601024).
Proof. vm_compute. repeat split; reflexivity. Qed.

(* ---- the predicate is not trivially true: ill-formed raw values exist and they do trap ---- *)
Example C10_traps_exist :
  wf actual_table (RNone 9) = false /\ r_to_string actual_table (RNone 9) = Trap /\
  wf actual_table (RArr 6 [RNil]) = false /\ r_truthy actual_table RNil = Trap /\
  wf actual_table (RInt 6 1) = false /\ r_to_json actual_table (RInt 6 1) = Trap /\
  r_equal actual_table (RNone 7) (RNone 7) = Trap.
Proof. vm_compute. repeat split; reflexivity. Qed.

(* ---- the checks of the repaired decoder are what makes the theorem true: a decoder without
   them (the code before the repair) is refuted by the historical documents ---------------- *)
Definition dec_value_unchecked (T : json_tags) (j : json) : option rvalue :=
  match j with
  | JObj [(_, JInt t); (_, JObj [(_, JStr n)])] => if (t =? d_native T)%Z then Some (RNone t) else None
  | JObj [(_, JInt t); (_, JObj [(_, JArr [JNull])])] => if (t =? d_array T)%Z then Some (RArr t [RNil]) else None
  | _ => None
  end.

Example C10_checks_are_necessary :
  exists j v, dec_value_unchecked actual_table j = Some v /\ wf actual_table v = false /\
              of_json actual_table j = None.
Proof.
  exists (JObj [("t", JInt 9); ("v", JObj [("name", JStr "nosuch")])]), (RNone 9).
  vm_compute. repeat split; reflexivity.
Qed.
