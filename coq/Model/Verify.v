(* Byte-code verifier for the shape machine of Model/Bytecode.v.

   An ANNOTATION gives, for every pc in [0, len], either None ("not reachable") or an abstract
   state: LOWER BOUNDS of the stack height, of every saved height on the two block stacks, and of
   the dice-state depth; EXACT depths of the two block stacks (the lists have the concrete
   lengths); flags "a detail span exists" and "lastPop is set"; and, for the template-block
   stack, a relative fact  height >= innermost saved height + d  (needed because
   fstr.block.pop pops only when the height differs from the saved one).

   `check` tests that an annotation is inductive.  `infer` guesses one by fixpoint iteration
   and is NOT trusted: `verify` re-checks whatever it returns. *)
From Coq Require Import NArith ZArith List Bool String.
From DS Require Import Model.Bytecode.
Import ListNotations.

Record astate := {
  a_lo : nat;                           (* h >= a_lo *)
  a_blocks : list nat;                  (* pointwise lower bounds of blocks *)
  a_fb : list (nat * option nat);       (* per template block: lower bound of the saved height,
                                           and Some d: saved >= (next outer saved) + d *)
  a_fd : option nat;                    (* Some d: h >= (innermost template-block saved height) + d *)
  a_dice : nat;                         (* dice >= a_dice *)
  a_det : bool;                         (* true: dets >= 1 *)
  a_last : bool                         (* true: lastpop = true *)
}.

Definition a_init : astate :=
  {| a_lo := 0; a_blocks := []; a_fb := []; a_fd := None; a_dice := 0; a_det := false; a_last := false |}.

(* ---------------------------------------------------------------- what an abstract state means *)
Fixpoint fchain (hh : nat) (fd : option nat) (fs : list nat) (fes : list (nat * option nat)) : Prop :=
  match fs, fes with
  | [], [] => True
  | s :: fs', (lb, dp) :: fes' =>
    lb <= s /\ match fd with Some d => s + d <= hh | None => True end /\ fchain s dp fs' fes'
  | _, _ => False
  end.

Definition cons_state (s : sstate) (a : astate) : Prop :=
  a_lo a <= h s /\
  Forall2 le (a_blocks a) (blocks s) /\
  fchain (h s) (a_fd a) (fblocks s) (a_fb a) /\
  a_dice a <= dice s /\
  (a_det a = true -> 1 <= dets s) /\
  (a_last a = true -> lastpop s = true).

Definition annotation := list (option astate).

Definition consistent (annot : annotation) (s : sstate) : Prop :=
  exists a, nth_error annot (pc s) = Some (Some a) /\ cons_state s a.

(* ---------------------------------------------------------------- order: a2 is weaker than a1 *)
Definition opt_le (o2 o1 : option nat) : bool :=
  match o2 with
  | None => true
  | Some d2 => match o1 with Some d1 => d2 <=? d1 | None => false end
  end.

Fixpoint list_le (l2 l1 : list nat) : bool :=
  match l2, l1 with
  | [], [] => true
  | x2 :: r2, x1 :: r1 => if x2 <=? x1 then list_le r2 r1 else false
  | _, _ => false
  end.

Fixpoint fb_le (l2 l1 : list (nat * option nat)) : bool :=
  match l2, l1 with
  | [], [] => true
  | (x2, d2) :: r2, (x1, d1) :: r1 => if x2 <=? x1 then if opt_le d2 d1 then fb_le r2 r1 else false else false
  | _, _ => false
  end.

Definition aleb (a1 a2 : astate) : bool :=
  if a_lo a2 <=? a_lo a1 then
  if list_le (a_blocks a2) (a_blocks a1) then
  if fb_le (a_fb a2) (a_fb a1) then
  if opt_le (a_fd a2) (a_fd a1) then
  if a_dice a2 <=? a_dice a1 then
  if implb (a_det a2) (a_det a1) then implb (a_last a2) (a_last a1)
  else false else false else false else false else false else false.

(* ---------------------------------------------------------------- transfer function *)
Inductive aresult := AErr (r : reason) | AOk (l : list (nat * astate)).

Definition fd_after (fd : option nat) (pops push : nat) : option nat :=
  match fd with
  | Some d => if pops <=? d + push then Some (d + push - pops) else None
  | None => None
  end.

Definition atransfer (len p : nat) (sh : shape) (a : astate) : aresult :=
  let nxt := S p in
  match sh with
  | SBadOperand => AErr BadOperand
  | SSimple e =>
    if e_need_dice e && (a_dice a =? 0) then AErr NoDiceState
    else if a_lo a <? e_pops e then AErr Underflow
    else if e_need_det e && negb (a_det a) then AErr NoDetail
    else if e_need_last e && negb (a_last a) then AErr NoLastPop
    else AOk [ (nxt, {| a_lo := a_lo a - e_pops e + e_push e; a_blocks := a_blocks a; a_fb := a_fb a;
                        a_fd := fd_after (a_fd a) (e_pops e) (e_push e);
                        a_dice := a_dice a + e_dice_up e - e_dice_down e;
                        a_det := a_det a || (0 <? e_det_up e);
                        a_last := a_last a || ((0 <? e_pops e) && negb (e_quiet e)) |}) ]
  | SPeek => if a_lo a =? 0 then AErr Underflow else AOk [ (nxt, a) ]
  | SJmp off =>
    match jump_target len p off with
    | None => AErr BadJump
    | Some t => AOk [ (t, a) ]
    end
  | SJcond off dup =>
    if a_lo a =? 0 then AErr Underflow
    else match jump_target len p off with
         | None => AErr BadJump
         | Some t =>
           let popped := {| a_lo := a_lo a - 1; a_blocks := a_blocks a; a_fb := a_fb a; a_fd := fd_after (a_fd a) 1 0;
                            a_dice := a_dice a; a_det := a_det a; a_last := true |} in
           let kept := {| a_lo := a_lo a; a_blocks := a_blocks a; a_fb := a_fb a; a_fd := a_fd a;
                          a_dice := a_dice a; a_det := a_det a; a_last := true |} in
           AOk [ (nxt, popped); (t, if dup then kept else popped) ]
         end
  | SHalt => AOk []
  | SBlockPush =>
    AOk [ (nxt, {| a_lo := a_lo a; a_blocks := a_lo a :: a_blocks a; a_fb := a_fb a; a_fd := a_fd a;
                   a_dice := a_dice a; a_det := a_det a; a_last := a_last a |}) ]
  | SBlockPop =>
    match a_blocks a with
    | [] => AErr BlockUnderflow
    | b :: r => AOk [ (nxt, {| a_lo := S b; a_blocks := r; a_fb := a_fb a; a_fd := None;
                               a_dice := a_dice a; a_det := a_det a; a_last := a_last a |}) ]
    end
  | SFstrPush =>
    AOk [ (nxt, {| a_lo := a_lo a; a_blocks := a_blocks a; a_fb := (a_lo a, a_fd a) :: a_fb a; a_fd := Some 0;
                   a_dice := a_dice a; a_det := a_det a; a_last := a_last a |}) ]
  | SFstrPop =>
    match a_fb a with
    | [] => AErr BlockUnderflow
    | (b, dp) :: r =>
      (* no pop happens when the height equals the saved one; otherwise one value is popped:
         safe if the height is positive, or known to be >= the saved height *)
      if (a_lo a =? 0) && (match a_fd a with None => true | Some _ => false end) then AErr Underflow
      else AOk [ (nxt, {| a_lo := S b; a_blocks := a_blocks a; a_fb := r; a_fd := option_map S dp;
                          a_dice := a_dice a; a_det := a_det a; a_last := a_last a |}) ]
    end
  end.

(* ---------------------------------------------------------------- the checker *)
Section AllOk.
  Context {A : Type} (f : A -> bool).
  Fixpoint all_ok (l : list A) : bool :=
    match l with [] => true | x :: r => if f x then all_ok r else false end.
End AllOk.

Definition succ_ok (annot : annotation) (qa : nat * astate) : bool :=
  match nth_error annot (fst qa) with
  | Some (Some a'') => aleb (snd qa) a''
  | _ => false
  end.

Definition check_pc (c : code) (annot : annotation) (p : nat) : bool :=
  match nth_error annot p with
  | Some (Some a) =>
    match nth_error c p with
    | Some i => match atransfer (List.length c) p (ishape i) a with
                | AErr _ => false
                | AOk succs => all_ok (succ_ok annot) succs
                end
    | None => true
    end
  | _ => true
  end.

Definition check (c : code) (annot : annotation) : bool :=
  match nth_error annot 0 with
  | Some (Some a0) => if aleb a_init a0 then all_ok (check_pc c annot) (seq 0 (List.length c)) else false
  | _ => false
  end.

(* ---------------------------------------------------------------- inference (untrusted) *)
Definition opt_min (o1 o2 : option nat) : option nat :=
  match o1, o2 with Some x, Some y => Some (Nat.min x y) | _, _ => None end.

Fixpoint list_min (l1 l2 : list nat) : option (list nat) :=
  match l1, l2 with
  | [], [] => Some []
  | x :: r1, y :: r2 => match list_min r1 r2 with Some r => Some (Nat.min x y :: r) | None => None end
  | _, _ => None
  end.

Fixpoint fb_min (l1 l2 : list (nat * option nat)) : option (list (nat * option nat)) :=
  match l1, l2 with
  | [], [] => Some []
  | (x, d1) :: r1, (y, d2) :: r2 =>
    match fb_min r1 r2 with Some r => Some ((Nat.min x y, opt_min d1 d2) :: r) | None => None end
  | _, _ => None
  end.

Definition ajoin (a1 a2 : astate) : option astate :=
  match list_min (a_blocks a1) (a_blocks a2), fb_min (a_fb a1) (a_fb a2) with
  | Some bl, Some fb =>
    Some {| a_lo := Nat.min (a_lo a1) (a_lo a2); a_blocks := bl; a_fb := fb; a_fd := opt_min (a_fd a1) (a_fd a2);
            a_dice := Nat.min (a_dice a1) (a_dice a2); a_det := a_det a1 && a_det a2; a_last := a_last a1 && a_last a2 |}
  | _, _ => None
  end.

Fixpoint set_nth {A} (l : list A) (n : nat) (x : A) : list A :=
  match l, n with
  | [], _ => []
  | _ :: r, 0 => x :: r
  | y :: r, S n' => y :: set_nth r n' x
  end.

Inductive infres :=
| IOk (annot : annotation) (changed : bool)
| IFail (p : nat) (r : reason).

(* merge the successor states into the annotation *)
Fixpoint merge (annot : annotation) (changed : bool) (succs : list (nat * astate)) : infres :=
  match succs with
  | [] => IOk annot changed
  | (q, a') :: rest =>
    match nth_error annot q with
    | Some None => merge (set_nth annot q (Some a')) true rest
    | Some (Some a'') =>
      match ajoin a'' a' with
      | None => IFail q BlockMismatch
      | Some j => if aleb j a'' then merge annot changed rest
                  else merge (set_nth annot q (Some j)) true rest
      end
    | None => IFail q BadJump
    end
  end.

Fixpoint pass (c : code) (len : nat) (cs : code) (p : nat) (annot : annotation) (changed : bool) : infres :=
  match cs with
  | [] => IOk annot changed
  | i :: cs' =>
    match nth_error annot p with
    | Some (Some a) =>
      match atransfer len p (ishape i) a with
      | AErr r => IFail p r
      | AOk succs =>
        match merge annot changed succs with
        | IOk annot' ch' => pass c len cs' (S p) annot' ch'
        | f => f
        end
      end
    | _ => pass c len cs' (S p) annot changed
    end
  end.

Fixpoint iterate (fuel : nat) (c : code) (annot : annotation) : option infres :=
  match fuel with
  | 0 => None
  | S f =>
    match pass c (List.length c) c 0 annot false with
    | IOk annot' true => iterate f c annot'
    | r => Some r
    end
  end.

Definition infer_fuel : nat := 200.

Definition infer (c : code) : option infres :=
  iterate infer_fuel c (Some a_init :: repeat None (List.length c)).

Definition verify (c : code) : bool :=
  match infer c with
  | Some (IOk annot _) => check c annot
  | _ => false
  end.

(* why a program is not accepted (for reports): pc, and the reason *)
Inductive diag :=
| DOk
| DReject (p : nat) (r : reason)
| DNoFixpoint            (* fuel ran out *)
| DCheckFailed.          (* inference produced something `check` does not accept *)

Definition diagnose (c : code) : diag :=
  match infer c with
  | Some (IOk annot _) => if check c annot then DOk else DCheckFailed
  | Some (IFail p r) => DReject p r
  | None => DNoFixpoint
  end.

(* ---------------------------------------------------------------- whole programs: nested bodies *)
(* the body carried by a push.func / push.computed is verified as a program of its own, and so
   are the bodies defined inside it *)
Fixpoint body_ok (i : instr) : bool :=
  match i with
  | Instr _ _ _ (Some b) => if verify b then all_ok body_ok b else false
  | _ => true
  end.

Definition verify_all (c : code) : bool := if verify c then all_ok body_ok c else false.

(* number of nested bodies (transitively) *)
Fixpoint count_bodies_i (i : instr) : nat :=
  match i with
  | Instr _ _ _ (Some b) => S (fold_right (fun x n => count_bodies_i x + n) 0 b)
  | _ => 0
  end.
Definition count_bodies (c : code) : nat := fold_right (fun x n => count_bodies_i x + n) 0 c.

(* all diagnoses that are not DOk, each with the path of push.func / push.computed indices
   leading to the body it concerns ([] = the program itself) *)
Definition diag_here (path : list nat) (c : code) : list (list nat * diag) :=
  match diagnose c with DOk => [] | d => [(path, d)] end.

Fixpoint diagnose_i (path : list nat) (i : instr) : list (list nat * diag) :=
  match i with
  | Instr _ _ _ (Some b) =>
    diag_here path b ++
    (fix go (l : code) (k : nat) : list (list nat * diag) :=
       match l with [] => [] | x :: r => diagnose_i (path ++ [k]) x ++ go r (S k) end) b 0
  | _ => []
  end.

Definition diagnose_all (c : code) : list (list nat * diag) :=
  diag_here [] c ++
  (fix go (l : code) (k : nat) : list (list nat * diag) :=
     match l with [] => [] | x :: r => diagnose_i [k] x ++ go r (S k) end) c 0.

(* the dump is decoded with the numbering of this file: every mnemonic must agree *)
Fixpoint name_ok (i : instr) : bool :=
  match i with
  | Instr t n _ b =>
    if String.eqb (mnemonic t) n then
      match b with Some body => all_ok name_ok body | None => true end
    else false
  end.
Definition names_ok (c : code) : bool := all_ok name_ok c.
