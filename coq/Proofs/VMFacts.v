(* Sanity lemmas about Model/Value.v and Model/VM.v that theorems on top of the VM model will want:
   determinism (by construction), index helpers stay inside their guards, the operand-stack
   invariant top = length live is preserved by every stack primitive, the saturating op counter. *)
From Coq Require Import String NArith ZArith List Bool Lia.
From DS Require Import Model.Str Model.PCG Model.Value Model.VM.
Import ListNotations.
Open Scope Z_scope.

(* ---- run is a function *)
Lemma run_deterministic : forall fuel E c src st o1 o2,
  run fuel E c src st = o1 -> run fuel E c src st = o2 -> o1 = o2.
Proof. intros; congruence. Qed.

Lemma exec_deterministic : forall fuel E m r1 r2, exec fuel E m = r1 -> exec fuel E m = r2 -> r1 = r2.
Proof. intros; congruence. Qed.

(* ---- index helpers *)
Lemma get_real_index_bounds : forall i len k, get_real_index i len = Some k -> 0 <= k < len.
Proof.
  unfold get_real_index; intros i len k.
  destruct (i <? 0) eqn:Hi; cbn zeta.
  - destruct ((len <=? len + i) || (len + i <? 0)) eqn:H; [discriminate|].
    apply orb_false_iff in H; destruct H as [H1 H2].
    apply Z.leb_gt in H1; apply Z.ltb_ge in H2. intros [= <-]; lia.
  - destruct ((len <=? i) || (i <? 0)) eqn:H; [discriminate|].
    apply orb_false_iff in H; destruct H as [H1 H2].
    apply Z.leb_gt in H1; apply Z.ltb_ge in H2. intros [= <-]; lia.
Qed.

(* an in-range index (after negative wrap) is always accepted: no spurious error *)
Lemma get_real_index_complete : forall i len, 0 <= i < len -> get_real_index i len = Some i.
Proof.
  unfold get_real_index; intros i len H.
  assert (E : i <? 0 = false) by (apply Z.ltb_ge; lia).
  rewrite E; cbv zeta; rewrite E.
  assert (E2 : len <=? i = false) by (apply Z.leb_gt; lia). rewrite E2. reflexivity.
Qed.

Lemma get_clamp_real_index_bounds : forall i len, 0 <= len -> 0 <= get_clamp_real_index i len <= len.
Proof.
  unfold get_clamp_real_index; intros i len H.
  destruct (i <? 0) eqn:Hi; cbn zeta.
  - destruct (len + i <? 0) eqn:H1.
    + destruct (len <? 0) eqn:H2; [apply Z.ltb_lt in H2; lia | lia].
    + apply Z.ltb_ge in H1. destruct (len <? len + i) eqn:H2; [lia|]. apply Z.ltb_ge in H2; lia.
  - apply Z.ltb_ge in Hi. replace (i <? 0) with false by (symmetry; apply Z.ltb_ge; lia).
    destruct (len <? i) eqn:H2; [lia|]. apply Z.ltb_ge in H2; lia.
Qed.

(* GetSlice / SetSlice never slice out of range *)
Lemma slice_bounds_ok : forall a b len a' b', 0 <= len -> slice_bounds a b len = (a', b') -> 0 <= a' <= b' /\ b' <= len.
Proof.
  unfold slice_bounds; intros a b len a' b' H.
  pose proof (get_clamp_real_index_bounds a len H). pose proof (get_clamp_real_index_bounds b len H).
  destruct (get_clamp_real_index b len <? get_clamp_real_index a len) eqn:E; intros [= <- <-].
  - lia.
  - apply Z.ltb_ge in E; lia.
Qed.

(* ---- the operand stack: top = number of live slots *)
Definition stack_wf (fr : frame) : Prop := fr_top fr = zlen (fr_live fr).

Lemma new_frame_wf : forall c s, stack_wf (new_frame c s).
Proof. reflexivity. Qed.

Lemma zlen_cons : forall A (x : A) l, zlen (x :: l) = zlen l + 1.
Proof. intros; unfold zlen; cbn [length]; lia. Qed.

Lemma pop_wf : forall fr v fr', stack_wf fr -> pop fr = (v, fr') -> stack_wf fr'.
Proof.
  unfold pop, stack_wf; intros fr v fr' H. destruct (fr_live fr) eqn:E.
  - intros [= <- <-]. unfold fr_set_stack, err_invalid, fr_set_err; destruct (fr_err fr); cbn [fr_top fr_live]; exact H.
  - intros [= <- <-]. unfold fr_set_stack; cbn [fr_top fr_live]. rewrite zlen_cons in H. lia.
Qed.

(* a pop from a non-empty stack takes the top slot and records nothing *)
Lemma pop_nonempty : forall fr v l, fr_live fr = v :: l ->
  fst (pop fr) = v /\ fr_top (snd (pop fr)) = fr_top fr - 1 /\ fr_err (snd (pop fr)) = fr_err fr.
Proof. unfold pop; intros fr v l ->. cbn. auto. Qed.

(* stackPop on the empty stack: no panic; null, and an error is recorded (E3 unless one was there) *)
Lemma pop_empty : forall fr, fr_live fr = [] ->
  fst (pop fr) = VNull /\ fr_err (snd (pop fr)) <> None /\ fr_top (snd (pop fr)) = fr_top fr.
Proof.
  unfold pop, err_invalid; intros fr ->. cbn [fst snd]. split; [reflexivity|]. split.
  - destruct (fr_err fr) eqn:E; unfold fr_set_stack, fr_set_err; cbn [fr_err]; [rewrite E|]; discriminate.
  - destruct (fr_err fr); reflexivity.
Qed.

Lemma push_wf : forall v fr fr', stack_wf fr -> push v fr = Some fr' -> stack_wf fr' /\ fr_top fr' = fr_top fr + 1.
Proof.
  unfold push, stack_wf; intros v fr fr' H. destruct (stack_size <=? fr_top fr); [discriminate|].
  intros [= <-]; unfold fr_set_stack; cbn [fr_top fr_live]. rewrite zlen_cons. split; lia.
Qed.

(* stackPush never fails below the 1000-slot line (the loop head stops a run at top = 1000) *)
Lemma push_some : forall v fr, fr_top fr < stack_size -> exists fr', push v fr = Some fr'.
Proof.
  unfold push; intros v fr H. replace (stack_size <=? fr_top fr) with false by (symmetry; apply Z.leb_gt; lia).
  eexists; reflexivity.
Qed.

Lemma pop_n_aux_wf : forall n fr acc l fr', stack_wf fr -> pop_n_aux n fr acc = (l, fr') -> stack_wf fr'.
Proof.
  induction n; intros fr acc l fr' H; cbn [pop_n_aux].
  - intros [= <- <-]; assumption.
  - destruct (pop fr) as [v fr1] eqn:E. intros H3. eapply IHn; [|exact H3]. eapply pop_wf; eauto.
Qed.

Lemma pop_n_wf : forall n fr l fr', stack_wf fr -> pop_n n fr = (l, fr') -> stack_wf fr'.
Proof.
  unfold pop_n; intros n fr l fr' H. destruct (n <=? 0); [intros [= <- <-]; assumption|].
  destruct (pop_n_aux (Z.to_nat n) fr []) as [l1 fr1] eqn:E.
  pose proof (pop_n_aux_wf _ _ _ _ _ H E) as H1. intros [= <- <-]. exact H1.
Qed.

(* ---- NumOpCount: the saturating add never decreases a non-negative counter and never wraps *)
Lemma ops_add_mono : forall c ops count,
  0 <= ops <= MaxInt64 -> 0 <= count <= MaxInt64 -> ops <= fst (ops_add c ops count) <= MaxInt64.
Proof.
  unfold ops_add, MaxInt64, wrap64, two63, two64; intros c ops count H1 H2; cbn [fst].
  assert (E1 : (9223372036854775807 - ops + 9223372036854775808) mod 18446744073709551616 - 9223372036854775808
               = 9223372036854775807 - ops) by (rewrite Z.mod_small; lia).
  rewrite E1. destruct (9223372036854775807 - ops <? count) eqn:E.
  - lia.
  - apply Z.ltb_ge in E. rewrite Z.mod_small by lia. lia.
Qed.

(* the budget test is exactly "limit set and exceeded" *)
Lemma ops_add_over : forall c ops count,
  snd (ops_add c ops count) = true <-> (0 < cfg_op_limit c /\ cfg_op_limit c < fst (ops_add c ops count)).
Proof.
  unfold ops_add; intros; cbn [fst snd]. rewrite andb_true_iff, !Z.ltb_lt. tauto.
Qed.

(* ---- outcomes of `run` mirror the results of `exec` *)
Lemma run_val_inv : forall fuel E c src st v st', run fuel E c src st = Val v st' ->
  exists m, exec fuel E {| m_fr := new_frame c (Some src);
                           m_w := {| w_heap := vs_heap st; w_pcg := vs_pcg st; w_st := [];
                                     w_chain := [{| c_attrs := vs_attrs st; c_ops := 0 |}] |} |} = Fin m
            /\ st' = state_of m.
Proof.
  unfold run; intros. destruct (exec _ _ _) eqn:E0; try discriminate.
  injection H as <- <-. eexists; split; reflexivity.
Qed.

(* a non-vacuity example: a tiny program really runs to a value *)
Example run_example :
  exists st', run 100 {| e_ftab := []; e_cfg := {| cfg_ignore_div0 := false; cfg_min_mode := false; cfg_max_mode := false;
                                                  cfg_op_limit := 0; cfg_def_expr_empty := true; cfg_st_callback := false |} |}
                  [I OpPushInt (OInt 2); I OpPushInt (OInt 40); I OpAdd ONil; I OpHalt ONil] "2+40"
                  (init_vmstate {| hi := 1; lo := 2 |}) = Val (VInt 42) st' /\ vs_ops st' = 4.
Proof. eexists; split; vm_compute; reflexivity. Qed.

(* the empty-stack pop is an error (E3), counted once more at the next loop head *)
Example run_underflow_example :
  exists st', run 100 {| e_ftab := []; e_cfg := {| cfg_ignore_div0 := false; cfg_min_mode := false; cfg_max_mode := false;
                                       cfg_op_limit := 0; cfg_def_expr_empty := true; cfg_st_callback := false |} |}
      [I OpPop ONil; I OpHalt ONil] "" (init_vmstate {| hi := 1; lo := 2 |}) = Err EOther st' /\ vs_ops st' = 2.
Proof. eexists; split; vm_compute; reflexivity. Qed.

(* a Go panic that is still there: a jump before the start of the code *)
Example run_panic_example :
  run 100 {| e_ftab := []; e_cfg := {| cfg_ignore_div0 := false; cfg_min_mode := false; cfg_max_mode := false;
                                       cfg_op_limit := 0; cfg_def_expr_empty := true; cfg_st_callback := false |} |}
      [I OpJmp (OInt (-5)); I OpHalt ONil] "" (init_vmstate {| hi := 1; lo := 2 |}) = OPanic "code index negative".
Proof. vm_compute; reflexivity. Qed.
