#!/bin/bash
# Authoring helper (never run by a check): re-pin the reference copy of the library used to delimit the recorded finding
# "left-over code of an abandoned grammar alternative" (harness/refds) to /repo's current HEAD.  Run it only after a fix:
# commit to /repo that legitimately changes compiled code, and re-run ./check C03 on the clean tree afterwards.
set -e
cd "$(dirname "$0")/../harness"
test -z "$(git -C /repo status --porcelain)" || { echo "/repo working tree not clean"; exit 1; }
rm -rf refds; mkdir refds
for f in $(cd /repo && ls *.go | grep -v _test); do cp /repo/$f refds/$f; done
git -C /repo rev-parse --short HEAD > refds/PINNED_COMMIT
echo "pinned to $(cat refds/PINNED_COMMIT)"
