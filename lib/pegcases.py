"""K1 cases: inputs -> Go Parse observations -> Coq case files for Corr/CorrK1.v; also regenerates Gen/Grammar.v."""
import base64
import json
import os
import re
import subprocess

import common
from common import Broken

ALL_ON = [True, True, True, True, False, False, False]


def regenerate_grammar():
    """Translator step: dump the grammar from the harness (built from /repo's working tree), rewrite
    coq/Gen/Grammar.v if its content changed, rebuild dependents. Returns translator statistics."""
    rows, _ = common.run_harness(["grammar"])
    gfile = os.path.join(common.WORK, f"grammar-{os.getpid()}.json")
    with open(gfile, "w") as f:
        json.dump(rows[0], f)
    out = os.path.join(common.COQ, "Gen", "Grammar.v")
    tmp = out + f".{os.getpid()}.tmp"
    r = subprocess.run(["python3", os.path.join(common.VERIF, "tools", "gen_grammar.py"), gfile, tmp],
                       capture_output=True, text=True, env=dict(os.environ, VERIF_REPO=common.REPO))
    os.unlink(gfile)
    if r.returncode != 0:
        raise Broken("translator tools/gen_grammar.py failed", r.stderr[-3000:])
    stats = json.loads(r.stdout.strip().splitlines()[-1])
    with common.Lock("coqmake"):
        new = open(tmp).read()
        old = open(out).read() if os.path.exists(out) else None
        if new != old:
            os.replace(tmp, out)
            common.log("[gen] Gen/Grammar.v changed -> rebuilt")
        else:
            os.unlink(tmp)
    stats["untranslated"] = stats["untranslated_actions"] + stats["untranslated_preds"] + stats["problems"]
    return stats


def scrape_test_sources():
    """Source strings the repository's own tests feed to the VM."""
    out = []
    for fn in sorted(os.listdir(common.REPO)):
        if not fn.endswith("_test.go"):
            continue
        src = open(os.path.join(common.REPO, fn), encoding="utf-8").read()
        for m in re.finditer(r'\b(?:Run|Parse|simpleExecute\w*|RunExpr)\(\s*(?:vm,\s*)?("(?:[^"\\\n]|\\.)*"|`[^`]*`)', src):
            lit = m.group(1)
            if lit.startswith("`"):
                s = lit[1:-1]
            else:
                try:
                    s = json.loads(lit.replace("\\'", "'")) if "\\x" not in lit else None
                except Exception:
                    s = None
                if s is None:
                    continue
            out.append(s.encode("utf-8", "surrogatepass") if isinstance(s, str) else s)
    return list(dict.fromkeys(out))


def go_parse(inputs, pres=None):
    """inputs: list of (bytes, flags); pres: optional list of bytes run before on the same VM. Returns harness rows (same order)."""
    pres = pres or [b""] * len(inputs)
    lines = [json.dumps({"b64": base64.b64encode(b).decode(), "flags": fl, "pre": base64.b64encode(p).decode()})
             for (b, fl), p in zip(inputs, pres)]
    rows, _ = common.run_harness(["k1"], stdin="\n".join(lines) + "\n", timeout=900)
    if len(rows) != len(inputs):
        raise Broken("harness k1 returned %d rows for %d inputs (crash?)" % (len(rows), len(inputs)))
    return rows


def case_term(b, fl, r):
    flags = "[" + ";".join("true" if x else "false" for x in fl) + "]"
    by = "[" + ";".join(str(x) for x in b) + "]"
    ops = "[" + ";".join(str(x) for x in (r.get("ops") or [])) + "]"
    f = r["fail"]
    return (f"({flags}, {by}, ({'true' if r['ok'] else 'false'}, {max(r['offset'], 0)}, {r['cnt']}, ({f[0]},{f[1]},{f[2]}), {ops}))")


HEADER = ("From Coq Require Import NArith List.\nFrom DS Require Import Model.Peg Gen.Grammar Corr.CorrK1.\nImport ListNotations.\n"
          "Open Scope N_scope.\nSet Printing Width 1000000. Set Printing Depth 10000000.\n")


def cases_v(triples):
    return (HEADER + "Definition cases : list k1_case := [\n" + ";\n".join(case_term(b, fl, r) for b, fl, r in triples) + "].\n"
            "Definition bad := Eval vm_compute in bad_k1 0 cases.\nPrint bad.\n")


def correspond(inputs, rows, tag, shard=120):
    """returns indices of disagreeing cases (Go panics are excluded: they are reported separately)"""
    triples = [(b, fl, r) for (b, fl), r in zip(inputs, rows)]
    idx = [i for i, (_, _, r) in enumerate(triples) if not r.get("panic")]
    ks = list(range(0, len(idx), shard))
    outs = common.coq_eval_many([(f"{tag}_{k}", cases_v([triples[i] for i in idx[k:k + shard]])) for k in ks], workers=12)
    bad = []
    for k, out in zip(ks, outs):
        bad += [idx[k + int(x.replace("%N", ""))] for x in common.parse_coq_list(out, "bad")]
    return bad
