(* Model of valuemap.go (a type-specialised copy of Go's sync.Map + Length + Clear),
   sequential semantics: each method is transliterated, including the fast path on the
   read map, the slow path under the lock, missLocked promotion, dirtyLocked copy with
   tryExpungeLocked, and entry sharing between the read map and the dirty map
   (entries are heap cells addressed by an id; both maps hold ids).
   Writes to a nil dirty map are explicit Panic outcomes (`ok := false`). *)
From stdpp Require Import gmap.
From Coq Require Import NArith.

Definition key := N.
Definition val := N.
Definition eid := N.

Inductive cell := CNil | CExp | CVal (v : val).

Record vmap := {
  rd : gmap key eid;             (* read.m *)
  amended : bool;                (* read.amended *)
  dirty : option (gmap key eid); (* m.dirty, None = nil map *)
  misses : nat;
  cells : gmap eid cell;         (* heap of entries *)
  nexte : eid;                   (* allocator *)
  ok : bool;                     (* false after a Go panic (write to nil map) *)
}.

Definition vm_init : vmap :=
  {| rd := ∅; amended := false; dirty := None; misses := 0; cells := ∅; nexte := 0%N; ok := true |}.

Definition set_cell (m : vmap) (e : eid) (c : cell) : vmap :=
  {| rd := rd m; amended := amended m; dirty := dirty m; misses := misses m;
     cells := <[e := c]> (cells m); nexte := nexte m; ok := ok m |}.
Definition get_cell (m : vmap) (e : eid) : cell := default CNil (cells m !! e).

Definition dirty_len (m : vmap) : nat := match dirty m with Some d => size d | None => 0 end.
Definition dirty_get (m : vmap) (k : key) : option eid := match dirty m with Some d => d !! k | None => None end.

(* m.dirty[k] = e : panics on a nil map *)
Definition dirty_put (m : vmap) (k : key) (e : eid) : vmap :=
  match dirty m with
  | Some d => {| rd := rd m; amended := amended m; dirty := Some (<[k := e]> d); misses := misses m;
                 cells := cells m; nexte := nexte m; ok := ok m |}
  | None => {| rd := rd m; amended := amended m; dirty := None; misses := misses m;
               cells := cells m; nexte := nexte m; ok := false |}
  end.
(* delete(m.dirty, k): no-op on a nil map *)
Definition dirty_del (m : vmap) (k : key) : vmap :=
  match dirty m with
  | Some d => {| rd := rd m; amended := amended m; dirty := Some (delete k d); misses := misses m;
                 cells := cells m; nexte := nexte m; ok := ok m |}
  | None => m
  end.

Definition miss_locked (m : vmap) : vmap :=
  let ms := S (misses m) in
  if ms <? dirty_len m then
    {| rd := rd m; amended := amended m; dirty := dirty m; misses := ms; cells := cells m; nexte := nexte m; ok := ok m |}
  else
    {| rd := default ∅ (dirty m); amended := false; dirty := None; misses := 0;
       cells := cells m; nexte := nexte m; ok := ok m |}.

(* dirtyLocked: copy the live entries of read into a fresh dirty map, expunging nil ones *)
Definition dirty_locked (m : vmap) : vmap :=
  match dirty m with
  | Some _ => m
  | None =>
    let step (acc : gmap key eid * gmap eid cell) (ke : key * eid) :=
        let '(d, cs) := acc in let '(k, e) := ke in
        match default CNil (cs !! e) with
        | CNil => (d, <[e := CExp]> cs)
        | CExp => (d, cs)
        | CVal _ => (<[k := e]> d, cs)
        end in
    let '(d, cs) := fold_left step (map_to_list (rd m)) (∅, cells m) in
    {| rd := rd m; amended := amended m; dirty := Some d; misses := misses m; cells := cs; nexte := nexte m; ok := ok m |}
  end.

Definition set_amended (m : vmap) (b : bool) : vmap :=
  {| rd := rd m; amended := b; dirty := dirty m; misses := misses m; cells := cells m; nexte := nexte m; ok := ok m |}.

(* the `else` branch shared by Store and LoadOrStore: a key in neither map *)
Definition add_new (m : vmap) (k : key) (v : val) : vmap :=
  let m := if amended m then m else set_amended (dirty_locked m) true in
  let e := nexte m in
  let m := {| rd := rd m; amended := amended m; dirty := dirty m; misses := misses m;
              cells := <[e := CVal v]> (cells m); nexte := (e + 1)%N; ok := ok m |} in
  dirty_put m k e.

Definition entry_load (m : vmap) (e : eid) : option val :=
  match get_cell m e with CVal v => Some v | _ => None end.

Definition vm_load (m : vmap) (k : key) : vmap * option val :=
  match rd m !! k with
  | Some e => (m, entry_load m e)
  | None =>
    if amended m then
      let e := dirty_get m k in
      let m' := miss_locked m in
      (m', match e with Some e => entry_load m e | None => None end)
    else (m, None)
  end.

Definition vm_store (m : vmap) (k : key) (v : val) : vmap :=
  match rd m !! k with
  | Some e =>
    match get_cell m e with
    | CExp => (* slow path: unexpungeLocked, m.dirty[key] = e, storeLocked *)
      set_cell (dirty_put (set_cell m e CNil) k e) e (CVal v)
    | _ => set_cell m e (CVal v)          (* tryStore succeeded *)
    end
  | None =>
    match dirty_get m k with
    | Some e => set_cell m e (CVal v)
    | None => add_new m k v
    end
  end.

(* tryLoadOrStore on a non-expunged entry *)
Definition entry_load_or_store (m : vmap) (e : eid) (v : val) : vmap * (option val * bool) :=
  match get_cell m e with
  | CVal x => (m, (Some x, true))
  | CNil => (set_cell m e (CVal v), (Some v, false))
  | CExp => (m, (None, false))
  end.

Definition vm_load_or_store (m : vmap) (k : key) (v : val) : vmap * (option val * bool) :=
  match rd m !! k with
  | Some e =>
    match get_cell m e with
    | CExp => entry_load_or_store (dirty_put (set_cell m e CNil) k e) e v
    | _ => entry_load_or_store m e v
    end
  | None =>
    match dirty_get m k with
    | Some e => let '(m1, r) := entry_load_or_store m e v in (miss_locked m1, r)
    | None => (add_new m k v, (Some v, false))
    end
  end.

Definition entry_delete (m : vmap) (e : eid) : vmap * option val :=
  match get_cell m e with
  | CVal v => (set_cell m e CNil, Some v)
  | _ => (m, None)
  end.

Definition vm_load_and_delete (m : vmap) (k : key) : vmap * option val :=
  match rd m !! k with
  | Some e => entry_delete m e
  | None =>
    if amended m then
      let e := dirty_get m k in
      let m1 := miss_locked (dirty_del m k) in
      match e with Some e => entry_delete m1 e | None => (m1, None) end
    else (m, None)
  end.

Definition promote (m : vmap) : vmap :=
  if amended m then
    {| rd := default ∅ (dirty m); amended := false; dirty := None; misses := 0;
       cells := cells m; nexte := nexte m; ok := ok m |}
  else m.

(* Range with a callback that always continues: the live pairs of the (promoted) read map *)
Definition live_pairs (m : vmap) (mp : gmap key eid) : list (key * val) :=
  omap (fun ke => match get_cell m ke.2 with CVal v => Some (ke.1, v) | _ => None end) (map_to_list mp).

Definition vm_range (m : vmap) : vmap * list (key * val) :=
  let m' := promote m in (m', live_pairs m' (rd m')).

(* Length after the fix of defect #9: live entries of the map that is complete *)
Definition vm_length (m : vmap) : nat :=
  if amended m then length (live_pairs m (default ∅ (dirty m))) else length (live_pairs m (rd m)).

(* Length as in the unrepaired code: counts tombstones too *)
Definition vm_length_raw (m : vmap) : nat :=
  if amended m then dirty_len m else size (rd m).

Definition vm_clear (m : vmap) : vmap :=
  if (size (rd m) =? 0) && negb (amended m) then m
  else {| rd := ∅; amended := false; dirty := Some ∅; misses := 0; cells := cells m; nexte := nexte m; ok := ok m |}.

(* ---- operations and results, one step function ------------------------ *)
Inductive vop :=
| OLoad (k : key) | OStore (k : key) (v : val) | OLoadOrStore (k : key) (v : val)
| OLoadAndDelete (k : key) | ODelete (k : key) | OClear | ORange | OLength.

Inductive vres :=
| RNone                                   (* Store / Delete / Clear *)
| ROpt (v : option val)                   (* Load, LoadAndDelete: value, ok *)
| ROptB (v : option val) (loaded : bool)  (* LoadOrStore *)
| RPairs (l : list (key * val))           (* Range: sorted by key *)
| RLen (n : nat).

Fixpoint insert_pair (p : key * val) (l : list (key * val)) : list (key * val) :=
  match l with
  | [] => [p]
  | q :: r => if (p.1 <=? q.1)%N then p :: l else q :: insert_pair p r
  end.
Definition sort_pairs (l : list (key * val)) : list (key * val) := foldr insert_pair [] l.

Definition vm_step (m : vmap) (o : vop) : vmap * vres :=
  match o with
  | OLoad k => let '(m', r) := vm_load m k in (m', ROpt r)
  | OStore k v => (vm_store m k v, RNone)
  | OLoadOrStore k v => let '(m', (r, b)) := vm_load_or_store m k v in (m', ROptB r b)
  | OLoadAndDelete k => let '(m', r) := vm_load_and_delete m k in (m', ROpt r)
  | ODelete k => let '(m', _) := vm_load_and_delete m k in (m', RNone)
  | OClear => (vm_clear m, RNone)
  | ORange => let '(m', l) := vm_range m in (m', RPairs (sort_pairs l))
  | OLength => (m, RLen (vm_length m))
  end.

(* ---- the abstract specification: an ordinary finite map ---------------- *)
Definition spec := gmap key val.

Definition spec_step (s : spec) (o : vop) : spec * vres :=
  match o with
  | OLoad k => (s, ROpt (s !! k))
  | OStore k v => (<[k := v]> s, RNone)
  | OLoadOrStore k v =>
    match s !! k with
    | Some x => (s, ROptB (Some x) true)
    | None => (<[k := v]> s, ROptB (Some v) false)
    end
  | OLoadAndDelete k => (delete k s, ROpt (s !! k))
  | ODelete k => (delete k s, RNone)
  | OClear => (∅, RNone)
  | ORange => (s, RPairs (sort_pairs (map_to_list s)))
  | OLength => (s, RLen (size s))
  end.

(* abstraction function *)
Definition lookup_live (m : vmap) (mp : gmap key eid) (k : key) : option val :=
  match mp !! k with Some e => entry_load m e | None => None end.

Definition abs_lookup (m : vmap) (k : key) : option val :=
  match rd m !! k with
  | Some e => entry_load m e
  | None => if amended m then lookup_live m (default ∅ (dirty m)) k else None
  end.

(* run a whole history *)
Fixpoint vm_run (m : vmap) (ops : list vop) : vmap * list vres :=
  match ops with
  | [] => (m, [])
  | o :: r => let '(m1, x) := vm_step m o in let '(m2, xs) := vm_run m1 r in (m2, x :: xs)
  end.
Fixpoint spec_run (s : spec) (ops : list vop) : spec * list vres :=
  match ops with
  | [] => (s, [])
  | o :: r => let '(s1, x) := spec_step s o in let '(s2, xs) := spec_run s1 r in (s2, x :: xs)
  end.
