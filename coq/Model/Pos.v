(* C19 — position bookkeeping of the generated pigeon parser (roll.peg.go).

   bytes; Go's utf8.DecodeRune; the parser's `read()` on (line, col, offset, w, rn);
   the plain "1-based line / 1-based column (in runes) of a byte offset"; the predicate
   `consistent input pt` relating the two.  No proofs here (Proofs/ErrFmtProofs.v). *)
From Coq Require Import NArith List Bool Arith.
Import ListNotations.

Definition bytes := list N.

Definition RuneError : N := 65533.
Definition NL : N := 10.

(* ---- utf8.DecodeRune -------------------------------------------------------------------
   `first[p0]` / `acceptRanges` of unicode/utf8 as a decision list: for a lead byte the size
   of the sequence and the accepted range of the SECOND byte.  ASCII is handled before.
   0x80..0xC1 and 0xF5..0xFF are invalid lead bytes (and so is anything >= 256: the model's
   bytes are unbounded N, a value outside 0..255 can never come from Go). *)
Definition lead (p0 : N) : option (nat * N * N) :=
  (if p0 <? 194 then None
   else if p0 <? 224 then Some (2%nat, 128, 191)
   else if p0 =? 224 then Some (3%nat, 160, 191)
   else if p0 <? 237 then Some (3%nat, 128, 191)
   else if p0 =? 237 then Some (3%nat, 128, 159)
   else if p0 <? 240 then Some (3%nat, 128, 191)
   else if p0 =? 240 then Some (4%nat, 144, 191)
   else if p0 <? 244 then Some (4%nat, 128, 191)
   else if p0 =? 244 then Some (4%nat, 128, 143)
   else None)%N.

Definition cont (b : N) : bool := ((128 <=? b) && (b <=? 191))%N.

(* Go masks and shifts: p0&mask2<<6 | b1&maskx ... ; the fields do not overlap, so the value is
   the same as with mod / * / + (which keeps the arithmetic lemmas within `lia`). *)
Definition decode (p : bytes) : N * nat :=
  match p with
  | [] => (RuneError, 0)                      (* n < 1 *)
  | p0 :: t =>
    if (p0 <? 128)%N then (p0, 1) else
    match lead p0 with
    | None => (RuneError, 1)
    | Some (sz, lo, hi) =>
      if length p <? sz then (RuneError, 1) else          (* n < sz *)
      match t with
      | [] => (RuneError, 1)
      | b1 :: t1 =>
        if ((b1 <? lo) || (hi <? b1))%N then (RuneError, 1) else
        if sz <=? 2 then (((p0 mod 32) * 64 + b1 mod 64)%N, 2) else
        match t1 with
        | [] => (RuneError, 1)
        | b2 :: t2 =>
          if negb (cont b2) then (RuneError, 1) else
          if sz <=? 3 then (((p0 mod 16) * 4096 + (b1 mod 64) * 64 + b2 mod 64)%N, 3) else
          match t2 with
          | [] => (RuneError, 1)
          | b3 :: _ =>
            if negb (cont b3) then (RuneError, 1) else
            (((p0 mod 8) * 262144 + (b1 mod 64) * 4096 + (b2 mod 64) * 64 + b3 mod 64)%N, 4)
          end
        end
      end
    end
  end.

(* ---- parser point ------------------------------------------------------------------------
   type savepoint struct { position{line,col,offset}; rn rune; w int } *)
Record pt := mkPt { line : nat; col : nat; off : nat; w : nat; rn : N }.

(* newParser: pt = savepoint{position: position{line: 1}} *)
Definition pt0 : pt := mkPt 1 0 0 0 0.

(* func (p *parser) read():
     p.pt.offset += p.pt.w                      -- by the PREVIOUS rune's width
     rn, n := utf8.DecodeRune(p.data[p.pt.offset:])   -- slice bound panic when offset > len: None
     p.pt.rn = rn; p.pt.w = n; p.pt.col++
     if rn == '\n' { p.pt.line++; p.pt.col = 0 }
   (the invalid-encoding error it may add is not part of the position) *)
Definition read (inp : bytes) (s : pt) : option pt :=
  let o := off s + w s in
  if length inp <? o then None else
  let '(r, n) := decode (skipn o inp) in
  if (r =? NL)%N then Some (mkPt (S (line s)) 0 o n r)
  else Some (mkPt (line s) (S (col s)) o n r).

(* n reads from the initial point *)
Fixpoint run (inp : bytes) (n : nat) : option pt :=
  match n with
  | 0 => Some pt0
  | S k => match run inp k with Some s => read inp s | None => None end
  end.

(* The points the parser can hold: `parse()` reads once ("advance to first rune"); every
   matcher (parseAnyMatcher, parseCharClassMatcher, parseLitMatcher) calls read() only after
   the current rune matched, and EOF (rn = RuneError, w = 0) matches nothing, so read() is never
   called at EOF; restore() / memoised results only copy points held before. *)
Inductive reach (inp : bytes) : pt -> Prop :=
| reach_first s : read inp pt0 = Some s -> reach inp s
| reach_next s s' : reach inp s -> w s > 0 -> read inp s = Some s' -> reach inp s'.

(* ---- the plain position of a rune boundary -------------------------------------------------
   plainK inp k = (o, L, C): the k-th rune starts at byte o, which is on line L (1-based, lines
   separated by the rune '\n') at column C (1-based, counted in runes). *)
Fixpoint plainK (inp : bytes) (k : nat) : nat * nat * nat :=
  match k with
  | 0 => (0, 1, 1)
  | S k' =>
    let '(o, L, C) := plainK inp k' in
    let '(r, n) := decode (skipn o inp) in
    if (r =? NL)%N then (o + n, S L, 1) else (o + n, L, S C)
  end.

Definition bnd (inp : bytes) (k : nat) : nat := fst (fst (plainK inp k)).

(* all of the first k runes are real (no step taken at the end of input) *)
Definition valid (inp : bytes) (k : nat) : Prop :=
  forall j, j < k -> snd (decode (skipn (bnd inp j) inp)) > 0.

(* byte offset o is a rune boundary whose plain line / column are L / C *)
Definition plain_lc (inp : bytes) (o L C : nat) : Prop :=
  exists k, valid inp k /\ plainK inp k = (o, L, C).

(* What (line, col) of a parser point mean under the code's convention: they are the plain line
   and column of the offset, EXCEPT when the rune at the offset is a newline: then the point
   already names the next line, column 0. *)
Definition consistent (inp : bytes) (s : pt) : Prop :=
  exists L C,
    plain_lc inp (off s) L C /\
    decode (skipn (off s) inp) = (rn s, w s) /\
    off s + w s <= length inp /\
    (if (rn s =? NL)%N then line s = S L /\ col s = 0 else line s = L /\ col s = C).

(* ---- the position the error formatter receives ------------------------------------------
   parser.maxFailPos starts as {line 1, col 1, offset 0}; failAt replaces it only by a position
   with a strictly larger offset, and keeps the first one recorded at that offset.  Hence: offset 0
   is always reported as 1:1, an offset > 0 as the parser point that stands there. *)
Fixpoint seek (fuel : nat) (inp : bytes) (s : pt) (target : nat) : option pt :=
  if off s =? target then Some s
  else if w s =? 0 then None
  else match fuel with
       | 0 => None
       | S f => match read inp s with
                | Some s' => seek f inp s' target
                | None => None
                end
       end.

Definition point_at (inp : bytes) (target : nat) : option pt :=
  match read inp pt0 with
  | Some s => seek (length inp) inp s target
  | None => None
  end.

(* (line, col) of maxFailPos for a furthest failure at byte `target` *)
Definition fail_pos (inp : bytes) (target : nat) : option (nat * nat) :=
  if target =? 0 then Some (1, 1)
  else match point_at inp target with
       | Some s => Some (line s, col s)
       | None => None
       end.
