"""C02 — evaluation agrees with the language's definitional semantics.

Python generates ASTs of the core fragment (coq/Model/Ast.v) as Coq terms; Coq computes, per case, the source text
under several whitespace / parenthesisation choices (`print`), the reference byte-code (`compile`) and the expected
observable (`denote_history`: value or error class, final variables); the real parser + VM (`harness k2`) run exactly
the printed texts on one VM per history; compared: K4 = byte-code instruction by instruction (detail-span operands
ignored), K3 = value / error / error class / variables after every program of the history."""
import json
import os
import random
import re
import time

import common
import k2cases
from common import Broken

LEVEL = "proof"
PID = "C02"

HEADER = ("From Coq Require Import String NArith ZArith List.\n"
          "From DS Require Import Model.Str Model.PCG Model.Value Model.VM Model.Ast Model.Denote Model.Compile Corr.CorrK2 Corr.Corr02.\n"
          "Import ListNotations.\nOpen Scope string_scope.\nOpen Scope N_scope.\n"
          "Set Printing Width 100000000. Set Printing Depth 100000000.\n")

MY_FILES = ["Model/Ast.v", "Model/Denote.v", "Model/Compile.v", "Corr/Corr02.v", "Proofs/CompileProofs.v"]

# findings this module knows how to recognise (key -> deterministic replay); the registered text comes from
# known_findings.json when the key is there
FINDINGS = {
    "while-body-stack-leak": "every value-producing statement of a `while` body leaks one operand-stack slot per iteration, so a loop of "
                             ">= ~1000 iterations fails with 执行栈到达溢出线 although the documented semantics lets it finish: "
                             "`i=0; while i<2000 {i=i+1}; i`",
    "newline-after-bracket-value-not-a-separator": "a newline after a value whose rule already consumed trailing blanks (true/false/null, a quoted "
                                                   "string, `]` `)` `}`) does not separate statements: `true\\n2` stops after `true`",
    "paren-lead-ne-truncated": "an expression in statement / exprRoot position that starts with a parenthesis closed right before `!=` is cut after "
                               "the parenthesis (nestedBoost's look-ahead class lacks `!`): `(1) != 1` returns 1, `x = (1) != 1` stores 1",
    "index-eq-truncated": "an index closed right before `==` is not parsed (item_getX's `!'='` guard, meant for `a[0] = v`, also fires on `==`): "
                          "`x=[1]; x[0] == 1` returns the array `[1]` (parse stops after `x`), `y = x[0] == 1` stores the array",
    "logic-and-glued-identifier": "`&&` directly followed by an identifier (or true/false/null) is read as bitwise `&` plus a raw load `&name`: "
                                  "`x=2; 1 &&x` returns 0 (1 & 2), `true &&false` is a type error",
}

VARS = ["x", "y", "z", "u", "v", "w", "n", "t1", "hp", "力量", "_u", "val"]
COUNTERS = ["i", "j", "k"]
INTS = [0, 1, 2, 3, 5, 7, 10, 100, 2147483647, 2147483648, 4294967296, 4611686018427387904, 9223372036854775806,
        9223372036854775807, 9223372036854775808]
# strings mixing 1-, 2-, 3- and 4-byte characters: a character index is not a byte offset
MIXED_STRS = ["abc", "力量x", "q", "中abcd", "HP：12/34", "aé力b", "x力y量z", "é1", "a😀b", "力"]
STRS = ["", "a", "ab", "力", "it's", "a\\b", "x y", "0", "line\nbreak", "{q}", "tab\t."]


# ---------------------------------------------------------------- AST -> Coq
def cstr(s):
    return k2cases.cstr(s)


BIN = {"+": "BAdd", "-": "BSub", "*": "BMul", "/": "BDiv", "%": "BMod", "^": "BPow", "??": "BNullCo", "<": "BLt", "<=": "BLe", "==": "BEq",
       "!=": "BNe", ">=": "BGe", ">": "BGt", "&": "BBitAnd", "|": "BBitOr", "&&": "BAnd"}


def eterm(e):
    k = e[0]
    if k == "int":
        return f"(EInt {e[1]})"
    if k == "str":
        return f"(EStr {cstr(e[1])})"
    if k in ("null", "true", "false"):
        return {"null": "ENull", "true": "ETrue", "false": "EFalse"}[k]
    if k == "var":
        return f"(EVar {cstr(e[1])})"
    if k == "assign":
        return f"(EAssign {cstr(e[1])} {eterm(e[2])})"
    if k == "neg":
        return f"(EUn UNeg {eterm(e[1])})"
    if k == "pos":
        return f"(EUn UPos {eterm(e[1])})"
    if k == "bin":
        return f"(EBin {BIN[e[1]]} {eterm(e[2])} {eterm(e[3])})"
    if k == "or":
        return f"(EOr {eterm(e[1])} {eterm(e[2])})"
    if k == "tern":
        return f"(ETern {eterm(e[1])} {eterm(e[2])} {eterm(e[3])})"
    if k == "arr":
        return "(EArr [" + ";".join(eterm(x) for x in e[1]) + "])"
    if k == "idx":
        return f"(EIdx {eterm(e[1])} {eterm(e[2])})"
    if k == "roll":
        return f"(ERoll {eterm(e[1])} {eterm(e[2])})"
    raise ValueError(k)


def sterm(s):
    k = s[0]
    if k == "nop":
        return "SNop"
    if k == "expr":
        return f"(SExpr {eterm(s[1])})"
    if k == "seq":
        return f"(SSeq {sterm(s[1])} {sterm(s[2])})"
    if k == "if":
        return f"(SIf {eterm(s[1])} {sterm(s[2])} {sterm(s[3])})"
    if k == "while":
        return f"(SWhile {eterm(s[1])} {sterm(s[2])})"
    if k == "break":
        return "SBreak"
    if k == "continue":
        return "SContinue"
    raise ValueError(k)


def seq(stmts):
    stmts = list(stmts)
    if not stmts:
        return ("nop",)
    out = stmts[-1]
    for s in reversed(stmts[:-1]):
        out = ("seq", s, out)
    return out


def nodes(t, acc):
    """constructor histogram"""
    acc[t[0] if t[0] != "bin" else "bin" + t[1]] = acc.get(t[0] if t[0] != "bin" else "bin" + t[1], 0) + 1
    for x in t[1:]:
        if isinstance(x, tuple):
            nodes(x, acc)
        elif isinstance(x, list):
            for y in x:
                nodes(y, acc)


# ---------------------------------------------------------------- printer (mirror of coq/Model/Ast.v `print`)
# Coq checks, case by case, that this text IS `print (mk_ws seed) ast` (String.eqb inside Corr02.c02_check), so a
# divergence of the mirror is reported, never silently used.
def mk_ws(seed):
    a = ((seed + 1) * 2654435761) & 1099511627775
    return lambda i: ((a + (i + 7) * (i + 13) * 40503 + i * 977) >> 6) & 65535


BIN_LEVEL = {"&&": 3, "|": 4, "&": 5, "<": 6, "<=": 6, "==": 6, "!=": 6, ">=": 6, ">": 6, "+": 7, "-": 7, "*": 8, "/": 8, "%": 8, "??": 9, "^": 10}


def level_of(e):
    k = e[0]
    return {"assign": 0, "tern": 1, "or": 2, "neg": 11, "pos": 11}.get(k, BIN_LEVEL[e[1]] if k == "bin" else 12)


def esc(b):
    out = bytearray()
    for c in b:
        if c == 92:
            out += b"\\\\"
        elif c == 39:
            out += b"\\'"
        elif c == 10:
            out += b"\\n"
        elif c == 13:
            out += b"\\r"
        elif c == 9:
            out += b"\\t"
        elif c == 12:
            out += b"\\f"
        else:
            out.append(c)
    return bytes(out)


def etoks(ws, e, lvl, acc):
    """acc: token list so far (in order); returns the extended list (new object)"""
    wrap = level_of(e) < lvl or ws(len(acc)) % 7 == 0
    acc0 = acc + [("LP", b"(")] if wrap else acc
    k = e[0]
    if k == "int":
        body = acc0 + [("Num", str(e[1]).encode())]
    elif k == "str":
        body = acc0 + [("Str", b"'" + esc(e[1].encode("utf-8")) + b"'")]
    elif k in ("null", "true", "false"):
        body = acc0 + [("Kw", k.encode())]
    elif k == "var":
        body = acc0 + [("Id", e[1].encode("utf-8"))]
    elif k == "assign":
        body = etoks(ws, e[2], 0, acc0 + [("IdL", e[1].encode("utf-8")), ("Assign", b"=")])
    elif k in ("neg", "pos"):
        body = etoks(ws, e[1], 12, acc0 + [("Un", b"-" if k == "neg" else b"+")])
    elif k == "bin":
        o = e[1]
        a1 = etoks(ws, e[2], BIN_LEVEL[o], acc0)
        if o == "==" and a1[-1][0] == "RBidx":
            a1 = etoks(ws, e[2], 13, acc0)
        text = ("**" if ws(len(a1)) % 2 == 0 else "^") if o == "^" else o
        rl = 10 if o in ("*", "/", "%") else BIN_LEVEL[o] + 1
        body = etoks(ws, e[3], rl, a1 + [("Op", text.encode())])
    elif k == "or":
        body = etoks(ws, e[2], 3, etoks(ws, e[1], 2, acc0) + [("Op", b"||")])
    elif k == "tern":
        a1 = etoks(ws, e[1], 2, acc0) + [("Q", b"?")]
        a2 = etoks(ws, e[2], 2, a1) + [("Colon", b":")]
        body = etoks(ws, e[3], 2, a2)
    elif k == "arr":
        a = acc0 + [("LB", b"[")]
        for n, x in enumerate(e[1]):
            a = etoks(ws, x, 0, a if n == 0 else a + [("Comma", b",")])
        body = a + [("RBarr", b"]")]
    elif k == "idx":
        b = e[1]
        if b[0] in ("var", "arr", "idx"):
            a1 = etoks(ws, b, 12, acc0)
        else:
            a1 = etoks(ws, b, 0, acc0 + [("LP", b"(")]) + [("RP", b")")]
        body = etoks(ws, e[2], 0, a1 + [("LB", b"[")]) + [("RBidx", b"]")]
    elif k == "roll":
        x, y = e[1], e[2]
        px = etoks(ws, x, 12, acc0) if x[0] == "int" else etoks(ws, x, 0, acc0 + [("LP", b"(")]) + [("RP", b")")]
        a1 = px + [("D", b"d")]
        body = etoks(ws, y, 12, a1) if y[0] == "int" else etoks(ws, y, 0, a1 + [("LP", b"(")]) + [("RP", b")")]
    else:
        raise ValueError(k)
    return body + [("RP", b")")] if wrap else body


def last_stmt(s):
    return last_stmt(s[2]) if s[0] == "seq" else s


def stoks(ws, s, acc):
    k = s[0]
    if k == "nop":
        return acc
    if k == "expr":
        return etoks(ws, s[1], 0, acc)
    if k == "seq":
        a1 = stoks(ws, s[1], acc)
        sep = a1 if (last_stmt(s[1])[0] in ("if", "while") and ws(len(a1)) % 3 == 0) else a1 + [("Semi", b";")]
        return stoks(ws, s[2], sep)
    if k == "if":
        a1 = stoks(ws, s[2], etoks(ws, s[1], 0, acc + [("Kw1", b"if")]) + [("LC", b"{")]) + [("RC", b"}")]
        e = s[3]
        if e[0] == "nop":
            return a1 + [("Else", b"else"), ("LC", b"{"), ("RC", b"}")] if ws(len(a1)) % 4 == 0 else a1
        if e[0] == "if" and ws(len(a1)) % 2 == 0:
            return stoks(ws, e, a1 + [("Else", b"else")])
        return stoks(ws, e, a1 + [("Else", b"else"), ("LC", b"{")]) + [("RC", b"}")]
    if k == "while":
        return stoks(ws, s[2], etoks(ws, s[1], 0, acc + [("Kw1", b"while")]) + [("LC", b"{")]) + [("RC", b"}")]
    if k == "break":
        return acc + [("Kw", b"break")]
    if k == "continue":
        return acc + [("Kw", b"continue")]
    raise ValueError(k)


LEADING_SP = {"Op", "Q", "Colon", "Semi", "LC", "RBidx", "RC"}
ID_START = {"Id", "IdL", "Kw", "Kw1", "Else"}


def gap_of(t1, t2):
    if t1 == ("Op", b"&&") and t2[0] in ID_START:
        return "need"
    if t1[0] == "Kw1":
        return "need"
    if t1[0] == "Else" and t2[0] == "Kw1":
        return "need"
    if t1[0] == "Id" and t2[0] == "Colon":
        return "need"
    if t2[0] == "D" or t1[0] == "D":
        return "none"
    if t2[0] in LEADING_SP:
        return "any"
    return {"Num": "none", "Id": "space"}.get(t1[0], "any")


def blanks(g, k):
    if g == "none":
        return b""
    if g == "space":
        return [b" ", b"\t", b"  ", b"", b""][k % 5]
    if g == "any":
        return [b" ", b"\n", b"\t", b" \n  ", b"\r\n", b" ", b"", b"", b""][k % 9]
    return [b"\n", b"\t", b"  ", b" \n", b" "][k % 5]


def print_prog(seed, s):
    ws = mk_ws(seed)
    toks = stoks(ws, s, [])
    out = bytearray(blanks("any", ws(0) >> 3))
    for n, t in enumerate(toks):
        out += t[1]
        k = ws(n + 1 + 3) >> 3
        out += blanks(gap_of(t, toks[n + 1]), k) if n + 1 < len(toks) else blanks("any", k)
    return bytes(out)


# ---------------------------------------------------------------- generator
class Gen:
    def __init__(self, r, dice=False):
        self.r = r
        self.types = {}       # variable -> 'int' | 'str' | 'arr' | 'null'
        self.dice = dice
        self.loop_depth = 0

    def lit_int(self):
        r = self.r
        return ("int", r.choice(INTS) if r.random() < 0.3 else r.randrange(0, 12))

    def var_of(self, ty):
        c = [v for v, t in self.types.items() if t == ty]
        return ("var", self.r.choice(c)) if c else None

    def int_expr(self, d):
        r = self.r
        if d <= 0 or r.random() < 0.25:
            k = r.random()
            v = self.var_of("int")
            if v and k < 0.45:
                return v
            if k < 0.5:
                return r.choice([("true",), ("false",)])
            if k < 0.6:
                return ("neg", self.lit_int())
            return self.lit_int()
        k = r.random()
        if k < 0.45:
            op = r.choice(["+", "-", "*", "+", "-", "/", "%", "&", "|"])
            return ("bin", op, self.int_expr(d - 1), self.int_expr(d - 1))
        if k < 0.5:
            return ("bin", "^", ("int", r.randrange(0, 4)), ("int", r.randrange(0, 5)))
        if k < 0.62:
            return self.cmp_expr(d - 1)
        if k < 0.68:
            return (r.choice(["neg", "pos"]), self.int_expr(d - 1))
        if k < 0.76:
            return ("tern", self.cond(d - 1), self.int_expr(d - 1), self.int_expr(d - 1))
        if k < 0.82:
            return ("bin", "&&", self.int_expr(d - 1), self.int_expr(d - 1))
        if k < 0.88:
            return ("or", self.int_expr(d - 1), self.int_expr(d - 1))
        if k < 0.92:
            return ("bin", "??", r.choice([("null",), self.int_expr(d - 1)]), self.int_expr(d - 1))
        if k < 0.95:
            a = self.var_of("arr")
            if a:
                return ("bin", "??", ("idx", a, ("int", 0)), ("int", 1)) if r.random() < 0.5 else ("bin", "==", a, a)
        if k < 0.97 and self.dice:
            return ("roll", ("int", r.randrange(1, 5)), ("int", r.choice([1, 2, 6, 20, 100])))
        v = r.choice(VARS)
        self.types[v] = "int"
        return ("assign", v, self.int_expr(d - 1))

    def cmp_expr(self, d):
        r = self.r
        op = r.choice(["<", "<=", "==", "!=", ">=", ">"])
        if op in ("==", "!=") and r.random() < 0.3:
            return ("bin", op, self.str_expr(d), self.str_expr(d))
        return ("bin", op, self.int_expr(d), self.int_expr(d))

    def str_expr(self, d):
        r = self.r
        if d <= 0 or r.random() < 0.4:
            v = self.var_of("str")
            if v and r.random() < 0.4:
                return v
            return ("str", r.choice(STRS))
        k = r.random()
        if k < 0.5:
            return ("bin", "+", self.str_expr(d - 1), self.str_expr(d - 1))
        if k < 0.65:
            return ("tern", self.cond(d - 1), self.str_expr(d - 1), self.str_expr(d - 1))
        if k < 0.8:
            return ("or", self.str_expr(d - 1), self.str_expr(d - 1))
        if k < 0.9:
            sv = r.choice(MIXED_STRS)
            iv = r.randrange(-len(sv) - 1, len(sv) + 2)      # character index: in range from both ends, and just outside
            return ("idx", ("str", sv), ("int", iv) if iv >= 0 else ("neg", ("int", -iv)))
        v = r.choice(VARS)
        self.types[v] = "str"
        return ("assign", v, self.str_expr(d - 1))

    def arr_expr(self, d):
        r = self.r
        items = [r.choice([self.int_expr, self.str_expr])(max(0, d - 1)) for _ in range(r.randrange(0, 4))]
        a = ("arr", items)
        if r.random() < 0.2:
            return ("bin", "+", a, ("arr", [self.lit_int()]))
        if r.random() < 0.1:
            return ("bin", "*", a, ("int", r.randrange(0, 3)))
        return a

    def cond(self, d):
        r = self.r
        k = r.random()
        if k < 0.5:
            return self.cmp_expr(d)
        if k < 0.7:
            return self.int_expr(d)
        if k < 0.8:
            return self.str_expr(d)
        if k < 0.9:
            return r.choice([("null",), ("true",), ("false",), ("arr", []), ("arr", [("int", 0)])])
        v = r.choice(VARS)       # possibly undefined -> null
        return ("var", v)

    def any_expr(self, d):
        """type-error stream: operands of any type"""
        r = self.r
        if d <= 0 or r.random() < 0.3:
            return r.choice([self.lit_int(), ("str", r.choice(STRS)), ("null",), ("var", r.choice(VARS)), ("arr", [("int", 1)]), ("arr", []),
                             ("true",), ("neg", ("int", 1))])
        k = r.random()
        if k < 0.6:
            return ("bin", r.choice(list(BIN)), self.any_expr(d - 1), self.any_expr(d - 1))
        if k < 0.7:
            return (r.choice(["neg", "pos"]), self.any_expr(d - 1))
        if k < 0.78:
            return ("idx", self.any_expr(d - 1), self.any_expr(d - 1))
        if k < 0.86:
            return ("tern", self.any_expr(d - 1), self.any_expr(d - 1), self.any_expr(d - 1))
        if k < 0.92:
            return ("or", self.any_expr(d - 1), self.any_expr(d - 1))
        if k < 0.96 and self.dice:
            # the COUNT of a roll is kept small: these programs run with no budget configured (OpCountLimit 0 = unlimited,
            # types.go), where `9223372036854775807d6` legitimately rolls 2^63-1 dice, i.e. never returns
            cnt = r.choice([("int", r.randrange(0, 8)), ("str", r.choice(STRS)), ("null",), ("arr", [("int", 1)]), ("true",), ("neg", ("int", 1))])
            return ("roll", cnt, self.any_expr(0))
        v = r.choice(VARS)
        self.types.pop(v, None)
        return ("assign", v, self.any_expr(d - 1))

    def assign_stmt(self, d):
        r = self.r
        v = r.choice(VARS)
        k = r.random()
        if k < 0.6:
            e, ty = self.int_expr(d), "int"
        elif k < 0.8:
            e, ty = self.str_expr(d), "str"
        elif k < 0.93:
            e, ty = self.arr_expr(d), "arr"
        else:
            e, ty = ("null",), "null"
        self.types[v] = ty
        return ("expr", ("assign", v, e))

    def stmt(self, d, errs):
        r = self.r
        k = r.random()
        if errs and k < 0.25:
            return ("expr", self.any_expr(2))
        if k < 0.4:
            return self.assign_stmt(d)
        if k < 0.55:
            return ("expr", r.choice([self.int_expr, self.str_expr, self.cond])(d))
        if k < 0.75 and d > 0:
            saved = dict(self.types)
            t = self.block(d - 1, errs)
            self.types = dict(saved)
            if r.random() < 0.5:
                e = self.block(d - 1, errs) if r.random() < 0.6 else self.stmt_if_only(d - 1, errs)
            else:
                e = ("nop",)
            self.types = saved      # conservative: assignments inside branches are forgotten
            return ("if", self.cond(1), t, e)
        if k < 0.9 and d > 0 and self.loop_depth < 2:
            return self.loop(d - 1, errs)
        if k < 0.93:
            return ("nop",)
        if self.loop_depth > 0 and r.random() < 0.5:
            return ("if", self.cond(1), r.choice([("break",), ("continue",)]), ("nop",))
        return self.assign_stmt(d)

    def stmt_if_only(self, d, errs):
        saved = dict(self.types)
        s = ("if", self.cond(1), self.block(d, errs), ("nop",) if self.r.random() < 0.5 else self.block(d, errs))
        self.types = saved
        return s

    def block(self, d, errs):
        return seq(self.stmt(d, errs) for _ in range(self.r.randrange(0, 3)))

    def loop(self, d, errs):
        r = self.r
        c = COUNTERS[self.loop_depth]
        bound = r.randrange(0, 6)
        self.loop_depth += 1
        saved = dict(self.types)
        self.types[c] = "int"
        body = [("expr", ("assign", c, ("bin", "+", ("var", c), ("int", 1))))]
        for _ in range(r.randrange(0, 3)):
            body.append(self.stmt(d, errs))
        if r.random() < 0.3:
            body.insert(r.randrange(1, len(body) + 1), r.choice([("break",), ("continue",)]))
        self.types = saved
        self.types[c] = "int"
        self.loop_depth -= 1
        cond = ("bin", "<", ("var", c), ("int", bound))
        if r.random() < 0.2:
            cond = ("bin", "&&", cond, self.cond(0))
        return seq([("expr", ("assign", c, ("int", 0))), ("while", cond, seq(body))])

    def program(self, d, errs, nstmts):
        out = [self.stmt(d, errs) for _ in range(nstmts)]
        if all(s[0] == "nop" for s in out):
            out.append(("expr", self.lit_int()))
        if self.r.random() < 0.7:
            out.append(("expr", r_final(self)))
        return seq(out)


def r_final(g):
    r = g.r
    if g.types and r.random() < 0.7:
        return ("var", r.choice(list(g.types)))
    return g.int_expr(1)


def matrix_cases():
    """operator x operand-type x boundary matrix: one tiny program each"""
    vals = [("int", 0), ("int", 1), ("neg", ("int", 1)), ("int", 2147483648), ("int", 9223372036854775807),
            ("neg", ("int", 9223372036854775807)), ("bin", "-", ("neg", ("int", 9223372036854775807)), ("int", 1)),
            ("str", ""), ("str", "a"), ("null",), ("arr", []), ("arr", [("int", 1), ("str", "s")]), ("true",)]
    out = []
    for op in BIN:
        for a in vals:
            for b in vals:
                if op == "^":
                    continue
                out.append(seq([("expr", ("bin", op, a, b))]))
    for a in [("int", 0), ("int", 2), ("neg", ("int", 2)), ("int", 10), ("neg", ("int", 1)), ("int", 1)]:
        for b in [("int", 0), ("int", 1), ("int", 3), ("neg", ("int", 1)), ("int", 53), ("int", 62)]:
            out.append(seq([("expr", ("bin", "^", a, b))]))
    for a in vals:
        out.append(seq([("expr", ("neg", a))]))
        out.append(seq([("expr", ("pos", a))]))
        out.append(seq([("expr", ("or", a, ("int", 7)))]))
        out.append(seq([("expr", ("tern", a, ("int", 1), ("int", 2)))]))
        out.append(seq([("if", a, ("expr", ("assign", "x", ("int", 1))), ("expr", ("assign", "x", ("int", 2)))), ("expr", ("var", "x"))]))
        for i in [("int", 0), ("int", 1), ("neg", ("int", 1)), ("neg", ("int", 3)), ("int", 5), ("str", "0"), ("null",)]:
            out.append(seq([("expr", ("idx", a, i))]))
    for sv in MIXED_STRS:
        for iv in range(-len(sv) - 1, len(sv) + 4):
            out.append(seq([("expr", ("idx", ("str", sv), ("int", iv) if iv >= 0 else ("neg", ("int", -iv))))]))
    return out


def gen_cases(r, n):
    """list of dict(progs=[ast...], cfg=(div0, mode), kind=...)"""
    cases = []
    for p in matrix_cases():
        cases.append({"progs": [p], "div0": r.random() < 0.3, "mode": 0, "kind": "matrix"})
    for _ in range(n):
        k = r.random()
        mode = r.choice([0, 0, -1, 1])
        g = Gen(r, dice=(mode != 0))
        errs = k < 0.25
        hist = r.choice([1, 1, 2, 3, 4])
        progs = []
        for h in range(hist):
            progs.append(g.program(r.choice([1, 2, 2, 3]), errs or (hist > 1 and r.random() < 0.3), r.randrange(1, 5)))
        cases.append({"progs": progs, "div0": r.random() < 0.3, "mode": mode, "kind": "errors" if errs else "typed"})
    return cases


# ---------------------------------------------------------------- Coq side
def obs_term(step):
    """harness step -> Coq `obs` (+ the byte-code term)"""
    if step is None or step.get("panic") or step.get("fatal"):
        return "[]", "(OB 3 DNull 0 [])"
    if not step.get("parse_ok"):
        return "[]", "(OB 2 DNull 0 [])"
    code = k2cases.code_terms(step.get("code") or [], [])
    try:
        vars_ = "[" + ";".join(f"({cstr(k)},{k2cases.dval_term(v)})" for k, v in zip(step.get("vark") or [], step.get("varv") or [])) + "]"
        if step.get("ok"):
            return code, f"(OB 0 {k2cases.dval_term(step.get('val'))} 0 {vars_})"
        return code, f"(OB 1 DNull {k2cases.error_class(step.get('err') or '')} {vars_})"
    except k2cases.Inexpressible:
        return code, "(OB 0 (DOther 99) 0 [])"


def case_term(c, seeds, texts_per_seed, rows):
    mn, mx = c["mode"] == -1, c["mode"] == 1
    cfg = f"(CFG2 {k2cases.b(c['div0'])} {k2cases.b(mn)} {k2cases.b(mx)})"
    runs = []
    for texts, row in zip(texts_per_seed, rows):
        steps = list(row.get("steps") or [])
        items = []
        for i, t in enumerate(texts):
            st = steps[i] if i < len(steps) else None
            if row.get("fatal"):
                st = None
            code, ob = obs_term(st)
            items.append(f"({cstr(t)}, {code}, {ob})")
        runs.append("[" + ";\n    ".join(items) + "]")
    return (f"(K {cfg} 400 [{';'.join(str(s) for s in seeds)}]\n  [{'; '.join(sterm(p) for p in c['progs'])}]\n  ["
            + ";\n   ".join(runs) + "])")


def cases_v(terms):
    return (HEADER + "Definition cases : list c02_case := [\n" + ";\n".join(terms) + "].\n"
            "Definition res := Eval vm_compute in map c02_check cases.\nPrint res.\n")


def parse_res(out):
    import ast
    m = re.search(r"res\s*=\s*(.*?)\n\s*:\s*list", out, re.S)
    if not m:
        raise Broken("coq-output", "cannot find res in:\n" + out[-2000:])
    body = " ".join(m.group(1).split())
    body = body.replace("%N", "").replace(";", ",").replace("true", "True").replace("false", "False").replace("Some", "")
    return ast.literal_eval(body)


def explain_v(terms):
    return (HEADER + "".join(f"Definition e{i} := Eval vm_compute in c02_explain {t}.\nPrint e{i}.\n" for i, t in enumerate(terms)))


def unhex(h):
    return bytes.fromhex(h)


def show_dv(s, pos=0):
    """readable form of Corr02.show_dv text -> (text, next position)"""
    ch = s[pos]
    if ch == "i":
        m = re.match(r"-?\d+", s[pos + 1:])
        return m.group(0), pos + 1 + m.end()
    if ch == "s":
        m = re.match(r"[0-9a-f]*", s[pos + 1:])
        return repr(unhex(m.group(0)).decode("utf-8", "replace")), pos + 1 + m.end()
    if ch == "n":
        return "null", pos + 1
    if ch == "a":
        pos += 2
        items = []
        while s[pos] != ")":
            v, pos = show_dv(s, pos)
            items.append(v)
            pos += 1
        return "[" + ", ".join(items) + "]", pos + 1
    return "?", len(s)


def show_env(s):
    env, pos = {}, 0
    while pos < len(s):
        eq = s.index("=", pos)
        name = unhex(s[pos:eq]).decode("utf-8", "replace")
        v, pos = show_dv(s, eq + 1)
        env[name] = v
        pos += 1
    return env


def show_outcome(o):
    if o == "F":
        return "the definition runs out of loop fuel"
    if o.startswith("U:"):
        return "outside the definition: " + unhex(o[2:]).decode()
    k, a, env = o.split(":", 2)
    if k == "V":
        return {"value": show_dv(a)[0], "variables": show_env(env)}
    return {"error_class": int(a), "variables": show_env(env)}


def parse_explain(out):
    res = []
    for m in re.finditer(r'e\d+\s*=\s*"([^"]*)"', out):
        outs, codes = m.group(1).split("|")
        res.append(([show_outcome(o) for o in outs.split(";")] if outs else [],
                    [" ; ".join(i.replace("#", " ").strip() for i in c.split(",") if i) for c in codes.split("/")]))
    return res


def go_value(d):
    if d is None:
        return "nil"
    t = d.get("t")
    if t == 0:
        return d["i"]
    if t == 2:
        return repr(d.get("s") or "")
    if t == 4:
        return "null"
    if t == 6 and not d.get("cyc"):
        return "[" + ", ".join(go_value(x) for x in d.get("l") or []) + "]"
    return json.dumps(d, ensure_ascii=False)


def go_code(code):
    out = []
    for op in code:
        name = op.get("name") or "?"
        arg = str(op["i"]) if op.get("i") is not None else ("x" + op["s"].encode("utf-8", "surrogateescape").hex() if op.get("s") is not None else "")
        out.append((name + " " + arg).strip())
    return " ; ".join(out)


KIND = {1: "internal: the Python mirror of `print` differs from Model/Ast.v print", 2: "the real parser rejects a text printed from a well-formed AST",
        3: "the real code panics / crashes / hangs on a program the definition evaluates", 4: "K4: the parser's byte-code differs from the reference compiler",
        5: "K3: value vs error", 6: "K3: different value", 7: "K3: different error class", 8: "K3: different variables after the program"}


# ---------------------------------------------------------------- own Coq files
def build_own_coq():
    """(re)compile this property's Coq files when their .vo is missing or older than a source it depends on (they join
    _CoqProject later; until then `make` does not know them)"""
    deps = [os.path.join(common.COQ, p) for p in ("Model/VM.vo", "Model/Value.vo", "Model/Dice.vo", "Model/Str.vo", "Model/Roll.vo", "Model/PCG.vo", "Corr/CorrK2.vo")]
    newest = max(os.path.getmtime(p) for p in deps if os.path.exists(p))
    with common.Lock("coqmake"):
        for f in MY_FILES:
            src = os.path.join(common.COQ, f)
            if not os.path.exists(src):
                continue
            vo = src + "o"
            if os.path.exists(vo) and os.path.getmtime(vo) >= os.path.getmtime(src) and os.path.getmtime(vo) >= newest:
                continue
            t0 = time.time()
            r = common.sh(["timeout", "1800", "coqc", "-q", "-Q", ".", "DS", f], cwd=common.COQ)
            common.log(f"[coq] coqc {f}: rc={r.returncode} {time.time()-t0:.1f}s")
            if r.returncode != 0:
                raise Broken("coq-build " + f, r.stdout[-4000:])
            newest = max(newest, os.path.getmtime(vo))


# ---------------------------------------------------------------- run
KNOWN_REPLAYS = [
    # key, sources, expected by the definition (show() text of the last value), what the defect yields
    ("while-body-stack-leak", ["i=0; while i<2000 {i=i+1}; i"], "2000"),
    ("newline-after-bracket-value-not-a-separator", ["true\n2"], "2"),
    ("paren-lead-ne-truncated", ["(1) != 1"], "0"),
    ("logic-and-glued-identifier", ["x=2; 1 &&x"], "2"),
    ("index-eq-truncated", ["x=[1]; x[0] == 1"], "1"),
]


REGISTERED = {}     # findings of known_findings.json that name C02 (filled by run)


def evaluate(cases, seeds_of, tag="c02", shard=200):
    """-> (verdicts per case [(good, fail|None) per seed], texts per case, rows per case)"""
    inputs, where, texts_of = [], [], []
    for ci, (c, seeds) in enumerate(zip(cases, seeds_of)):
        per_seed = []
        for j, sd in enumerate(seeds):
            texts = [print_prog(sd + 7919 * i, p) for i, p in enumerate(c["progs"])]
            per_seed.append(texts)
            inputs.append(k2cases.mk_input(texts[-1], hist=texts[:-1], div0=c["div0"], mode=c["mode"]))
            where.append((ci, j))
        texts_of.append(per_seed)
    rows = k2cases.go_run(inputs)
    rows_of = [[None] * len(s) for s in seeds_of]
    for (ci, j), row in zip(where, rows):
        rows_of[ci][j] = row
    terms = [case_term(c, sd, tx, rw) for c, sd, tx, rw in zip(cases, seeds_of, texts_of, rows_of)]
    ks = list(range(0, len(terms), shard))
    jobs = [(f"{tag}_{k}", cases_v(terms[k:k + shard])) for k in ks]
    for attempt in range(3):
        try:
            outs = common.coq_eval_many(jobs, workers=12)
            break
        except Broken as b:
            # a colleague's `make` rebuilt Model/VM.vo under our feet: recompile our own files and try again
            if "inconsistent assumptions" not in (b.detail or "") or attempt == 2:
                raise
            time.sleep(5)
            build_own_coq()
    verdicts = []
    for out in outs:
        verdicts += parse_res(out)
    if len(verdicts) != len(cases):
        raise Broken("coq-output", f"{len(verdicts)} verdicts for {len(cases)} cases")
    return verdicts, texts_of, rows_of, terms


def run(res, tier, seed):
    common.build_harness()
    build_own_coq()
    r = random.Random(seed * 7919 + 2)
    n = 700 if tier == "quick" else 12000
    nseeds = 3 if tier == "quick" else 4
    cases = gen_cases(r, n)
    seeds_of = [[r.randrange(1, 1 << 30) for _ in range(nseeds)] for _ in cases]
    verdicts, texts_of, rows_of, terms = evaluate(cases, seeds_of)
    REGISTERED.clear()
    REGISTERED.update({f["key"]: f for f in common.known_for(PID)})

    hist_len, ctor, kinds, fail_kinds = {}, {}, {}, {}
    steps_ok = cut = 0
    failures, attributed = [], 0
    for ci, (c, vs) in enumerate(zip(cases, verdicts)):
        kinds[c["kind"]] = kinds.get(c["kind"], 0) + 1
        hist_len[len(c["progs"])] = hist_len.get(len(c["progs"]), 0) + 1
        for p in c["progs"]:
            nodes(p, ctor)
        good_any = False
        for j, (good, fail) in enumerate(vs):
            steps_ok += good
            good_any = good_any or good > 0
            if fail is None:
                continue
            step, kind, flagged = fail
            if kind == 9:
                cut += 1
                continue
            fail_kinds[kind] = fail_kinds.get(kind, 0) + 1
            if flagged and kind != 1 and "paren-lead-ne-truncated" in REGISTERED:
                attributed += 1
            else:
                failures.append((ci, j, step, kind))
        res.count(texts_of[ci][0][-1].decode("utf-8", "replace") + json.dumps([c["div0"], c["mode"]]), nontrivial=good_any)
    for ci in (len(cases) - 1, len(cases) // 2):
        row = rows_of[ci][0]
        st = (row.get("steps") or [{}])[-1]
        res.sample({"sources": [t.decode("utf-8", "replace") for t in texts_of[ci][0]],
                    "implementation": go_value(st.get("val")) if st.get("ok") else "error: " + str(st.get("err"))})

    res.cov["rule"] = ("generated ASTs of the core fragment (Model/Ast.v), each history printed under several whitespace / redundant-parenthesis "
                       "choices and run by the real parser + VM on one VM per history; Coq (Corr02.c02_check) checks per program: the text is "
                       "`print ws ast`; K4: the parser's byte-code equals `compile ast` instruction by instruction (detail-span operands ignored: "
                       "they depend on the printed text); K3: value / error / error class / variables equal `denote_history`; "
                       "distinct = distinct (last program text under the first seed, configuration); non-trivial = at least one program of the "
                       "history was compared successfully")
    res.cov["input_distribution"] = {
        "cases": len(cases), "by_kind": kinds, "history_length": hist_len, "whitespace_choices_per_case": nseeds,
        "histories_run_by_go": sum(len(s) for s in seeds_of), "program_steps_agreeing": steps_ok,
        "histories_cut_where_the_definition_stops(fuel/pow-range/random-dice)": cut, "constructors": dict(sorted(ctor.items())),
        "boundary_ints": INTS, "configurations": "IgnoreDiv0 30%, dice mode min/max 50% of generated cases (dice terms only then)",
        "matrix": "every binary operator x 13 operand values squared, unary / || / ternary / if / index per operand value",
    }
    res.cov["correspondence"] = {"disagreements": len(failures), "by_kind_incl_attributed": {KIND.get(k, k): v for k, v in fail_kinds.items()},
                                 "attributed_to_paren-lead-ne-truncated": attributed}
    res.cov["trusted_base"] += [
        "Model/Denote.v is written from docs/GUIDE.md + roll.peg's precedence (the oracle); Model/Ast.v `print` decides which texts count as "
        "'legal whitespace / parenthesisation' (a sound subset of what roll.peg accepts: a text the real parser rejects is reported)",
        "Model/VM.v (validated by K2) is the machine the compiler-correctness theorem talks about; Model/Compile.v is tied to the real parser by K4",
        "capacity limits (1000-slot operand stack, 20 nested blocks, op budget) are outside the definition: generated programs stay far below them; "
        "the theorem carries them as the explicit hypothesis `fits`",
        "lib/c02.py mirrors `print` to produce the texts; Coq re-derives every text (String.eqb against Model/Ast.v print) before comparing",
    ]

    # ---- name resolution across contexts (functions, parameters, locals, computed values): outside the AST fragment of the
    #      definition; decided here by the VM model (Model/VM.v load_walk / computed_execute) against the real VM, K2-style
    sc_inputs = []
    for _ in range(200 if tier == "quick" else 2000):
        v = r.choice(["x", "y", "hp"])
        a, b2 = r.randrange(1, 9), r.randrange(10, 99)
        expr = r.choice([f"{v} + 1", f"{v} * 3", f"[{v}, {v}]", f"{v} - 2", f"`{{{v}}}`", f"{v} ?? 0"])
        shape = r.choice([
            f"{v} = {a}; &cv = {expr}; func g({v}) {{ return cv }}; g({b2})",
            f"{v} = {a}; &cv = {expr}; func g() {{ {v} = {b2}; return cv }}; g()",
            f"{v} = {a}; &cv = {expr}; func g({v}) {{ return cv }}; func h({v}) {{ return g({v} + 1) }}; h({b2})",
            f"&cv = {expr}; func g() {{ {v} = {b2}; cv }}; {v} = {a}; [g(), cv]",
            f"{v} = {a}; func g() {{ &cw = {expr}; {v} = {b2}; cw }}; g()",
            f"{v} = {a}; &cv = {expr}; &cw = cv; func g({v}) {{ cw }}; g({b2})",
            f"{v} = {a}; func g({v}) {{ func k() {{ {v} }}; k() }}; g({b2})",
            f"{v} = {a}; &cv = {expr}; func g({v}) {{ [cv, {v}] }}; [g({b2}), {v}, cv]",
            f"func g(u) {{ u[0] = 9; u = 1 }}; {v} = [{a}]; g({v}); {v}",
            f"{v} = {a}; func g() {{ {v} = {v} + 1; {v} }}; [g(), {v}]",
            # values are copied where the language copies them: slices (also full-range ones), concatenation, repetition
            f"{v} = [{a}, 2, 3]; w = {v}[:]; w[0] = {b2}; [{v}, w]",
            f"{v} = [{a}, 2, 3]; w = {v}[0:3]; w.push(4); [{v}, w]",
            f"{v} = [{a}, 2, 3]; w = {v}[-3:]; {v}[1] = {b2}; [{v}, w]",
            f"{v} = [{a}, 2, 3]; w = {v}[0:10]; w[2] = 0; [{v}, w, {v} == w]",
            f"{v} = [{a}, 2]; w = {v}[1:]; w[0] = {b2}; [{v}, w]",
            f"{v} = [{a}, 2]; w = {v} + []; w[0] = {b2}; [{v}, w]",
            f"{v} = [{a}, 2]; w = {v} * 1; w[0] = {b2}; [{v}, w]",
            f"{v} = [{a}, 2, 3]; func g(u) {{ t = u[:]; t[0] = {b2}; t }}; [g({v}), {v}]",
            f"{v} = 'abcdef'; w = {v}[:]; [{v}[0:6], w, {v}[-6:] == w]",
            f"{v} = [[{a}], 2]; w = {v}[:]; w[0][0] = {b2}; [{v}, w]",
            # a computed value has a variable space of its own that persists from one load to the next (also when it was never
            # given an attribute from outside, and across evaluations, also after a failed one)
            f"&cnt = (this.n = (this.n ?? 0) + {a}); [cnt, cnt, cnt]; &cnt.n",
            f"&cnt = (this.n = (this.n ?? 0) + {a}); cnt; cnt + 'x'; [cnt, &cnt.n]",
            f"&cnt = (n = (n ?? {b2}) + 1); [cnt, cnt]; [cnt, &cnt.n]",
            f"{v} = {a}; &once = this.m ? this.m : (this.m = {v} * 2); once; {v} = {b2}; [once, &once.m]",
            f"&cnt = (this.n = (this.n ?? 0) + 1); func g() {{ cnt + cnt }}; [g(), cnt, &cnt.n]",
            f"&k = (this.n = this.n + 1); &k.n = {b2}; [k, k, &k.n]",
        ])
        parts = shape.split("; ")
        cut = r.randrange(0, len(parts)) if r.random() < 0.4 else 0
        sc_inputs.append(k2cases.mk_input("; ".join(parts[cut:]), hist=["; ".join(parts[:cut])] if cut else [], oplimit=30000))
    sc_rows = k2cases.go_run(sc_inputs)
    sc_status = k2cases.correspond(sc_inputs, sc_rows, "c02sc")
    sc_hist = {}
    for st in sc_status:
        sc_hist[st[0]] = sc_hist.get(st[0], 0) + 1
    res.cov["scoping_correspondence"] = {"programs": len(sc_inputs), "status": sc_hist,
                                         "what": "functions / parameters / locals / computed values read across contexts: real VM vs Model/VM.v (value, variables, counter)"}
    for inp, st in zip(sc_inputs, sc_status):
        if st[0] == "bad":
            res.violation({"what": "name resolution across contexts: the real VM disagrees with the VM model", "why": st[1],
                           "source": inp["src"].decode("utf-8", "replace"), "history": [h.decode("utf-8", "replace") for h in inp["hist"]]})
            break

    # ---- values known by construction: (a) several dice terms with clamps / keeps in one program under min / max mode (each term is
    #      evaluated on its own: faces 1 resp. Y, clamped, kept), (b) templates x loops x break / continue (lib/c13.py)
    import c13 as _c13
    kc = []
    for _ in range(120 if tier == "quick" else 1200):
        mode = r.choice([-1, 1])
        dterms, dvals = [], []
        for _t in range(r.randrange(2, 5)):
            n, y = r.randrange(1, 6), r.choice([4, 6, 8, 10, 20, 100])
            txt, face, cnt = f"{n}d{y}", (1 if mode < 0 else y), n
            if r.random() < 0.35 and n > 1:
                k = r.randrange(1, n)
                txt += r.choice(["k", "kh", "kl", "q"]) + str(k)
                cnt = k
            if r.random() < 0.4:
                m = r.randrange(1, y + 3)
                txt += f"min{m}"
                face = max(face, m)
            elif r.random() < 0.4:
                m = r.randrange(0, y + 1)
                txt += f"max{m}"
                face = min(face, m)
            dterms.append(txt)
            dvals.append(cnt * face)
        if r.random() < 0.5:
            kc.append((" + ".join(dterms), str(sum(dvals)), mode))
        else:
            kc.append(("[" + ", ".join(dterms) + "]", "[" + ", ".join(str(v) for v in dvals) + "]", mode))
    kc += [(src, exp, 0) for src, exp in _c13.loop_template_programs(random.Random(seed * 17 + 3), 60 if tier == "quick" else 600)]
    kc_rows = k2cases.go_run([k2cases.mk_input(src, mode=mode, oplimit=200000) for src, _, mode in kc])
    kc_bad = 0
    for (src, exp, mode), row in zip(kc, kc_rows):
        stp = (row.get("steps") or [{}])[-1]
        got = go_value(stp.get("val")) if stp.get("ok") else "error: " + str(stp.get("err") or stp.get("perr") or row.get("fatal") or "?")
        if got != exp:
            kc_bad += 1
            if kc_bad <= 2:
                res.violation({"what": "the program's value differs from the value its parts determine", "source": src, "dice_mode": {-1: "min", 0: "random", 1: "max"}[mode],
                               "expected": exp, "implementation": got})
    res.cov["values_known_by_construction"] = {"programs": len(kc), "disagreements": kc_bad,
                                               "what": "several dice terms with clamps / keeps under min / max mode; templates x loops x break / continue"}

    # ---- known findings: deterministic replays
    registered = {f["key"]: f for f in common.known_for(PID)}
    rep_rows = k2cases.go_run([k2cases.mk_input(srcs[-1], hist=srcs[:-1]) for _, srcs, _ in KNOWN_REPLAYS])
    unregistered = []
    for (key, srcs, want), row in zip(KNOWN_REPLAYS, rep_rows):
        st = (row.get("steps") or [{}])[-1]
        got = go_value(st.get("val")) if st.get("ok") else "error: " + str(st.get("err") or st.get("perr") or row.get("fatal") or "?")
        if got != want:
            if key in registered:
                res.known(f"key={key} input={json.dumps(srcs, ensure_ascii=False)} documented={want} implementation={got} :: {registered[key]['what']}")
            else:
                # not (or no longer) a recorded finding: a repaired defect that came back, or a new one
                unregistered.append(key)
                res.violation({"what": "evaluation disagrees with the definitional semantics (regression replay)", "key": key, "sources": srcs,
                               "documented": want, "implementation": got, "about": FINDINGS[key]})
    if attributed:
        res.known(f"key=paren-lead-ne-truncated generated histories containing a `(...) !=` at the start of an expression whose comparison "
                  f"fails for that reason: {attributed}")
    res.cov["regression_replays_failing_without_a_recorded_finding"] = unregistered

    # ---- proofs
    try:
        info = common.check_property_file(PID)
    except Broken as b:
        if "inconsistent assumptions" not in (b.detail or ""):
            raise
        build_own_coq()
        info = common.check_property_file(PID)
    res.proof(info, "cd coq && make && coqc -Q . DS Properties/C02.v")
    res.assumptions += [
        "C02_compile_correct_partial covers the constructors listed in Properties/C02.v; the full statement is kept as "
        "C02_compile_correct_statement (refuted as it stands by the while-body-stack-leak); outside the induction the tie is K3/K4 only",
    ]

    # ---- report disagreements
    if failures:
        # the shortest histories make the most useful replays
        failures.sort(key=lambda f: (sum(len(t) for t in texts_of[f[0]][f[1]]), f))
        sel = failures[:5]
        outs = common.coq_eval("c02_explain", explain_v([terms[ci] for ci, _, _, _ in sel]))
        expl = parse_explain(outs)
        for (ci, j, step, kind), (exp_out, ref_code) in zip(sel, expl):
            c = cases[ci]
            row = rows_of[ci][j]
            st = (row.get("steps") or [])
            st = st[step] if step < len(st) else {}
            got = {"parse_error": (st.get("perr") or "")[:300]} if not st.get("parse_ok") else \
                  {"value": go_value(st.get("val"))} if st.get("ok") else {"error": st.get("err"), "panic": st.get("panic")}
            got["variables"] = {k: go_value(v) for k, v in zip(st.get("vark") or [], st.get("varv") or [])}
            payload = {"what": KIND.get(kind, str(kind)), "config": {"IgnoreDiv0": c["div0"], "mode": c["mode"]},
                       "sources_run_in_order_on_one_vm": [t.decode("utf-8", "replace") for t in texts_of[ci][j]],
                       "failing_step": step, "definition": exp_out[step] if step < len(exp_out) else None, "implementation": got,
                       "fatal": row.get("fatal"),
                       "replay": "run the sources in order on one VM created with the given configuration (./check C02 --replay <this file>)"}
            if kind == 4:
                payload["parser_bytecode"] = go_code(st.get("code") or [])
                payload["reference_bytecode"] = ref_code[step] if step < len(ref_code) else None
            res.violation(payload, no_input=(kind == 1))


def replay(path):
    p = json.load(open(path))
    common.build_harness()
    srcs = p.get("sources_run_in_order_on_one_vm") or []
    cfg = p.get("config") or {}
    rows = k2cases.go_run([k2cases.mk_input(srcs[-1], hist=srcs[:-1], div0=cfg.get("IgnoreDiv0", False), mode=cfg.get("mode", 0))])
    print(json.dumps(rows[0], ensure_ascii=False)[:4000])
    return 0
