(* C01 — no input can crash the host (VM half). Theorems over Model/VM.v, the VM model validated against the
   real VM by the K2 correspondence. Parser totality is NOT a theorem (decided by search + the PEG model's
   explicit panic flag in K1). *)
From Coq Require Import NArith ZArith List Bool String.
From DS Require Import Model.Value Model.VM Model.CodeWf Model.Ast Model.Compile Proofs.VMSafety Proofs.CompileWf.
Import ListNotations.

(* For byte-code whose operands have the shapes the VM asserts and whose relative jumps never go below
   index 0 (code_wf) — checked on every program the real parser emitted in the corpus — and for a function
   table whose bodies have the same property (ftab_wf), NO execution
   reaches a Go panic site: for every fuel, every value on the stack, every variable state, every generator
   state, every configuration. The single exception is a model-only site (push.range with an operand outside
   int64, which a Go int cannot hold: see C01_run_no_panic_refuted_big_int). `state_good` excludes a bare
   `Computed.compute` native method without Self, a value no VM instruction can create.
   There is no hypothesis on the mark.detail spans any more: the one site that sliced the source text with a
   span (push.def_expr) skips a span outside the text (non_wf_span_no_longer_panics). *)
Theorem C01_run_no_panic_partial :
  forall E c src, code_wf c = true -> ftab_wf (e_ftab E) = true ->
  forall fuel st, state_good st -> match run fuel E c src st with OPanic s => s = range_msg | _ => True end.
Proof. exact Proofs.VMSafety.C01_run_no_panic_partial. Qed.

(* the same on every machine state satisfying the frame invariant (sub-VMs of calls / computed values included) *)
Theorem C01_exec_no_panic_partial :
  forall E, ftab_wf (e_ftab E) = true ->
  forall fuel m, machine_ok m -> G m -> match exec fuel E m with Panic s => s = range_msg | _ => True end.
Proof. exact Proofs.VMSafety.C01_exec_no_panic_partial. Qed.

(* histories: the state a successful run leaves behind is good again, so the theorem applies to the next run on the same VM *)
Theorem C01_run_keeps_state_good :
  forall E c src fuel st v st', state_good st -> run fuel E c src st = Val v st' -> state_good st' /\ vgood v.
Proof. exact Proofs.VMSafety.C01_run_keeps_state_good. Qed.

Theorem C01_initial_state_good : state_good st0.
Proof. exact init_state_good. Qed.

(* the code_wf hypothesis is DISCHARGED for every program of the AST of Model/Ast.v (all expression and statement
   constructors, any size): the reference compiler — tied to the real parser instruction by instruction (K4) — only
   emits operands of the asserted shapes and never a jump below index 0 (the tight case is a top-level `continue`, which
   lands exactly on index 0), so no compiled program reaches a Go panic site (Proofs/CompileWf.v) *)
Theorem C01_compile_code_wf : forall p : stmt, code_wf (compile p) = true.
Proof. exact compile_code_wf. Qed.

Theorem C01_compiled_program_never_panics :
  forall (p : stmt) E src, ftab_wf (e_ftab E) = true ->
  forall fuel st, state_good st -> match run fuel E (compile p) src st with OPanic s => s = range_msg | _ => True end.
Proof. exact compiled_program_never_panics. Qed.

Print Assumptions C01_run_no_panic_partial.
Print Assumptions C01_compile_code_wf.
Print Assumptions C01_compiled_program_never_panics.
Print Assumptions C01_exec_no_panic_partial.
Print Assumptions C01_run_keeps_state_good.
Print Assumptions C01_initial_state_good.
(* the unrestricted statement is false of the model: witnesses C01_run_no_panic_refuted_big_int and
   C01_run_no_panic_refuted_bare_method in Proofs/VMSafety.v; the hypotheses matter: non_wf_jump_panics,
   non_wf_operand_panics, non_wf_ldfs_panics (programs outside code_wf really panic). *)
