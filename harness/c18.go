package main

// C18 — the st command reports every attribute edit once, in order, verbatim.
//
//   harness c18 -seed S -n N
//       generates N edit lists (assignment lists: plain / *k / * / computed; modification lists:
//       + += - -=), prints each in a random accepted spelling (`print_st`), runs `^st…` on a fresh VM
//       with a recording CallbackSt, and emits per case: the edits (with the value text evaluated ALONE
//       on a fresh VM under the flags `est` applies), the source, the hazards of the spelling (shapes
//       with a recorded defect), the callback log, error/rest, and the compiled code projected on its
//       push.str / push.computed / st.* instructions.  A malformed stream (mutated sources, no edit
//       list attached) follows.
//   harness c18-probe      (stdin: {"src":…, "mode":…, "code":bool} per line) runs given sources.

import (
	"bufio"
	"encoding/json"
	"fmt"
	"os"
	"strings"

	ds "github.com/sealdice/dicescript"
)

type stCall struct {
	Type   string `json:"type"`
	Name   string `json:"name"`
	Val    *vdump `json:"val"`
	Extra  *vdump `json:"extra"` // nil when the callback got a nil extra
	Op     string `json:"op"`
	Detail string `json:"detail"`
}

type stPOp struct { // projected instruction
	Op string `json:"op"`          // push.str push.computed st.set st.mod st.x0 st.x1
	S  string `json:"s,omitempty"` // push.str operand / computed Expr / st.mod text
	O  string `json:"o,omitempty"` // st.mod op
}

type stRun struct {
	Src   string       `json:"src"`
	Mode  int          `json:"mode"`
	Ok    bool         `json:"ok"`
	Err   string       `json:"err,omitempty"`
	Panic string       `json:"panic,omitempty"`
	Rest  string       `json:"rest"`
	Calls []stCall     `json:"calls"`
	Code  []stPOp      `json:"code"`  // projection of the top-level code
	NCode int          `json:"ncode"` // number of top-level instructions
	NSt   int          `json:"nst"`   // number of st.* instructions anywhere (incl. nested bodies)
	Full  []ds.VerifOp `json:"full,omitempty"`
}

func countSt(code []ds.VerifOp) int {
	n := 0
	for _, c := range code {
		if strings.HasPrefix(c.Name, "st.") {
			n++
		}
		if c.Fn != nil && c.Fn.Code != nil {
			n += countSt(c.Fn.Code)
		}
	}
	return n
}

func stRunOne(src string, mode int, full bool) (o stRun) {
	o.Src, o.Mode = src, mode
	o.Calls = []stCall{}
	o.Code = []stPOp{}
	cfg := allOn()
	cfg.Mode = mode
	vm := newVM(cfg, 1, 2, true)
	vm.Config.CallbackSt = func(_type string, name string, val *ds.VMValue, extra *ds.VMValue, op string, detail string) {
		c := stCall{Type: _type, Name: name, Val: dumpValue(val), Op: op, Detail: detail}
		if extra != nil {
			c.Extra = dumpValue(extra)
		}
		o.Calls = append(o.Calls, c)
	}
	defer func() {
		if r := recover(); r != nil {
			o.Ok = false
			o.Panic = fmt.Sprint(r)
		}
	}()
	perr := vm.Parse(src)
	if perr == nil {
		code := vm.VerifCode()
		o.NCode = len(code)
		o.NSt = countSt(code)
		for _, c := range code {
			switch c.Name {
			case "push.str":
				if c.S != nil {
					o.Code = append(o.Code, stPOp{Op: c.Name, S: *c.S})
				}
			case "push.computed":
				e := ""
				if c.Fn != nil {
					e = c.Fn.Expr
				}
				o.Code = append(o.Code, stPOp{Op: c.Name, S: e})
			case "st.set", "st.x0", "st.x1":
				o.Code = append(o.Code, stPOp{Op: c.Name})
			case "st.mod":
				p := stPOp{Op: c.Name}
				if c.St != nil {
					p.O, p.S = c.St[0], c.St[1]
				}
				o.Code = append(o.Code, p)
			}
		}
		if full {
			o.Full = code
		}
	}
	err := vm.Run(src)
	if err != nil {
		o.Err = err.Error()
		return
	}
	o.Ok = true
	o.Rest = vm.RestInput
	return
}

// ---------------------------------------------------------------- value texts evaluated alone
type stAlone struct {
	Ok   bool   `json:"ok"`
	Err  string `json:"err,omitempty"`
	Val  *vdump `json:"val,omitempty"`
	Rest string `json:"rest,omitempty"`
}

// evalAlone: the value expression on a fresh VM.  restricted = the flags the second alternative of
// `est` sets (statements, Nd default dice, bitwise operators disabled).
func evalAlone(text string, mode int, restricted bool) (a stAlone) {
	cfg := allOn()
	cfg.Mode = mode
	if restricted {
		cfg.NoStmts, cfg.NoNDice, cfg.NoBitwise = true, true, true
	}
	vm := newVM(cfg, 1, 2, true)
	defer func() {
		if r := recover(); r != nil {
			a.Ok = false
			a.Err = "panic: " + fmt.Sprint(r)
		}
	}()
	if err := vm.Run(text); err != nil {
		a.Err = err.Error()
		return
	}
	a.Ok = true
	a.Val = dumpValue(vm.Ret)
	a.Rest = vm.RestInput
	return
}

// ---------------------------------------------------------------- edit lists and their printer
type stEdit struct {
	Kind   string   `json:"kind"` // set | x1 | x0 | computed | mod
	Name   string   `json:"name"`
	Quoted bool     `json:"quoted"`
	NameK  string   `json:"namek"`          // cjk ascii mixed digits ns quoted
	Op     string   `json:"op,omitempty"`   // mod: + += - -=
	Form   string   `json:"form,omitempty"` // set: delim | abut
	Delim  string   `json:"delim,omitempty"`
	VText  string   `json:"vtext"`
	VKind  string   `json:"vkind"` // int float dice expr paren bare-dice neg notneg
	KText  string   `json:"ktext,omitempty"`
	Src    string   `json:"src"`   // this edit as printed (without separator)
	CText  string   `json:"ctext"` // text the grammar captures for the value (st.mod text / computed Expr)
	Eval   string   `json:"eval"`  // what is evaluated alone: vtext, or "-"+vtext for op "-"
	Alone  *stAlone `json:"alone,omitempty"`
	KAlone *stAlone `json:"kalone,omitempty"`
}

type stHazard struct {
	H  string `json:"h"`
	At int    `json:"at"`
}

type stCase struct {
	Family  string     `json:"family"` // assign | modify | notneg | malformed
	Edits   []stEdit   `json:"edits"`
	Seps    []string   `json:"seps"` // separator printed after each edit
	Tail    string     `json:"tail"`
	Hazards []stHazard `json:"hazards"` // shapes with a recorded defect: kind + index of the first edit affected
	Run     stRun      `json:"run"`
}

var c18CJK = []string{"力量", "敏捷", "体质", "智力", "意志", "幸运", "射击", "弓箭", "手枪", "图书馆", "侦查", "闪避", "生命值", "魔法", "理智", "力", "教育", "외모", "ちから", "Сила", "σ"}
var c18ASCII = []string{"hp", "mp", "San", "STR", "a", "b", "x", "dex", "_hp", "$m", "Luck", "k", "d", "q", "c", "p", "e", "kh", "min", "A", "D"}
var c18Pear = []string{"优势", "劣势"}

type c18Gen struct {
	r    *rng
	mode int
	// bitOK: the value being generated may use bit-wise operators / the sides-less `Nd` inside its parentheses. Only for
	// assignment values whose name does not end in a digit: combined with the recorded text-splitting findings (a name
	// ending in digits is re-split, the rest of the edit then continues the value under the st restrictions) such a value
	// additionally runs into the recorded left-over-code finding, which is C03's subject, not this check's
	bitOK bool
}

func isASCIILetterStart(s string) bool {
	if s == "" {
		return false
	}
	c := s[0]
	return c == '_' || c == '$' || (c >= 'a' && c <= 'z') || (c >= 'A' && c <= 'Z')
}

func endsInDigit(s string) bool {
	return s != "" && s[len(s)-1] >= '0' && s[len(s)-1] <= '9'
}

// name: (text, quoted, kind); allowNS = unquoted namespaced names are possible in this spelling
func (g *c18Gen) name(allowNS bool) (string, bool, string) {
	r := g.r
	base := func() string {
		switch {
		case r.chance(6, 10):
			return pick(r, c18CJK)
		case r.chance(7, 10):
			return pick(r, c18ASCII)
		case r.chance(1, 6):
			return pick(r, c18Pear)
		default:
			if r.chance(1, 2) {
				return pick(r, c18CJK) + pick(r, c18ASCII)
			}
			return pick(r, c18ASCII) + pick(r, c18CJK)
		}
	}
	switch {
	case r.chance(12, 100): // quoted: may contain digits, spaces, ':'
		s := base()
		switch r.intn(5) {
		case 0:
			s += fmt.Sprint(r.intn(200))
		case 1:
			s += " " + base()
		case 2:
			s += ":" + base() + fmt.Sprint(r.intn(10))
		case 3:
			s = fmt.Sprint(r.intn(10)) + s
		}
		return s, true, "quoted"
	case allowNS && r.chance(12, 100):
		return base() + ":" + base(), false, "ns"
	case r.chance(1, 100): // unquoted, ends in digits: recorded defect
		return base() + fmt.Sprint(r.intn(130)), false, "digits"
	}
	s := base()
	k := "cjk"
	if isASCIILetterStart(s) {
		k = "ascii"
	}
	return s, false, k
}

func (g *c18Gen) dice() string {
	r := g.r
	n := 1 + r.intn(5)
	if g.mode == 0 {
		return fmt.Sprintf("%dd1", n)
	}
	m := 2 + r.intn(99)
	s := fmt.Sprintf("%dd%d", n, m)
	if r.chance(1, 5) {
		s += fmt.Sprintf("k%d", 1+r.intn(n))
	}
	return s
}

func (g *c18Gen) atom() (string, string) {
	r := g.r
	switch {
	case r.chance(45, 100):
		if r.chance(1, 12) {
			return fmt.Sprint(1000000000000 + r.i64n(1000000)), "int"
		}
		return fmt.Sprint(r.intn(1000)), "int"
	case r.chance(30, 100):
		if r.chance(1, 4) {
			return fmt.Sprintf(".%d", 1+r.intn(99)), "float"
		}
		return fmt.Sprintf("%d.%d", r.intn(100), r.intn(100)), "float"
	default:
		return g.dice(), "dice"
	}
}

// value: (text, kind).  Always ends in a digit or ')'.
func (g *c18Gen) value() (string, string) {
	r := g.r
	a, k := g.atom()
	switch {
	case r.chance(55, 100):
		return a, k
	case r.chance(40, 100): // a op b
		b, _ := g.atom()
		return a + pick(r, []string{"+", "-", "*"}) + b, "expr"
	default: // parenthesised: the full expression syntax is back inside the parentheses (bit-wise operators, the sides-less `Nd`)
		b, _ := g.atom()
		op := pick(r, []string{"+", "-", "*", "+", "-", "*", "&", "|"})
		if !g.bitOK && (op == "&" || op == "|") {
			op = "+"
		}
		if op == "&" || op == "|" { // integer operands only (anything else is a type error, not a value)
			a, b = fmt.Sprint(r.intn(64)), fmt.Sprint(r.intn(64))
			if r.chance(1, 4) {
				b = g.dice()
			}
		} else if g.bitOK && g.mode != 0 && r.chance(1, 8) {
			b = fmt.Sprintf("%dd", 1+r.intn(4))
		}
		in := a + op + b
		if r.chance(1, 4) {
			in = a + " " + op + " " + b
		}
		if r.chance(1, 5) {
			in = a
		}
		s := "(" + in + ")"
		if r.chance(1, 6) {
			s = "(" + s + ")"
		}
		if r.chance(1, 2) {
			c, _ := g.atom()
			s += pick(r, []string{"+", "-", "*"}) + c
		}
		return s, "paren"
	}
}

func sp01(r *rng, p int) string {
	if r.chance(p, 100) {
		return " "
	}
	return ""
}

func quote(name string, q bool) string {
	if q {
		return "'" + name + "'"
	}
	return name
}

var c18Seps = []string{"", " ", ",", " ,", ", ", "  ", " , "}

func leadingSpaces(s string) string {
	n := 0
	for n < len(s) && s[n] == ' ' {
		n++
	}
	return s[:n]
}

func swallowsBlanks(v string) bool {
	return strings.HasSuffix(v, ")") || strings.HasSuffix(v, "]") || strings.HasSuffix(v, "null")
}

func (g *c18Gen) assignEdit() stEdit {
	r := g.r
	var e stEdit
	switch {
	case r.chance(58, 100):
		e.Kind = "set"
	case r.chance(35, 100):
		e.Kind = "x1"
	case r.chance(35, 100):
		e.Kind = "x0"
	default:
		e.Kind = "computed"
	}
	e.Name, e.Quoted, e.NameK = g.name(e.Kind == "set" || e.Kind == "computed")
	g.bitOK = !endsInDigit(e.Name)
	e.VText, e.VKind = g.value()
	g.bitOK = false
	e.Delim = pick(r, []string{":", "="})
	n := quote(e.Name, e.Quoted)
	switch e.Kind {
	case "set":
		e.Form = "delim"
		if r.chance(35, 100) {
			e.Form = "abut"
		}
		if e.Form == "delim" {
			if r.chance(2, 100) { // dY without a count: a value that starts with a letter
				if g.mode == 0 {
					e.VText = "d1"
				} else {
					e.VText = fmt.Sprintf("d%d", 2+r.intn(30))
				}
				e.VKind = "bare-dice"
			} else if r.chance(4, 100) && !strings.ContainsAny(e.VText, "&|") && !strings.Contains(e.VText, "d)") {
				// (a value that does not START with a parenthesis is parsed with the st restrictions also inside its parentheses)
				e.VText, e.VKind = "-"+e.VText, "neg"
			}
			e.Src = n + sp01(r, 15) + e.Delim + sp01(r, 15) + e.VText
		} else {
			e.Src = n + e.VText
		}
	case "x1":
		switch r.intn(4) {
		case 0:
			e.KText = fmt.Sprintf("%d.%d", r.intn(5), r.intn(10))
		case 1:
			e.KText = "(" + fmt.Sprint(1+r.intn(3)) + "+" + fmt.Sprint(r.intn(3)) + ")"
		default:
			e.KText = fmt.Sprint(1 + r.intn(9))
		}
		e.Src = n + sp01(r, 10) + "*" + sp01(r, 10) + e.KText + sp01(r, 10) + e.Delim + sp01(r, 15) + e.VText
	case "x0":
		e.Src = n + sp01(r, 10) + "*" + sp01(r, 10) + e.Delim + sp01(r, 15) + e.VText
	case "computed":
		// `&name = expr`: a space after the delimiter is a recorded defect (look-ahead copy lacks `sp`)
		e.Src = "&" + n + sp01(r, 15) + e.Delim + sp01(r, 4) + e.VText
	}
	e.Eval = e.VText
	return e
}

func (g *c18Gen) modEdit() stEdit {
	r := g.r
	var e stEdit
	e.Kind = "mod"
	e.Name, e.Quoted, e.NameK = g.name(true)
	e.VText, e.VKind = g.value()
	e.Op = pick(r, []string{"+", "+=", "-", "-="})
	n := quote(e.Name, e.Quoted)
	after := sp01(r, 12)
	if e.Op == "-" {
		after = "" // the minus sign is the first character of the captured expression
	}
	e.Src = n + sp01(r, 12) + e.Op + after + e.VText
	e.Eval = e.VText
	if e.Op == "-" {
		e.Eval = "-" + e.VText
	}
	return e
}

func (g *c18Gen) gen(family string) stCase {
	r := g.r
	c := stCase{Family: family, Hazards: []stHazard{}}
	n := 1 + r.intn(6)
	if r.chance(1, 4) {
		n = 1 + r.intn(2)
	}
	bad := -1
	if family == "notneg" {
		bad = r.intn(n)
	}
	for k := 0; k < n; k++ {
		var e stEdit
		if family == "assign" {
			e = g.assignEdit()
		} else {
			e = g.modEdit()
			if k == bad { // a value whose negation is undefined: `-1&&[1]` is the array [1]
				e.Op, e.VText, e.VKind = "-", pick(r, []string{"1&&[1]", "0||[2,3]", "2&&[1,[2]]"}), "notneg"
				e.Src = quote(e.Name, e.Quoted) + "-" + e.VText
				e.Eval = "-" + e.VText
			}
		}
		c.Edits = append(c.Edits, e)
	}
	// separators: one style per list (mostly), sometimes mixed
	style := pick(r, c18Seps)
	mixed := r.chance(1, 4)
	for k := 0; k < n; k++ {
		s := style
		if mixed {
			s = pick(r, c18Seps)
		}
		if k == n-1 {
			s = ""
			if r.chance(1, 6) {
				s = pick(r, []string{" ", ",", " , "})
			}
		}
		c.Seps = append(c.Seps, s)
	}
	if r.chance(1, 12) {
		c.Tail = pick(r, []string{" 你好", "。", " ;", " #1", "！"})
		if c.Seps[n-1] == "" && strings.HasPrefix(c.Tail, " ") == false && r.chance(1, 2) {
			c.Seps[n-1] = " "
		}
	}
	// print
	var sb strings.Builder
	sb.WriteString("^st")
	for k := range c.Edits {
		sb.WriteString(c.Edits[k].Src)
		sb.WriteString(c.Seps[k])
	}
	sb.WriteString(c.Tail)
	src := sb.String()
	// captured text, hazards
	hz := map[string]int{}
	mark := func(h string, at int) {
		if _, ok := hz[h]; !ok {
			hz[h] = at
		}
	}
	for k := range c.Edits {
		e := &c.Edits[k]
		follow := c.Seps[k]
		if k == n-1 {
			follow += c.Tail
		}
		e.CText = e.Eval
		if swallowsBlanks(e.VText) {
			e.CText += leadingSpaces(follow) // `)` `]` `null` are followed by sp inside the expression grammar
		}
		if e.NameK == "digits" {
			mark("digits", k)
		}
		if e.Kind == "set" && e.Form == "delim" && e.Delim == ":" && e.VKind == "bare-dice" && !e.Quoted && e.NameK != "ns" &&
			strings.Contains(e.Src, e.Name+":"+e.VText) {
			mark("colon-letter", k)
		}
		// (a blank after the delimiter of a computed edit used to be a recorded defect shape; repaired in /repo 7cf18a0)
		if k+1 < n {
			nx := &c.Edits[k+1]
			eff := c.Seps[k] // `)` swallows the blanks that follow it: a blank-only separator then separates nothing
			if swallowsBlanks(e.VText) && strings.TrimSpace(eff) == "" {
				eff = ""
			}
			if eff == "" && !nx.Quoted && nx.Kind != "computed" &&
				(e.VKind == "bare-dice" || // `d7射击` lexes as one identifier
					stAbsorbs(e.VText, e.Kind == "mod" || strings.HasPrefix(e.VText, "("), nx.Src)) {
				mark("abut", k)
			}
			if e.Kind != "mod" && strings.HasPrefix(e.VText, "(") && nx.Kind == "computed" && !strings.Contains(c.Seps[k], ",") {
				mark("paren-amp", k)
			}
		}
	}
	for _, h := range []string{"digits", "abut", "paren-amp", "colon-letter"} {
		if at, ok := hz[h]; ok {
			c.Hazards = append(c.Hazards, stHazard{h, at})
		}
	}
	// the values, each alone
	for k := range c.Edits {
		e := &c.Edits[k]
		if e.Kind != "computed" {
			restricted := e.Kind != "mod" && !strings.HasPrefix(e.VText, "(")
			a := evalAlone(e.Eval, g.mode, restricted)
			e.Alone = &a
		}
		if e.Kind == "x1" {
			a := evalAlone(e.KText, g.mode, false)
			e.KAlone = &a
		}
	}
	c.Run = stRunOne(src, g.mode, false)
	return c
}

// stAbsorbs: does the dice syntax of the (unchanged) grammar continue the value `v` into the text `f` that follows it
// directly?  This is the exact shape of the recorded finding "abut": `2d6` + `k敏捷70` (keep modifier), `60` + `d5` (XdY),
// `60` + `a5` / `c5` (WoD / Double Cross pools), and — only where N-dice are allowed, i.e. in a parenthesised or modify
// value — `<number or )>` + `d…` (the `3d` shorthand).  Everything else that abuts (`60dex70`, `2d6str5`) is NOT part of
// the finding: the value ends where it ends and the name follows.
func stAbsorbs(v string, ndiceAllowed bool, f string) bool {
	if v == "" || f == "" {
		return false
	}
	nos := func(s string) bool { return s != "" && (s[0] == '(' || (s[0] >= '0' && s[0] <= '9')) }
	lc := f[0] | 0x20
	// last atom of the value
	kind := "int"
	if v[len(v)-1] == ')' {
		kind = "paren"
	} else {
		i := len(v)
		for i > 0 && (v[i-1] == '.' || (v[i-1] >= '0' && v[i-1] <= '9') || (v[i-1]|0x20 >= 'a' && v[i-1]|0x20 <= 'z')) {
			i--
		}
		tok := strings.ToLower(v[i:])
		switch {
		case strings.Contains(tok, "d") && strings.ContainsAny(tok, "kq"):
			kind = "dicemod"
		case strings.Contains(tok, "d"):
			kind = "dice"
		case strings.Contains(tok, "."):
			kind = "float"
		}
	}
	if v[len(v)-1] == ']' && (strings.HasPrefix(f, "kh") || strings.HasPrefix(f, "kl")) {
		return true // array literal + kh / kl: the keep-highest / keep-lowest call of the array grammar
	}
	switch kind {
	case "int", "paren":
		if lc == 'd' && (ndiceAllowed || nos(f[1:])) {
			return true
		}
		return (lc == 'a' || lc == 'c') && nos(f[1:])
	case "dice":
		if strings.HasPrefix(f, "kl") || strings.HasPrefix(f, "kh") || strings.HasPrefix(f, "dh") || strings.HasPrefix(f, "dl") || lc == 'k' || lc == 'q' {
			return true
		}
		fallthrough
	case "dicemod":
		if (strings.HasPrefix(f, "min") || strings.HasPrefix(f, "max")) && nos(f[3:]) {
			return true
		}
		return lc == 'd' && nos(f[1:])
	}
	return false
}

var c18MutAlphabet = []string{":", "=", "*", "&", "'", ",", " ", "+", "-", "(", ")", "1", "0", "d", "k", "力", "a", ".", "+=", "-=", "\n", "^st"}

func mutate(r *rng, src string) string {
	rs := []rune(src)
	body := rs[3:]
	for k := 1 + r.intn(2); k > 0; k-- {
		if len(body) == 0 {
			break
		}
		p := r.intn(len(body) + 1)
		switch r.intn(3) {
		case 0:
			if p < len(body) {
				body = append(append([]rune{}, body[:p]...), body[p+1:]...)
			}
		case 1:
			ins := []rune(pick(r, c18MutAlphabet))
			body = append(append(append([]rune{}, body[:p]...), ins...), body[p:]...)
		case 2:
			if p+1 < len(body) {
				body[p], body[p+1] = body[p+1], body[p]
			}
		}
	}
	return "^st" + string(body)
}

func init() {
	cmds["c18"] = func(args []string) {
		fs, seed, n := stdFlags("c18")
		fs.Parse(args)
		r := newRng(*seed)
		var srcs []string
		modes := []int{0, 0, 0, -1, 1}
		for k := 0; k < *n; k++ {
			g := &c18Gen{r: r, mode: pick(r, modes)}
			fam := "assign"
			switch {
			case r.chance(38, 100):
				fam = "modify"
			case r.chance(3, 100):
				fam = "notneg"
			}
			c := g.gen(fam)
			emit(c)
			if len(srcs) < *n/4 && !strings.ContainsAny(c.Run.Src, "&|") {
				srcs = append(srcs, c.Run.Src)
			}
		}
		// malformed stream
		for k := 0; k < *n/4 && len(srcs) > 0; k++ {
			src := mutate(r, pick(r, srcs))
			emit(stCase{Family: "malformed", Hazards: []stHazard{}, Run: stRunOne(src, 0, false)})
		}
	}
	cmds["c18-probe"] = func(args []string) {
		sc := bufio.NewScanner(os.Stdin)
		sc.Buffer(make([]byte, 1<<20), 1<<26)
		for sc.Scan() {
			var in struct {
				Src  string `json:"src"`
				Mode int    `json:"mode"`
				Code bool   `json:"code"`
			}
			if json.Unmarshal(sc.Bytes(), &in) != nil {
				continue
			}
			emit(stRunOne(in.Src, in.Mode, in.Code))
		}
	}
}
