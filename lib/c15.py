"""C15 — min-mode and max-mode bracket every roll."""
import json

import common
import dicecases
from common import Broken, Z

LEVEL = "proof"

HEADER = ("From Coq Require Import String NArith ZArith List.\n"
          "From DS Require Import Model.PCG Model.Roll Model.Str Model.Dice Model.DiceExpr Corr.Corr05 Corr.Corr15.\n"
          "Import ListNotations.\nSet Printing Width 1000000. Set Printing Depth 10000000.\n")


def dexpr_term(e):
    k = e[0]
    if k == "c":
        return f"(EConst {Z(e[1])})"
    if k == "d":
        return (f"(ECommon {Z(e[1])} {Z(e[2])} {dicecases.opt(e[3])} {dicecases.opt(e[4])} {Z(e[5])} {Z(e[6])} {Z(e[7])})")
    if k == "f":
        return "EFate"
    if k == "coc":
        return f"(ECoC {'true' if e[1] else 'false'} {Z(e[2])})"
    if k == "add":
        return f"(EAdd {dexpr_term(e[1])} {dexpr_term(e[2])})"
    if k == "mul":
        return f"(EMulC {Z(e[1])} {dexpr_term(e[2])})"
    raise ValueError(k)


def vm_cases_v(rows):
    items = []
    for r in rows:
        a, b, c = r["m-1"], r["m0"], r["m1"]
        items.append(f"({dexpr_term(r['expr'])}, ({r['hi']}%N,{r['lo']}%N), "
                     f"({Z(a['val']['i'])}, ({Z(b['val']['i'])}, {b['hi2']}%N, {b['lo2']}%N), {Z(c['val']['i'])}))")
    return (HEADER + "Definition cases : list c15_case := [\n" + ";\n".join(items) + "].\n"
            "Definition bad := Eval vm_compute in bad_indices c15_ok 0%N cases.\nPrint bad.\n")


def run(res, tier, seed):
    common.build_harness()
    n = 1200 if tier == "quick" else 8000
    vm_rows, _ = common.run_harness(["c15", "-seed", seed, "-n", n])
    fn_rows, _ = common.run_harness(["c04", "-seed", seed, "-n", n, "-modes", "all"])
    kinds = {}

    def walk(e):
        kinds[e[0]] = kinds.get(e[0], 0) + 1
        for x in e[1:]:
            if isinstance(x, list):
                walk(x)
    for r in vm_rows:
        walk(r["expr"])
        res.count(r["text"] + r["hi"], nontrivial=r["expr"][0] in ("add", "mul", "d", "coc"))
    for r in fn_rows:
        res.count(json.dumps([r["call"], r["args"], r["dmin"], r["dmax"], r["flag"], r["mode"], r["hi"]]), nontrivial=r["mode"] != 0)
    res.cov["rule"] = ("(a) monotone dice expressions (constants, XdY with every keep/drop/min/max spelling, Fate, CoC bonus/penalty, +, "
                       "non-negative constant *) printed as source and run by the real parser+VM under min / random / max mode from the same "
                       "seed; (b) direct RollCommon/RollCoC/RollFate/RollWoD/RollDoubleCross calls in the three modes; "
                       "distinct = distinct (expression text or call, seed); non-trivial = contains a dice term / is a min- or max-mode call")
    res.cov["input_distribution"] = {"vm_expressions": len(vm_rows), "function_calls": len(fn_rows), "expr_nodes_by_kind": kinds}
    res.sample({"text": vm_rows[0]["text"], "min": vm_rows[0]["m-1"]["str"], "rnd": vm_rows[0]["m0"]["str"], "max": vm_rows[0]["m1"]["str"]})
    res.sample(fn_rows[len(fn_rows) // 2])
    res.cov["trusted_base"] += [
        "Model/Dice.v and Model/DiceExpr.v are hand-written models of roll_func.go and of the VM's evaluation of the fragment; tied by exact "
        "result + generator-state correspondence, for the fragment through the real parser and VM",
        "exploding families (WoD, Double Cross) are excluded from the bracket statement, as the property says",
        "int64 overflow of dice totals is excluded by wf_dexpr / the no-overflow hypothesis",
    ]

    # property-level search on Go's own observations
    found = 0
    for r in vm_rows:
        a, b, c = r["m-1"], r["m0"], r["m1"]
        if not (a["ok"] and b["ok"] and c["ok"]):
            res.violation({"what": "a monotone dice expression failed to evaluate", "text": r["text"], "runs": {"min": a, "rnd": b, "max": c}})
            found += 1
        else:
            lo_, x, hi_ = int(a["val"]["i"]), int(b["val"]["i"]), int(c["val"]["i"])
            if not (lo_ <= x <= hi_):
                res.violation({"what": "random result outside [min-mode, max-mode]", "text": r["text"], "seed_state": [r["hi"], r["lo"]],
                               "min": lo_, "random": x, "max": hi_, "detail": b["detail"]})
                found += 1
            for m, name in ((a, "min"), (c, "max")):
                if (m["hi2"], m["lo2"]) != (r["hi"], r["lo"]):
                    res.violation({"what": f"{name}-mode evaluation consumed randomness", "text": r["text"], "before": [r["hi"], r["lo"]],
                                   "after": [m["hi2"], m["lo2"]]})
                    found += 1
        if found >= 3:
            break
    for r in fn_rows:
        if r["mode"] != 0 and (r["hi2"], r["lo2"]) != (r["hi"], r["lo"]) and found < 3:
            res.violation({"what": "min/max-mode Roll* call consumed randomness", "case": r})
            found += 1

    broken = None
    bad, okrows = [], []
    try:
        info = common.check_property_file("C15")
        res.proof(info, "cd coq && make && coqc -Q . DS Properties/C15.v  (Print Assumptions parsed)")
        okrows = [r for r in vm_rows if r["m-1"]["ok"] and r["m0"]["ok"] and r["m1"]["ok"]]
        shard = 300
        ks = list(range(0, len(okrows), shard))
        outs = common.coq_eval_many([(f"c15_{k}", vm_cases_v(okrows[k:k + shard])) for k in ks])
        bad = []
        for k, out in zip(ks, outs):
            bad += [k + int(x.replace("%N", "")) for x in common.parse_coq_list(out, "bad")]
        bad2 = dicecases.correspond(common, fn_rows, "c15fn")
        res.cov["correspondence"] = {"vm_cases": len(okrows), "vm_disagreements": len(bad), "fn_cases": len(fn_rows), "fn_disagreements": len(bad2)}
        if bad:
            broken = Broken("correspondence Corr15.c15_ok (Model/DiceExpr.deval vs parser+VM under three modes)",
                            {"first": [{"text": okrows[i]["text"], "expr": okrows[i]["expr"], "hi": okrows[i]["hi"], "lo": okrows[i]["lo"],
                                        "min": okrows[i]["m-1"]["str"], "rnd": okrows[i]["m0"]["str"], "max": okrows[i]["m1"]["str"]} for i in bad[:3]]})
        elif bad2:
            broken = Broken("correspondence Corr04.c04_ok (Model/Dice.v vs Roll* functions)", {"first": [fn_rows[i] for i in bad2[:3]]})
    except Broken as b:
        broken = b
    if broken and not found:
        # enlarged search: the disagreeing expressions (or, failing that, all of them) under many more seeds
        texts = []
        if isinstance(broken.detail, dict):
            texts = [c["text"] for c in broken.detail.get("first", []) if "text" in c]
        texts = list(dict.fromkeys(texts))[:12]
        hits, _ = common.run_harness(["c15-seeds", "-seed", seed, "-n", 4000], stdin="\n".join(texts) + "\n", timeout=600)
        if not hits:
            more = list(dict.fromkeys(r["text"] for r in vm_rows))[:150]
            hits, _ = common.run_harness(["c15-seeds", "-seed", seed, "-n", 200], stdin="\n".join(more) + "\n", timeout=600)
        for h in hits[:2]:
            res.violation(dict(h, what="random result outside [min-mode, max-mode] (enlarged seed search)"))
            found += 1
    if broken and not found and bad:
        # the min / max-mode halves of the disagreement ARE the property: the definition (every die of every term at its lowest / highest
        # face, then clamps and keeps — proved to bracket every roll, C15_common_bracket / C15_mono_expr_bracket) gives one number,
        # the code another. Ask the model for its numbers on the first disagreeing expressions.
        sub = [okrows[i] for i in bad[:6]]
        items = ";\n".join(f"({dexpr_term(r['expr'])}, ({r['hi']}%N,{r['lo']}%N))" for r in sub)
        out = common.coq_eval("c15_explain", HEADER + "Definition qs : list (dexpr * (N * N)) := [\n" + items + "].\n"
                              "Definition ans := Eval vm_compute in map (fun q => let '(e, (h, l)) := q in let s := {| hi := h; lo := l |} in\n"
                              "  (match deval pcg_next 256 (-1) e s with Done (a, _) => a | _ => (-999999999)%Z end,\n"
                              "   match deval pcg_next 256 1 e s with Done (a, _) => a | _ => (-999999999)%Z end)) qs.\nPrint ans.\n")
        import re as _re
        pairs = _re.findall(r"\(\s*(-?\d+)(?:%Z)?\s*,\s*(-?\d+)(?:%Z)?\s*\)", out.split("ans =", 1)[-1].replace("\n", " ")) if "ans =" in out else []
        for r, pr in zip(sub, pairs):
            dmin, dmax = int(pr[0]), int(pr[1])
            gmin, gmax = int(r["m-1"]["val"]["i"]), int(r["m1"]["val"]["i"])
            if dmin == -999999999 or dmax == -999999999:
                continue
            if (gmin, gmax) != (dmin, dmax) and found < 2:
                res.violation({"what": "the min-mode / max-mode result is not the value with every die at its lowest / highest face (the bound the definition "
                                       "gives, which is attained and brackets every roll)", "text": r["text"], "code_min_mode": gmin, "definition_min": dmin,
                               "code_max_mode": gmax, "definition_max": dmax, "random_result_under_this_seed": r["m0"]["str"], "seed_state": [r["hi"], r["lo"]]})
                found += 1
    if broken and not found:
        res.violation({"broken": broken.what, "detail": broken.detail}, no_input=True)


def replay(path):
    p = json.load(open(path))
    print(json.dumps(p, indent=1, ensure_ascii=False))
    return 0
