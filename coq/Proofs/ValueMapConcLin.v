(* Generic part of the linearizability proof for Model/ValueMapConc.v:
   ghost linearization state driven by the annotations of the model, and the proof that,
   as long as every annotation is justified (lg_ok), the recorded history is linearizable. *)
From stdpp Require Import gmap.
From Coq Require Import NArith Lia.
From DS Require Import Model.ValueMap Model.ValueMapConc.

Inductive gstatus := GInv (o : cop) (seen : list spec) | GLin (r : vres).
Record lghost := { g_abs : spec; g_th : gmap nat gstatus }.

Definition tick (s : spec) (x : gstatus) : gstatus :=
  match x with GInv o seen => GInv o (s :: seen) | GLin r => GLin r end.
Definition to_l (x : gstatus) : lstatus :=
  match x with GInv o _ => SInv o | GLin r => SLin r end.
Definition stat (g : lghost) : gmap nat lstatus := to_l <$> g_th g.

Definition lg_step (g : lghost) (t : nat) (a : ann) : lghost :=
  match a with
  | ATau => g
  | AInv o => {| g_abs := g_abs g; g_th := <[t := GInv o [g_abs g]]> (g_th g) |}
  | ARet r => {| g_abs := g_abs g; g_th := delete t (g_th g) |}
  | ALin =>
    match g_th g !! t with
    | Some (GInv o _) =>
      let '(s', r) := spec_step (g_abs g) (vop_of o) in
      {| g_abs := s'; g_th := <[t := GLin r]> (tick s' <$> g_th g) |}
    | _ => g
    end
  | ALinPast r =>
    match g_th g !! t with
    | Some (GInv o _) => {| g_abs := g_abs g; g_th := <[t := GLin r]> (g_th g) |}
    | _ => g
    end
  end.

Definition lg_ok (g : lghost) (t : nat) (a : ann) : Prop :=
  match a with
  | AInv o => g_th g !! t = None
  | ARet r => g_th g !! t = Some (GLin r)
  | ALinPast r => forall o seen, g_th g !! t = Some (GInv o seen) ->
                  exists s, s ∈ seen /\ spec_step s (vop_of o) = (s, r)
  | _ => True
  end.

Definition ann_events (t : nat) (a : ann) : list hevent :=
  match a with AInv o => [EInv t o] | ARet r => [ERet t r] | _ => [] end.

Definition mark_tid (m : mark) : nat :=
  match m with MInv t _ => t | MLin t => t | MRet t _ => t end.
Definition not_in (t : nat) (l : list mark) : Prop := Forall (fun m => mark_tid m <> t) l.

Definition HInv (h : list hevent) (g : lghost) : Prop :=
  exists H, erase H = h /\ replay (∅, ∅) H = Some (g_abs g, stat g) /\
    forall t o seen s, g_th g !! t = Some (GInv o seen) -> s ∈ seen ->
      exists H1 H2 th1, H = H1 ++ H2 /\ not_in t H2 /\
        replay (∅, ∅) H1 = Some (s, th1) /\ th1 !! t = Some (SInv o).

Lemma replay_app st l1 l2 :
  replay st (l1 ++ l2) = match replay st l1 with Some st' => replay st' l2 | None => None end.
Proof.
  revert st. induction l1 as [|m l1 IH]; intros st; simpl; [done|].
  destruct (replay1 st m); [apply IH|done].
Qed.

Lemma erase_app l1 l2 : erase (l1 ++ l2) = erase l1 ++ erase l2.
Proof. unfold erase. apply omap_app. Qed.

Lemma replay_frame t x l s th s' th' :
  not_in t l -> replay (s, th) l = Some (s', th') ->
  replay (s, <[t := x]> th) l = Some (s', <[t := x]> th').
Proof.
  revert s th. induction l as [|m l IH]; intros s th Hn Hr; simpl in *.
  { by inversion Hr. }
  apply Forall_cons in Hn as [Hm Hn].
  destruct m as [t0 o|t0|t0 r]; simpl in *.
  - rewrite lookup_insert_ne by done.
    destruct (th !! t0); [done|]. rewrite insert_commute by done. by apply IH.
  - rewrite lookup_insert_ne by done.
    destruct (th !! t0) as [[o|r]|]; try done.
    destruct (spec_step s (vop_of o)) as [s1 r1].
    rewrite insert_commute by done. by apply IH.
  - rewrite lookup_insert_ne by done.
    destruct (th !! t0) as [[o|r']|]; try done.
    destruct (bool_decide (r = r')); [|done].
    rewrite delete_insert_ne by done. by apply IH.
Qed.

Lemma stat_tick s (th : gmap nat gstatus) : to_l <$> (tick s <$> th) = to_l <$> th.
Proof.
  rewrite <-map_fmap_compose. apply map_fmap_ext. intros i x _. by destruct x.
Qed.

Lemma not_in_app t l1 l2 : not_in t (l1 ++ l2) <-> not_in t l1 /\ not_in t l2.
Proof. apply Forall_app. Qed.

Lemma HInv_inv h g t o :
  HInv h g -> g_th g !! t = None -> HInv (h ++ [EInv t o]) (lg_step g t (AInv o)).
Proof.
  intros (H & He & Hr & Hs) Hn. exists (H ++ [MInv t o]). split; [|split].
  - rewrite erase_app, He. done.
  - rewrite replay_app, Hr. simpl. unfold stat in *. simpl.
    rewrite lookup_fmap, Hn. simpl. by rewrite fmap_insert.
  - simpl. intros t' o' seen s Hl Hin.
    destruct (decide (t' = t)) as [->|Hne].
    + rewrite lookup_insert in Hl. inversion Hl; subst.
      apply elem_of_list_singleton in Hin as ->.
      exists (H ++ [MInv t o']), [], (<[t := SInv o']> (stat g)).
      split; [by rewrite app_nil_r|]. split; [constructor|]. split.
      * rewrite replay_app, Hr. simpl. unfold stat. by rewrite lookup_fmap, Hn.
      * by rewrite lookup_insert.
    + rewrite lookup_insert_ne in Hl by done.
      destruct (Hs _ _ _ _ Hl Hin) as (H1 & H2 & th1 & -> & Hni & Hr1 & Hl1).
      exists H1, (H2 ++ [MInv t o]), th1. split; [by rewrite app_assoc|].
      split; [|done]. apply not_in_app. split; [done|]. constructor; [simpl; congruence|constructor].
Qed.

Lemma HInv_ret h g t r :
  HInv h g -> g_th g !! t = Some (GLin r) -> HInv (h ++ [ERet t r]) (lg_step g t (ARet r)).
Proof.
  intros (H & He & Hr & Hs) Hn. exists (H ++ [MRet t r]). split; [|split].
  - rewrite erase_app, He. done.
  - rewrite replay_app, Hr. simpl. unfold stat in *. simpl.
    rewrite lookup_fmap, Hn. simpl. rewrite bool_decide_true by done. by rewrite fmap_delete.
  - simpl. intros t' o' seen s Hl Hin.
    destruct (decide (t' = t)) as [->|Hne]; [by rewrite lookup_delete in Hl|].
    rewrite lookup_delete_ne in Hl by done.
    destruct (Hs _ _ _ _ Hl Hin) as (H1 & H2 & th1 & -> & Hni & Hr1 & Hl1).
    exists H1, (H2 ++ [MRet t r]), th1. split; [by rewrite app_assoc|].
    split; [|done]. apply not_in_app. split; [done|]. constructor; [simpl; congruence|constructor].
Qed.

Lemma HInv_lin h g t :
  HInv h g -> HInv h (lg_step g t ALin).
Proof.
  intros (H & He & Hr & Hs). simpl.
  destruct (g_th g !! t) as [[o seen0|r0]|] eqn:Ht; try (by exists H).
  destruct (spec_step (g_abs g) (vop_of o)) as [s' r] eqn:Hsp.
  assert (replay (∅, ∅) (H ++ [MLin t]) = Some (s', <[t := SLin r]> (stat g))) as Hr'.
  { rewrite replay_app, Hr. simpl. unfold stat. rewrite lookup_fmap, Ht. simpl. by rewrite Hsp. }
  exists (H ++ [MLin t]). split; [|split].
  - rewrite erase_app, He. simpl. by rewrite app_nil_r.
  - rewrite Hr'. unfold stat. simpl. by rewrite fmap_insert, stat_tick.
  - simpl. intros t' o' seen s Hl Hin.
    destruct (decide (t' = t)) as [->|Hne]; [by rewrite lookup_insert in Hl|].
    rewrite lookup_insert_ne, lookup_fmap in Hl by done.
    destruct (g_th g !! t') as [[o1 seen1|r1]|] eqn:Ht'; simpl in Hl; inversion Hl; subst.
    apply elem_of_cons in Hin as [->|Hin].
    + exists (H ++ [MLin t]), [], (<[t := SLin r]> (stat g)).
      split; [by rewrite app_nil_r|]. split; [constructor|]. split; [done|].
      rewrite lookup_insert_ne by done. unfold stat. by rewrite lookup_fmap, Ht'.
    + destruct (Hs _ _ _ _ Ht' Hin) as (H1 & H2 & th1 & -> & Hni & Hr1 & Hl1).
      exists H1, (H2 ++ [MLin t]), th1. split; [by rewrite app_assoc|].
      split; [|done]. apply not_in_app. split; [done|]. constructor; [simpl; congruence|constructor].
Qed.

Lemma replay_app_inv st l1 l2 st2 :
  replay st (l1 ++ l2) = Some st2 -> exists st1, replay st l1 = Some st1 /\ replay st1 l2 = Some st2.
Proof.
  rewrite replay_app. destruct (replay st l1) as [st1|]; [|done]. intros. by exists st1.
Qed.

Lemma replay_cons st m l :
  replay st (m :: l) = match replay1 st m with Some st' => replay st' l | None => None end.
Proof. done. Qed.

Lemma HInv_linpast h g t r :
  HInv h g -> lg_ok g t (ALinPast r) -> HInv h (lg_step g t (ALinPast r)).
Proof.
  intros (H & He & Hr & Hs) Hok. simpl in *.
  destruct (g_th g !! t) as [[o seen0|r0]|] eqn:Ht; try (by exists H).
  destruct (Hok _ _ eq_refl) as (s & Hin & Hsp).
  destruct (Hs _ _ _ _ Ht Hin) as (H1 & H2 & th1 & -> & Hni & Hr1 & Hl1).
  apply replay_app_inv in Hr as (st1 & Hr1' & Hr2). rewrite Hr1 in Hr1'. inversion Hr1'; subst st1.
  assert (replay1 (s, th1) (MLin t) = Some (s, <[t := SLin r]> th1)) as Hstep.
  { simpl. by rewrite Hl1, Hsp. }
  exists (H1 ++ MLin t :: H2). split; [|split].
  - rewrite <-He, !erase_app. done.
  - rewrite replay_app, Hr1. rewrite replay_cons, Hstep.
    unfold stat. simpl. rewrite fmap_insert. simpl. by apply replay_frame.
  - simpl. intros t' o' seen s' Hl Hin'.
    destruct (decide (t' = t)) as [->|Hne]; [by rewrite lookup_insert in Hl|].
    rewrite lookup_insert_ne in Hl by done.
    destruct (Hs _ _ _ _ Hl Hin') as (A & B & thA & HAB & HniB & HrA & HlA).
    apply app_eq_inv in HAB as [(l & -> & ->)|(l & -> & ->)].
    + (* the checkpoint of t' lies before the inserted mark *)
      exists A, (l ++ MLin t :: H2), thA. split; [by rewrite <-app_assoc|].
      split; [|done]. apply not_in_app in HniB as [? ?]. apply not_in_app. split; [done|].
      constructor; [simpl; congruence|done].
    + (* ... or after it *)
      apply not_in_app in Hni as [Hnl _].
      apply replay_app_inv in HrA as (st1 & HrA1 & HrA2). rewrite Hr1 in HrA1.
      inversion HrA1; subst st1.
      exists (H1 ++ MLin t :: l), B, (<[t := SLin r]> thA).
      split; [by rewrite <-app_assoc|]. split; [done|]. split.
      * rewrite replay_app, Hr1. rewrite replay_cons, Hstep. by apply replay_frame.
      * by rewrite lookup_insert_ne.
Qed.

Lemma HInv_step h g t a :
  HInv h g -> lg_ok g t a -> HInv (h ++ ann_events t a) (lg_step g t a).
Proof.
  intros Hi Hok. destruct a; simpl ann_events; rewrite ?app_nil_r.
  - done.
  - by apply HInv_inv.
  - by apply HInv_ret.
  - by apply HInv_lin.
  - by apply HInv_linpast.
Qed.

Lemma HInv_init : HInv [] {| g_abs := ∅; g_th := ∅ |}.
Proof.
  exists []. split; [done|]. split; [by unfold stat; simpl; rewrite fmap_empty|].
  intros t o seen s Hl. simpl in Hl. by rewrite lookup_empty in Hl.
Qed.

Lemma HInv_linearizable h g : HInv h g -> linearizable h.
Proof. intros (H & He & Hr & _). exists H. split; [done|]. by rewrite Hr. Qed.
