#!/usr/bin/env python3
"""Authoring helper (not used at check time): build coq/Properties/<Cnn>.v from a list of
lemmas by copying their STATEMENTS verbatim from a Proofs file and closing each with
`exact lemma` + Print Assumptions.  The generated file is committed as static text.
usage: mkprops.py C04 spec.json   where spec = {"imports": "...", "section": "...", "theorems": [[newname, lemma, file, comment], ...], "tail": "..."}"""
import json
import re
import sys


def header(src, lemma):
    m = re.search(r"^\s*(?:Theorem|Lemma|Corollary)\s+" + re.escape(lemma) + r"\b(.*?)\n\s*Proof\b", src, re.S | re.M)
    if not m:
        raise SystemExit("lemma not found: " + lemma)
    return m.group(1).rstrip().rstrip(".")


def binder_names(h):
    """names of the binders before the top-level ':'"""
    depth, i = 0, 0
    while i < len(h):
        c = h[i]
        if c in "([{":
            depth += 1
        elif c in ")]}":
            depth -= 1
        elif c == ":" and depth == 0 and h[i:i + 2] != ":=":
            break
        i += 1
    b = h[:i]
    names = []
    for tok in re.findall(r"\([^()]*\)|\{[^{}]*\}|[A-Za-z_][A-Za-z0-9_']*", b):
        if tok[0] in "({":
            names += tok[1:-1].split(":")[0].split()
        else:
            names.append(tok)
    return names


def main():
    pid, specfile = sys.argv[1], sys.argv[2]
    spec = json.load(open(specfile))
    out = [f"(* {pid} — generated once by tools/mkprops.py from the lemma statements; only statements,", "   `exact lemma` and Print Assumptions live here. *)", spec["imports"], ""]
    sect = spec.get("section")
    if sect:
        out += ["Section Source.", sect, ""]
    names = []
    for new, lemma, file, comment in spec["theorems"]:
        src = open(file).read()
        h = header(src, lemma)
        bn = " ".join(binder_names(h))
        out.append(f"(* {comment} *)")
        out.append(f"Theorem {new}{h}.")
        if sect:
            out.append(f"Proof. first [ exact ({lemma} S next next_word {bn}) | exact ({lemma} S next {bn}) | exact ({lemma} {bn}) | exact ({lemma} S {bn}) ]. Qed.")
        else:
            out.append(f"Proof. exact ({lemma} {bn}). Qed.")
        out.append("")
        names.append(new)
    if sect:
        out += ["End Source.", ""]
    out.append(spec.get("tail", ""))
    for n in names:
        out.append(f"Print Assumptions {n}.")
    open(f"/verif/coq/Properties/{pid}.v", "w").write("\n".join(out) + "\n")


main()
