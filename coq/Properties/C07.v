(* C07 — budgets and capacity limits fail closed (capacity half; the VM budget theorems are in the
   second part of this file once Proofs/VMSafety.v is available). Constants and guard shapes are
   REGENERATED from /repo (Gen/Limits.v). *)
From Coq Require Import NArith List Bool.
From DS Require Import Model.Limits Proofs.LimitsProofs Gen.Limits.
Open Scope N_scope.

(* every pattern the translator looks for was found in the current sources *)
Theorem C07_limits_located :
  stack_size_found && block_array_len_found && fstr_array_len_found && code_cap_found && range_cap_found &&
  pool_cap_found && call_cost_found = true.
Proof. vm_compute. reflexivity. Qed.

(* guard shapes present in the current sources *)
Theorem C07_guards_present :
  block_guard_is_ge_len && fstr_guard_is_ge_len && stack_guard_at_loop_head && code_cap_records_error &&
  parse_budget_recovered && array_add_cap_512 && op_count_saturates && coc_negative_rejected && wod_rounds_budgeted = true.
Proof. vm_compute. reflexivity. Qed.

(* code buffer: a program that does not fit records an error (which Parse returns) … *)
Theorem C07_code_overflow_is_error :
  forall n : nat, code_cap < N.of_nat n -> b_err (writes code_cap n cbuf_init) = true.
Proof. intros n. apply overflow_is_error. vm_compute. discriminate. Qed.

(* … and when no error is recorded every instruction was stored: code is never silently truncated *)
Theorem C07_no_error_means_complete :
  forall n : nat, b_err (writes code_cap n cbuf_init) = false -> b_idx (writes code_cap n cbuf_init) = N.of_nat n.
Proof. intros n. apply no_error_means_complete. vm_compute. discriminate. Qed.

(* block / template-block stacks: the guard compares with the array length, so index `len` is never written *)
Theorem C07_block_guard_covers :
  forall idx, guarded_push block_array_len block_array_len idx <> PushOutOfBounds /\
              guarded_push fstr_array_len fstr_array_len idx <> PushOutOfBounds.
Proof. intros idx. split; apply guard_covers_array; apply N.le_refl. Qed.

(* the unrepaired guard (`> 20` on a 20-slot array) let index 20 through — repaired defect *)
Theorem C07_old_block_guard_refuted : guarded_push 20 21 20 = PushOutOfBounds.
Proof. exact old_guard_refuted. Qed.

Print Assumptions C07_limits_located.
Print Assumptions C07_guards_present.
Print Assumptions C07_code_overflow_is_error.
Print Assumptions C07_no_error_means_complete.
Print Assumptions C07_block_guard_covers.
Print Assumptions C07_old_block_guard_refuted.

Example C07_nonvacuous : b_err (writes code_cap 8193 cbuf_init) = true /\ b_err (writes code_cap 8192 cbuf_init) = false.
Proof. vm_compute. split; reflexivity. Qed.

(* ---- budget half: theorems over Model/VM.v (validated against the real VM by K2 incl. exact NumOpCount) ---- *)
From Coq Require Import ZArith.
From DS Require Import Model.Value Model.VM Model.CodeWf Proofs.VMSafety Proofs.VMDepth Proofs.DiceCharge.
Open Scope Z_scope.

(* numOpCountAdd: never lowers the counter, never wraps (saturates), reports "over" exactly when a positive limit is exceeded *)
Theorem C07_ops_add_spec : forall c cur count new over,
  0 <= cur <= MaxInt64 -> 0 <= count -> ops_add c cur count = (new, over) ->
  cur <= new /\ new <= MaxInt64 /\ new = Z.min (cur + count) MaxInt64 /\ (over = true <-> 0 < cfg_op_limit c < new).
Proof. exact Proofs.VMSafety.C07_ops_add_spec. Qed.

(* with a budget L the main loop dispatches at most max(0, L - c0) instructions (calls into sub-VMs count as one
   dispatch each and are themselves charged), for every program, every state, every fuel *)
Theorem C07_budget_bounds_dispatches : forall E L, cfg_op_limit (e_cfg E) = L -> 0 < L <= MaxInt64 - 100 ->
  forall fuel m, run_pre m ->
  fst (exec_count fuel E m) = exec fuel E m /\
  Z.of_nat (snd (exec_count fuel E m)) <= Z.max 0 (L - ops_of (m_w m)).
Proof. exact Proofs.VMSafety.C07_budget_bounds_dispatches. Qed.

Theorem C07_counter_never_lowered : forall E L, cfg_op_limit (e_cfg E) = L -> 0 < L <= MaxInt64 - 100 ->
  forall fuel m m', run_pre m -> exec fuel E m = Fin m' -> ops_of (m_w m) <= ops_of (m_w m') <= MaxInt64.
Proof. exact Proofs.VMSafety.C07_counter_never_lowered. Qed.

(* recursion is bounded by the budget: every sub-VM (script function call, computed value) starts at least 101 above
   its caller's start counter (one dispatch + the 100 charged for the call) and at most at L, so the nesting depth of
   sub-VM activations - measured by the instrumented run exec_depth, which computes exactly exec - is at most (L - c0)/101.
   The hypothesis on the context chain (every calling context's counter within the budget) holds for the machine that
   `run` starts and is re-established when a run finishes; without it the statement is false (Proofs/VMDepth.v
   C07_call_depth_needs_int64_chain: a calling context with a counter beyond int64 would restart a callee near 0). *)
Theorem C07_call_depth_bounded : forall E L, cfg_op_limit (e_cfg E) = L -> 0 < L <= MaxInt64 - 100 ->
  forall fuel m, w_chain (m_w m) <> nil -> dice_ok (m_fr m) -> chain_in_budget L (m_w m) ->
  fst (exec_depth fuel E m) = exec fuel E m /\
  Z.of_nat (snd (exec_depth fuel E m)) <= Z.max 0 ((L - ops_of (m_w m)) / 101) /\
  (forall m', exec fuel E m = Fin m' -> chain_in_budget L (m_w m')).
Proof. exact Proofs.VMDepth.C07_call_depth_exact. Qed.

Print Assumptions C07_ops_add_spec.
Print Assumptions C07_budget_bounds_dispatches.
Print Assumptions C07_counter_never_lowered.
Print Assumptions C07_call_depth_bounded.
(* further budget theorems proved in Proofs/VMSafety.v and re-checked with it: C07_dispatch_counts,
   C07_budget_error_once_exceeded, C07_dice_batch_charged_before_rolling, C07_dice_over_budget_no_roll,
   C07_coc_batch_charged_before_rolling, C07_wod_rounds_charged, C07_dc_rounds_charged,
   C07_wod_dc_rounds_charged(_step), C07_call_costs_100, C07_computed_costs_100, C07_run_dispatch_bound;
   Proofs/VMDepth.v: exec_depth_fst, C07_call_depth_bounded (chain within int64: bound + 1), C07_call_depth_bounded_100,
   C07_run_call_depth (the machine `run` starts: depth <= L/101), C07_callee_start_counter, examples attaining the bound. *)

(* ---- "... and every die rolled" (Proofs/DiceCharge.v).  `exec_dice` is `exec` with a count of the dice rolled (one die = one
   trip of a rolling loop, i.e. one call of Roll.roll; sub-VM activations of functions and computed values included); it is the
   same execution (first component).  With a budget L, for every program, state and fuel, the dice rolled by a run are bounded
   by what is left of the budget — no slack — and are paid for by the counter.  Every dice operator charges BEFORE it rolls
   (XdY: times; CoC: the bonus / penalty dice, the d100 is the instruction's own unit; Fate: 4 — after the repair e3db4d5, before
   it charged nothing and this bound was refuted by four `f` under a budget of 3; WoD / Double Cross: the pool of each round at
   the start of that round) and rolls nothing when the charge exceeds the budget.  `chain_in_budget` (every calling context's
   counter is an int64 within the budget) is established by `run` and kept by every step; it cannot be dropped
   (C07_dice_bound_needs_chain_in_budget in Proofs/DiceCharge.v). *)
Theorem C07_dice_bounded_by_budget : forall E L, cfg_op_limit (e_cfg E) = L -> 0 < L <= MaxInt64 - 100 ->
  forall fuel m, w_chain (m_w m) <> nil -> dice_ok (m_fr m) -> chain_in_budget L (m_w m) ->
  fst (exec_dice fuel E m) = exec fuel E m /\
  Z.of_nat (snd (exec_dice fuel E m)) <= Z.max 0 (L - ops_of (m_w m)).
Proof. exact Proofs.DiceCharge.C07_dice_bounded_by_budget. Qed.

Theorem C07_dice_paid_by_counter : forall E L, cfg_op_limit (e_cfg E) = L -> 0 < L <= MaxInt64 - 100 ->
  forall fuel m m', w_chain (m_w m) <> nil -> dice_ok (m_fr m) -> chain_in_budget L (m_w m) ->
  exec fuel E m = Fin m' ->
  Z.of_nat (snd (exec_dice fuel E m)) <= ops_of (m_w m') - ops_of (m_w m).
Proof. exact Proofs.DiceCharge.C07_dice_paid_by_counter. Qed.

Print Assumptions C07_dice_bounded_by_budget.
Print Assumptions C07_dice_paid_by_counter.
