package main

import (
	"encoding/binary"
	"fmt"
	"math"
	"math/big"
	"strconv"

	ds "github.com/sealdice/dicescript"
	"golang.org/x/exp/rand"
)

// PCG constants (golang.org/x/exp/rand) — used only to ENGINEER states whose next
// output is a chosen word; the outputs themselves always come from the real code.
var (
	pcgMul, _ = new(big.Int).SetString("47026247687942121848144207491837523525", 10)
	pcgInc, _ = new(big.Int).SetString("117397592171526113268558934119004209487", 10)
	two128    = new(big.Int).Lsh(big.NewInt(1), 128)
	pcgMulInv = new(big.Int).ModInverse(pcgMul, two128)
)

// stateBefore returns (hi,lo) such that the next Uint64() of a source in that state
// returns v: successor state (0,v) has output rotr(0^v, 0) = v.
func stateBefore(v uint64) (uint64, uint64) {
	succ := new(big.Int).SetUint64(v)
	x := new(big.Int).Sub(succ, pcgInc)
	x.Mod(x, two128)
	x.Mul(x, pcgMulInv)
	x.Mod(x, two128)
	lo := new(big.Int).And(x, new(big.Int).SetUint64(math.MaxUint64)).Uint64()
	hi := new(big.Int).Rsh(x, 64).Uint64()
	return hi, lo
}

func mkSrc(hi, lo uint64) *rand.PCGSource {
	var b [16]byte
	binary.BigEndian.PutUint64(b[:8], hi)
	binary.BigEndian.PutUint64(b[8:], lo)
	s := &rand.PCGSource{}
	_ = s.UnmarshalBinary(b[:])
	return s
}

func srcState(s *rand.PCGSource) (uint64, uint64) {
	b, _ := s.MarshalBinary()
	return binary.BigEndian.Uint64(b[:8]), binary.BigEndian.Uint64(b[8:])
}

type c05Case struct {
	Kind string `json:"kind"`
	D    string `json:"d"`    // dicePoints (int64, decimal)
	Mode int    `json:"mode"` // -1,0,1
	Hi   string `json:"hi"`
	Lo   string `json:"lo"`
	W    string `json:"w,omitempty"` // engineered first word, if any
	Res  string `json:"res"`
	Hi2  string `json:"hi2"`
	Lo2  string `json:"lo2"`
}

func u(x uint64) string { return strconv.FormatUint(x, 10) }
func i(x int64) string  { return strconv.FormatInt(x, 10) }

// c05Global: the same roll on the package-level generator (what a VM without a seed uses: Roll with a nil source), pinned
// to the given state: result and successor state must be those of a private source in that state
func c05Global(kind string, d int64, mode int, hi, lo uint64, w *uint64) {
	g := ds.VerifGlobalRandSource()
	var b [16]byte
	binary.BigEndian.PutUint64(b[:8], hi)
	binary.BigEndian.PutUint64(b[8:], lo)
	_ = g.UnmarshalBinary(b[:])
	res := ds.Roll(nil, ds.IntType(d), mode)
	h2, l2 := srcState(g)
	c := c05Case{Kind: kind, D: i(d), Mode: mode, Hi: u(hi), Lo: u(lo), Res: i(int64(res)), Hi2: u(h2), Lo2: u(l2)}
	if w != nil {
		c.W = u(*w)
	}
	emit(c)
}

func c05Run(kind string, d int64, mode int, hi, lo uint64, w *uint64) {
	src := mkSrc(hi, lo)
	res := ds.Roll(src, ds.IntType(d), mode)
	h2, l2 := srcState(src)
	c := c05Case{Kind: kind, D: i(d), Mode: mode, Hi: u(hi), Lo: u(lo), Res: i(int64(res)), Hi2: u(h2), Lo2: u(l2)}
	if w != nil {
		c.W = u(*w)
	}
	emit(c)
}

func init() {
	cmds["c05"] = func(args []string) {
		fs, seed, n := stdFlags("c05")
		fs.Parse(args)
		r := newRng(*seed)

		// ladder of side counts
		var ladder []int64
		for k := int64(1); k <= 70; k++ {
			ladder = append(ladder, k)
		}
		for k := uint(7); k <= 62; k++ {
			p := int64(1) << k
			ladder = append(ladder, p-1, p, p+1)
			if k <= 60 {
				ladder = append(ladder, 3*p)
			}
		}
		ladder = append(ladder, 100, 1000, 6148914691236517206 /* floor(2^64/3)+1 */, 3<<61, math.MaxInt64-2, math.MaxInt64-1, math.MaxInt64)
		for k := 0; k < 40; k++ {
			ladder = append(ladder, int64(r.u64()>>uint(1+r.intn(62)))|1)
		}

		// engineered boundary words for each n
		for _, d := range ladder {
			nn := uint64(d)
			ceil := uint64(math.MaxUint64) - uint64(math.MaxUint64)%nn
			words := []uint64{ceil - 1, ceil, ceil + 1, math.MaxUint64 - nn, math.MaxUint64 - nn + 1, math.MaxUint64, 0, nn - 1, nn, nn + 1, ceil - nn, ceil - nn - 1}
			for _, w := range words {
				w := w
				hi, lo := stateBefore(w)
				c05Run("eng", d, 0, hi, lo, &w)
				if d%3 == 0 || d > 1<<40 {
					c05Global("eng-global", d, 0, hi, lo, &w)
				}
			}
		}
		// modes and degenerate sizes on random states
		for _, d := range []int64{0, 1, 2, 6, 100, math.MaxInt64 - 1, math.MaxInt64} {
			for _, m := range []int{-1, 0, 1} {
				c05Run("mode", d, m, r.u64(), r.u64(), nil)
			}
		}
		// random (n, state)
		for k := 0; k < *n; k++ {
			var d int64
			switch r.intn(4) {
			case 0:
				d = 1 + r.i64n(100)
			case 1:
				d = pick(r, ladder)
			default:
				d = int64(r.u64()>>uint(1+r.intn(63))) | 1
			}
			if d <= 0 {
				d = 6
			}
			c05Run("rnd", d, 0, r.u64(), r.u64(), nil)
			if k%4 == 0 {
				c05Global("rnd-global", d, pick(r, []int{0, 0, 0, -1, 1}), r.u64(), r.u64(), nil)
			}
		}
	}

	// c05-errpath: a die is a fresh draw also after a FAILED evaluation. The draws an evaluation consumed stay consumed when it
	// ends in a run-time error (its dice may already have escaped into variables), whichever entry point ran it: on VM A a statement
	// rolls a 10^9-sided die into `a`, then fails; on VM B (same generator state) the same roll succeeds; the next die must be the
	// same on both (it is the next draw of the same stream), `a` must be the same, and the generator states must agree
	cmds["c05-errpath"] = func(args []string) {
		fs, seed, n := stdFlags("c05-errpath")
		fs.Parse(args)
		r := newRng(*seed)
		fails := []string{"a = d1000000000; a / 0", "a = d1000000000; a + 'x'", "a = d1000000000; [1][5]", "a = [d1000000000, 2d1000000000][0]; nosuch()",
			"a = d1000000000; func g() { d1000000000 / 0 }; g()", "a = d1000000000; &cv = d1000000000 + 'x'; cv", "a = d1000000000; `{% 1/0 %}`"}
		for k := 0; k < *n; k++ {
			hi, lo := r.u64(), r.u64()
			stmt := fails[k%len(fails)]
			entry := []string{"Run", "RunExpr-up", "RunExpr"}[(k/len(fails))%3]
			mk := func() *ds.Context {
				c := allOn()
				c.OpLimit = 100000
				return newVM(c, hi, lo, true)
			}
			row := map[string]any{"stmt": stmt, "entry": entry, "hi": u(hi), "lo": u(lo)}
			func() {
				defer func() {
					if rc := recover(); rc != nil {
						row["panic"] = fmt.Sprint(rc)
					}
				}()
				a := mk()
				var err error
				switch entry {
				case "Run":
					err = a.Run(stmt)
				case "RunExpr-up":
					_, err = a.RunExpr(stmt, true)
				default:
					_, err = a.RunExpr(stmt, false)
				}
				row["failed"] = err != nil
				ah, al := srcState(a.RandSrc)
				next := runScript(a, "d1000000000", false)
				av, _ := a.Attrs.Load("a")
				// reference: the first roll alone, successfully, from the same state
				b := mk()
				first := runScript(b, "d1000000000", false)
				row["first_ref"], row["next"] = first.Str, next.Str
				ref := []string{first.Str}
				for j := 0; j < 4; j++ {
					ref = append(ref, runScript(b, "d1000000000", false).Str)
				}
				row["ref_stream"] = ref // successive 10^9-sided dice from the start state
				if av != nil {
					row["a"] = av.ToString()
				}
				row["state_after_failure"] = []string{u(ah), u(al)}
				row["state_start"] = []string{u(hi), u(lo)}
			}()
			emit(row)
		}
	}

	// c05-stat: search helper — frequency table of n-sided dice over many engineered and random words
	cmds["c05-stat"] = func(args []string) {
		fs, seed, n := stdFlags("c05-stat")
		sides := fs.Int64("sides", 3<<61, "number of sides")
		buckets := fs.Int("buckets", 4, "quantile buckets")
		fs.Parse(args)
		r := newRng(*seed)
		src := mkSrc(r.u64(), r.u64())
		cnt := make([]int64, *buckets)
		bad := 0
		for k := 0; k < *n; k++ {
			v := int64(ds.Roll(src, ds.IntType(*sides), 0))
			if v < 1 || v > *sides {
				bad++
				continue
			}
			// bucket = floor((v-1)*buckets/sides) without overflow
			q := new(big.Int).Mul(big.NewInt(v-1), big.NewInt(int64(*buckets)))
			q.Div(q, big.NewInt(*sides))
			cnt[q.Int64()]++
		}
		emit(map[string]any{"sides": i(*sides), "n": *n, "counts": cnt, "out_of_range": bad})
	}
}

func parseU(s string) uint64 {
	v, _ := strconv.ParseUint(s, 10, 64)
	return v
}
