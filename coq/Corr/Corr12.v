(* Correspondence checker for C12: API results of the Go ValueMap on an operation
   sequence = results of the transliterated model (vm_run). *)
From stdpp Require Import gmap.
From Coq Require Import NArith ZArith.
From DS Require Import Model.ValueMap Model.Linz.

Definition enc_res (r : vres) : list Z :=
  match r with
  | RNone => []
  | ROpt None => [0%Z]
  | ROpt (Some v) => [1%Z; Z.of_N v]
  | ROptB v b => [(if b then 1 else 0)%Z; match v with Some v => Z.of_N v | None => (-1)%Z end]
  | RPairs l => flat_map (fun p => [Z.of_N p.1; Z.of_N p.2]) l
  | RLen n => [Z.of_nat n]
  end.

Definition dec_op (o : N * N * N) : vop :=
  let '(c, k, v) := o in
  match c with
  | 0 => OLoad k | 1 => OStore k v | 2 => OLoadOrStore k v | 3 => OLoadAndDelete k
  | 4 => ODelete k | 5 => OClear | 6 => ORange | _ => OLength
  end%N.

Definition c12_case : Type := list (N * N * N) * list (list Z).

Definition c12_ok (c : c12_case) : bool :=
  let '(ops, res) := c in
  let '(m, rs) := vm_run vm_init (map dec_op ops) in
  ok m && bool_decide (map enc_res rs = res).

Definition c12_spec_ok (c : c12_case) : bool :=
  let '(ops, res) := c in
  bool_decide (map enc_res (spec_run ∅ (map dec_op ops)).2 = res).

Fixpoint bad_idx {A} (okf : A -> bool) (i : N) (l : list A) : list N :=
  match l with
  | [] => []
  | c :: r => if okf c then bad_idx okf (i + 1)%N r else i :: bad_idx okf (i + 1)%N r
  end.

(* concurrent histories: events as (op, encoded result, inv, ret); an event's result is
   decoded against the op's result shape *)
Definition dec_res (o : vop) (r : list Z) : vres :=
  match o, r with
  | OLoad _, [0%Z] | OLoadAndDelete _, [0%Z] => ROpt None
  | OLoad _, [1%Z; v] | OLoadAndDelete _, [1%Z; v] => ROpt (Some (Z.to_N v))
  | OLoadOrStore _ _, [b; v] => ROptB (Some (Z.to_N v)) (b =? 1)%Z
  | ORange, l =>
    RPairs ((fix go (l : list Z) := match l with k :: v :: r => (Z.to_N k, Z.to_N v) :: go r | _ => [] end) l)
  | OLength, [n] => RLen (Z.to_nat n)
  | _, _ => RNone
  end.

Definition mk_event (x : (N * N * N) * list Z * N * N) : event :=
  let '(o, r, i, t) := x in
  let op := dec_op o in {| e_op := op; e_res := dec_res op r; e_inv := i; e_ret := t |}.

Definition c12_lin_ok (h : list ((N * N * N) * list Z * N * N)) : bool :=
  linearizable (map mk_event h).
