(* Values, heap and the pure value-level operations of the dicescript VM
   (types.go: VMValue, Clone, AsBool, ToString/ToRepr, ValueEqual, Op*, getRealIndex,
   getClampRealIndex, GetSlice/SetSlice, ArrayRepeatTimesEx, AsDictKey; types_methods.go:
   the array helpers that need no generator).

   REPRESENTATION
   * int = Z with explicit int64 wrap (`wrap64`) exactly where Go wraps.
   * float64 does not exist in this version: every instruction / builtin that would create a
     float answers `Unsupported "float"` in Model/VM.v, hence no float value is ever on the stack.
   * strings are byte strings; Go's []rune view (indexing, slicing, length) is `runes`.
   * arrays and dicts are REFERENCES into a heap: `Clone` copies the two-word header only, so
     `a=[1]; b=a; b[0]=2; a` sees 2.  Every *ArrayData owns its backing array (NewArrayVal copies,
     SetSlice/randSize build fresh slices), so an array object is just a list of element headers.
     Element cells ( *VMValue ) are never written in place by the VM (only replaced), therefore cell
     identity is not modelled.  The one place where Go looks at cell identity is the `a == b`
     pointer shortcut of ValueEqual; it can only fire on a shared cell, whose two sides are then
     the same header, and two headers of the same array / dict object are equal by the explicit
     `arr1 == arr2` / `d1 == d2` test of valueEqualVisit, which `value_equal` reproduces on ids.
   * variable scopes (Context.Attrs), dict bodies and attribute maps of computed values are
     `vmap`s: insertion-ordered association lists living in the heap (they are shared by
     reference: ComputedExecute runs a sub-VM directly on the computed value's map).
     Go iterates these maps in random order, so every OBSERVATION OF ORDER over a map with two or
     more keys is `Unsupported "dict order"` (ToString of a dict, keys/values/items, dir()).
   * functions and computed values are indices into an immutable table (`ftab`): one entry per
     push.func / push.computed instruction of the dumped code; the index plays the role of the
     *FunctionData / *ComputedData pointer (identity for `==`, shared attribute map). *)
From Coq Require Import String Ascii NArith ZArith List Bool.
From DS Require Import Model.Str.
Import ListNotations.
Open Scope string_scope.
Open Scope Z_scope.

(* ------------------------------------------------------------------ values *)
(* Self of a bound native method (getBindMethod): only arrays, dicts and computed values have
   a builtin prototype *)
Inductive vself := SNone | SArr (id : N) | SDict (id : N) | SComp (cid : N).

Inductive value :=
| VInt (z : Z)
| VStr (s : string)
| VNull
| VComp (cid : N)                      (* computed value; cid indexes ftab *)
| VArr (id : N)                        (* heap reference *)
| VDict (id : N)                       (* heap reference *)
| VFunc (fid : N)                      (* user function; fid indexes ftab *)
| VNative (name : string) (self : vself)  (* builtin function / bound builtin method *)
| VThis.                               (* vmTypeLocal: what push.this pushes *)

(* VMValueType numbers (funcTypeId) *)
Definition type_id (v : value) : Z :=
  match v with
  | VInt _ => 0 | VStr _ => 2 | VNull => 4 | VComp _ => 5 | VArr _ => 6 | VDict _ => 7
  | VFunc _ => 8 | VNative _ _ => 9 | VThis => 20
  end.

(* GetTypeName: dict and the internal `this` object have no case *)
Definition type_name (v : value) : string :=
  match v with
  | VInt _ => "int" | VStr _ => "str" | VNull => "null" | VComp _ => "computed" | VArr _ => "array"
  | VFunc _ => "function" | VNative _ _ => "nfunction" | VDict _ | VThis => "unknown"
  end.

(* ------------------------------------------------------------------ function table *)
(* one entry per *FunctionData / *ComputedData created by the parser.  `A` = the instruction type
   (defined in Model/VM.v).  f_code = None: body not compiled in the dump (lazy). *)
Record fdata (A : Type) := {
  f_computed : bool;
  f_name : string;
  f_params : list string;
  f_expr : string;
  f_code : option (list A)
}.
Arguments f_computed {A}. Arguments f_name {A}. Arguments f_params {A}. Arguments f_expr {A}. Arguments f_code {A}.

(* what the value-level operations need to know about a table entry *)
Record finfo := { fi_name : string; fi_expr : string }.
Definition fnames := N -> finfo.          (* total: unknown index = empty strings *)

(* ------------------------------------------------------------------ heap *)
Definition amap (A : Type) := list (N * A).
Fixpoint aget {A} (k : N) (m : amap A) : option A :=
  match m with [] => None | (k', v) :: r => if (k =? k')%N then Some v else aget k r end.
Fixpoint aset {A} (k : N) (v : A) (m : amap A) : amap A :=
  match m with
  | [] => [(k, v)]
  | (k', v') :: r => if (k =? k')%N then (k, v) :: r else (k', v') :: aset k v r
  end.

Definition vmap := list (string * value).
Fixpoint mget (k : string) (m : vmap) : option value :=
  match m with [] => None | (k', v) :: r => if String.eqb k k' then Some v else mget k r end.
Fixpoint mset (k : string) (v : value) (m : vmap) : vmap :=
  match m with
  | [] => [(k, v)]
  | (k', v') :: r => if String.eqb k k' then (k, v) :: r else (k', v') :: mset k v r
  end.

Record heap := {
  h_next : N;                       (* next fresh id (arrays and maps share the counter) *)
  h_arrs : amap (list value);       (* *ArrayData *)
  h_maps : amap vmap;               (* *ValueMap: scopes, dict bodies, computed attrs *)
  h_cattrs : amap N                 (* ComputedData.Attrs: cid -> map id (absent = nil) *)
}.
Definition empty_heap : heap := {| h_next := 0; h_arrs := []; h_maps := []; h_cattrs := [] |}.

Definition alloc_arr (l : list value) (h : heap) : N * heap :=
  (h_next h, {| h_next := N.succ (h_next h); h_arrs := (h_next h, l) :: h_arrs h; h_maps := h_maps h; h_cattrs := h_cattrs h |}).
Definition alloc_map (m : vmap) (h : heap) : N * heap :=
  (h_next h, {| h_next := N.succ (h_next h); h_arrs := h_arrs h; h_maps := (h_next h, m) :: h_maps h; h_cattrs := h_cattrs h |}).
Definition set_arr (id : N) (l : list value) (h : heap) : heap :=
  {| h_next := h_next h; h_arrs := aset id l (h_arrs h); h_maps := h_maps h; h_cattrs := h_cattrs h |}.
Definition set_map (id : N) (m : vmap) (h : heap) : heap :=
  {| h_next := h_next h; h_arrs := h_arrs h; h_maps := aset id m (h_maps h); h_cattrs := h_cattrs h |}.
(* a dangling reference cannot arise (ids are only created by the alloc functions); it reads as empty *)
Definition get_arr (id : N) (h : heap) : list value := match aget id (h_arrs h) with Some l => l | None => [] end.
Definition get_map (id : N) (h : heap) : vmap := match aget id (h_maps h) with Some m => m | None => [] end.

(* cd.Attrs, allocated on first need (`if cd.Attrs == nil { cd.Attrs = &ValueMap{} }`) *)
Definition cattrs_force (cid : N) (h : heap) : N * heap :=
  match aget cid (h_cattrs h) with
  | Some id => (id, h)
  | None => let '(id, h1) := alloc_map [] h in
            (id, {| h_next := h_next h1; h_arrs := h_arrs h1; h_maps := h_maps h1; h_cattrs := (cid, id) :: h_cattrs h1 |})
  end.
(* read-only view: nil map = no attributes *)
Definition cattrs_get (cid : N) (h : heap) : vmap :=
  match aget cid (h_cattrs h) with Some id => get_map id h | None => [] end.

(* ------------------------------------------------------------------ strings *)
Definition MaxInt64 : Z := 9223372036854775807.
Definition MinInt64 : Z := -9223372036854775808.
Definition two53 : Z := 9007199254740992.

Fixpoint concat_s (l : list string) : string :=
  match l with [] => "" | x :: r => x ++ concat_s r end.

Definition is_cont (b : N) : bool := ((128 <=? b) && (b <=? 191))%N.
Definition rune_error : list N := [239; 191; 189]%N.     (* U+FFFD *)

(* []rune(s), each rune kept as its UTF-8 encoding; an invalid byte is one U+FFFD (Go's
   DecodeRune: width 1 on every error; surrogates and overlong forms are errors) *)
Fixpoint runes_b (l : list N) : list (list N) :=
  match l with
  | [] => []
  | b0 :: r0 =>
    let bad := rune_error :: runes_b r0 in
    if (b0 <? 128)%N then [b0] :: runes_b r0
    else if (b0 <? 194)%N then bad
    else if (b0 <? 224)%N then
      match r0 with
      | b1 :: r1 => if is_cont b1 then [b0; b1] :: runes_b r1 else bad
      | _ => bad
      end
    else if (b0 <? 240)%N then
      match r0 with
      | b1 :: b2 :: r2 =>
        let lo := if (b0 =? 224)%N then 160%N else 128%N in
        let hi := if (b0 =? 237)%N then 159%N else 191%N in
        if ((lo <=? b1) && (b1 <=? hi))%N && is_cont b2 then [b0; b1; b2] :: runes_b r2 else bad
      | _ => bad
      end
    else if (b0 <? 245)%N then
      match r0 with
      | b1 :: b2 :: b3 :: r3 =>
        let lo := if (b0 =? 240)%N then 144%N else 128%N in
        let hi := if (b0 =? 244)%N then 143%N else 191%N in
        if ((lo <=? b1) && (b1 <=? hi))%N && is_cont b2 && is_cont b3 then [b0; b1; b2; b3] :: runes_b r3 else bad
      | _ => bad
      end
    else bad
  end.
Definition runes (s : string) : list string := map s_of (runes_b (bytes_of s)).

(* strconv.ParseInt(s, 10, 64): optional sign, at least one digit, digits only, in range *)
Fixpoint digits_val (l : list N) (acc : Z) : option Z :=
  match l with
  | [] => Some acc
  | b :: r => if ((48 <=? b) && (b <=? 57))%N then digits_val r (acc * 10 + Z.of_N (b - 48)) else None
  end.
Definition parse_int (s : string) : option Z :=
  let bs := bytes_of s in
  let '(neg, ds) := match bs with
                    | 43%N :: r => (false, r)
                    | 45%N :: r => (true, r)
                    | _ => (false, bs)
                    end in
  match ds with
  | [] => None
  | _ => match digits_val ds 0 with
         | None => None
         | Some v => if neg then (if v <=? two63 then Some (- v) else None)
                     else (if v <? two63 then Some v else None)
         end
  end.

(* ------------------------------------------------------------------ truthiness *)
Definition as_bool (fn : fnames) (h : heap) (v : value) : bool :=
  match v with
  | VInt z => negb (z =? 0)
  | VStr s => negb (String.eqb s "")
  | VNull => false
  | VComp cid => negb (String.eqb (fi_expr (fn cid)) "")
  | VArr id => match get_arr id h with [] => false | _ => true end
  | VDict id => match get_map id h with [] => false | _ => true end
  | VFunc _ | VNative _ _ => true
  | VThis => false
  end.

(* ------------------------------------------------------------------ ToString / ToRepr *)
Inductive tsres :=
| TS (s : string) (seen : list N)
| TSUnsup (what : string).

Fixpoint mem_N (x : N) (l : list N) : bool :=
  match l with [] => false | y :: r => if (x =? y)%N then true else mem_N x r end.

(* toStringRaw (repr = false) / toReprRaw (repr = true).  `seen` = ri.exists: ids are added when
   an array / dict is entered and never removed (a DAG prints its second occurrence as [...]).
   fuel >= number of heap objects + 1 always suffices (each level marks a fresh id). *)
Fixpoint to_str (fuel : nat) (fn : fnames) (h : heap) (repr : bool) (v : value) (seen : list N) : tsres :=
  match fuel with
  | O => TSUnsup "tostring fuel"
  | S f =>
    match v with
    | VInt z => TS (show_Z z) seen
    | VStr s => TS (if repr then "'" ++ s ++ "'" else s) seen
    | VNull => TS "null" seen
    | VComp cid => TS ("&(" ++ fi_expr (fn cid) ++ ")") seen
    | VFunc fid => TS ("function " ++ fi_name (fn fid)) seen
    | VNative name _ => TS ("nfunction " ++ name) seen
    | VThis => TS (if repr then "<a value>" else "a value") seen
    | VArr id =>
      if mem_N id seen then TS "[...]" seen
      else
        match (fix go (l : list value) (seen : list N) : tsres :=
           match l with
           | [] => TS "]" seen
           | x :: r =>
             match to_str f fn h true x seen with
             | TSUnsup w => TSUnsup w
             | TS s seen1 =>
               match go r seen1 with
               | TSUnsup w => TSUnsup w
               | TS s2 seen2 => TS (s ++ (match r with [] => "" | _ => ", " end) ++ s2) seen2
               end
             end
           end) (get_arr id h) (id :: seen) with
        | TS s sn => TS ("[" ++ s) sn
        | u => u
        end
    | VDict id =>
      if mem_N id seen then TS "{...}" seen
      else match get_map id h with
           | [] => TS "{}" (id :: seen)
           | [(k, x)] =>
             match to_str f fn h true x (id :: seen) with
             | TSUnsup w => TSUnsup w
             | TS s seen1 => TS ("{'" ++ k ++ "': " ++ s ++ "}") seen1
             end
           | _ => TSUnsup "dict order"
           end
    end
  end.

Definition str_fuel (h : heap) : nat := S (S (N.to_nat (h_next h))).
Definition to_string (fn : fnames) (h : heap) (v : value) : tsres := to_str (str_fuel h) fn h false v [].
Definition to_repr (fn : fnames) (h : heap) (v : value) : tsres := to_str (str_fuel h) fn h true v [].

(* AsDictKey: str / int (/ float) rendered as text; None = type error *)
Definition as_dict_key (v : value) : option string :=
  match v with
  | VInt z => Some (show_Z z)
  | VStr s => Some s
  | _ => None
  end.

(* ------------------------------------------------------------------ ValueEqual *)
Definition vself_eqb (a b : vself) : bool :=
  match a, b with
  | SNone, SNone => true
  | SArr x, SArr y | SDict x, SDict y | SComp x, SComp y => (x =? y)%N
  | _, _ => false
  end.

Fixpoint mem_pair (x y : N) (l : list (N * N)) : bool :=
  match l with
  | [] => false
  | (a, b) :: r => if ((x =? a) && (y =? b))%N then true else mem_pair x y r
  end.

(* valueEqualVisit(a, b, true, visiting).  `vis` = the container pairs under comparison on the
   current path (the Go map entries are deleted again on return): a pair met again counts as
   equal, so the comparison of self-containing arrays / dicts terminates.  Lengths are compared
   before the visiting test, as in the code.  None = not enough fuel (the depth is bounded by the
   number of distinct pairs, so enough fuel always exists). *)
Fixpoint value_equal_v (fuel : nat) (fn : fnames) (h : heap) (vis : list (N * N)) (a b : value) : option bool :=
  match fuel with
  | O => None
  | S f =>
    match a, b with
    | VInt x, VInt y => Some (x =? y)
    | VStr x, VStr y => Some (String.eqb x y)
    | VNull, VNull => Some true
    | VThis, VThis => Some true                       (* a.Value == b.Value: nil == nil *)
    | VComp x, VComp y => Some (String.eqb (fi_expr (fn x)) (fi_expr (fn y)))
    | VFunc x, VFunc y => Some (x =? y)%N             (* *FunctionData pointers *)
    | VNative x _, VNative y _ => Some (String.eqb x y)   (* NativeFunc code pointers; Self ignored *)
    | VArr x, VArr y =>
      let l1 := get_arr x h in
      let l2 := get_arr y h in
      if negb (Nat.eqb (length l1) (length l2)) then Some false
      else if (x =? y)%N || mem_pair x y vis then Some true
      else (fix go (l1 l2 : list value) : option bool :=
              match l1, l2 with
              | u :: r1, w :: r2 =>
                match value_equal_v f fn h ((x, y) :: vis) u w with
                | None => None
                | Some false => Some false
                | Some true => go r1 r2
                end
              | _, _ => Some true
              end) l1 l2
    | VDict x, VDict y =>
      let m1 := get_map x h in
      let m2 := get_map y h in
      if negb (Nat.eqb (length m1) (length m2)) then Some false
      else if (x =? y)%N || mem_pair x y vis then Some true
      else (fix go (m1 : vmap) : option bool :=
              match m1 with
              | [] => Some true
              | (k, u) :: r =>
                match mget k m2 with
                | None => Some false                   (* MustLoad gives nil: equal(v, nil) = false *)
                | Some w =>
                  match value_equal_v f fn h ((x, y) :: vis) u w with
                  | None => None
                  | Some false => Some false
                  | Some true => go r
                  end
                end
              end) m1
    | _, _ => Some false
    end
  end.
Definition value_equal (fuel : nat) (fn : fnames) (h : heap) (a b : value) : option bool := value_equal_v fuel fn h [] a b.

(* ------------------------------------------------------------------ indices *)
(* getRealIndex: None = "无法获取此下标" *)
Definition get_real_index (index length : Z) : option Z :=
  let index := if index <? 0 then length + index else index in
  if (length <=? index) || (index <? 0) then None else Some index.

Definition get_clamp_real_index (index length : Z) : Z :=
  let index := if index <? 0 then length + index else index in
  let index := if index <? 0 then 0 else index in
  if length <? index then length else index.

Definition zlen {A} (l : list A) : Z := Z.of_nat (length l).
Definition slice {A} (l : list A) (a b : Z) : list A := firstn (Z.to_nat (b - a)) (skipn (Z.to_nat a) l).
Definition znth {A} (l : list A) (i : Z) (d : A) : A := nth (Z.to_nat i) l d.
Fixpoint list_set {A} (l : list A) (i : nat) (x : A) : list A :=
  match l, i with
  | [], _ => []
  | _ :: r, O => x :: r
  | y :: r, S i' => y :: list_set r i' x
  end.

(* GetSlice bounds: both ends clamped, a > b gives the empty slice at b *)
Definition slice_bounds (a b length : Z) : Z * Z :=
  let a' := get_clamp_real_index a length in
  let b' := get_clamp_real_index b length in
  if b' <? a' then (b', b') else (a', b').

(* SetSlice: arr[:a] ++ arr2 ++ arr[b:] *)
Definition set_slice (l l2 : list value) (a b : Z) : list value :=
  let '(a', b') := slice_bounds a b (zlen l) in
  firstn (Z.to_nat a') l ++ l2 ++ skipn (Z.to_nat b') l.

Fixpoint repeat_list {A} (l : list A) (n : nat) : list A :=
  match n with O => [] | S n' => l ++ repeat_list l n' end.

(* ------------------------------------------------------------------ arithmetic *)
(* math.Pow on two ints, converted back with IntType(): exact whenever the mathematical result
   is an integer of magnitude <= 2^53 (every intermediate product of Pow's square-and-multiply
   loop is then exact).  None = outside that window (rounding, or an out-of-range
   float->int conversion whose result is platform-defined). *)
Definition int_pow (a b : Z) : option Z :=
  if (two53 <? Z.abs a) || (two53 <? Z.abs b) then None
  else if b =? 0 then Some 1
  else if a =? 1 then Some 1
  else if a =? 0 then (if b <? 0 then None (* +Inf *) else Some 0)
  else if a =? -1 then Some (if Z.even b then 1 else -1)
  else if b <? 0 then Some 0                           (* |a| >= 2: 0 < |result| < 1, truncated *)
  else if 53 <? b then None                            (* |a| >= 2: beyond 2^53 *)
  else let r := a ^ b in if two53 <? Z.abs r then None else Some r.

(* ArrayFuncKeepBase / funcArraySum accumulate in float64: exact while every element and every
   partial sum stays within +-2^53.  Non-int elements (no floats here) are skipped. *)
Fixpoint ints_of (l : list value) : list Z :=
  match l with
  | [] => []
  | VInt z :: r => z :: ints_of r
  | _ :: r => ints_of r
  end.
Fixpoint fsum (l : list Z) (acc : Z) : option Z :=
  match l with
  | [] => Some acc
  | x :: r => if (two53 <? Z.abs x) || (two53 <? Z.abs (acc + x)) then None else fsum r (acc + x)
  end.

Fixpoint insert_by (le : Z -> Z -> bool) (x : Z) (l : list Z) : list Z :=
  match l with
  | [] => [x]
  | y :: r => if le x y then x :: l else y :: insert_by le x r
  end.
Fixpoint sort_by (le : Z -> Z -> bool) (l : list Z) : list Z :=
  match l with [] => [] | x :: r => insert_by le x (sort_by le r) end.

(* kh (desc = true) / kl: sum of the first pickNum values of the sorted numbers *)
Definition keep_sum (desc : bool) (pick : Z) (l : list value) : option Z :=
  let nums := ints_of l in
  if existsb (fun x => two53 <? Z.abs x) nums then None
  else
    let sorted := sort_by (if desc then Z.geb else Z.leb) nums in
    let pick := if zlen nums <? pick then zlen nums else pick in      (* pickNum clamped to len(nums) *)
    fsum (firstn (Z.to_nat pick) sorted) 0.
