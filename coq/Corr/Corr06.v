(* C06 correspondence: Context.Init from Seed bytes, Uint64 draws, GetCurSeed — against Model/PCG.v *)
From Coq Require Import NArith List Bool.
From DS Require Import Model.PCG.
Import ListNotations.
Open Scope N_scope.

(* Init: `s := rand.PCGSource{}; _ = s.UnmarshalBinary(ctx.Seed)` — a short seed leaves the zero state *)
Definition init_from_seed (seed : list N) : pcg :=
  match pcg_unmarshal seed with Some s => s | None => {| hi := 0; lo := 0 |} end.

Fixpoint nl_eqb (a b : list N) : bool :=
  match a, b with [], [] => true | x :: r, y :: q => if x =? y then nl_eqb r q else false | _, _ => false end.

(* seed bytes, observed initial state, observed draws, observed GetCurSeed bytes, observed final state *)
Definition c06_case : Type := list N * (N * N) * list N * list N * (N * N).

Definition c06_ok (c : c06_case) : bool :=
  let '(seed, (h0, l0), draws, curb, (h1, l1)) := c in
  let s0 := init_from_seed seed in
  let '(ds, s1) := pcg_draws (length draws) s0 in
  (hi s0 =? h0) && (lo s0 =? l0) && nl_eqb ds draws && (hi s1 =? h1) && (lo s1 =? l1) && nl_eqb (pcg_marshal s1) curb.

Fixpoint bad06 (i : N) (l : list c06_case) : list N :=
  match l with [] => [] | c :: r => if c06_ok c then bad06 (i + 1) r else i :: bad06 (i + 1) r end.
