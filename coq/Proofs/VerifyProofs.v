(* Soundness of the byte-code verifier (Model/Verify.v) for the shape machine (Model/Bytecode.v). *)
From Coq Require Import NArith ZArith List Bool String Lia.
From Coq Require Import ZifyBool ZifyNat.
From DS Require Import Model.Bytecode Model.Verify.
Import ListNotations.

(* ---------------------------------------------------------------- all_ok *)
Lemma all_ok_forall {A} (f : A -> bool) l : all_ok f l = true -> forall x, In x l -> f x = true.
Proof.
  induction l as [|y r IH]; simpl; intros H x Hin; [contradiction|].
  destruct (f y) eqn:E; [|discriminate].
  destruct Hin as [->|Hin]; auto.
Qed.

(* ---------------------------------------------------------------- the order is sound *)
Lemma list_le_sound : forall l2 l1 ls, list_le l2 l1 = true -> Forall2 le l1 ls -> Forall2 le l2 ls.
Proof.
  induction l2 as [|x2 r2 IH]; intros [|x1 r1] ls H F; simpl in H; try discriminate.
  - inversion F; constructor.
  - destruct (x2 <=? x1) eqn:E; [|discriminate].
    inversion F; subst. constructor; [lia|]. eapply IH; eauto.
Qed.

Lemma fchain_weaken : forall fes2 fes1 fs hh fd2 fd1,
    fb_le fes2 fes1 = true -> opt_le fd2 fd1 = true ->
    fchain hh fd1 fs fes1 -> fchain hh fd2 fs fes2.
Proof.
  induction fes2 as [|[x2 d2] r2 IH]; intros [|[x1 d1] r1] fs hh fd2 fd1 H Ho F; simpl in H; try discriminate.
  - destruct fs; simpl in *; auto.
  - destruct (x2 <=? x1) eqn:E; [|discriminate].
    destruct (opt_le d2 d1) eqn:E2; [|discriminate].
    destruct fs as [|s fs]; simpl in *; [contradiction|].
    destruct F as [F1 [F2 F3]]. split; [lia|]. split.
    + destruct fd2 as [dd2|]; auto. destruct fd1 as [dd1|]; simpl in Ho; [|discriminate]. lia.
    + eapply IH; eauto.
Qed.

Lemma aleb_sound s a1 a2 : cons_state s a1 -> aleb a1 a2 = true -> cons_state s a2.
Proof.
  unfold aleb, cons_state. intros [H1 [H2 [H3 [H4 [H5 H6]]]]] H.
  destruct (a_lo a2 <=? a_lo a1) eqn:E1; [|discriminate].
  destruct (list_le (a_blocks a2) (a_blocks a1)) eqn:E2; [|discriminate].
  destruct (fb_le (a_fb a2) (a_fb a1)) eqn:E3; [|discriminate].
  destruct (opt_le (a_fd a2) (a_fd a1)) eqn:E4; [|discriminate].
  destruct (a_dice a2 <=? a_dice a1) eqn:E5; [|discriminate].
  destruct (implb (a_det a2) (a_det a1)) eqn:E6; [|discriminate].
  repeat split.
  - lia.
  - eapply list_le_sound; eauto.
  - eapply fchain_weaken; eauto.
  - lia.
  - intro Hd. rewrite Hd in E6. simpl in E6. auto.
  - intro Hl. rewrite Hl in H. simpl in H. auto.
Qed.

(* ---------------------------------------------------------------- the relative fact under height changes *)
Lemma fchain_head hh hh' fd fd' fs fes :
  fchain hh fd fs fes ->
  (forall d', fd' = Some d' -> exists d, fd = Some d /\ forall sv, sv + d <= hh -> sv + d' <= hh') ->
  fchain hh' fd' fs fes.
Proof.
  destruct fs as [|s fs], fes as [|[lb dp] fes]; simpl; auto.
  intros [F1 [F2 F3]] H. split; auto. split; auto.
  destruct fd' as [d'|]; auto.
  destruct (H d' eq_refl) as [d [-> Hd]]. apply Hd. exact F2.
Qed.

Lemma fd_after_spec fd pops push d' :
  fd_after fd pops push = Some d' -> exists d, fd = Some d /\ pops <= d + push /\ d' = d + push - pops.
Proof.
  unfold fd_after. destruct fd as [d|]; [|discriminate].
  destruct (pops <=? d + push) eqn:E; [|discriminate].
  intro H; inversion H; subst. exists d. repeat split; lia.
Qed.

(* ---------------------------------------------------------------- one instruction *)
Definition covered (succs : list (nat * astate)) (s' : sstate) : Prop :=
  exists a', In (pc s', a') succs /\ cons_state s' a'.

Lemma transfer_sound len sh s a succs :
  cons_state s a ->
  atransfer len (pc s) sh a = AOk succs ->
  match exec len sh s with
  | Stuck _ => False
  | Halt => True
  | Next l => Forall (covered succs) l
  end.
Proof.
  intros C T. pose proof C as [Hlo [Hbl [Hfc [Hdi [Hde Hla]]]]].
  destruct sh as [e| |off|off dup| | | | | |]; simpl in T |- *.
  - (* SSimple *)
    destruct (e_need_dice e && (a_dice a =? 0)) eqn:E1; [discriminate|].
    destruct (a_lo a <? e_pops e) eqn:E2; [discriminate|].
    destruct (e_need_det e && negb (a_det a)) eqn:E3; [discriminate|].
    destruct (e_need_last e && negb (a_last a)) eqn:E4; [discriminate|].
    inversion T; subst succs; clear T.
    assert (D1 : e_need_dice e && (dice s =? 0) = false).
    { destruct (e_need_dice e); simpl in *; auto. lia. }
    rewrite D1.
    destruct (h s <? e_pops e) eqn:EP.
    + lia.
    + assert (D3 : e_need_det e && (dets s =? 0) = false).
      { destruct (e_need_det e); simpl in *; auto.
        destruct (a_det a) eqn:Ed; [|discriminate]. specialize (Hde eq_refl). lia. }
      rewrite D3.
      assert (D4 : e_need_last e && negb (lastpop s) = false).
      { destruct (e_need_last e); simpl in *; auto.
        destruct (a_last a) eqn:El; [|discriminate]. rewrite (Hla eq_refl). reflexivity. }
      rewrite D4.
      constructor; [|constructor].
      eexists; split; [left; reflexivity|].
      unfold cons_state; simpl. repeat split.
      * lia.
      * exact Hbl.
      * eapply fchain_head; [exact Hfc|].
        intros d' Hd'. apply fd_after_spec in Hd'. destruct Hd' as [d [Hd [Hp ->]]].
        exists d; split; auto. intros sv Hsv. lia.
      * assert (e_need_dice e = true -> 1 <= a_dice a).
        { intro Hn. rewrite Hn in E1. simpl in E1. lia. }
        destruct (e_need_dice e) eqn:En.
        -- specialize (H eq_refl). lia.
        -- (* no dice requirement: shapes with e_dice_down > 0 always require dice; in general only monotone *)
           lia.
      * intro Hd. destruct (a_det a) eqn:Ea; simpl in Hd.
        -- specialize (Hde eq_refl). lia.
        -- lia.
      * intro Hl. destruct (a_last a) eqn:Ea; simpl in Hl.
        -- rewrite (Hla eq_refl). reflexivity.
        -- rewrite Hl. apply orb_true_r.
  - (* SPeek *)
    destruct (a_lo a =? 0) eqn:E1; [discriminate|]. inversion T; subst succs; clear T.
    assert (h s =? 0 = false) by lia. rewrite H.
    constructor; [|constructor]. eexists; split; [left; reflexivity|].
    unfold cons_state; simpl; repeat split; auto.
  - (* SJmp *)
    destruct (jump_target len (pc s) off) as [t|] eqn:EJ; [|discriminate].
    inversion T; subst succs; clear T.
    constructor; [|constructor]. eexists; split; [left; reflexivity|].
    unfold cons_state; simpl; repeat split; auto.
  - (* SJcond *)
    destruct (a_lo a =? 0) eqn:E1; [discriminate|].
    destruct (jump_target len (pc s) off) as [t|] eqn:EJ; [|discriminate].
    inversion T; subst succs; clear T.
    assert (h s =? 0 = false) by lia. rewrite H.
    assert (P : forall p, cons_state {| pc := p; h := h s - 1; blocks := blocks s; fblocks := fblocks s; dice := dice s;
                                         dets := dets s; lastpop := true |}
                                     {| a_lo := a_lo a - 1; a_blocks := a_blocks a; a_fb := a_fb a;
                                        a_fd := fd_after (a_fd a) 1 0; a_dice := a_dice a; a_det := a_det a; a_last := true |}).
    { intro p. unfold cons_state; simpl; repeat split; auto; try lia.
      eapply fchain_head; [exact Hfc|].
      intros d' Hd'. apply fd_after_spec in Hd'. destruct Hd' as [d [Hd [Hp ->]]].
      exists d; split; auto. intros; lia. }
    constructor; [|constructor; [|constructor]].
    + eexists; split; [left; reflexivity|]. apply P.
    + destruct dup.
      * eexists; split; [right; left; reflexivity|].
        unfold cons_state; simpl; repeat split; auto.
      * eexists; split; [right; left; reflexivity|]. apply P.
  - (* SHalt *) exact I.
  - (* SBlockPush *)
    inversion T; subst succs; clear T.
    match goal with |- context [if ?b then Next [] else _] => destruct b end; [constructor|]. constructor; [|constructor].
    eexists; split; [left; reflexivity|].
    unfold cons_state; simpl; repeat split; auto.
  - (* SBlockPop *)
    destruct (a_blocks a) as [|b r] eqn:EB; [discriminate|]. inversion T; subst succs; clear T.
    inversion Hbl as [|x y l l' Hxy Hrest]; subst.
    constructor; [|constructor]. eexists; split; [left; reflexivity|].
    unfold cons_state; simpl; repeat split; auto; try lia.
    eapply fchain_head; [exact Hfc|]. intros d' Hd'; discriminate.
  - (* SFstrPush *)
    inversion T; subst succs; clear T.
    match goal with |- context [if ?b then Next [] else _] => destruct b end; [constructor|]. constructor; [|constructor].
    eexists; split; [left; reflexivity|].
    unfold cons_state; simpl; repeat split; auto. lia.
  - (* SFstrPop *)
    destruct (a_fb a) as [|[b dp] r] eqn:EB; [discriminate|].
    destruct ((a_lo a =? 0) && match a_fd a with None => true | Some _ => false end) eqn:E1; [discriminate|].
    inversion T; subst succs; clear T.
    destruct (fblocks s) as [|sv fs] eqn:EF; simpl in Hfc; [contradiction|].
    destruct Hfc as [F1 [F2 F3]].
    assert (negb (sv =? h s) && (h s =? 0) = false).
    { destruct (a_fd a) as [d|]; [|lia].
      destruct (h s =? 0) eqn:Eh; [|apply andb_false_r].
      assert (sv = h s) by lia. subst sv. rewrite Nat.eqb_refl. reflexivity. }
    rewrite H.
    constructor; [|constructor]. eexists; split; [left; reflexivity|].
    unfold cons_state; simpl; repeat split; auto; try lia.
    all: try (intro Hl; rewrite (Hla Hl); reflexivity).
    eapply fchain_head; [exact F3|].
    intros d' Hd'. destruct dp as [d|]; simpl in Hd'; [|discriminate].
    inversion Hd'; subst. exists d; split; auto. intros; lia.
  - (* SBadOperand *) discriminate.
Qed.

(* ---------------------------------------------------------------- the checker *)
Lemma check_entry c annot : check c annot = true -> consistent annot init_state.
Proof.
  unfold check, consistent. change (pc init_state) with 0.
  destruct (nth_error annot 0) as [[a0|]|] eqn:E; try discriminate.
  destruct (aleb a_init a0) eqn:EA; [|discriminate]. intros _.
  exists a0; split; auto.
  eapply aleb_sound; [|exact EA].
  unfold cons_state, a_init, init_state; simpl. repeat split; auto; try discriminate.
Qed.

Theorem verify_sound c annot :
  check c annot = true ->
  forall st, consistent annot st ->
  match sstep c st with
  | Stuck _ => False
  | Next l => Forall (consistent annot) l
  | Halt => True
  end.
Proof.
  intros CK st [a [Ha C]].
  unfold sstep. destruct (nth_error c (pc st)) as [i|] eqn:Ei; [|exact I].
  assert (Hlt : pc st < List.length c) by (apply nth_error_Some; congruence).
  unfold check in CK.
  destruct (nth_error annot 0) as [[a0|]|]; try discriminate.
  destruct (aleb a_init a0); [|discriminate].
  pose proof (all_ok_forall _ _ CK (pc st)) as Hpc.
  assert (Hin : In (pc st) (seq 0 (List.length c))) by (apply in_seq; lia).
  specialize (Hpc Hin). unfold check_pc in Hpc. rewrite Ha, Ei in Hpc.
  destruct (atransfer (List.length c) (pc st) (ishape i) a) as [r|succs] eqn:ET; [discriminate|].
  pose proof (transfer_sound _ _ _ _ _ C ET) as TS.
  destruct (exec (List.length c) (ishape i) st) as [l| |r]; auto.
  eapply Forall_impl; [|exact TS].
  intros s' [a' [Hin' C']].
  pose proof (all_ok_forall _ _ Hpc _ Hin') as Hs. unfold succ_ok in Hs. simpl in Hs.
  destruct (nth_error annot (pc s')) as [[a''|]|] eqn:E2; try discriminate.
  exists a''; split; auto. eapply aleb_sound; eauto.
Qed.

Theorem reachable_consistent c annot :
  check c annot = true -> forall st, reachable c st -> consistent annot st.
Proof.
  intros CK st R. induction R as [|s l s' R IH Hs Hin].
  - eapply check_entry; eauto.
  - pose proof (verify_sound c annot CK s IH) as V. rewrite Hs in V.
    rewrite Forall_forall in V. auto.
Qed.

Theorem no_stuck_reachable c annot :
  check c annot = true -> forall st, reachable c st -> forall r, sstep c st <> Stuck r.
Proof.
  intros CK st R r E.
  pose proof (verify_sound c annot CK st (reachable_consistent _ _ CK _ R)) as V.
  rewrite E in V. exact V.
Qed.

(* a successor never leaves [0, len] *)
Lemma jump_target_le len p off t : jump_target len p off = Some t -> t <= len.
Proof.
  unfold jump_target. destruct (Z.of_nat p + off + 1 <? 0)%Z eqn:E1; [discriminate|].
  destruct (Z.of_nat len <? Z.of_nat p + off + 1)%Z eqn:E2; [discriminate|].
  intro H; inversion H. lia.
Qed.

Theorem step_in_bounds c s l s' : pc s < List.length c -> sstep c s = Next l -> In s' l -> pc s' <= List.length c.
Proof.
  unfold sstep. intros Hlt. destruct (nth_error c (pc s)) as [i|]; [|discriminate].
  unfold exec. destruct (ishape i) as [e| |off|off dup| | | | | |]; intros H Hin.
  - destruct (e_need_dice e && (dice s =? 0)); [discriminate|].
    destruct (h s <? e_pops e); [discriminate|].
    destruct (e_need_det e && (dets s =? 0)); [discriminate|].
    destruct (e_need_last e && negb (lastpop s)); [discriminate|].
    inversion H; subst. destruct Hin as [<-|[]]. simpl. lia.
  - destruct (h s =? 0); [discriminate|]. inversion H; subst. destruct Hin as [<-|[]]. simpl. lia.
  - destruct (jump_target (List.length c) (pc s) off) eqn:E; [|discriminate].
    inversion H; subst. destruct Hin as [<-|[]]. simpl. eapply jump_target_le; eauto.
  - destruct (h s =? 0); [discriminate|].
    destruct (jump_target (List.length c) (pc s) off) eqn:E; [|discriminate].
    inversion H; subst. destruct Hin as [<-|[<-|[]]]; simpl; [lia|eapply jump_target_le; eauto].
  - discriminate.
  - destruct (max_blocks <=? List.length (blocks s)); inversion H; subst; [contradiction|].
    destruct Hin as [<-|[]]. simpl. lia.
  - destruct (blocks s); [discriminate|]. inversion H; subst. destruct Hin as [<-|[]]. simpl. lia.
  - destruct (max_blocks <=? List.length (fblocks s)); inversion H; subst; [contradiction|].
    destruct Hin as [<-|[]]. simpl. lia.
  - destruct (fblocks s); [discriminate|].
    destruct (negb (n =? h s) && (h s =? 0)); [discriminate|].
    inversion H; subst. destruct Hin as [<-|[]]. simpl. lia.
  - discriminate.
Qed.

(* one pc, one number of open blocks: whatever path leads there *)
Lemma fchain_length : forall fs fes hh fd, fchain hh fd fs fes -> List.length fs = List.length fes.
Proof.
  induction fs as [|s fs IH]; intros [|[lb dp] fes] hh fd H; simpl in *; try contradiction; auto.
  destruct H as [_ [_ H]]. f_equal. eapply IH; eauto.
Qed.

Lemma forall2_length {A B} (R : A -> B -> Prop) l1 l2 : Forall2 R l1 l2 -> List.length l1 = List.length l2.
Proof. induction 1; simpl; auto. Qed.

Theorem block_depth_unique c annot :
  check c annot = true ->
  forall s1 s2, reachable c s1 -> reachable c s2 -> pc s1 = pc s2 ->
  List.length (blocks s1) = List.length (blocks s2) /\ List.length (fblocks s1) = List.length (fblocks s2).
Proof.
  intros CK s1 s2 R1 R2 E.
  destruct (reachable_consistent _ _ CK _ R1) as [a1 [H1 C1]].
  destruct (reachable_consistent _ _ CK _ R2) as [a2 [H2 C2]].
  rewrite E in H1. rewrite H1 in H2. inversion H2; subst a2.
  destruct C1 as [_ [B1 [F1 _]]]. destruct C2 as [_ [B2 [F2 _]]].
  split.
  - rewrite <- (forall2_length _ _ _ B1), <- (forall2_length _ _ _ B2). reflexivity.
  - rewrite (fchain_length _ _ _ _ F1), (fchain_length _ _ _ _ F2). reflexivity.
Qed.

(* ---------------------------------------------------------------- verify / verify_all *)
Theorem verify_has_annotation c : verify c = true -> exists annot, check c annot = true.
Proof.
  unfold verify. destruct (infer c) as [[annot ch|p r]|]; try discriminate.
  intro H. exists annot. exact H.
Qed.

Lemma body_ok_in : forall b t n o body, all_ok body_ok b = true -> In (Instr t n o (Some body)) b ->
                                        verify body = true /\ all_ok body_ok body = true.
Proof.
  intros b t n o body H Hin.
  pose proof (all_ok_forall _ _ H _ Hin) as Hb. simpl in Hb.
  destruct (verify body); [|discriminate]. split; auto.
Qed.

Theorem verify_all_subprograms c :
  verify_all c = true -> forall b, subprogram c b -> verify b = true /\ all_ok body_ok b = true.
Proof.
  unfold verify_all. intros H b S. induction S as [c|c c' t n o b S IH Hin].
  - destruct (verify c); [|discriminate]. split; auto.
  - destruct (IH H) as [_ Hall]. eapply body_ok_in; eauto.
Qed.

Theorem verify_all_safe c :
  verify_all c = true ->
  forall b, subprogram c b ->
  (forall st, reachable b st -> forall r, sstep b st <> Stuck r) /\
  (forall s1 s2, reachable b s1 -> reachable b s2 -> pc s1 = pc s2 ->
     List.length (blocks s1) = List.length (blocks s2) /\ List.length (fblocks s1) = List.length (fblocks s2)).
Proof.
  intros H b S.
  destruct (verify_all_subprograms c H b S) as [Hv _].
  destruct (verify_has_annotation b Hv) as [annot CK].
  split.
  - intros st R. eapply no_stuck_reachable; eauto.
  - eapply block_depth_unique; eauto.
Qed.

(* ---------------------------------------------------------------- non-vacuity *)
Module Examples.
  Open Scope string_scope.
  Definition I (t : nat) (n : string) (o : operand) : instr := Instr (N.of_nat t) n o None.

  (* dump of: i=0; while i<5 { i=i+1; if i==2 { break }; r = `a{2d6}b` }; r
     (a loop, an if inside it, a break that closes the if's block, a template hole, a dice term) *)
  Definition ex_loop : code :=
    [ I 0 "push.int" (PInt 0); I 17 "store" PStr; I 82 "block.push" PNil; I 71 "mark.detail" PSpan; I 15 "ld.d" PStr;
      I 0 "push.int" (PInt 5); I 35 "comp.lt" PNil; I 77 "jne" (PInt 28); I 71 "mark.detail" PSpan; I 15 "ld.d" PStr;
      I 0 "push.int" (PInt 1); I 28 "add" PNil; I 17 "store" PStr; I 71 "mark.detail" PSpan; I 15 "ld.d" PStr;
      I 0 "push.int" (PInt 2); I 37 "comp.eq" PNil; I 82 "block.push" PNil; I 77 "jne" (PInt 3); I 83 "block.pop" PNil;
      I 75 "jmp" (PInt 15); I 75 "jmp" (PInt 0); I 83 "block.pop" PNil; I 2 "push.str" PStr; I 80 "fstr.block.push" PNil;
      I 0 "push.int" (PInt 2); I 47 "dice.init" PNil; I 48 "dice.setTimes" PNil; I 0 "push.int" (PInt 6);
      I 71 "mark.detail" PSpan; I 55 "dice" PNil; I 81 "fstr.block.pop" PNil; I 2 "push.str" PStr; I 13 "ld.fs" (PInt 3);
      I 17 "store" PStr; I 75 "jmp" (PInt (-33)); I 83 "block.pop" PNil; I 71 "mark.detail" PSpan; I 15 "ld.d" PStr;
      I 70 "halt" PNil ].

  Example ex_loop_accepted : verify ex_loop = true /\ names_ok ex_loop = true.
  Proof. split; vm_compute; reflexivity. Qed.

  (* a function whose body rolls default-sides dice: func g() { return 2d }; g() *)
  Definition ex_func : code :=
    [ Instr 10 "push.func" PFn
            (Some [ I 0 "push.int" (PInt 2); I 47 "dice.init" PNil; I 48 "dice.setTimes" PNil; I 71 "mark.detail" PSpan;
                    I 12 "push.def_expr" PNil; I 55 "dice" PNil; I 79 "ret" PNil ]);
      I 17 "store" PStr; I 71 "mark.detail" PSpan; I 15 "ld.d" PStr; I 20 "invoke" (PInt 0); I 70 "halt" PNil ].

  Example ex_func_accepted : verify_all ex_func = true /\ count_bodies ex_func = 1.
  Proof. split; vm_compute; reflexivity. Qed.

  (* the template hole at the bottom of the stack whose statement leaves nothing: `{x.a=1}` --
     fstr.block.pop must not pop here, and the verifier knows (relative fact h >= saved) *)
  Definition ex_hole : code :=
    [ I 80 "fstr.block.push" PNil; I 0 "push.int" (PInt 1); I 14 "ld" PStr; I 25 "attr.set" PStr;
      I 81 "fstr.block.pop" PNil; I 13 "ld.fs" (PInt 1); I 70 "halt" PNil ].
  Example ex_hole_accepted : verify ex_hole = true.
  Proof. vm_compute; reflexivity. Qed.

  (* rejected: [1 ? 2, 3] as compiled today -- the taken arm jumps over the second element *)
  Definition ex_underflow : code :=
    [ I 0 "push.int" (PInt 1); I 77 "jne" (PInt 2); I 0 "push.int" (PInt 2); I 75 "jmp" (PInt 2);
      I 0 "push.int" (PInt 3); I 2 "push.str" PStr; I 3 "push.arr" (PInt 2); I 70 "halt" PNil ].
  Example ex_underflow_rejected : diagnose ex_underflow = DReject 6 Underflow.
  Proof. vm_compute; reflexivity. Qed.
  (* ... and the shape machine really gets stuck on that path *)
  Example ex_underflow_stuck :
    exists s, reachable ex_underflow s /\ sstep ex_underflow s = Stuck Underflow.
  Proof.
    exists {| pc := 6; h := 1; blocks := []; fblocks := []; dice := 0; dets := 0; lastpop := true |}.
    split; [|vm_compute; reflexivity].
    eapply reach_step with (s := {| pc := 3; h := 1; blocks := []; fblocks := []; dice := 0; dets := 0; lastpop := true |});
      [|vm_compute; reflexivity|left; reflexivity].
    eapply reach_step with (s := {| pc := 2; h := 0; blocks := []; fblocks := []; dice := 0; dets := 0; lastpop := true |});
      [|vm_compute; reflexivity|left; reflexivity].
    eapply reach_step with (s := {| pc := 1; h := 1; blocks := []; fblocks := []; dice := 0; dets := 0; lastpop := false |});
      [|vm_compute; reflexivity|left; reflexivity].
    eapply reach_step with (s := init_state); [constructor|vm_compute; reflexivity|left; reflexivity].
  Qed.

  (* rejected: a jump that leaves the program *)
  Definition ex_badjump : code := [ I 0 "push.int" (PInt 1); I 75 "jmp" (PInt 5); I 70 "halt" PNil ].
  Example ex_badjump_rejected : diagnose ex_badjump = DReject 1 BadJump.
  Proof. vm_compute; reflexivity. Qed.
  Definition ex_badjump_back : code := [ I 0 "push.int" (PInt 1); I 75 "jmp" (PInt (-3)); I 70 "halt" PNil ].
  Example ex_badjump_back_rejected : diagnose ex_badjump_back = DReject 1 BadJump.
  Proof. vm_compute; reflexivity. Qed.

  (* rejected: a jump whose operand was never written (nil) *)
  Definition ex_niljump : code := [ I 0 "push.int" (PInt 1); I 78 "je.dup" PNil; I 70 "halt" PNil ].
  Example ex_niljump_rejected : diagnose ex_niljump = DReject 1 BadOperand.
  Proof. vm_compute; reflexivity. Qed.

  (* NOT detectable as such: a jump left at the placeholder offset 0 is a legal jump to the next
     instruction (`if 1 {}` compiles to a genuine `jmp 0`).  The verifier only sees its consequences:
     `y = 0 || [` leaves `je.dup 0`, the falsy path loses the value, and `store` underflows. *)
  Definition ex_unpatched : code :=
    [ I 0 "push.int" (PInt 0); I 78 "je.dup" (PInt 0); I 17 "store" PStr; I 70 "halt" PNil ].
  Example ex_unpatched_rejected : diagnose ex_unpatched = DReject 2 Underflow.
  Proof. vm_compute; reflexivity. Qed.
  Definition ex_unpatched_harmless : code := [ I 0 "push.int" (PInt 0); I 78 "je.dup" (PInt 0); I 70 "halt" PNil ].
  Example ex_unpatched_not_detected : verify ex_unpatched_harmless = true.
  Proof. vm_compute; reflexivity. Qed.

  (* rejected: two paths reach one instruction with different numbers of open blocks *)
  Definition ex_mismatch : code :=
    [ I 0 "push.int" (PInt 1); I 77 "jne" (PInt 1); I 82 "block.push" PNil; I 70 "halt" PNil ].
  Example ex_mismatch_rejected : diagnose ex_mismatch = DReject 3 BlockMismatch.
  Proof. vm_compute; reflexivity. Qed.
  Example ex_mismatch_real :
    exists s1 s2, reachable ex_mismatch s1 /\ reachable ex_mismatch s2 /\ pc s1 = pc s2 /\
                  List.length (blocks s1) <> List.length (blocks s2).
  Proof.
    exists {| pc := 3; h := 0; blocks := [0]; fblocks := []; dice := 0; dets := 0; lastpop := true |},
           {| pc := 3; h := 0; blocks := []; fblocks := []; dice := 0; dets := 0; lastpop := true |}.
    assert (R1 : reachable ex_mismatch {| pc := 1; h := 1; blocks := []; fblocks := []; dice := 0; dets := 0; lastpop := false |}).
    { eapply reach_step with (s := init_state); [constructor|vm_compute; reflexivity|left; reflexivity]. }
    repeat split.
    - eapply reach_step with (s := {| pc := 2; h := 0; blocks := []; fblocks := []; dice := 0; dets := 0; lastpop := true |});
        [|vm_compute; reflexivity|left; reflexivity].
      eapply reach_step; [exact R1|vm_compute; reflexivity|left; reflexivity].
    - eapply reach_step; [exact R1|vm_compute; reflexivity|right; left; reflexivity].
    - simpl. discriminate.
  Qed.

  (* rejected: dice without dice.init, ld.d without mark.detail, block.pop without block.push *)
  Example ex_nodice_rejected : diagnose [ I 0 "push.int" (PInt 6); I 71 "mark.detail" PSpan; I 55 "dice" PNil ] = DReject 2 NoDiceState.
  Proof. vm_compute; reflexivity. Qed.
  Example ex_nodetail_rejected : diagnose [ I 15 "ld.d" PStr; I 70 "halt" PNil ] = DReject 0 NoDetail.
  Proof. vm_compute; reflexivity. Qed.
  Example ex_noblock_rejected : diagnose [ I 83 "block.pop" PNil; I 70 "halt" PNil ] = DReject 0 BlockUnderflow.
  Proof. vm_compute; reflexivity. Qed.
End Examples.
