package main

// K2: byte-code VM correspondence.  For each input line (JSON) a fresh seeded VM runs the
// history sources and then the source itself; for every step the harness emits the byte-code
// the real parser produced (ctx.VerifCode(), dumped after Parse and before the run) and what
// the real VM observed: result value (structural dump), error text, panic text, NumOpCount,
// generator state, local variables (vm.Attrs, sorted by key) and the st callback log.
// lib/k2cases.py turns the rows into Coq case files for Corr/CorrK2.v.
//
// Robustness: each row is flushed as soon as it is complete.  A case that does not finish
// within -timeout ms is reported as {"timeout":true} and the process exits with status 3
// (the spinning goroutine cannot be stopped); a fatal runtime error (stack overflow) kills
// the process.  The driver restarts after the offending line in both situations.

import (
	"bufio"
	"encoding/base64"
	"encoding/json"
	"fmt"
	"os"
	"sort"
	"strconv"
	"time"

	ds "github.com/sealdice/dicescript"
)

type k2In struct {
	B64     string   `json:"b64"`
	Hist    []string `json:"hist"`  // base64 sources run before on the same VM
	Flags   []bool   `json:"flags"` // wod coc fate dc noBitwise noStmts noNDice
	Div0    bool     `json:"div0"`  // IgnoreDiv0
	Mode    int      `json:"mode"`  // -1 min, 0 random, 1 max
	BothMM  bool     `json:"bothmm"` // set DiceMinMode and DiceMaxMode together (min wins in getRollMode)
	OpLimit int64    `json:"oplimit"`
	Hi      string   `json:"hi"`
	Lo      string   `json:"lo"`
	St      bool     `json:"st"` // install a CallbackSt that logs
}

type k2St struct {
	T     string `json:"t"`
	Name  string `json:"name"`
	Val   *vdump `json:"val"`
	Extra *vdump `json:"extra"`
	Op    string `json:"op"`
	Text  string `json:"text"`
}

type k2Step struct {
	ParseOk  bool         `json:"parse_ok"`
	ParseErr string       `json:"perr,omitempty"`
	Code     []ds.VerifOp `json:"code,omitempty"`
	Ok       bool         `json:"ok"`
	Err      string       `json:"err,omitempty"`
	Panic    string       `json:"panic,omitempty"`
	Val      *vdump       `json:"val,omitempty"`
	Ops      int64        `json:"ops"`
	Hi2      string       `json:"hi2"`
	Lo2      string       `json:"lo2"`
	VarK     []string     `json:"vark"`
	VarV     []*vdump     `json:"varv"`
	St       []k2St       `json:"st"`
	Top      int          `json:"top"`
}

type k2Out struct {
	Steps   []k2Step `json:"steps"`
	Timeout bool     `json:"timeout,omitempty"`
}

func k2Vars(vm *ds.Context) ([]string, []*vdump) {
	type kv struct {
		k string
		v *ds.VMValue
	}
	var l []kv
	if vm.Attrs != nil {
		vm.Attrs.Range(func(key string, value *ds.VMValue) bool {
			l = append(l, kv{key, value})
			return true
		})
	}
	sort.Slice(l, func(a, b int) bool { return l[a].k < l[b].k })
	ks, vs := []string{}, []*vdump{}
	for _, p := range l {
		ks = append(ks, p.k)
		vs = append(vs, dumpValue(p.v))
	}
	return ks, vs
}

func k2Step1(vm *ds.Context, src string, log *[]k2St) (o k2Step) {
	*log = nil
	defer func() {
		if r := recover(); r != nil {
			o.Ok = false
			o.Panic = fmt.Sprint(r)
			o.Ops = int64(vm.NumOpCount)
			if vm.RandSrc != nil {
				h, l := srcState(vm.RandSrc)
				o.Hi2, o.Lo2 = u(h), u(l)
			}
		}
	}()
	err := vm.Parse(src)
	if err != nil {
		o.ParseErr = err.Error()
		return
	}
	o.ParseOk = true
	o.Code = vm.VerifCode()
	err = vm.RunAfterParsed()
	o.Ops = int64(vm.NumOpCount)
	o.Top = vm.StackTop()
	h, l := srcState(vm.RandSrc)
	o.Hi2, o.Lo2 = u(h), u(l)
	o.VarK, o.VarV = k2Vars(vm)
	o.St = append([]k2St{}, (*log)...)
	if err != nil {
		o.Err = err.Error()
		return
	}
	o.Ok = true
	o.Val = dumpValue(vm.Ret)
	return
}

func k2Case(in k2In) (o k2Out) {
	hi, _ := strconv.ParseUint(in.Hi, 10, 64)
	lo, _ := strconv.ParseUint(in.Lo, 10, 64)
	cfg := cfgFromFlags(in.Flags)
	cfg.IgnoreDiv0 = in.Div0
	cfg.Mode = in.Mode
	cfg.OpLimit = in.OpLimit
	vm := newVM(cfg, hi, lo, true)
	if in.BothMM {
		vm.Config.DiceMinMode, vm.Config.DiceMaxMode = true, true
	}
	var log []k2St
	if in.St {
		vm.Config.CallbackSt = func(_type string, name string, val *ds.VMValue, extra *ds.VMValue, op string, detail string) {
			e := k2St{T: _type, Name: name, Val: dumpValue(val), Op: op, Text: detail}
			if extra != nil {
				e.Extra = dumpValue(extra)
			}
			log = append(log, e)
		}
	}
	srcs := []string{}
	for _, h := range in.Hist {
		raw, err := base64.StdEncoding.DecodeString(h)
		if err != nil {
			continue
		}
		srcs = append(srcs, string(raw))
	}
	raw, _ := base64.StdEncoding.DecodeString(in.B64)
	srcs = append(srcs, string(raw))
	for _, s := range srcs {
		st := k2Step1(vm, s, &log)
		o.Steps = append(o.Steps, st)
		if st.Panic != "" {
			break // the VM may be left in an inconsistent state
		}
	}
	return
}

func init() {
	cmds["k2"] = func(args []string) {
		fs, _, _ := stdFlags("k2")
		tmo := fs.Int("timeout", 4000, "per-case timeout in ms")
		_ = fs.Parse(args)
		sc := bufio.NewScanner(os.Stdin)
		sc.Buffer(make([]byte, 1<<20), 1<<26)
		for sc.Scan() {
			var in k2In
			if json.Unmarshal(sc.Bytes(), &in) != nil {
				emit(k2Out{})
				out.Flush()
				continue
			}
			ch := make(chan k2Out, 1)
			go func() { ch <- k2Case(in) }()
			select {
			case r := <-ch:
				emit(r)
				out.Flush()
			case <-time.After(time.Duration(*tmo) * time.Millisecond):
				emit(k2Out{Timeout: true})
				out.Flush()
				os.Exit(3)
			}
		}
	}
}
