"""Shared machinery of the /verif checks: build the Go harness against /repo's working
tree (tag verif), (re)build Coq targets, evaluate case files inside Coq, parse
Print Assumptions, write evidence / replay files, known-findings handling."""
import fcntl
import hashlib
import json
import os
import re
import shutil
import subprocess
import sys
import time

VERIF = os.path.dirname(os.path.dirname(os.path.abspath(__file__)))
REPO = os.environ.get("VERIF_REPO", "/repo")
COQ = os.path.join(VERIF, "coq")
WORK = os.path.join(VERIF, ".work")
BIN = os.environ.get("VERIF_BIN", os.path.join(WORK, "bin"))
HARNESS_DIR = os.environ.get("VERIF_HARNESS_DIR", os.path.join(VERIF, "harness"))
REPLAYS = os.path.join(VERIF, "replays")
EVID = os.path.join(VERIF, "evidence")

GOENV = dict(os.environ, GOFLAGS="-mod=mod", GOPROXY="off", GOSUMDB="off", GOTOOLCHAIN="local",
             CGO_ENABLED=os.environ.get("CGO_ENABLED", "0"))

TRUSTED_BASE_COMMON = [
    "Coq 8.16.1 kernel incl. vm_compute (no native_compute); coqchk in the thorough tier",
    "no axioms declared by this development (Print Assumptions output per theorem is recorded)",
    "Go toolchain/runtime, the Go harness generators and canonicalisers, this Python orchestrator",
]


class Broken(Exception):
    """A proof obligation or a correspondence no longer checks."""

    def __init__(self, what, detail=""):
        super().__init__(what)
        self.what = what
        self.detail = detail


def log(*a):
    print(*a, file=sys.stderr, flush=True)


def sh(cmd, **kw):
    kw.setdefault("stdout", subprocess.PIPE)
    kw.setdefault("stderr", subprocess.STDOUT)
    kw.setdefault("text", True)
    return subprocess.run(cmd, **kw)


class Lock:
    def __init__(self, name):
        os.makedirs(WORK, exist_ok=True)
        self.path = os.path.join(WORK, name + ".lock")

    def __enter__(self):
        self.f = open(self.path, "w")
        fcntl.flock(self.f, fcntl.LOCK_EX)
        return self

    def __exit__(self, *a):
        fcntl.flock(self.f, fcntl.LOCK_UN)
        self.f.close()


# ---------------------------------------------------------------- Go harness
def build_harness(race=False):
    """go build of /verif/harness against /repo's current working tree, tag verif."""
    os.makedirs(BIN, exist_ok=True)
    hdir = HARNESS_DIR
    name = "harness-race" if race else "harness"
    with Lock("gobuild"):
        shutil.copyfile(os.path.join(REPO, "go.sum"), os.path.join(hdir, "go.sum"))
        env = dict(GOENV)
        cmd = ["go", "build", "-tags", "verif", "-o", os.path.join(BIN, name)]
        if race:
            env["CGO_ENABLED"] = "1"
            cmd.insert(2, "-race")
        cmd.append(".")
        t0 = time.time()
        r = sh(cmd, cwd=hdir, env=env, timeout=900)
        if r.returncode != 0:
            raise Broken("harness-build", r.stdout[-4000:])
        log(f"[build] {name} built in {time.time()-t0:.1f}s")
    return os.path.join(BIN, name)


def run_harness(args, stdin=None, timeout=600, race=False, mem_kb=None, check=True):
    """Run the harness; returns list of parsed JSON lines. Crashes are returned as Broken."""
    exe = os.path.join(BIN, "harness-race" if race else "harness")
    pre = ""
    if mem_kb:
        pre = f"ulimit -v {int(mem_kb)}; "
    cmd = ["bash", "-c", pre + 'exec "$0" "$@"', exe] + [str(a) for a in args]
    r = subprocess.run(cmd, input=stdin, stdout=subprocess.PIPE, stderr=subprocess.PIPE, text=True,
                       timeout=timeout)
    rows = []
    for line in r.stdout.splitlines():
        line = line.strip()
        if line.startswith("{") or line.startswith("["):
            try:
                rows.append(json.loads(line))
            except json.JSONDecodeError:
                pass
    if check and r.returncode != 0:
        raise Broken("harness-run " + " ".join(map(str, args)), (r.stderr or "")[-4000:])
    return rows, r


# ---------------------------------------------------------------- Coq
MAKE_FAILURES = []      # files of the shared Coq project that did not build in this process's last `make`


def coq_make(targets=None, timeout=3000):
    """Incremental `make` of the Coq development (full .vo build, never -vos).  With explicit targets a failure is raised.
    Without, `make -k` builds everything that can be built: a file that fails loses its stale .vo (so nothing can be
    checked against an out-of-date library) and is remembered in MAKE_FAILURES; each check then fails only if ITS OWN
    theorem file or case files cannot be compiled, i.e. if something it depends on is broken."""
    with Lock("coqmake"):
        if not os.path.exists(os.path.join(COQ, "Makefile")) or \
                os.path.getmtime(os.path.join(COQ, "Makefile")) < os.path.getmtime(os.path.join(COQ, "_CoqProject")):
            r = sh(["coq_makefile", "-f", "_CoqProject", "-o", "Makefile"], cwd=COQ)
            if r.returncode != 0:
                raise Broken("coq_makefile", r.stdout[-2000:])
        cmd = ["timeout", str(timeout), "make", "-k", "-j16"]
        if targets:
            cmd += targets
        t0 = time.time()
        r = sh(cmd, cwd=COQ)
        log(f"[coq] make {' '.join(targets or ['all'])}: rc={r.returncode} {time.time()-t0:.1f}s")
        if r.returncode != 0:
            failed = sorted(set(re.findall(r"\*\*\* \[Makefile:\d+: ([^\]]+?)\.vo\]", r.stdout)))
            for f in failed:
                for ext in (".vo", ".vos", ".vok", ".glob"):
                    try:
                        os.unlink(os.path.join(COQ, f + ext))
                    except OSError:
                        pass
            m = re.search(r'File "\./([^"]+)", line (\d+)', r.stdout)
            where = f"{m.group(1)}:{m.group(2)}" if m else "?"
            del MAKE_FAILURES[:]
            MAKE_FAILURES.extend(f + ".v" for f in failed)
            log(f"[coq] did not build: {', '.join(MAKE_FAILURES) or where}")
            if targets or not failed:
                raise Broken("coq-build " + where, r.stdout[-4000:])
        else:
            del MAKE_FAILURES[:]
        return r.stdout


def check_property_file(pid, extra_deps=()):
    """Build dependencies, then compile Properties/<pid>.v afresh and parse its
    Print Assumptions output.  Returns dict(obligations, discharged, axioms, theorems)."""
    src = os.path.join(COQ, "Properties", pid + ".v")
    text = open(src).read()
    theorems = re.findall(r"^\s*Theorem\s+([A-Za-z0-9_']+)", text, re.M)
    coq_make()  # everything in _CoqProject (no-op when up to date)
    with Lock("coqmake"):
        t0 = time.time()
        r = sh(["timeout", "1200", "coqc", "-q", "-Q", ".", "DS", os.path.join("Properties", pid + ".v")], cwd=COQ)
        log(f"[coq] coqc Properties/{pid}.v rc={r.returncode} {time.time()-t0:.1f}s")
    if r.returncode != 0:
        m = re.search(r'line (\d+)', r.stdout)
        raise Broken(f"theorem-file Properties/{pid}.v" + (f" line {m.group(1)}" if m else "") +
                     (f" (files that did not build: {', '.join(MAKE_FAILURES)})" if MAKE_FAILURES else ""), r.stdout[-4000:])
    chk = None
    if os.environ.get("VERIF_TIER_EFFECTIVE") == "thorough":
        # independent re-check of the compiled property file and everything it depends on; lists axioms
        t0 = time.time()
        c = sh(["timeout", "2400", "coqchk", "-silent", "-o", "-Q", ".", "DS", "DS.Properties." + pid], cwd=COQ)
        log(f"[coq] coqchk DS.Properties.{pid} rc={c.returncode} {time.time()-t0:.1f}s")
        m = re.search(r"\* Axioms:(.*?)\n\s*\n\* Constants/Inductives relying on type-in-type", c.stdout, re.S)
        chk = {"rc": c.returncode, "axioms": " ".join((m.group(1) if m else "?").split())}
        if c.returncode != 0:
            raise Broken(f"coqchk DS.Properties.{pid}", c.stdout[-3000:])
    closed = len(re.findall(r"Closed under the global context", r.stdout))
    axioms = sorted(set(re.findall(r"^([A-Za-z0-9_.']+)\s*:", r.stdout, re.M)))
    n_axiom_blocks = len(re.findall(r"^Axioms:", r.stdout, re.M))
    return dict(obligations=len(theorems), discharged=closed + n_axiom_blocks, axioms=axioms,
                theorems=theorems, coqchk=chk, refuted=[t for t in theorems if t.endswith("_refuted")],
                partial=[t for t in theorems if t.endswith("_partial")])


def coq_eval(name, vtext, timeout=1200, mem_kb=12_000_000):
    """Write a case file under .work/<pid>/ and run coqc on it; returns stdout."""
    d = os.path.join(WORK, f"cases-{os.getpid()}")
    os.makedirs(d, exist_ok=True)
    path = os.path.join(d, name + ".v")
    with open(path, "w") as f:
        f.write(vtext)
    t0 = time.time()
    r = sh(["bash", "-c", f"ulimit -v {mem_kb}; exec timeout {timeout} coqc -q -Q {COQ} DS {path}"], cwd=d)
    log(f"[coq] eval {name}: rc={r.returncode} {time.time()-t0:.1f}s")
    if r.returncode != 0:
        raise Broken(f"coq-eval {name}", r.stdout[-4000:])
    return r.stdout


def coq_eval_many(jobs, workers=8, **kw):
    """jobs: list of (name, vtext); evaluated in parallel; returns list of stdout in order."""
    from concurrent.futures import ThreadPoolExecutor
    with ThreadPoolExecutor(max_workers=workers) as ex:
        futs = [ex.submit(coq_eval, n, t, **kw) for n, t in jobs]
        return [f.result() for f in futs]


def cleanup_work():
    d = os.path.join(WORK, f"cases-{os.getpid()}")
    shutil.rmtree(d, ignore_errors=True)


def parse_coq_list(out, ident):
    """Extract `ident = [a; b; c]` printed by `Print ident.` / Eval; returns list of strings."""
    m = re.search(re.escape(ident) + r"\s*=\s*(.*?)\n\s*:", out, re.S)
    if not m:
        raise Broken("coq-output", "cannot find " + ident + " in:\n" + out[-2000:])
    body = " ".join(m.group(1).split())
    if body in ("[]", "nil"):
        return []
    body = body.strip()
    assert body.startswith("[") and body.endswith("]"), body[:200]
    inner = body[1:-1]
    # split on top-level ';'
    items, depth, cur = [], 0, ""
    for ch in inner:
        if ch in "([":
            depth += 1
        elif ch in ")]":
            depth -= 1
        if ch == ";" and depth == 0:
            items.append(cur.strip())
            cur = ""
        else:
            cur += ch
    if cur.strip():
        items.append(cur.strip())
    return items


def Z(x):
    """Coq Z literal"""
    return f"({int(x)})%Z"


def coq_string(b):
    """Coq string literal (String.string) for bytes/str; non-printables must not occur."""
    if isinstance(b, bytes):
        b = b.decode("latin-1")
    return '"' + b.replace('"', '""') + '"'


def coq_bytes(bs):
    """list N literal of byte values"""
    return "[" + ";".join(str(x) for x in bs) + "]"


# ---------------------------------------------------------------- findings / evidence
def load_known():
    p = os.path.join(VERIF, "known_findings.json")
    if not os.path.exists(p):
        return {"findings": [], "fixed": []}
    return json.load(open(p))


def known_for(pid):
    return [f for f in load_known().get("findings", []) if pid in f.get("properties", [f.get("property")])]


def write_replay(pid, payload):
    os.makedirs(REPLAYS, exist_ok=True)
    h = hashlib.sha1(json.dumps(payload, sort_keys=True, default=str).encode()).hexdigest()[:10]
    path = os.path.join(REPLAYS, f"{pid}-{h}.json")
    with open(path, "w") as f:
        json.dump(payload, f, indent=1, ensure_ascii=False, default=str)
    return path


class Result:
    """Accumulates what a check run covered and decides the exit status."""

    def __init__(self, pid, tier, seed, level="proof"):
        self.pid, self.tier, self.seed, self.level = pid, tier, seed, level
        self.t0 = time.time()
        self.cov = {"evaluations": 0, "distinct_nontrivial": 0, "rule": "", "samples": [],
                    "obligations": 0, "discharged": 0, "checker_cmd": "", "trusted_base": list(TRUSTED_BASE_COMMON)}
        self.assumptions = []
        self.violations = []     # (replay_path, suffix)
        self.known_lines = []
        self._distinct = set()

    def count(self, key, nontrivial=True):
        self.cov["evaluations"] += 1
        if nontrivial:
            self._distinct.add(key if isinstance(key, (str, int)) else json.dumps(key, sort_keys=True, default=str))

    def sample(self, s, limit=6):
        if len(self.cov["samples"]) < limit:
            self.cov["samples"].append(s)

    def proof(self, info, cmd):
        self.cov["obligations"] += info["obligations"]
        self.cov["discharged"] += info["discharged"]
        self.cov["checker_cmd"] = cmd
        self.cov["theorems"] = self.cov.get("theorems", []) + info["theorems"]
        self.cov["axioms_reported_by_Print_Assumptions"] = info["axioms"]
        if info.get("coqchk"):
            self.cov["coqchk"] = info["coqchk"]
        if info["refuted"]:
            self.cov["refuted_theorems_in_force"] = info["refuted"]
        if info["partial"]:
            self.cov["partial_theorems_in_force"] = info["partial"]

    def violation(self, payload, no_input=False):
        payload = dict(payload)
        payload.setdefault("property", self.pid)
        path = write_replay(self.pid, payload)
        self.violations.append((path, no_input))

    def known(self, what):
        self.known_lines.append(what)

    def finish(self):
        self.cov["distinct_nontrivial"] = len(self._distinct)
        ev = {"property_id": self.pid, "tier": self.tier, "seed": self.seed, "level": self.level,
              "coverage": self.cov, "assumptions": self.assumptions,
              "wall_s": round(time.time() - self.t0, 2), "violations": len(self.violations)}
        if self.known_lines:
            ev["coverage"]["known_findings_replayed"] = self.known_lines
        os.makedirs(EVID, exist_ok=True)
        tmp = os.path.join(EVID, self.pid + ".json.tmp")
        with open(tmp, "w") as f:
            json.dump(ev, f, indent=1, ensure_ascii=False, default=str)
        os.replace(tmp, os.path.join(EVID, self.pid + ".json"))
        for k in self.known_lines:
            print(f"KNOWN-FINDING: property={self.pid} {k}")
        for path, no_input in self.violations:
            print(f"VIOLATION property={self.pid} replay={path}" + (" no-failing-input-found" if no_input else ""))
        sys.stdout.flush()
        cleanup_work()
        return 1 if self.violations else 0
