(* C11/C06: footprint discipline of package-level state + schedule independence.
   (1) A decidable check over the regenerated footprint table Gen/Globals.v: outside package
       initialisation every package-level variable is only READ, except under a lock, for
       mutexes themselves, and for the explicit host-configuration setters listed here.
   (2) A generic theorem: if the steps of each VM are functions of (immutable shared state,
       that VM's own state), then under EVERY interleaving each VM ends in the state it
       reaches when run alone. *)
From Coq Require Import NArith List Bool String Arith.
Import ListNotations.
Open Scope string_scope.

(* ---------- (1) footprint check ------------------------------------------- *)
Definition init_funcs : list string := ["init"; "<initializer>"; "_init2"].
(* host API that is documented to change a process-wide default; never called by Parse/Run *)
Definition host_setters : list (string * string) := [("parseErrorLanguage", "SetParseErrorLanguage")].

Fixpoint mem_s (s : string) (l : list string) : bool :=
  match l with [] => false | x :: r => if String.eqb x s then true else mem_s s r end.
Fixpoint mem_ss (a b : string) (l : list (string * string)) : bool :=
  match l with [] => false | (x, y) :: r => if String.eqb x a && String.eqb y b then true else mem_ss a b r end.
Fixpoint type_of (v : string) (l : list (string * string)) : string :=
  match l with [] => "" | (x, t) :: r => if String.eqb x v then t else type_of v r end.
Definition is_sync_type (t : string) : bool := String.eqb t "sync.Mutex" || String.eqb t "sync.RWMutex".

Definition use_ok (vars : list (string * string)) (u : string * string * N * bool) : bool :=
  let '(v, fn, kind, locked) := u in
  N.eqb kind 0                       (* plain read *)
  || mem_s fn init_funcs             (* package initialisation *)
  || locked                          (* under a lock *)
  || is_sync_type (type_of v vars)   (* the mutex itself *)
  || mem_ss v fn host_setters.

Definition footprint_ok (vars : list (string * string)) (uses : list (string * string * N * bool))
           (rand_calls : list (string * string)) : bool :=
  forallb (use_ok vars) uses && match rand_calls with [] => true | _ => false end.

(* C06: the package generator is touched only by the nil-source fallback of Roll and by GetCurSeed *)
Definition rand_source_confined (uses : list (string * string * N * bool)) : bool :=
  forallb (fun u => let '(v, fn, _, locked) := u in
                    if String.eqb v "randSource"
                    then (String.eqb fn "Roll" || String.eqb fn "*Context.GetCurSeed") && locked
                    else true) uses.

(* ---------- (2) schedule independence ------------------------------------- *)
Section Sched.
  Variable G : Type.                  (* shared state that no step writes *)
  Variable S : Type.                  (* private state of one VM *)
  Variable step : nat -> G -> S -> S. (* step of VM i *)

  Definition upd (st : nat -> S) (i : nat) (x : S) : nat -> S := fun j => if Nat.eqb j i then x else st j.

  Fixpoint run_sched (g : G) (sched : list nat) (st : nat -> S) : nat -> S :=
    match sched with
    | [] => st
    | i :: r => run_sched g r (upd st i (step i g (st i)))
    end.

  Fixpoint iter (k : nat) (f : S -> S) (x : S) : S := match k with O => x | Datatypes.S k' => iter k' f (f x) end.
  Definition count (i : nat) (sched : list nat) : nat := List.length (List.filter (Nat.eqb i) sched).
End Sched.
