(* Correspondence for C18: edit lists printed as `^st…` source and run by the real parser + VM with a
   recording CallbackSt, against Model/St.v.

   c18_ok      : st_exec (compile_st edits) reproduces Go's callback log exactly (type, name, value,
                 extra, op, text) — the values inside the edits are what Go computed for each value text
                 evaluated ALONE on a fresh VM — and compile_st edits, projected on its push.str /
                 push.computed / st.* instructions, is the projection of the code Go compiled.
   c18_replay_ok : for ANY source (recorded-defect shapes, malformed ones): Go's own projected code,
                 completed with the values Go reported, replayed by st_exec gives Go's callback log
                 (names are the strings pushed, one callback per st.* instruction, in order). *)
From Coq Require Import NArith ZArith List Bool.
From DS Require Import Model.Str Model.St.
Import ListNotations.
Open Scope N_scope.

Fixpoint bad_indices {A} (ok : A -> bool) (i : N) (l : list A) : list N :=
  match l with
  | [] => []
  | c :: r => if ok c then bad_indices ok (i + 1) r else i :: bad_indices ok (i + 1) r
  end.

Definition sval_eqb (a b : sval) : bool :=
  match a, b with
  | SInt x, SInt y => Z.eqb x y
  | SFloatBits x, SFloatBits y => N.eqb x y
  | SStr x, SStr y => str_eqb x y
  | SNull, SNull => true
  | SComputed x, SComputed y => str_eqb x y
  | SOther x, SOther y => N.eqb x y
  | _, _ => false
  end.

Definition osval_eqb (a b : option sval) : bool :=
  match a, b with
  | None, None => true
  | Some x, Some y => sval_eqb x y
  | _, _ => false
  end.

Definition cb_eqb (a b : callback) : bool :=
  if str_eqb (cb_type a) (cb_type b) then
  if str_eqb (cb_name a) (cb_name b) then
  if sval_eqb (cb_val a) (cb_val b) then
  if osval_eqb (cb_extra a) (cb_extra b) then
  if str_eqb (cb_op a) (cb_op b) then str_eqb (cb_text a) (cb_text b)
  else false else false else false else false else false.

Fixpoint list_eqb {A} (eq : A -> A -> bool) (a b : list A) : bool :=
  match a, b with
  | [], [] => true
  | x :: a', y :: b' => if eq x y then list_eqb eq a' b' else false
  | _, _ => false
  end.

Fixpoint prefixb {A} (eq : A -> A -> bool) (a b : list A) : bool :=
  match a, b with
  | [], _ => true
  | x :: a', y :: b' => if eq x y then prefixb eq a' b' else false
  | _ :: _, [] => false
  end.

(* ---- projected code ------------------------------------------------------------------------ *)
Inductive pinstr :=
| PName (s : str) | PComputed (text : str) | PSet | PMod (op text : str) | PX0 | PX1.

Definition pinstr_eqb (a b : pinstr) : bool :=
  match a, b with
  | PName x, PName y => str_eqb x y
  | PComputed x, PComputed y => str_eqb x y
  | PSet, PSet => true
  | PMod o t, PMod o' t' => if str_eqb o o' then str_eqb t t' else false
  | PX0, PX0 => true
  | PX1, PX1 => true
  | _, _ => false
  end.

Fixpoint proj (code : list instr) : list pinstr :=
  match code with
  | [] => []
  | i :: r =>
    match i with
    | IPushName s => PName s :: proj r
    | IPushComputed t => PComputed t :: proj r
    | IStSet => PSet :: proj r
    | IStMod o t => PMod o t :: proj r
    | IStX0 => PX0 :: proj r
    | IStX1 => PX1 :: proj r
    | IPushVal _ | IPushExtra _ => proj r
    end
  end.

(* ---- edit-list cases ----------------------------------------------------------------------- *)
(* edits, Go's run succeeded, Go's callback log, projection of Go's compiled code *)
Definition c18_case : Type := list edit * bool * list callback * list pinstr.

Definition c18_ok (c : c18_case) : bool :=
  let '(es, ok, log, code) := c in
  let prog := compile_st es in
  if list_eqb pinstr_eqb (proj prog) code then
    match st_exec prog [] [] with
    | Done l => if ok then list_eqb cb_eqb l log else false
    | Failed l => if ok then false else list_eqb cb_eqb l log
    end
  else false.

(* ---- replay of Go's own code ---------------------------------------------------------------- *)
(* every st.* instruction directly preceded by  PName [PComputed]  (no strings inside value code) *)
Fixpoint clean (code : list pinstr) : bool :=
  match code with
  | [] => true
  | PName _ :: PComputed _ :: PSet :: r => clean r
  | PName _ :: PSet :: r => clean r
  | PName _ :: PMod _ _ :: r => clean r
  | PName _ :: PX0 :: r => clean r
  | PName _ :: PX1 :: r => clean r
  | _ => false
  end.

(* the value the expression code must have left for the callback to report v *)
Definition unreport (op : str) (v : sval) : sval :=
  if str_eqb op s_minus then match neg v with Some v' => v' | None => SNull end else v.

Fixpoint lift (code : list pinstr) (log : list callback) (have : bool) : list instr :=
  match code with
  | [] => []
  | PName s :: r => IPushName s :: lift r log false
  | PComputed t :: r => IPushComputed t :: lift r log true
  | PSet :: r =>
    match log with
    | c :: l => (if have then [] else [IPushVal (cb_val c)]) ++ IStSet :: lift r l false
    | [] => (if have then [] else [IPushVal SNull]) ++ IStSet :: lift r [] false
    end
  | PX0 :: r =>
    match log with
    | c :: l => IPushVal (cb_val c) :: IStX0 :: lift r l false
    | [] => IPushVal SNull :: IStX0 :: lift r [] false
    end
  | PX1 :: r =>
    match log with
    | c :: l => IPushExtra (match cb_extra c with Some k => k | None => SNull end) :: IPushVal (cb_val c) :: IStX1 :: lift r l false
    | [] => IPushExtra SNull :: IPushVal SNull :: IStX1 :: lift r [] false
    end
  | PMod o t :: r =>
    match log with
    | c :: l => IPushVal (unreport o (cb_val c)) :: IStMod o t :: lift r l false
    | [] => IPushVal SNull :: IStMod o t :: lift r [] false
    end
  end.

(* Go's projected code, Go's run succeeded, Go's callback log *)
Definition c18_replay : Type := list pinstr * bool * list callback.

(* a successful run: the model's log is Go's.  A failed run (an expression failed, a value had no
   negation): everything Go reported before the failure is what the model reports first. *)
Definition c18_replay_ok (c : c18_replay) : bool :=
  let '(code, ok, log) := c in
  if clean code then
    match st_exec (lift code log false) [] [] with
    | Done l => if ok then list_eqb cb_eqb l log else prefixb cb_eqb log l
    | Failed l => if ok then false else prefixb cb_eqb log l
    end
  else true.

Definition c18_replay_clean (c : c18_replay) : bool := let '(code, _, _) := c in clean code.
