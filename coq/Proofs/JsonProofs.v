(* Proofs about Model/Json.v: decoder well-formedness (C10), round trip (C09), observers. *)
From Coq Require Import String Ascii NArith ZArith List Bool Lia.
From DS Require Import Model.Json.
Import ListNotations.
Open Scope string_scope.

(* ------------------------------------------------------------------ induction principles *)
Section JsonInd.
  Variable P : json -> Prop.
  Hypothesis Hnull : P JNull.
  Hypothesis Hbool : forall b, P (JBool b).
  Hypothesis Hint : forall z, P (JInt z).
  Hypothesis Hfloat : forall b, P (JFloat b).
  Hypothesis Hstr : forall s, P (JStr s).
  Hypothesis Harr : forall l, Forall P l -> P (JArr l).
  Hypothesis Hobj : forall l, Forall (fun kv => P (snd kv)) l -> P (JObj l).

  Fixpoint json_ind' (j : json) : P j :=
    match j with
    | JNull => Hnull
    | JBool b => Hbool b
    | JInt z => Hint z
    | JFloat b => Hfloat b
    | JStr s => Hstr s
    | JArr l => Harr l ((fix go (l : list json) : Forall P l :=
                           match l with
                           | [] => Forall_nil _
                           | x :: r => Forall_cons _ (json_ind' x) (go r)
                           end) l)
    | JObj l => Hobj l ((fix go (l : list (string * json)) : Forall (fun kv => P (snd kv)) l :=
                           match l with
                           | [] => Forall_nil _
                           | kv :: r => Forall_cons _ (json_ind' (snd kv)) (go r)
                           end) l)
    end.
End JsonInd.

Section ValueInd.
  Variable P : value -> Prop.
  Hypothesis Hint : forall z, P (VInt z).
  Hypothesis Hfloat : forall b, P (VFloat b).
  Hypothesis Hstr : forall s, P (VStr s).
  Hypothesis Hnull : P VNull.
  Hypothesis Harr : forall l, Forall P l -> P (VArr l).
  Hypothesis Hdict : forall l, Forall (fun kv => P (snd kv)) l -> P (VDict l).
  Hypothesis Hfunc : forall n p e, P (VFunc n p e).
  Hypothesis Hcomp0 : forall e, P (VComputed e None).
  Hypothesis Hcomp : forall e l, Forall (fun kv => P (snd kv)) l -> P (VComputed e (Some l)).
  Hypothesis Hnat : forall n, P (VNative n).
  Hypothesis Hnobj : forall n, P (VNObj n).

  Fixpoint value_ind' (v : value) : P v :=
    let go := fix go (l : list (string * value)) : Forall (fun kv => P (snd kv)) l :=
                match l with
                | [] => Forall_nil _
                | kv :: r => Forall_cons _ (value_ind' (snd kv)) (go r)
                end in
    match v with
    | VInt z => Hint z
    | VFloat b => Hfloat b
    | VStr s => Hstr s
    | VNull => Hnull
    | VArr l => Harr l ((fix go (l : list value) : Forall P l :=
                           match l with
                           | [] => Forall_nil _
                           | x :: r => Forall_cons _ (value_ind' x) (go r)
                           end) l)
    | VDict l => Hdict l (go l)
    | VFunc n p e => Hfunc n p e
    | VComputed e None => Hcomp0 e
    | VComputed e (Some l) => Hcomp e l (go l)
    | VNative n => Hnat n
    | VNObj n => Hnobj n
    end.
End ValueInd.

Section RvalueInd.
  Variable P : rvalue -> Prop.
  Hypothesis Hnil : P RNil.
  Hypothesis Hnone : forall t, P (RNone t).
  Hypothesis Hint : forall t z, P (RInt t z).
  Hypothesis Hfloat : forall t b, P (RFloat t b).
  Hypothesis Hstr : forall t s, P (RStr t s).
  Hypothesis Harr : forall t l, Forall P l -> P (RArr t l).
  Hypothesis Hdict : forall t l, Forall (fun kv => P (snd kv)) l -> P (RDict t l).
  Hypothesis Hfunc : forall t n p e, P (RFunc t n p e).
  Hypothesis Hcomp0 : forall t e, P (RComputed t e None).
  Hypothesis Hcomp : forall t e l, Forall (fun kv => P (snd kv)) l -> P (RComputed t e (Some l)).
  Hypothesis Hnat : forall t n, P (RNative t n).
  Hypothesis Hnobj : forall t n, P (RNObj t n).

  Fixpoint rvalue_ind' (v : rvalue) : P v :=
    let go := fix go (l : list (string * rvalue)) : Forall (fun kv => P (snd kv)) l :=
                match l with
                | [] => Forall_nil _
                | kv :: r => Forall_cons _ (rvalue_ind' (snd kv)) (go r)
                end in
    match v with
    | RNil => Hnil
    | RNone t => Hnone t
    | RInt t z => Hint t z
    | RFloat t b => Hfloat t b
    | RStr t s => Hstr t s
    | RArr t l => Harr t l ((fix go (l : list rvalue) : Forall P l :=
                               match l with
                               | [] => Forall_nil _
                               | x :: r => Forall_cons _ (rvalue_ind' x) (go r)
                               end) l)
    | RDict t l => Hdict t l (go l)
    | RFunc t n p e => Hfunc t n p e
    | RComputed t e None => Hcomp0 t e
    | RComputed t e (Some l) => Hcomp t e l (go l)
    | RNative t n => Hnat t n
    | RNObj t n => Hnobj t n
    end.
End RvalueInd.

(* ------------------------------------------------------------------ small facts *)
Lemma dispatch_sound : forall T t k, dispatch T t = Some k ->
  match k with
  | KInt => t = d_int T | KFloat => t = d_float T | KStr => t = d_str T | KNull => t = d_null T
  | KComputed => t = d_computed T | KArray => t = d_array T | KDict => t = d_dict T
  | KFunc => t = d_func T | KNative => t = d_native T | KNObj => t = d_nobj T
  end.
Proof.
  intros T t k. unfold dispatch.
  repeat match goal with
         | |- context [(?a =? ?b)%Z] => destruct (Z.eqb_spec a b)
         end; intros H; inversion H; subst; auto.
Qed.

Lemma assign_inv : forall A (conv : ajson -> option (option A)) (Q : A -> Prop) vals cur y,
  Q cur ->
  (forall a x, In a vals -> conv a = Some (Some x) -> Q x) ->
  assign conv cur vals = Some y -> Q y.
Proof.
  intros A conv Q vals. induction vals as [|a r IH]; simpl; intros cur y Hc Hall H.
  - inversion H; subst; auto.
  - destruct (conv a) as [[x|]|] eqn:E; try discriminate.
    + eapply IH; [ | | exact H]; eauto.
    + eapply IH; [ | | exact H]; eauto.
Qed.

Lemma has_key_in : forall A k (l : list (string * A)), has_key k l = true -> exists v, In (k, v) l.
Proof.
  induction l as [|[k' v] r IH]; simpl; intros H; try discriminate.
  destruct (String.eqb_spec k k').
  - subst. eexists; left; reflexivity.
  - destruct (IH H) as [x Hx]. eexists; right; eauto.
Qed.

Lemma dedup_last_sub : forall A (l : list (string * A)) kv, In kv (dedup_last l) -> In kv l.
Proof.
  induction l as [|[k v] r IH]; simpl; intros kv H; auto.
  destruct (has_key k r); [right; auto|].
  destruct H; [left; auto | right; auto].
Qed.

Lemma has_key_dedup : forall A k (l : list (string * A)), has_key k (dedup_last l) = has_key k l.
Proof.
  induction l as [|[k' v] r IH]; simpl; auto.
  destruct (has_key k' r) eqn:E; simpl.
  - rewrite IH. destruct (String.eqb_spec k k'); subst; auto.
  - rewrite IH. reflexivity.
Qed.

Lemma dedup_last_nodup : forall A (l : list (string * A)), nodup_keys (dedup_last l) = true.
Proof.
  induction l as [|[k v] r IH]; simpl; auto.
  destruct (has_key k r) eqn:E; auto.
  simpl. rewrite has_key_dedup, E. auto.
Qed.

Lemma dedup_last_id : forall A (l : list (string * A)), nodup_keys l = true -> dedup_last l = l.
Proof.
  induction l as [|[k v] r IH]; simpl; auto.
  destruct (has_key k r); intros H; try discriminate. rewrite IH; auto.
Qed.

(* ------------------------------------------------------------------ C10: the decoder *)
Section Decoder.
  Variable T : json_tags.

  Definition ann_wf (o : option rvalue) : Prop := forall r, o = Some r -> wf T r = true.

  Fixpoint ann_ok (a : ajson) : Prop :=
    match a with
    | AArr l => (fix all (l : list (ajson * option rvalue)) : Prop :=
                   match l with
                   | [] => True
                   | (c, o) :: r => ann_ok c /\ ann_wf o /\ all r
                   end) l
    | AObj l => (fix all (l : aentries) : Prop :=
                   match l with
                   | [] => True
                   | (_, (c, o)) :: r => ann_ok c /\ ann_wf o /\ all r
                   end) l
    | _ => True
    end.

  Fixpoint entries_ok (l : aentries) : Prop :=
    match l with
    | [] => True
    | (_, (c, o)) :: r => ann_ok c /\ ann_wf o /\ entries_ok r
    end.

  Fixpoint elems_ok (l : list (ajson * option rvalue)) : Prop :=
    match l with
    | [] => True
    | (c, o) :: r => ann_ok c /\ ann_wf o /\ elems_ok r
    end.

  Lemma ann_ok_obj : forall l, ann_ok (AObj l) <-> entries_ok l.
  Proof. induction l as [|[k [c o]] r IH]; simpl in *; tauto. Qed.

  Lemma ann_ok_arr : forall l, ann_ok (AArr l) <-> elems_ok l.
  Proof. induction l as [|[c o] r IH]; simpl in *; tauto. Qed.

  Lemma entries_ok_app : forall a b, entries_ok a -> entries_ok b -> entries_ok (a ++ b)%list.
  Proof.
    induction a as [|[k [c o]] r IH]; simpl; intros b Ha Hb; auto.
    destruct Ha as (H1 & H2 & H3). repeat split; auto.
  Qed.

  Lemma obj_entries_ok : forall a fs, ann_ok a -> obj_entries a = Some fs -> entries_ok fs.
  Proof.
    intros a fs Ha H. destruct a; simpl in H; inversion H; subst; simpl; auto.
    all: try (apply ann_ok_obj; auto).
  Qed.

  Lemma field_vals_ok : forall f fs, entries_ok fs -> Forall ann_ok (field_vals f fs).
  Proof.
    intros f. unfold field_vals. induction fs as [|[k [c o]] r IH]; simpl; intros H; auto.
    destruct H as (Hc & Ho & Hr). destruct (key_match k f); simpl; auto.
  Qed.

  Lemma inner_entries_ok : forall vals inner,
    Forall ann_ok vals -> inner_entries vals = Some inner -> entries_ok inner.
  Proof.
    induction vals as [|a r IH]; simpl; intros inner Hall H.
    - inversion H; simpl; auto.
    - inversion Hall; subst. destruct a; try discriminate; auto.
      destruct (inner_entries r) eqn:E; try discriminate. inversion H; subst.
      apply entries_ok_app; auto; try (apply ann_ok_obj; auto).
  Qed.

  Definition nil_or_wf (r : rvalue) : Prop := r = RNil \/ wf T r = true.

  Lemma elems_nil_or_wf : forall l l', elems_ok l -> elems l = Some l' -> Forall nil_or_wf l'.
  Proof.
    induction l as [|[c o] r IH]; simpl; intros l' Hok H.
    - inversion H; auto.
    - destruct Hok as (Hc & Ho & Hr).
      destruct c; destruct o as [v|]; try discriminate;
        destruct (elems r) eqn:E; try discriminate; inversion H; subst;
          constructor; auto; try (left; reflexivity); right; apply Ho; reflexivity.
  Qed.

  Lemma no_nil_wf : forall l, Forall nil_or_wf l -> existsb is_nil l = false -> forallb (wf T) l = true.
  Proof.
    induction l as [|x r IH]; simpl; intros H E; auto.
    inversion H; subst. apply orb_false_iff in E. destruct E as [E1 E2].
    destruct H2 as [-> | Hw]; [discriminate|]. rewrite Hw, IH; auto.
  Qed.

  Lemma map_entries_nil_or_wf : forall l l',
    entries_ok l -> map_entries l = Some l' -> Forall (fun kv => nil_or_wf (snd kv)) l'.
  Proof.
    induction l as [|[k [c o]] r IH]; simpl; intros l' Hok H.
    - inversion H; auto.
    - destruct Hok as (Hc & Ho & Hr).
      destruct c; destruct o as [v|]; try discriminate;
        destruct (map_entries r) eqn:E; try discriminate; inversion H; subst;
          constructor; auto; simpl; try (left; reflexivity); right; apply Ho; reflexivity.
  Qed.

  Lemma no_nil_wf_entries : forall (l : list (string * rvalue)),
    Forall (fun kv => nil_or_wf (snd kv)) l ->
    existsb (fun kv => is_nil (snd kv)) l = false ->
    forallb (fun kv => wf T (snd kv)) l = true.
  Proof.
    induction l as [|x r IH]; simpl; intros H E; auto.
    inversion H; subst. apply orb_false_iff in E. destruct E as [E1 E2].
    destruct H2 as [Hn | Hw]; [rewrite Hn in E1; discriminate|]. rewrite Hw, IH; auto.
  Qed.

  Lemma dec_map_wf : forall a m, ann_ok a -> dec_map a = Some m -> wf_map T m = true.
  Proof.
    intros a m Ha H. destruct a; simpl in H; try discriminate.
    - inversion H; reflexivity.
    - destruct (map_entries l) as [es|] eqn:E; try discriminate.
      destruct (existsb _ (dedup_last es)) eqn:E2; try discriminate. inversion H; subst.
      unfold wf_map. rewrite dedup_last_nodup, andb_true_r.
      apply no_nil_wf_entries; auto.
      apply Forall_forall. intros kv Hin. apply dedup_last_sub in Hin.
      pose proof (map_entries_nil_or_wf l es (proj1 (ann_ok_obj l) Ha) E) as F.
      rewrite Forall_forall in F. auto.
  Qed.

  Lemma wf_map_split : forall m, wf_map T m = true ->
    forallb (fun kv => wf T (snd kv)) m = true /\ nodup_keys m = true.
  Proof. intros m H. apply andb_true_iff in H. auto. Qed.

  (* the heart of C10: whatever the document, a successful decoding is well-formed *)
  Lemma dec_value_wf : forall a r, ann_ok a -> dec_value T a = Some r -> wf T r = true.
  Proof.
    intros a r Ha H. unfold dec_value in H.
    destruct (obj_entries a) as [fs|] eqn:Efs; try discriminate.
    pose proof (obj_entries_ok a fs Ha Efs) as Hfs.
    destruct (assign conv_int 0%Z (field_vals (dk_t T) fs)) as [t|] eqn:Et; try discriminate.
    destruct (dispatch T t) as [k|] eqn:Ek; try discriminate.
    pose proof (dispatch_sound T t k Ek) as Hk.
    pose proof (field_vals_ok (dk_v T) fs Hfs) as Hvs.
    destruct k.
    - (* int *)
      destruct (assign conv_int 0%Z (field_vals (dk_v T) fs)) as [z|] eqn:Ez; try discriminate.
      inversion H; subst. simpl. rewrite Z.eqb_refl. simpl.
      eapply (assign_inv Z conv_int (fun z => in_i64b z = true)); [ | | exact Ez].
      + reflexivity.
      + intros a0 x _ Hc. destruct a0; simpl in Hc; try discriminate.
        destruct (in_i64b z0) eqn:E; inversion Hc; subst; auto.
    - (* float *)
      destruct (assign conv_float 0%N (field_vals (dk_v T) fs)) as [b|] eqn:Ez; try discriminate.
      inversion H; subst. simpl. rewrite Z.eqb_refl. simpl.
      eapply (assign_inv N conv_float (fun b => f_finite b = true)); [ | | exact Ez].
      + reflexivity.
      + intros a0 x _ Hc. destruct a0 as [| |z0|b0| | |]; simpl in Hc; try discriminate.
        * destruct (z2f z0) as [n|] eqn:E; try discriminate.
          destruct (f_finite n) eqn:E2; inversion Hc; subst; auto.
        * destruct (f_finite b0) eqn:E; inversion Hc; subst; auto.
    - (* string *)
      destruct (assign conv_str EmptyString (field_vals (dk_v T) fs)); try discriminate.
      inversion H; subst. simpl. apply Z.eqb_refl.
    - (* null *)
      inversion H; subst. simpl. apply Z.eqb_refl.
    - (* computed *)
      destruct (inner_entries (field_vals (dk_v T) fs)) as [inner|] eqn:Ei; try discriminate.
      pose proof (inner_entries_ok _ _ Hvs Ei) as Hin.
      destruct (assign conv_str EmptyString (field_vals (dk_cexpr T) inner)) as [e|]; try discriminate.
      destruct (last_opt (field_vals (dk_cattrs T) inner)) as [raw|] eqn:El.
      + destruct (dec_map raw) as [m|] eqn:Em; try discriminate.
        inversion H; subst. simpl. rewrite Z.eqb_refl. simpl.
        assert (Hraw : ann_ok raw).
        { pose proof (field_vals_ok (dk_cattrs T) inner Hin) as F.
          rewrite Forall_forall in F. apply F.
          unfold last_opt in El. destruct (rev (field_vals (dk_cattrs T) inner)) eqn:Er; try discriminate.
          inversion El; subst. apply in_rev. rewrite Er. left; reflexivity. }
        exact (dec_map_wf raw m Hraw Em).
      + inversion H; subst. simpl. apply Z.eqb_refl.
    - (* array *)
      destruct (inner_entries (field_vals (dk_v T) fs)) as [inner|] eqn:Ei; try discriminate.
      pose proof (inner_entries_ok _ _ Hvs Ei) as Hin.
      destruct (assign conv_list [] (field_vals (dk_list T) inner)) as [l|] eqn:El; try discriminate.
      destruct (existsb is_nil l) eqn:En; try discriminate.
      inversion H; subst. simpl. rewrite Z.eqb_refl. simpl.
      apply no_nil_wf; auto.
      eapply (assign_inv _ conv_list (Forall nil_or_wf)); [ | | exact El].
      + constructor.
      + intros a0 x Hin0 Hc.
        pose proof (field_vals_ok (dk_list T) inner Hin) as F. rewrite Forall_forall in F.
        specialize (F a0 Hin0).
        destruct a0; simpl in Hc; try discriminate.
        * inversion Hc; subst. constructor.
        * destruct (elems l0) eqn:Ee; try discriminate. inversion Hc; subst.
          eapply elems_nil_or_wf; [ | exact Ee]. apply ann_ok_arr; auto.
    - (* dict *)
      destruct (inner_entries (field_vals (dk_v T) fs)) as [inner|] eqn:Ei; try discriminate.
      pose proof (inner_entries_ok _ _ Hvs Ei) as Hin.
      destruct (assign conv_dict [] (field_vals (dk_dict T) inner)) as [m|] eqn:Em; try discriminate.
      inversion H; subst. simpl. rewrite Z.eqb_refl. simpl.
      eapply (assign_inv _ conv_dict (fun m => wf_map T m = true)); [ | | exact Em].
      + reflexivity.
      + intros a0 x Hin0 Hc.
        pose proof (field_vals_ok (dk_dict T) inner Hin) as F. rewrite Forall_forall in F.
        specialize (F a0 Hin0). unfold conv_dict in Hc.
        destruct (dec_map a0) eqn:Ed; try discriminate. inversion Hc; subst.
        eapply dec_map_wf; eauto.
    - (* function *)
      destruct (inner_entries (field_vals (dk_v T) fs)) as [inner|]; try discriminate.
      destruct (assign conv_str EmptyString (field_vals (dk_fexpr T) inner)); try discriminate.
      destruct (assign conv_str EmptyString (field_vals (dk_fname T) inner)); try discriminate.
      destruct (assign conv_params None (field_vals (dk_fparams T) inner)); try discriminate.
      inversion H; subst. simpl. apply Z.eqb_refl.
    - (* native function *)
      destruct (inner_entries (field_vals (dk_v T) fs)) as [inner|]; try discriminate.
      destruct (assign conv_str EmptyString (field_vals (dk_nname T) inner)) as [n|]; try discriminate.
      destruct (mem_str n (natives T)) eqn:En; try discriminate.
      inversion H; subst. simpl. rewrite Z.eqb_refl, En. reflexivity.
    - (* native object *)
      destruct (inner_entries (field_vals (dk_v T) fs)) as [inner|]; try discriminate.
      destruct (assign conv_str EmptyString (field_vals (dk_oname T) inner)); try discriminate.
      inversion H; subst. simpl. apply Z.eqb_refl.
  Qed.

  Lemma annot_ok : forall j, ann_ok (annot T j).
  Proof.
    induction j using json_ind'; simpl; auto.
    - (* array *)
      induction H as [|x r Hx Hr IH]; simpl; auto.
      split; [exact Hx|]. split; [|exact IH].
      intros v Hv. eapply dec_value_wf; eauto.
    - (* object *)
      induction H as [|[k x] r Hx Hr IH]; simpl; auto.
      split; [exact Hx|]. split; [|exact IH].
      intros v Hv. eapply dec_value_wf; eauto.
  Qed.

  Theorem of_json_wf : forall j r, of_json T j = Some r -> wf T r = true.
  Proof. intros j r H. eapply dec_value_wf; [apply annot_ok | exact H]. Qed.

  Theorem of_json_map_wf : forall j m, of_json_map T j = Some m -> wf_map T m = true.
  Proof. intros j m H. eapply dec_map_wf; [apply annot_ok | exact H]. Qed.
End Decoder.

(* ------------------------------------------------------------------ C09: round trip *)
Section Roundtrip.
  Variable T : json_tags.
  Hypothesis Hok : tags_ok T = true.

  Lemma ok_and : forall a b, a && b = true -> a = true /\ b = true.
  Proof. intros a b H. apply andb_true_iff in H. exact H. Qed.

  Ltac from_ok :=
    let H := fresh "H" in
    pose proof Hok as H; unfold tags_ok in H;
    repeat (apply ok_and in H; let H2 := fresh "H" in destruct H as [H H2]);
    try assumption;
    try (apply Z.eqb_eq; assumption);
    try (apply negb_true_iff; assumption).

  Lemma ed_int : e_int T = d_int T. Proof. from_ok. Qed.
  Lemma ed_float : e_float T = d_float T. Proof. from_ok. Qed.
  Lemma ed_str : e_str T = d_str T. Proof. from_ok. Qed.
  Lemma ed_null : e_null T = d_null T. Proof. from_ok. Qed.
  Lemma ed_computed : e_computed T = d_computed T. Proof. from_ok. Qed.
  Lemma ed_array : e_array T = d_array T. Proof. from_ok. Qed.
  Lemma ed_dict : e_dict T = d_dict T. Proof. from_ok. Qed.
  Lemma ed_func : e_func T = d_func T. Proof. from_ok. Qed.
  Lemma ed_native : e_native T = d_native T. Proof. from_ok. Qed.
  Lemma ed_nobj : e_nobj T = d_nobj T. Proof. from_ok. Qed.

  Lemma dispatch_kind_tag : forall k, dispatch T (kind_tag T k) = Some k.
  Proof.
    assert (H : dispatch_ok T = true) by from_ok.
    unfold dispatch_ok in H. rewrite forallb_forall in H.
    intros k. specialize (H k).
    assert (Hin : In k [KInt; KFloat; KStr; KNull; KComputed; KArray; KDict; KFunc; KNative; KNObj])
      by (destruct k; simpl; tauto).
    specialize (H Hin). destruct (dispatch T (kind_tag T k)) as [k'|]; try discriminate.
    destruct k, k'; simpl in H; try discriminate; reflexivity.
  Qed.

  Lemma range_kind_tag : forall k, in_i64b (kind_tag T k) = true.
  Proof. destruct k; simpl; from_ok. Qed.

  Lemma km_tt : key_match (ek_t T) (dk_t T) = true. Proof. from_ok. Qed.
  Lemma km_vt : key_match (ek_v T) (dk_t T) = false. Proof. from_ok. Qed.
  Lemma km_vv : key_match (ek_v T) (dk_v T) = true. Proof. from_ok. Qed.
  Lemma km_tv : key_match (ek_t T) (dk_v T) = false. Proof. from_ok. Qed.
  Lemma km_ce : key_match (ek_cexpr T) (dk_cexpr T) = true. Proof. from_ok. Qed.
  Lemma km_ae : key_match (ek_cattrs T) (dk_cexpr T) = false. Proof. from_ok. Qed.
  Lemma km_aa : key_match (ek_cattrs T) (dk_cattrs T) = true. Proof. from_ok. Qed.
  Lemma km_ea : key_match (ek_cexpr T) (dk_cattrs T) = false. Proof. from_ok. Qed.
  Lemma km_list : key_match (ek_list T) (dk_list T) = true. Proof. from_ok. Qed.
  Lemma km_dict : key_match (ek_dict T) (dk_dict T) = true. Proof. from_ok. Qed.
  Lemma km_fee : key_match (ek_fexpr T) (dk_fexpr T) = true. Proof. from_ok. Qed.
  Lemma km_fne : key_match (ek_fname T) (dk_fexpr T) = false. Proof. from_ok. Qed.
  Lemma km_fpe : key_match (ek_fparams T) (dk_fexpr T) = false. Proof. from_ok. Qed.
  Lemma km_fnn : key_match (ek_fname T) (dk_fname T) = true. Proof. from_ok. Qed.
  Lemma km_fen : key_match (ek_fexpr T) (dk_fname T) = false. Proof. from_ok. Qed.
  Lemma km_fpn : key_match (ek_fparams T) (dk_fname T) = false. Proof. from_ok. Qed.
  Lemma km_fpp : key_match (ek_fparams T) (dk_fparams T) = true. Proof. from_ok. Qed.
  Lemma km_fep : key_match (ek_fexpr T) (dk_fparams T) = false. Proof. from_ok. Qed.
  Lemma km_fnp : key_match (ek_fname T) (dk_fparams T) = false. Proof. from_ok. Qed.
  Lemma km_nn : key_match (ek_nname T) (dk_nname T) = true. Proof. from_ok. Qed.
  Lemma km_oo : key_match (ek_oname T) (dk_oname T) = true. Proof. from_ok. Qed.

  (* ---- which values the two decoding phases see *)
  Lemma fv_t2 : forall a o1 b o2, field_vals (dk_t T) [(ek_t T, (a, o1)); (ek_v T, (b, o2))] = [a].
  Proof. intros. unfold field_vals. cbn [filter map fst snd]. rewrite km_tt, km_vt. reflexivity. Qed.
  Lemma fv_v2 : forall a o1 b o2, field_vals (dk_v T) [(ek_t T, (a, o1)); (ek_v T, (b, o2))] = [b].
  Proof. intros. unfold field_vals. cbn [filter map fst snd]. rewrite km_tv, km_vv. reflexivity. Qed.
  Lemma fv_t1 : forall a o1, field_vals (dk_t T) [(ek_t T, (a, o1))] = [a].
  Proof. intros. unfold field_vals. cbn [filter map fst snd]. rewrite km_tt. reflexivity. Qed.

  Lemma assign_int1 : forall x, in_i64b x = true -> assign conv_int 0%Z [AInt x] = Some x.
  Proof. intros x H. simpl. rewrite H. reflexivity. Qed.

  Ltac head k :=
    unfold dec_value, obj_entries; rewrite fv_t2, fv_v2;
    rewrite (assign_int1 _ (range_kind_tag k));
    rewrite (dispatch_kind_tag k).

  Lemma dec_int : forall z o1 o2, in_i64b z = true ->
    dec_value T (AObj [(ek_t T, (AInt (d_int T), o1)); (ek_v T, (AInt z, o2))]) = Some (RInt (d_int T) z).
  Proof.
    intros. change (d_int T) with (kind_tag T KInt). head KInt.
    rewrite assign_int1 by assumption. reflexivity.
  Qed.

  Lemma dec_float : forall b o1 o2, f_finite b = true ->
    dec_value T (AObj [(ek_t T, (AInt (d_float T), o1)); (ek_v T, (AFloat b, o2))]) = Some (RFloat (d_float T) b).
  Proof.
    intros b o1 o2 H. change (d_float T) with (kind_tag T KFloat). head KFloat.
    simpl. rewrite H. reflexivity.
  Qed.

  Lemma dec_str : forall s o1 o2,
    dec_value T (AObj [(ek_t T, (AInt (d_str T), o1)); (ek_v T, (AStr s, o2))]) = Some (RStr (d_str T) s).
  Proof. intros. change (d_str T) with (kind_tag T KStr). head KStr. reflexivity. Qed.

  Lemma dec_null : forall o1,
    dec_value T (AObj [(ek_t T, (AInt (d_null T), o1))]) = Some (RNone (d_null T)).
  Proof.
    intros. change (d_null T) with (kind_tag T KNull).
    unfold dec_value, obj_entries. rewrite fv_t1.
    rewrite (assign_int1 _ (range_kind_tag KNull)), (dispatch_kind_tag KNull). reflexivity.
  Qed.

  Lemma dec_arr : forall l o1 o2 o3,
    dec_value T (AObj [(ek_t T, (AInt (d_array T), o1));
                       (ek_v T, (AObj [(ek_list T, (AArr l, o3))], o2))]) =
    match elems l with
    | None => None
    | Some l' => if existsb is_nil l' then None else Some (RArr (d_array T) l')
    end.
  Proof.
    intros. change (d_array T) with (kind_tag T KArray). head KArray.
    cbn [inner_entries app]. unfold field_vals. cbn [filter map fst snd]. rewrite km_list.
    cbn [map fst snd assign conv_list]. destruct (elems l); reflexivity.
  Qed.

  Lemma dec_dict : forall l o1 o2 o3,
    dec_value T (AObj [(ek_t T, (AInt (d_dict T), o1));
                       (ek_v T, (AObj [(ek_dict T, (AObj l, o3))], o2))]) =
    option_map (RDict (d_dict T)) (dec_map (AObj l)).
  Proof.
    intros. change (d_dict T) with (kind_tag T KDict). head KDict.
    cbn [inner_entries app]. unfold field_vals. cbn [filter map fst snd]. rewrite km_dict.
    cbn [map fst snd assign]. unfold conv_dict. destruct (dec_map (AObj l)); reflexivity.
  Qed.

  Lemma dec_comp0 : forall e o1 o2 o3,
    dec_value T (AObj [(ek_t T, (AInt (d_computed T), o1));
                       (ek_v T, (AObj [(ek_cexpr T, (AStr e, o3))], o2))]) =
    Some (RComputed (d_computed T) e None).
  Proof.
    intros. change (d_computed T) with (kind_tag T KComputed). head KComputed.
    cbn [inner_entries app]. unfold field_vals. cbn [filter map fst snd]. rewrite km_ce, km_ea.
    reflexivity.
  Qed.

  Lemma dec_comp : forall e l o1 o2 o3 o4,
    dec_value T (AObj [(ek_t T, (AInt (d_computed T), o1));
                       (ek_v T, (AObj [(ek_cexpr T, (AStr e, o3)); (ek_cattrs T, (AObj l, o4))], o2))]) =
    match dec_map (AObj l) with
    | None => None
    | Some m => Some (RComputed (d_computed T) e (Some m))
    end.
  Proof.
    intros. change (d_computed T) with (kind_tag T KComputed). head KComputed.
    cbn [inner_entries app]. unfold field_vals. cbn [filter map fst snd].
    rewrite km_ce, km_ea, km_ae, km_aa. reflexivity.
  Qed.

  Lemma str_elems_jstrs : forall l,
    str_elems (map (fun x => (annot T x, dec_value T (annot T x))) (map JStr l)) = Some l.
  Proof. induction l as [|x r IH]; simpl; auto. simpl in IH. rewrite IH. reflexivity. Qed.

  Lemma dec_func : forall n p e o1 o2 o3 o4 o5,
    dec_value T (AObj [(ek_t T, (AInt (d_func T), o1));
                       (ek_v T, (AObj [(ek_fexpr T, (AStr e, o3)); (ek_fname T, (AStr n, o4));
                                       (ek_fparams T, (annot T (match p with None => JNull | Some l => jstrs l end), o5))], o2))]) =
    Some (RFunc (d_func T) n p e).
  Proof.
    intros. change (d_func T) with (kind_tag T KFunc). head KFunc.
    cbn [inner_entries app]. unfold field_vals. cbn [filter map fst snd].
    rewrite km_fee, km_fne, km_fpe, km_fen, km_fnn, km_fpn, km_fep, km_fnp, km_fpp.
    cbn [map fst snd assign conv_str].
    destruct p as [l|].
    - unfold jstrs. cbn [annot assign conv_params]. rewrite str_elems_jstrs. reflexivity.
    - reflexivity.
  Qed.

  Lemma dec_native : forall n o1 o2 o3, mem_str n (natives T) = true ->
    dec_value T (AObj [(ek_t T, (AInt (d_native T), o1));
                       (ek_v T, (AObj [(ek_nname T, (AStr n, o3))], o2))]) = Some (RNative (d_native T) n).
  Proof.
    intros n o1 o2 o3 H. change (d_native T) with (kind_tag T KNative). head KNative.
    cbn [inner_entries app]. unfold field_vals. cbn [filter map fst snd]. rewrite km_nn.
    cbn [map fst snd assign conv_str]. rewrite H. reflexivity.
  Qed.

  Lemma dec_nobj : forall n o1 o2 o3,
    dec_value T (AObj [(ek_t T, (AInt (d_nobj T), o1));
                       (ek_v T, (AObj [(ek_oname T, (AStr n, o3))], o2))]) = Some (RNObj (d_nobj T) n).
  Proof.
    intros. change (d_nobj T) with (kind_tag T KNObj). head KNObj.
    cbn [inner_entries app]. unfold field_vals. cbn [filter map fst snd]. rewrite km_oo.
    reflexivity.
  Qed.

  (* ---- the encoder, unfolded one level *)
  Lemma to_json_arr_eq : forall l, to_json T (VArr l) =
    match to_json_items T l with
    | None => None
    | Some js => Some (JObj [(ek_t T, JInt (e_array T)); (ek_v T, JObj [(ek_list T, JArr js)])])
    end.
  Proof. reflexivity. Qed.

  Lemma to_json_dict_eq : forall l, to_json T (VDict l) =
    match to_json_entries T l with
    | None => None
    | Some js => Some (JObj [(ek_t T, JInt (e_dict T)); (ek_v T, JObj [(ek_dict T, JObj js)])])
    end.
  Proof. reflexivity. Qed.

  Lemma to_json_comp_eq : forall e l, to_json T (VComputed e (Some l)) =
    match to_json_entries T l with
    | None => None
    | Some js => Some (JObj [(ek_t T, JInt (e_computed T));
                             (ek_v T, JObj [(ek_cexpr T, JStr e); (ek_cattrs T, JObj js)])])
    end.
  Proof. reflexivity. Qed.

  Definition rt (v : value) : Prop :=
    tree_value T v = true -> finite_floats v = true ->
    exists l, to_json T v = Some (JObj l) /\ of_json T (JObj l) = Some (embed T v).

  Definition ann1 (x : json) := (annot T x, dec_value T (annot T x)).
  Definition ann2 (kv : string * json) := (fst kv, (annot T (snd kv), dec_value T (annot T (snd kv)))).

  Lemma embed_not_nil : forall v, is_nil (embed T v) = false.
  Proof. destruct v; try reflexivity. destruct attrs; reflexivity. Qed.

  Lemma items_rt : forall l, Forall rt l ->
    forallb (tree_value T) l = true -> forallb finite_floats l = true ->
    exists js, to_json_items T l = Some js /\ elems (map ann1 js) = Some (map (embed T) l).
  Proof.
    induction 1 as [|x r Hx Hr IH]; simpl; intros Ht Hf.
    - exists []. split; reflexivity.
    - apply andb_true_iff in Ht. apply andb_true_iff in Hf. destruct Ht as [Ht1 Ht2], Hf as [Hf1 Hf2].
      destruct (Hx Ht1 Hf1) as (lx & E1 & E2). destruct (IH Ht2 Hf2) as (js & E3 & E4).
      rewrite E1, E3. eexists. split; [reflexivity|].
      cbn [map]. unfold ann1 at 1. unfold of_json in E2. rewrite E2.
      cbn [annot elems]. rewrite E4. reflexivity.
  Qed.

  Lemma entries_rt : forall l, Forall (fun kv => rt (snd kv)) l ->
    forallb (fun kv => tree_value T (snd kv)) l = true ->
    forallb (fun kv => finite_floats (snd kv)) l = true ->
    exists js, to_json_entries T l = Some js /\
               map_entries (map ann2 js) = Some (map (fun kv => (fst kv, embed T (snd kv))) l).
  Proof.
    induction 1 as [|[k x] r Hx Hr IH]; simpl; intros Ht Hf.
    - exists []. split; reflexivity.
    - apply andb_true_iff in Ht. apply andb_true_iff in Hf. destruct Ht as [Ht1 Ht2], Hf as [Hf1 Hf2].
      simpl in Hx. destruct (Hx Ht1 Hf1) as (lx & E1 & E2). destruct (IH Ht2 Hf2) as (js & E3 & E4).
      rewrite E1, E3. eexists. split; [reflexivity|].
      cbn [map]. unfold ann2 at 1. cbn [fst snd]. unfold of_json in E2. rewrite E2.
      cbn [annot map_entries]. rewrite E4. reflexivity.
  Qed.

  Lemma has_key_map : forall A B (f : A -> B) k (l : list (string * A)),
    has_key k (map (fun kv => (fst kv, f (snd kv))) l) = has_key k l.
  Proof. induction l as [|[k' v] r IH]; simpl; auto. rewrite IH. reflexivity. Qed.

  Lemma nodup_keys_map : forall A B (f : A -> B) (l : list (string * A)),
    nodup_keys (map (fun kv => (fst kv, f (snd kv))) l) = nodup_keys l.
  Proof. induction l as [|[k v] r IH]; simpl; auto. rewrite has_key_map, IH. reflexivity. Qed.

  Lemma no_nil_embed : forall (l : list (string * value)),
    existsb (fun kv => is_nil (snd kv)) (map (fun kv => (fst kv, embed T (snd kv))) l) = false.
  Proof. induction l as [|[k v] r IH]; simpl; auto. rewrite embed_not_nil, IH. reflexivity. Qed.

  Lemma dec_map_rt : forall js (l : list (string * value)),
    nodup_keys l = true ->
    map_entries (map ann2 js) = Some (map (fun kv => (fst kv, embed T (snd kv))) l) ->
    dec_map (AObj (map ann2 js)) = Some (map (fun kv => (fst kv, embed T (snd kv))) l).
  Proof.
    intros js l Hn E. unfold dec_map. rewrite E.
    rewrite dedup_last_id by (rewrite nodup_keys_map; exact Hn).
    rewrite no_nil_embed. reflexivity.
  Qed.

  Lemma annot_obj : forall l, annot T (JObj l) = AObj (map ann2 l).
  Proof. reflexivity. Qed.
  Lemma annot_arr : forall l, annot T (JArr l) = AArr (map ann1 l).
  Proof. reflexivity. Qed.

  Ltac norm := unfold of_json; cbn [annot map fst snd].

  Theorem json_roundtrip_strong : forall v, rt v.
  Proof.
    induction v using value_ind'; unfold rt; intros Ht Hf.
    - (* int *) simpl in Ht. eexists. split; [reflexivity|].
      norm. rewrite ed_int. apply dec_int; auto.
    - (* float *) simpl in Hf. simpl. rewrite Hf. eexists. split; [reflexivity|].
      norm. rewrite ed_float. apply dec_float; auto.
    - (* string *) eexists. split; [reflexivity|].
      norm. rewrite ed_str. apply dec_str.
    - (* null *) eexists. split; [reflexivity|].
      norm. rewrite ed_null. apply dec_null.
    - (* array *)
      simpl in Ht, Hf. destruct (items_rt l H Ht Hf) as (js & E1 & E2).
      rewrite to_json_arr_eq, E1. eexists. split; [reflexivity|].
      norm. rewrite ed_array, dec_arr.
      match goal with |- context [elems ?X] => replace X with (map ann1 js) by reflexivity end.
      rewrite E2.
      assert (En : existsb is_nil (map (embed T) l) = false).
      { clear. induction l as [|x r IH]; simpl; auto. rewrite embed_not_nil, IH. reflexivity. }
      rewrite En. reflexivity.
    - (* dict *)
      simpl in Ht, Hf. apply andb_true_iff in Ht. destruct Ht as [Ht Hn].
      destruct (entries_rt l H Ht Hf) as (js & E1 & E2).
      rewrite to_json_dict_eq, E1. eexists. split; [reflexivity|].
      norm. rewrite ed_dict, dec_dict.
      match goal with |- context [dec_map (AObj ?X)] => replace X with (map ann2 js) by reflexivity end.
      rewrite (dec_map_rt js l Hn E2). reflexivity.
    - (* function *)
      eexists. split; [reflexivity|].
      unfold of_json. rewrite annot_obj. cbn [map]. unfold ann2 at 1 2. cbn [fst snd].
      rewrite annot_obj. cbn [map]. unfold ann2. cbn [fst snd].
      change (annot T (JInt (e_func T))) with (AInt (e_func T)).
      change (annot T (JStr e)) with (AStr e). change (annot T (JStr n)) with (AStr n).
      rewrite ed_func. apply dec_func.
    - (* computed, no attributes *)
      eexists. split; [reflexivity|].
      norm. rewrite ed_computed. apply dec_comp0.
    - (* computed with attributes *)
      simpl in Ht, Hf. apply andb_true_iff in Ht. destruct Ht as [Ht Hn].
      destruct (entries_rt l H Ht Hf) as (js & E1 & E2).
      rewrite to_json_comp_eq, E1. eexists. split; [reflexivity|].
      norm. rewrite ed_computed, dec_comp.
      match goal with |- context [dec_map (AObj ?X)] => replace X with (map ann2 js) by reflexivity end.
      rewrite (dec_map_rt js l Hn E2). reflexivity.
    - (* native function *)
      simpl in Ht. eexists. split; [reflexivity|].
      norm. rewrite ed_native. apply dec_native; auto.
    - (* native object *)
      eexists. split; [reflexivity|].
      norm. rewrite ed_nobj. apply dec_nobj.
  Qed.

  (* req is reflexive, so the restored value is structurally equal to the original *)
  Lemma lookup_self_in : forall A k (v : A) l, nodup_keys l = true -> In (k, v) l -> lookup k l = Some v.
  Proof.
    induction l as [|[k' v'] r IH]; simpl; intros Hn Hin; [tauto|].
    destruct (has_key k' r) eqn:E; try discriminate.
    destruct Hin as [Heq | Hin].
    - inversion Heq; subst. rewrite String.eqb_refl. reflexivity.
    - destruct (String.eqb_spec k k').
      + subst. exfalso. clear - E Hin. induction r as [|[k2 v2] r IH]; simpl in *; [tauto|].
        destruct (String.eqb_spec k' k2); try discriminate.
        destruct Hin as [H|H]; [inversion H; subst; congruence | auto].
      + auto.
  Qed.

  Lemma list_eqb_refl : forall (l : list rvalue),
    Forall (fun x => wf T x = true -> req x x = true) l -> forallb (wf T) l = true ->
    list_eqb req l l = true.
  Proof.
    induction 1 as [|x r Hx Hr IH]; simpl; intros Hw; auto.
    apply andb_true_iff in Hw. destruct Hw as [H1 H2]. rewrite Hx, IH; auto.
  Qed.

  Lemma sub_map_refl : forall (l : list (string * rvalue)),
    Forall (fun kv => wf T (snd kv) = true -> req (snd kv) (snd kv) = true) l ->
    forallb (fun kv => wf T (snd kv)) l = true -> nodup_keys l = true ->
    sub_map req l l = true.
  Proof.
    intros l HF Hw Hn. unfold sub_map. apply forallb_forall. intros [k x] Hin.
    rewrite (lookup_self_in _ k x l Hn Hin).
    rewrite Forall_forall in HF. rewrite forallb_forall in Hw.
    apply (HF (k, x) Hin). apply (Hw (k, x) Hin).
  Qed.

  Lemma list_str_eqb_refl : forall l : list string, list_eqb String.eqb l l = true.
  Proof. induction l; simpl; auto. rewrite String.eqb_refl. auto. Qed.

  Lemma req_refl_wf : forall r, wf T r = true -> req r r = true.
  Proof.
    induction r using rvalue_ind'; simpl; intros Hw; auto;
      repeat rewrite Z.eqb_refl; repeat rewrite N.eqb_refl; repeat rewrite String.eqb_refl;
        repeat rewrite Nat.eqb_refl; simpl; auto.
    - apply andb_true_iff in Hw. destruct Hw as [_ Hw]. apply list_eqb_refl; auto.
    - apply andb_true_iff in Hw. destruct Hw as [Hw Hn]. apply andb_true_iff in Hw. destruct Hw as [_ Hw].
      apply sub_map_refl; auto.
    - destruct p; simpl; auto. rewrite list_str_eqb_refl; reflexivity.
    - apply andb_true_iff in Hw. destruct Hw as [Hw Hn]. apply andb_true_iff in Hw. destruct Hw as [_ Hw].
      apply sub_map_refl; auto.
  Qed.

  (* C09: serialise, then decode: a structurally equal value *)
  Theorem json_roundtrip : forall v, tree_value T v = true -> finite_floats v = true ->
    exists j v', to_json T v = Some j /\ of_json T j = Some v' /\ equal T v v'.
  Proof.
    intros v Ht Hf. destruct (json_roundtrip_strong v Ht Hf) as (l & E1 & E2).
    exists (JObj l), (embed T v). repeat split; auto.
    unfold equal. apply req_refl_wf. eapply of_json_wf; eauto.
  Qed.

  (* the same for a whole variable map (ValueMap.ToJSON / UnmarshalJSON) *)
  Theorem json_map_roundtrip : forall (m : list (string * value)),
    forallb (fun kv => tree_value T (snd kv)) m = true -> nodup_keys m = true ->
    forallb (fun kv => finite_floats (snd kv)) m = true ->
    exists j, to_json_map T m = Some j /\
              of_json_map T j = Some (map (fun kv => (fst kv, embed T (snd kv))) m).
  Proof.
    intros m Ht Hn Hf.
    assert (HF : Forall (fun kv => rt (snd kv)) m).
    { apply Forall_forall. intros kv _. apply json_roundtrip_strong. }
    destruct (entries_rt m HF Ht Hf) as (js & E1 & E2).
    unfold to_json_map. rewrite E1. eexists. split; [reflexivity|].
    unfold of_json_map. rewrite annot_obj. apply dec_map_rt; auto.
  Qed.

  (* non-finite floats anywhere in the tree: ToJSON reports an error *)
  Definition has_nonfinite (v : value) : bool := negb (finite_floats v).

  Lemma map_opt_none : forall A B (f : A -> option B) l x, In x l -> f x = None -> map_opt f l = None.
  Proof.
    induction l as [|y r IH]; simpl; intros x Hin Hx; [tauto|].
    destruct Hin as [-> | Hin]; [rewrite Hx; reflexivity|].
    destruct (f y); auto. rewrite (IH x Hin Hx). reflexivity.
  Qed.

  Theorem nonfinite_is_error : forall v, finite_floats v = false -> to_json T v = None.
  Proof.
    induction v using value_ind'; simpl; intros Hf; try discriminate.
    - rewrite Hf. reflexivity.
    - assert (Hex : exists x, In x l /\ finite_floats x = false).
      { clear H. induction l as [|x r IH]; simpl in Hf; try discriminate.
        apply andb_false_iff in Hf. destruct Hf as [Hf|Hf].
        - exists x. split; [left; reflexivity | auto].
        - destruct (IH Hf) as (y & Hy & Hy2). exists y. split; [right; auto | auto]. }
      destruct Hex as (x & Hin & Hx). rewrite Forall_forall in H.
      rewrite (map_opt_none _ _ (to_json T) l x Hin (H x Hin Hx)). reflexivity.
    - assert (Hex : exists kv, In kv l /\ finite_floats (snd kv) = false).
      { clear H. induction l as [|x r IH]; simpl in Hf; try discriminate.
        apply andb_false_iff in Hf. destruct Hf as [Hf|Hf].
        - exists x. split; [left; reflexivity | auto].
        - destruct (IH Hf) as (y & Hy & Hy2). exists y. split; [right; auto | auto]. }
      destruct Hex as ([k x] & Hin & Hx). rewrite Forall_forall in H.
      erewrite map_opt_none; [reflexivity | exact Hin |].
      cbn beta iota. pose proof (H (k, x) Hin Hx) as Hn0. simpl in Hn0. rewrite Hn0. reflexivity.
    - assert (Hex : exists kv, In kv l /\ finite_floats (snd kv) = false).
      { clear H. induction l as [|x r IH]; simpl in Hf; try discriminate.
        apply andb_false_iff in Hf. destruct Hf as [Hf|Hf].
        - exists x. split; [left; reflexivity | auto].
        - destruct (IH Hf) as (y & Hy & Hy2). exists y. split; [right; auto | auto]. }
      destruct Hex as ([k x] & Hin & Hx). rewrite Forall_forall in H.
      erewrite map_opt_none; [reflexivity | exact Hin |].
      cbn beta iota. pose proof (H (k, x) Hin Hx) as Hn0. simpl in Hn0. rewrite Hn0. reflexivity.
  Qed.

  (* ---------------------------------------------------------------- C10: observers *)
  Definition notrap {A} (o : outcome A) : Prop := match o with Trap => False | Done _ => True end.

  Lemma kind_tag_inj : forall k1 k2, kind_tag T k1 = kind_tag T k2 -> k1 = k2.
  Proof.
    intros k1 k2 H. pose proof (dispatch_kind_tag k1) as H1. pose proof (dispatch_kind_tag k2) as H2.
    rewrite H in H1. rewrite H1 in H2. inversion H2; auto.
  Qed.

  (* the kind of a well-formed value's constructor, and its tag *)
  Definition ctor_kind (r : rvalue) : option kind :=
    match r with
    | RNil => None | RNone _ => Some KNull | RInt _ _ => Some KInt | RFloat _ _ => Some KFloat
    | RStr _ _ => Some KStr | RArr _ _ => Some KArray | RDict _ _ => Some KDict
    | RFunc _ _ _ _ => Some KFunc | RComputed _ _ _ => Some KComputed
    | RNative _ _ => Some KNative | RNObj _ _ => Some KNObj
    end.

  Lemma wf_tag : forall r, wf T r = true ->
    exists k, ctor_kind r = Some k /\ tag_of r = Some (kind_tag T k).
  Proof.
    destruct r; simpl; intros H; try discriminate;
      try (destruct attrs); repeat (apply andb_true_iff in H; destruct H as [H ?]);
        apply Z.eqb_eq in H; subst; eexists; split; reflexivity.
  Qed.

  Lemma all_unit_ok : forall A (f : A -> outcome unit) l,
    Forall (fun x => notrap (f x)) l -> notrap (all_unit f l).
  Proof.
    induction 1 as [|x r Hx Hr IH]; simpl; auto.
    destruct (f x); simpl in *; auto.
  Qed.

  Lemma all_json_ok : forall A (f : A -> outcome jres) l,
    Forall (fun x => notrap (f x)) l -> notrap (all_json f l).
  Proof.
    induction 1 as [|x r Hx Hr IH]; simpl; auto.
    destruct (f x) as [[|]|]; simpl in *; auto.
  Qed.

  Lemma wf_to_string : forall r, wf T r = true -> notrap (r_to_string T r).
  Proof.
    induction r using rvalue_ind'; intros Hw; destruct (wf_tag _ Hw) as (k & Hk & Ht);
      simpl in Hk; inversion Hk; subst; unfold r_to_string; fold r_to_string; rewrite Ht;
        rewrite dispatch_kind_tag; simpl; auto.
    - simpl in Hw. apply andb_true_iff in Hw. destruct Hw as [_ Hw].
      apply all_unit_ok. rewrite Forall_forall in *. rewrite forallb_forall in Hw. auto.
    - simpl in Hw. apply andb_true_iff in Hw. destruct Hw as [Hw _]. apply andb_true_iff in Hw. destruct Hw as [_ Hw].
      apply all_unit_ok. rewrite Forall_forall in *. rewrite forallb_forall in Hw.
      intros [k x] Hin. apply (H (k, x) Hin). apply (Hw (k, x) Hin).
  Qed.

  Lemma wf_to_json : forall r, wf T r = true -> notrap (r_to_json T r).
  Proof.
    induction r using rvalue_ind'; intros Hw; destruct (wf_tag _ Hw) as (k & Hk & Ht);
      simpl in Hk; inversion Hk; subst; unfold r_to_json; fold r_to_json; rewrite Ht;
        rewrite dispatch_kind_tag; simpl; auto.
    - simpl in Hw. apply andb_true_iff in Hw. destruct Hw as [_ Hw].
      apply all_json_ok. rewrite Forall_forall in *. rewrite forallb_forall in Hw. auto.
    - simpl in Hw. apply andb_true_iff in Hw. destruct Hw as [Hw _]. apply andb_true_iff in Hw. destruct Hw as [_ Hw].
      apply all_json_ok. rewrite Forall_forall in *. rewrite forallb_forall in Hw.
      intros [k x] Hin. apply (H (k, x) Hin). apply (Hw (k, x) Hin).
    - simpl in Hw. apply andb_true_iff in Hw. destruct Hw as [Hw _]. apply andb_true_iff in Hw. destruct Hw as [_ Hw].
      apply all_json_ok. rewrite Forall_forall in *. rewrite forallb_forall in Hw.
      intros [k x] Hin. apply (H (k, x) Hin). apply (Hw (k, x) Hin).
  Qed.

  Lemma wf_truthy : forall r, wf T r = true -> notrap (r_truthy T r).
  Proof.
    intros r Hw. destruct (wf_tag _ Hw) as (k & Hk & Ht). unfold r_truthy. rewrite Ht, dispatch_kind_tag.
    destruct r; simpl in Hk; inversion Hk; subst; simpl; auto.
  Qed.

  Lemma all_eq2_ok : forall (f : rvalue -> rvalue -> outcome bool) l m,
    Forall (fun x => forall y, y = RNil \/ wf T y = true -> notrap (f x y)) l ->
    forallb (wf T) m = true -> notrap (all_eq2 f l m).
  Proof.
    intros f l. induction l as [|x r IH]; intros m HF Hm; simpl; auto.
    destruct m as [|y s]; simpl; auto.
    inversion HF; subst. simpl in Hm. apply andb_true_iff in Hm. destruct Hm as [Hy Hs].
    specialize (H1 y (or_intror Hy)). destruct (f x y) as [[|]|]; simpl in *; auto.
  Qed.

  Lemma all_bool_ok : forall A (f : A -> outcome bool) l,
    Forall (fun x => notrap (f x)) l -> notrap (all_bool f l).
  Proof.
    induction 1 as [|x r Hx Hr IH]; simpl; auto.
    destruct (f x) as [[|]|]; simpl in *; auto.
  Qed.

  Lemma lookup_wf : forall k (m : list (string * rvalue)) y,
    forallb (fun kv => wf T (snd kv)) m = true -> lookup k m = Some y -> wf T y = true.
  Proof.
    induction m as [|[k' v] r IH]; simpl; intros y Hw H; try discriminate.
    apply andb_true_iff in Hw. destruct Hw as [H1 H2].
    destruct (String.eqb k k'); [inversion H; subst; auto | auto].
  Qed.

  Lemma wf_equal : forall a, wf T a = true ->
    forall b, b = RNil \/ wf T b = true -> notrap (r_equal T a b).
  Proof.
    induction a using rvalue_ind'; intros Hw bb Hb;
      destruct (wf_tag _ Hw) as (k & Hk & Ht); simpl in Hk; inversion Hk; subst; clear Hk;
        (destruct Hb as [-> | Hb];
         [ unfold r_equal; fold r_equal; rewrite Ht; simpl; exact I | ]);
        destruct (wf_tag _ Hb) as (kb & Hkb & Htb);
        unfold r_equal; fold r_equal; rewrite Ht, Htb;
          (match goal with |- context [(?x =? ?y)%Z] => destruct (Z.eqb_spec x y) as [E|E] end; [ | simpl; exact I ]);
          apply kind_tag_inj in E; subst kb; cbn [negb]; rewrite dispatch_kind_tag;
            try (simpl; exact I).
    - (* array *)
      destruct bb; simpl in Hkb; try discriminate.
      destruct (length l =? length l0)%nat; [ | simpl; exact I].
      simpl in Hw, Hb. apply andb_true_iff in Hw. apply andb_true_iff in Hb.
      destruct Hw as [_ Hw], Hb as [_ Hb].
      apply all_eq2_ok; auto.
      rewrite Forall_forall in *. rewrite forallb_forall in Hw. intros x Hin. apply H; auto.
    - (* dict *)
      destruct bb; simpl in Hkb; try discriminate.
      destruct (length l =? length l0)%nat; [ | simpl; exact I].
      simpl in Hw, Hb.
      apply andb_true_iff in Hw. destruct Hw as [Hw _]. apply andb_true_iff in Hw. destruct Hw as [_ Hw].
      apply andb_true_iff in Hb. destruct Hb as [Hb _]. apply andb_true_iff in Hb. destruct Hb as [_ Hb].
      apply all_bool_ok. rewrite Forall_forall in *. rewrite forallb_forall in Hw.
      intros [k x] Hin. apply (H (k, x) Hin (Hw (k, x) Hin)).
      destruct (lookup k l0) as [y|] eqn:El; [right; eapply lookup_wf; eauto | left; reflexivity].
    - (* computed, no attrs *)
      destruct bb; simpl in Hkb; try discriminate. simpl. exact I.
    - (* computed with attrs *)
      destruct bb; simpl in Hkb; try discriminate. simpl. exact I.
    - (* native *)
      destruct bb; simpl in Hkb; try discriminate. simpl. exact I.
  Qed.

  (* C10: on a well-formed value the modelled observers never hit a failed type assertion or
     a nil dereference *)
  Theorem wf_no_trap : forall r, wf T r = true ->
    notrap (r_to_string T r) /\ notrap (r_truthy T r) /\ notrap (r_to_json T r) /\
    (forall r2, wf T r2 = true -> notrap (r_equal T r r2) /\ notrap (r_equal T r2 r)).
  Proof.
    intros r Hw. repeat split.
    - apply wf_to_string; auto.
    - apply wf_truthy; auto.
    - apply wf_to_json; auto.
    - apply wf_equal; auto.
    - apply wf_equal; auto.
  Qed.
End Roundtrip.

(* ------------------------------------------------------------------ C09: heap graphs *)
Section Graph.
  Variable T : json_tags.
  Variable h : heap.
  Let n := length (wrappers h).

  Definition inv (save : list nat) : Prop := NoDup save /\ forall x, In x save -> x < n.

  Lemma inv_len : forall save, inv save -> length save <= n.
  Proof.
    intros save [Hnd Hb]. unfold n in *.
    rewrite <- (seq_length (length (wrappers h)) 0).
    apply NoDup_incl_length; auto.
    intros x Hx. apply in_seq. specialize (Hb x Hx). lia.
  Qed.

  Lemma mem_nat_false : forall x l, mem_nat x l = false -> ~ In x l.
  Proof.
    unfold mem_nat. intros x l H Hin.
    assert (existsb (Nat.eqb x) l = true) by (apply existsb_exists; exists x; split; auto; apply Nat.eqb_refl).
    congruence.
  Qed.

  Lemma del_nat_cons : forall w save, ~ In w save -> del_nat w (w :: save) = save.
  Proof.
    intros w save Hn. unfold del_nat. simpl. rewrite Nat.eqb_refl. simpl.
    induction save as [|x r IH]; simpl; auto.
    destruct (Nat.eqb_spec w x).
    - subst. exfalso. apply Hn. left; reflexivity.
    - simpl. rewrite IH; auto. intros Hin. apply Hn. right; auto.
  Qed.

  Lemma inv_cons : forall w save, inv save -> w < n -> ~ In w save -> inv (w :: save).
  Proof.
    intros w save [Hnd Hb] Hw Hn. split.
    - constructor; auto.
    - intros x [<- | Hx]; auto.
  Qed.

  (* what a successful call guarantees about the part of the graph below w *)
  Definition below_ok (save : list nat) (w : nat) : Prop :=
    forall x, reach h w x -> (children h x <> [] -> ~ In x save) /\ ~ on_cycle h x.

  Definition rec_spec (f : nat) (rec : list nat -> nat -> gres * list nat) : Prop :=
    forall save w, inv save -> n < f + length save ->
      fst (rec save w) <> GFuel /\
      (forall j, fst (rec save w) = GOk j -> snd (rec save w) = save /\ below_ok save w).

  Lemma g_items_spec : forall f rec, rec_spec f rec ->
    forall l save, inv save -> n < f + length save ->
      fst (g_items rec l save) <> LFuel /\
      (forall js, fst (g_items rec l save) = LOk js ->
                  snd (g_items rec l save) = save /\ forall c, In c l -> below_ok save c).
  Proof.
    intros f rec Hrec. induction l as [|x r IH]; intros save Hi Hb; simpl.
    - split; [discriminate|]. intros js _. split; [reflexivity|]. intros c [].
    - destruct (Hrec save x Hi Hb) as [H1 H2].
      destruct (rec save x) as [res s1] eqn:E. simpl in H1, H2.
      destruct res as [j| |]; simpl; try (split; [discriminate | intros; discriminate]).
      + destruct (H2 j eq_refl) as [Hs Hq]. subst s1.
        destruct (IH save Hi Hb) as [H3 H4].
        destruct (g_items rec r save) as [lr s2] eqn:E2. simpl in H3, H4.
        destruct lr as [js| |]; simpl.
        * split; [discriminate|]. intros js' _. destruct (H4 js eq_refl) as [Hs2 Hq2].
          split; auto. intros c [<- | Hc]; auto.
        * split; [discriminate | intros; discriminate].
        * exfalso. apply H3. reflexivity.
      + exfalso. apply H1. reflexivity.
  Qed.

  Lemma g_entries_spec : forall f rec, rec_spec f rec ->
    forall l save, inv save -> n < f + length save ->
      fst (g_entries rec l save) <> LFuel /\
      (forall js, fst (g_entries rec l save) = LOk js ->
                  snd (g_entries rec l save) = save /\ forall c, In c (map snd l) -> below_ok save c).
  Proof.
    intros f rec Hrec. induction l as [|[k x] r IH]; intros save Hi Hb; simpl.
    - split; [discriminate|]. intros js _. split; [reflexivity|]. intros c [].
    - destruct (Hrec save x Hi Hb) as [H1 H2].
      destruct (rec save x) as [res s1] eqn:E. simpl in H1, H2.
      destruct res as [j| |]; simpl; try (split; [discriminate | intros; discriminate]).
      + destruct (H2 j eq_refl) as [Hs Hq]. subst s1.
        destruct (IH save Hi Hb) as [H3 H4].
        destruct (g_entries rec r save) as [lr s2] eqn:E2. simpl in H3, H4.
        destruct lr as [js| |]; simpl.
        * split; [discriminate|]. intros js' _. destruct (H4 js eq_refl) as [Hs2 Hq2].
          split; auto. intros c [<- | Hc]; auto.
        * split; [discriminate | intros; discriminate].
        * exfalso. apply H3. reflexivity.
      + exfalso. apply H1. reflexivity.
  Qed.

  Lemma leaf_below : forall save w, children h w = [] -> below_ok save w.
  Proof.
    intros save w Hc x Hr. inversion Hr; subst.
    - split; [intros Hne; congruence|]. intros (c & Hin & _). rewrite Hc in Hin. inversion Hin.
    - rewrite Hc in H. inversion H.
  Qed.

  (* a container whose children were all serialised below (w :: save) *)
  Lemma container_below : forall save w,
    ~ In w save ->
    (forall c, In c (children h w) -> below_ok (w :: save) c) ->
    below_ok save w.
  Proof.
    intros save w Hn Hch x Hr. inversion Hr; subst.
    - split; [intros _; exact Hn|].
      intros (c & Hin & Hrc). destruct (Hch c Hin x Hrc) as [Hns _].
      apply Hns; [|left; reflexivity].
      intros E. rewrite E in Hin. inversion Hin.
    - destruct (Hch c H x H0) as [Hns Hcy]. split; auto.
      intros Hne Hin. apply (Hns Hne). right; auto.
  Qed.

  Lemma graph_spec : forall fuel, rec_spec fuel (to_json_graph T h fuel).
  Proof.
    induction fuel as [|f IH]; intros save w Hi Hb.
    - exfalso. pose proof (inv_len save Hi). simpl in Hb. lia.
    - simpl. destruct (nth_error (wrappers h) w) as [c|] eqn:Ew.
      2:{ simpl. split; [discriminate | intros; discriminate]. }
      assert (Hwn : w < n) by (unfold n; apply nth_error_Some; congruence).
      assert (Hleaf : forall (P : Prop), children h w = [] ->
                 forall j, (GOk j <> GFuel) /\ (forall j', GOk j = GOk j' -> save = save /\ below_ok save w)).
      { intros _ Hc j. split; [discriminate|]. intros j' _. split; auto. apply leaf_below; auto. }
      destruct c as [z|b|s| |p|p|e [p|]|nm ps e|nm|nm]; simpl;
        try (apply (Hleaf True); unfold children; rewrite Ew; reflexivity).
      + (* float *)
        destruct (f_finite b); simpl.
        * apply (Hleaf True). unfold children. rewrite Ew. reflexivity.
        * split; [discriminate | intros; discriminate].
      + (* array *)
        destruct (mem_nat w save) eqn:Em; simpl; [split; [discriminate | intros; discriminate]|].
        apply mem_nat_false in Em.
        assert (Hi' : inv (w :: save)) by (apply inv_cons; auto).
        assert (Hb' : n < f + length (w :: save)) by (simpl; lia).
        destruct (g_items_spec f _ IH (plist h p) (w :: save) Hi' Hb') as [H1 H2].
        destruct (g_items (to_json_graph T h f) (plist h p) (w :: save)) as [lr s1]. simpl in H1, H2.
        destruct lr as [js| |]; simpl.
        * split; [discriminate|]. intros j _. destruct (H2 js eq_refl) as [-> Hq].
          split; [apply del_nat_cons; auto|].
          apply container_below; auto. unfold children. rewrite Ew. exact Hq.
        * split; [discriminate | intros; discriminate].
        * exfalso. apply H1. reflexivity.
      + (* dict *)
        destruct (mem_nat w save) eqn:Em; simpl; [split; [discriminate | intros; discriminate]|].
        apply mem_nat_false in Em.
        assert (Hi' : inv (w :: save)) by (apply inv_cons; auto).
        assert (Hb' : n < f + length (w :: save)) by (simpl; lia).
        destruct (g_entries_spec f _ IH (pmap h p) (w :: save) Hi' Hb') as [H1 H2].
        destruct (g_entries (to_json_graph T h f) (pmap h p) (w :: save)) as [lr s1]. simpl in H1, H2.
        destruct lr as [js| |]; simpl.
        * split; [discriminate|]. intros j _. destruct (H2 js eq_refl) as [-> Hq].
          split; [apply del_nat_cons; auto|].
          apply container_below; auto. unfold children. rewrite Ew. exact Hq.
        * split; [discriminate | intros; discriminate].
        * exfalso. apply H1. reflexivity.
      + (* computed with attributes *)
        destruct (mem_nat w save) eqn:Em; simpl; [split; [discriminate | intros; discriminate]|].
        apply mem_nat_false in Em.
        assert (Hi' : inv (w :: save)) by (apply inv_cons; auto).
        assert (Hb' : n < f + length (w :: save)) by (simpl; lia).
        destruct (g_entries_spec f _ IH (pmap h p) (w :: save) Hi' Hb') as [H1 H2].
        destruct (g_entries (to_json_graph T h f) (pmap h p) (w :: save)) as [lr s1]. simpl in H1, H2.
        destruct lr as [js| |]; simpl.
        * split; [discriminate|]. intros j _. destruct (H2 js eq_refl) as [-> Hq].
          split; [apply del_nat_cons; auto|].
          apply container_below; auto. unfold children. rewrite Ew. exact Hq.
        * split; [discriminate | intros; discriminate].
        * exfalso. apply H1. reflexivity.
  Qed.

  Lemma inv_nil : inv [].
  Proof. split; [constructor | intros x []]. Qed.

  (* ToJSON terminates within (number of wrappers + 1) nested calls, whatever the heap *)
  Theorem to_json_terminates : forall w, to_json_graph_top T h w <> GFuel.
  Proof.
    intros w. unfold to_json_graph_top.
    destruct (graph_spec (S n) [] w inv_nil) as [H _]; [simpl; lia | exact H].
  Qed.

  (* a cycle (through an array, a dict or computed attributes) anywhere below w is an error *)
  Theorem cycle_is_error : forall w x, reach h w x -> on_cycle h x -> to_json_graph_top T h w = GErr.
  Proof.
    intros w x Hr Hc. pose proof (to_json_terminates w) as Ht. unfold to_json_graph_top in *.
    destruct (graph_spec (S n) [] w inv_nil) as [_ H]; [simpl; lia|].
    fold n in Ht. destruct (fst (to_json_graph T h (S n) [] w)) as [j| |] eqn:E; auto.
    - destruct (H j eq_refl) as [_ Hq]. destruct (Hq x Hr) as [_ Hnc]. contradiction.
    - congruence.
  Qed.
End Graph.

(* ------------------------------------------------------------------ closing lemmas *)
Lemma actual_table_ok : tags_ok actual_table = true.
Proof. vm_compute. reflexivity. Qed.

Lemma decoded_no_trap : forall T, tags_ok T = true ->
  forall j v, of_json T j = Some v ->
    notrap (r_to_string T v) /\ notrap (r_truthy T v) /\ notrap (r_to_json T v) /\ notrap (r_equal T v v).
Proof.
  intros T Hok j v H. pose proof (of_json_wf T j v H) as Hw.
  destruct (wf_no_trap T Hok v Hw) as (H1 & H2 & H3 & H4). destruct (H4 v Hw) as [H5 _].
  repeat split; assumption.
Qed.
