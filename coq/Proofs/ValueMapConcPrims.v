(* Micro-steps (primitives on the shared state) preserve the invariant OInv. *)
From stdpp Require Import gmap.
From Coq Require Import NArith Lia.
From DS Require Import Model.ValueMap Model.ValueMapConc Proofs.ValueMapConcLin
  Proofs.ValueMapConcInv.

Local Open Scope N_scope.

Global Instance current_dec s k e : Decision (current s k e).
Proof. unfold current. apply _. Defined.

Definition same_core (s s' : shared) : Prop :=
  s_rd s' = s_rd s /\ s_am s' = s_am s /\ s_dirty s' = s_dirty s /\
  s_cell s' = s_cell s /\ s_nexte s' = s_nexte s.

Lemma same_core_WF s s' ek own : same_core s s' -> WF s ek own -> WF s' ek own.
Proof.
  intros (H1 & H2 & H3 & H4 & H5) [].
  split; unfold held, ever, inrd, indirty in *; rewrite ?H1, ?H2, ?H3, ?H4, ?H5; done.
Qed.

Lemma same_core_abs s s' k : same_core s s' -> abs_lookup s' k = abs_lookup s k.
Proof.
  intros (H1 & H2 & H3 & H4 & H5). unfold abs_lookup, dget. by rewrite H1, H2, H3, H4.
Qed.

Lemma same_core_current s s' k e : same_core s s' -> current s' k e <-> current s k e.
Proof.
  intros (H1 & H2 & H3 & H4 & H5). unfold current, dget. by rewrite H1, H2, H3.
Qed.

Lemma same_core_Rely t s s' g g' :
  same_core s s' -> g_ek g' = g_ek g -> g_own g' = g_own g -> Rely t s g s' g'.
Proof.
  intros Hc Hek Hown. pose proof Hc as (H1 & H2 & H3 & H4 & H5). split.
  - rewrite H5. lia.
  - intros. by rewrite Hek.
  - intros. by rewrite Hown.
  - intros e _. unfold ever, inrd. by rewrite H1, H4.
  - intros. by rewrite H4.
  - intros k e _. destruct (decide (current s k e)) as [Hcur|Hcur].
    + left. by apply (same_core_current s s').
    + right. right. split; [done|]. left. by rewrite H4.
Qed.

(* M0 / M9: only misses, the tag allocator or the mutex change; arbitrary annotation that
   does not change the abstract map *)
Lemma OInv_same_core t s thr g s' g' a :
  OInv t s thr g -> is_Some (thr !! t) -> same_core s s' ->
  g_l g' = lg_step (g_l g) t a -> g_ek g' = g_ek g -> g_own g' = g_own g ->
  g_abs (g_l g') = g_abs (g_l g) ->
  (forall t', t' <> t -> s_lock s' = Some t' <-> s_lock s = Some t') ->
  OInv t s' thr g'.
Proof.
  intros Ho Ht Hc Hl Hek Hown Habs Hlk.
  eapply OInv_step; eauto.
  - rewrite Hek, Hown. eapply same_core_WF; [done|]. apply (o_wf _ _ _ _ Ho).
  - intros k. rewrite Habs, (same_core_abs _ _ _ Hc). apply (o_abs _ _ _ _ Ho).
  - by apply same_core_Rely.
Qed.

Lemma current_held s ek own k e : WF s ek own -> current s k e -> held s ek k e.
Proof.
  intros Hwf [Hr|(Hr & Ham & Hd)]; [by eapply w_rd|].
  unfold dget in Hd. destruct (s_dirty s) as [d|] eqn:Hds; [|done].
  by destruct (w_d _ _ _ Hwf d k e Hds Hd).
Qed.

Lemma current_fun s ek own k e e' : WF s ek own -> current s k e -> current s k e' -> e = e'.
Proof. intros Hwf [H1|(H1 & _ & H1')] [H2|(H2 & _ & H2')]; congruence. Qed.

(* every entry reachable for key k2 *)
Lemma abs_lookup_current s ek own k e :
  WF s ek own -> current s k e -> abs_lookup s k = kload (s_cell s e).
Proof.
  intros Hwf [Hr|(Hr & Ham & Hd)]; unfold abs_lookup; rewrite Hr; [done|]. by rewrite Ham, Hd.
Qed.

Section write.
  Context (t : nat) (s s' : shared) (thr : gmap nat tstate) (g g' : ghost) (a : ann)
          (k : key) (e : eid) (c' : ccell).
  Hypothesis Ho : OInv t s thr g.
  Hypothesis Hrd : s_rd s' = s_rd s.
  Hypothesis Ham : s_am s' = s_am s.
  Hypothesis Hdi : s_dirty s' = s_dirty s.
  Hypothesis Hne : s_nexte s' = s_nexte s.
  Hypothesis Hce : forall x, s_cell s' x = if N.eqb x e then c' else s_cell s x.
  Hypothesis Hcur : current s k e.
  Hypothesis Hnexp : s_cell s e <> KExp.
  Hypothesis Hc' : c' <> KExp.

  Let Hwf := o_wf _ _ _ _ Ho.

  Lemma write_cell_other x : x <> e -> s_cell s' x = s_cell s x.
  Proof. intros Hx. rewrite Hce. by destruct (N.eqb_spec x e). Qed.
  Lemma write_cell_self : s_cell s' e = c'.
  Proof. rewrite Hce. by rewrite N.eqb_refl. Qed.

  Lemma write_nexp x : s_cell s' x = KExp <-> s_cell s x = KExp.
  Proof.
    destruct (decide (x = e)) as [->|Hx]; [rewrite write_cell_self; naive_solver|].
    by rewrite write_cell_other.
  Qed.

  Lemma write_ever x : ever s' x <-> ever s x.
  Proof. unfold ever, inrd. by rewrite Hrd, write_nexp. Qed.

  Lemma write_WF : WF s' (g_ek g) (g_own g).
  Proof.
    destruct Hwf. split; unfold held, indirty in *; rewrite ?Hrd, ?Ham, ?Hdi, ?Hne; try done.
    - intros d k0 e0 Hd Hl. rewrite write_nexp. eauto.
    - intros d k0 e0 Hd Hl. rewrite write_nexp. eauto.
    - intros k0 e0 Hl. rewrite write_nexp. eauto.
    - intros e0 t0 Hown. rewrite write_ever. eauto.
  Qed.

  Lemma write_abs k' :
    abs_lookup s' k' = if decide (k' = k) then kload c' else abs_lookup s k'.
  Proof.
    pose proof (current_held _ _ _ _ _ Hwf Hcur) as [Hek _].
    assert (forall x, current s k' x -> kload (s_cell s' x) =
              if decide (k' = k) then kload c' else kload (s_cell s x)) as Hx.
    { intros x Hcx. pose proof (current_held _ _ _ _ _ Hwf Hcx) as [Hekx _].
      destruct (decide (k' = k)) as [->|Hk].
      - rewrite (current_fun _ _ _ _ _ _ Hwf Hcx Hcur). by rewrite write_cell_self.
      - rewrite write_cell_other; [done|]. congruence. }
    unfold abs_lookup, dget. rewrite Hrd, Ham, Hdi.
    destruct (s_rd s !! k') as [x|] eqn:Hr.
    { rewrite Hx; [|by left]. by destruct (decide (k' = k)). }
    destruct (s_am s) eqn:Hams.
    2:{ destruct (decide (k' = k)) as [->|]; [|done].
        destruct Hcur as [?|(_ & ? & _)]; congruence. }
    destruct (s_dirty s) as [d|] eqn:Hds.
    2:{ destruct (decide (k' = k)) as [->|]; [|done].
        destruct Hcur as [?|(_ & _ & Hd)]; [congruence|]. unfold dget in Hd. by rewrite Hds in Hd. }
    destruct (d !! k') as [x|] eqn:Hdk.
    { rewrite Hx; [by destruct (decide (k' = k))|]. right. unfold dget. by rewrite Hds. }
    destruct (decide (k' = k)) as [->|]; [|done].
    destruct Hcur as [?|(_ & _ & Hd)]; [congruence|]. unfold dget in Hd. rewrite Hds in Hd. congruence.
  Qed.
End write.

Lemma OInv_write t s s' thr g g' a k e c' :
  OInv t s thr g -> is_Some (thr !! t) ->
  s_rd s' = s_rd s -> s_am s' = s_am s -> s_dirty s' = s_dirty s -> s_nexte s' = s_nexte s ->
  s_lock s' = s_lock s ->
  (forall x, s_cell s' x = if N.eqb x e then c' else s_cell s x) ->
  current s k e -> s_cell s e <> KExp -> c' <> KExp ->
  g_l g' = lg_step (g_l g) t a -> g_ek g' = g_ek g -> g_own g' = g_own g ->
  (forall k', g_abs (g_l g') !! k' = if decide (k' = k) then kload c' else g_abs (g_l g) !! k') ->
  OInv t s' thr g'.
Proof.
  intros Ho Ht Hrd Ham Hdi Hne Hlk Hce Hcur Hnexp Hc' Hl Hek Hown Habs.
  pose proof (o_wf _ _ _ _ Ho) as Hwf.
  assert (forall k0 x, current s' k0 x <-> current s k0 x) as Hcurr.
  { intros. unfold current, dget. by rewrite Hrd, Ham, Hdi. }
  eapply OInv_step; eauto.
  - rewrite Hek, Hown. eapply write_WF; eauto.
  - intros k'. rewrite Habs. erewrite write_abs; eauto.
    destruct (decide (k' = k)); [done|]. apply (o_abs _ _ _ _ Ho).
  - split.
    + rewrite Hne. lia.
    + intros. by rewrite Hek.
    + intros. by rewrite Hown.
    + intros x _. by rewrite (write_ever s s' e c' Hrd Hce Hnexp Hc').
    + intros x t' Hx _. apply (write_cell_other s s' e c' Hce).
      intros ->. destruct (w_own _ _ _ Hwf _ _ Hx) as (Hnev & Hnd & _).
      destruct Hcur as [Hr|(_ & _ & Hd)].
      * apply Hnev. left. by exists k.
      * apply Hnd. unfold dget in Hd. destruct (s_dirty s) as [d|] eqn:Hds; [|done]. by exists d, k.
    + intros k1 e1 [Hk1 Hlt]. destruct (decide (e1 = e)) as [->|Hx].
      * left. apply Hcurr. pose proof (current_held _ _ _ _ _ Hwf Hcur) as [Hk _]. congruence.
      * destruct (decide (current s k1 e1)) as [Hc1|Hc1]; [left; by apply Hcurr|].
        right. right. split; [done|]. left. by apply (write_cell_other s s' e c' Hce).
  - intros t' _. by rewrite Hlk.
Qed.

(* M2: the owner of an orphaned entry clears it *)
Lemma OInv_write_owned t s thr g g' a e :
  OInv t s thr g -> is_Some (thr !! t) -> g_own g e = Some t ->
  g_l g' = lg_step (g_l g) t a -> g_ek g' = g_ek g -> g_own g' = g_own g ->
  g_abs (g_l g') = g_abs (g_l g) ->
  OInv t (set_cell s e KNil) thr g'.
Proof.
  intros Ho Ht Hoe Hl Hek Hown Habs.
  pose proof (o_wf _ _ _ _ Ho) as Hwf.
  destruct (w_own _ _ _ Hwf _ _ Hoe) as (Hnev & Hnd & Hlt).
  assert (forall k, s_rd s !! k <> Some e) as Hnr.
  { intros k Hr. apply Hnev. left. by exists k. }
  assert (forall d k, s_dirty s = Some d -> d !! k <> Some e) as Hndd.
  { intros d k Hd Hr. apply Hnd. by exists d, k. }
  assert (s_cell s e <> KExp) as Hne by (intros He; apply Hnev; by right).
  set (s' := set_cell s e KNil).
  assert (forall x, x <> e -> s_cell s' x = s_cell s x) as Hoth.
  { intros x Hx. simpl. by destruct (N.eqb_spec x e). }
  assert (s_cell s' e = KNil) as Hself by (simpl; by rewrite N.eqb_refl).
  assert (forall x, ever s' x <-> ever s x) as Hev.
  { intros x. unfold ever, inrd. simpl. destruct (N.eqb_spec x e) as [->|Hx]; naive_solver. }
  eapply OInv_step; eauto.
  - rewrite Hek, Hown. destruct Hwf. split; unfold held, indirty in *; simpl; try done.
    + intros d k0 e0 Hd Hl0. destruct (N.eqb_spec e0 e) as [->|Hx]; [by destruct (Hndd d k0)|eauto].
    + intros d k0 e0 Hd Hl0. destruct (N.eqb_spec e0 e) as [->|Hx]; [by destruct (Hnr k0)|eauto].
    + intros k0 e0 Hl0. destruct (N.eqb_spec e0 e) as [->|Hx]; [done|eauto].
    + intros e0 t0 Hown0. rewrite Hev. eauto.
  - intros k. rewrite Habs, (o_abs _ _ _ _ Ho). unfold abs_lookup, dget. simpl.
    destruct (s_rd s !! k) as [x|] eqn:Hr.
    { destruct (N.eqb_spec x e) as [->|Hx]; [by destruct (Hnr k)|done]. }
    destruct (s_am s); [|done]. destruct (s_dirty s) as [d|] eqn:Hd; [|done].
    destruct (d !! k) as [x|] eqn:Hdk; [|done].
    destruct (N.eqb_spec x e) as [->|Hx]; [by destruct (Hndd d k)|done].
  - split; simpl.
    + lia.
    + intros. by rewrite Hek.
    + intros. by rewrite Hown.
    + intros x _. apply Hev.
    + intros x t' Hx Hne'. destruct (N.eqb_spec x e) as [->|]; [congruence|done].
    + intros k1 e1 [Hk1 Hlt1]. destruct (decide (e1 = e)) as [->|Hx].
      * right. right. rewrite N.eqb_refl. split; [|by right].
        intros [Hr|(_ & _ & Hd)]; [by destruct (Hnr k1)|].
        unfold dget in Hd. destruct (s_dirty s) as [d|] eqn:Hds; [|done]. by destruct (Hndd d k1).
      * destruct (decide (current s k1 e1)) as [Hc1|Hc1]; [by left|].
        right. right. split; [done|]. left. by destruct (N.eqb_spec e1 e).
Qed.

(* M3: unexpungeLocked + m.dirty[k] = e *)
Lemma unexpunge_eq s ek own k e :
  WF s ek own -> s_rd s !! k = Some e ->
  unexpunge s k e = s /\ s_cell s e <> KExp \/
  exists d, s_cell s e = KExp /\ s_dirty s = Some d /\ d !! k = None /\
            unexpunge s k e = set_dirty (set_cell s e KNil) (Some (<[k := e]> d)).
Proof.
  intros Hwf Hr. unfold unexpunge. destruct (s_cell s e) eqn:Hc; try (left; done).
  right. destruct (w_exp _ _ _ Hwf _ _ Hr Hc) as (d & Hd & Hk). exists d.
  unfold dput. simpl. by rewrite Hd.
Qed.

Lemma OInv_unexpunge t s thr g k e :
  OInv t s thr g -> is_Some (thr !! t) -> s_rd s !! k = Some e ->
  OInv t (unexpunge s k e) thr g.
Proof.
  intros Ho Ht Hr. pose proof (o_wf _ _ _ _ Ho) as Hwf.
  destruct (unexpunge_eq _ _ _ _ _ Hwf Hr) as [[-> _]|(d & Hc & Hd & Hdk & ->)]; [done|].
  destruct (w_rd _ _ _ Hwf _ _ Hr) as [Hek Hlt].
  set (s' := set_dirty (set_cell s e KNil) (Some (<[k:=e]> d))).
  assert (forall x, x <> e -> s_cell s' x = s_cell s x) as Hoth.
  { intros x Hx. simpl. by destruct (N.eqb_spec x e). }
  assert (s_cell s' e = KNil) as Hself by (simpl; by rewrite N.eqb_refl).
  assert (forall k2 x, d !! k2 = Some x -> x <> e) as Hdne.
  { intros k2 x Hx ->. destruct (w_d _ _ _ Hwf d k2 e Hd Hx) as [_ ?]. done. }
  assert (forall k2 x, s_rd s !! k2 = Some x -> k2 <> k -> x <> e) as Hrne.
  { intros k2 x Hx Hk2 ->. destruct (w_rd _ _ _ Hwf _ _ Hx) as [? _]. congruence. }
  eapply (OInv_step t s thr g s' g ATau); eauto.
  - destruct Hwf. split; unfold held, indirty in *; simpl; try done.
    + intros d0 k0 e0 [= <-] Hl0. destruct (decide (k0 = k)) as [->|Hk0].
      * rewrite lookup_insert in Hl0. inversion Hl0; subst. by rewrite N.eqb_refl.
      * rewrite lookup_insert_ne in Hl0 by done.
        destruct (N.eqb_spec e0 e) as [->|]; [by destruct (Hdne k0 e)|eauto].
    + intros d0 k0 e0 [= <-] Hl0 Hc0. destruct (decide (k0 = k)) as [->|Hk0].
      * rewrite lookup_insert. congruence.
      * rewrite lookup_insert_ne by done.
        destruct (N.eqb_spec e0 e) as [->|]; [by destruct (Hrne k0 e)|eauto].
    + intros k0 e0 Hl0 Hc0. destruct (N.eqb_spec e0 e) as [->|]; [done|].
      destruct (w_exp _ _ Hl0 Hc0) as (d1 & Hd1 & Hk1). exists (<[k:=e]> d). split; [done|].
      rewrite Hd in Hd1. inversion Hd1; subst d1.
      rewrite lookup_insert_ne; [done|]. intros <-. congruence.
    + intros d0 k0 e0 Ham [= <-] Hl0. destruct (decide (k0 = k)) as [->|Hk0].
      * rewrite lookup_insert in Hl0. congruence.
      * rewrite lookup_insert_ne in Hl0 by done. eauto.
    + intros e0 t0 Hown0. destruct (w_own _ _ Hown0) as (Hnev & Hnd & Hlt0).
      assert (e0 <> e) as Hne0. { intros ->. apply Hnev. by right. }
      split; [|split; [|done]].
      * intros [Hin|Hx]; apply Hnev; [by left|]. right.
        by rewrite Hoth in Hx.
      * intros (d0 & k0 & [= <-] & Hl0). destruct (decide (k0 = k)) as [->|Hk0].
        -- rewrite lookup_insert in Hl0. congruence.
        -- rewrite lookup_insert_ne in Hl0 by done. apply Hnd. by exists d, k0.
  - intros k0. rewrite (o_abs _ _ _ _ Ho). unfold abs_lookup, dget. simpl. rewrite Hd.
    destruct (s_rd s !! k0) as [x|] eqn:Hr0.
    { destruct (N.eqb_spec x e) as [->|Hx]; [by rewrite Hc|done]. }
    assert (k0 <> k) by congruence. rewrite lookup_insert_ne by done.
    destruct (s_am s); [|done]. destruct (d !! k0) as [x|] eqn:Hdk0; [|done].
    destruct (N.eqb_spec x e) as [->|Hx]; [by destruct (Hdne k0 e)|done].
  - split; simpl.
    + lia.
    + done.
    + done.
    + intros x _ [Hin|Hx]; [by left|]. destruct (decide (x = e)) as [->|Hne0].
      * left. by exists k.
      * right. by rewrite Hoth.
    + intros x t' Hx _. apply Hoth. intros ->.
      destruct (w_own _ _ _ Hwf _ _ Hx) as (Hnev & _). destruct Hnev. by right.
    + intros k1 e1 [Hk1 Hlt1].
      destruct (decide (current s k1 e1)) as [Hc1|Hc1].
      * left. destruct Hc1 as [H1|(H1 & H2 & H3)]; [by left|]. right.
        unfold dget in *. simpl. rewrite Hd in H3.
        rewrite lookup_insert_ne; [done|]. congruence.
      * right. right. split; [done|]. left. apply Hoth. intros ->.
        destruct Hc1. left. congruence.
Qed.

Lemma in_rng_spec (m : gmap key eid) e : in_rng m e = true <-> exists k, m !! k = Some e.
Proof.
  unfold in_rng. rewrite existsb_exists. split.
  - intros ([k x] & Hin & Heq). apply elem_of_list_In, elem_of_map_to_list in Hin.
    simpl in Heq. apply N.eqb_eq in Heq. subst. by exists k.
  - intros (k & Hk). exists (k, e). split; [|simpl; apply N.eqb_refl].
    by apply elem_of_list_In, elem_of_map_to_list.
Qed.

(* M4: dirtyLocked when the dirty map is nil (then read is not amended) *)
Lemma OInv_dirty_locked t s thr g :
  OInv t s thr g -> is_Some (thr !! t) -> s_am s = false ->
  OInv t (dirty_locked s) thr g.
Proof.
  intros Ho Ht Ham. pose proof (o_wf _ _ _ _ Ho) as Hwf.
  unfold dirty_locked. destruct (s_dirty s) as [d|] eqn:Hd; [done|].
  set (s' := {| s_rd := s_rd s |}).
  assert (forall x, s_cell s' x = KExp <-> s_cell s x = KExp \/ (s_cell s x = KNil /\ inrd s x)) as Hexp.
  { intros x. simpl. unfold inrd. rewrite <-in_rng_spec.
    destruct (s_cell s x); [destruct (in_rng (s_rd s) x)|..]; naive_solver. }
  assert (forall x, is_val (s_cell s x) = true -> s_cell s' x = s_cell s x) as Hval.
  { intros x. simpl. by destruct (s_cell s x). }
  assert (forall x, kload (s_cell s' x) = kload (s_cell s x)) as Hkl.
  { intros x. simpl. destruct (s_cell s x); [destruct (in_rng (s_rd s) x)|..]; done. }
  assert (forall x, ~ inrd s x -> s_cell s' x = s_cell s x) as Hnin.
  { intros x Hx. simpl. destruct (s_cell s x); try done.
    destruct (in_rng (s_rd s) x) eqn:Hin; [|done]. apply in_rng_spec in Hin. done. }
  assert (forall x, ever s' x <-> ever s x) as Hev.
  { intros x. unfold ever. rewrite Hexp. unfold inrd. simpl. naive_solver. }
  eapply (OInv_step t s thr g s' g ATau); eauto.
  - destruct Hwf. split; unfold held, indirty in *; simpl; try done.
    + intros d0 k0 e0 [= <-] Hl0. apply map_filter_lookup_Some in Hl0 as [Hl0 Hv]. simpl in Hv.
      split; [eauto|]. by destruct (s_cell s e0).
    + intros d0 k0 e0 [= <-] Hl0 Hc0. apply map_filter_lookup_Some. split; [done|]. simpl.
      destruct (s_cell s e0) eqn:Hce; try done.
      destruct (in_rng (s_rd s) e0) eqn:Hin; [done|].
      assert (in_rng (s_rd s) e0 = true) by (apply in_rng_spec; eauto). congruence.
    + intros k0 e0 Hl0 Hc0. eexists. split; [done|]. apply map_filter_lookup_None. right.
      intros x Hx. simpl. rewrite Hl0 in Hx. inversion Hx; subst x.
      destruct (s_cell s e0); [done|done|]. by destruct (in_rng (s_rd s) e0).
    + intros d0 k0 e0 _ [= <-] Hl0. by apply map_filter_lookup_Some in Hl0 as [Hl0 _].
    + intros e0 t0 Hown0. destruct (w_own _ _ Hown0) as (Hnev & Hnd & Hlt0).
      split; [|split; [|done]].
      * fold (ever s' e0). by rewrite Hev.
      * intros (d0 & k0 & [= <-] & Hl0). apply map_filter_lookup_Some in Hl0 as [Hl0 _].
        apply Hnev. left. by exists k0.
  - intros k0. rewrite (o_abs _ _ _ _ Ho). unfold abs_lookup. simpl. rewrite Ham.
    destruct (s_rd s !! k0) as [x|]; [|done]. symmetry. apply Hkl.
  - split; simpl.
    + lia.
    + done.
    + done.
    + intros x _. by rewrite <-Hev.
    + intros x t' Hx _. apply Hnin. intros Hin.
      destruct (w_own _ _ _ Hwf _ _ Hx) as (Hnev & _). apply Hnev. by left.
    + intros k1 e1 [Hk1 Hlt1].
      destruct (decide (current s k1 e1)) as [Hc1|Hc1].
      * left. destruct Hc1 as [H1|(H1 & H2 & H3)]; [by left|congruence].
      * right. right. split; [done|].
        destruct (decide (s_cell s' e1 = s_cell s e1)) as [?|Hdf]; [by left|]. right.
        simpl in *. destruct (s_cell s e1); try done. by destruct (in_rng (s_rd s) e1).
Qed.

(* M5: m.read.Store(readOnly{m: read.m, amended: true}) once the dirty map exists *)
Lemma OInv_set_am t s thr g :
  OInv t s thr g -> is_Some (thr !! t) -> s_am s = false -> is_Some (s_dirty s) ->
  OInv t (set_am s true) thr g.
Proof.
  intros Ho Ht Ham [d Hd]. pose proof (o_wf _ _ _ _ Ho) as Hwf.
  assert (forall k, s_rd s !! k = None -> d !! k = None) as Hsub.
  { intros k Hk. destruct (d !! k) as [x|] eqn:Hx; [|done].
    rewrite (w_clean _ _ _ Hwf d k x Ham Hd Hx) in Hk. done. }
  eapply (OInv_step t s thr g (set_am s true) g ATau); eauto.
  - destruct Hwf. split; unfold held, indirty, ever, inrd in *; simpl; try done.
  - intros k0. rewrite (o_abs _ _ _ _ Ho). unfold abs_lookup, dget. simpl. rewrite Ham, Hd.
    destruct (s_rd s !! k0) as [x|] eqn:Hr; [done|]. by rewrite (Hsub _ Hr).
  - split; simpl.
    + lia.
    + done.
    + done.
    + done.
    + done.
    + intros k1 e1 [Hk1 Hlt1].
      destruct (decide (current s k1 e1)) as [Hc1|Hc1].
      * left. destruct Hc1 as [H1|(H1 & H2 & H3)]; [by left|congruence].
      * right. right. split; [done|]. by left.
Qed.

(* M6: m.dirty[k] = newEntry(v) for a key in neither map, read already amended *)
Definition alloc (s : shared) (k : key) (v : val) : shared :=
  let e := s_nexte s in
  let s := put_val s e v in
  dput {| s_rd := s_rd s; s_am := s_am s; s_dirty := s_dirty s; s_misses := s_misses s;
          s_cell := s_cell s; s_nexte := (e + 1)%N; s_nextp := s_nextp s; s_lock := s_lock s |} k e.
Lemma add_new_eq s k v :
  add_new s k v = alloc (if s_am s then s else set_am (dirty_locked s) true) k v.
Proof. done. Qed.

Lemma OInv_alloc t s thr g g' a k v :
  OInv t s thr g -> is_Some (thr !! t) ->
  s_am s = true -> s_rd s !! k = None -> dget s k = None ->
  g_l g' = lg_step (g_l g) t a ->
  g_ek g' = (fun x => if N.eqb x (s_nexte s) then k else g_ek g x) -> g_own g' = g_own g ->
  (forall k', g_abs (g_l g') !! k' = if decide (k' = k) then Some v else g_abs (g_l g) !! k') ->
  OInv t (alloc s k v) thr g'.
Proof.
  intros Ho Ht Ham Hr Hdk Hl Hek Hown Habs. pose proof (o_wf _ _ _ _ Ho) as Hwf.
  destruct (w_am _ _ _ Hwf Ham) as [d Hd]. unfold dget in Hdk. rewrite Hd in Hdk.
  set (e := s_nexte s).
  assert (alloc s k v = set_dirty {| s_rd := s_rd s; s_am := s_am s; s_dirty := s_dirty s;
     s_misses := s_misses s;
     s_cell := fun x => if N.eqb x e then KVal (s_nextp s) v else s_cell s x;
     s_nexte := (e + 1)%N; s_nextp := (s_nextp s + 1)%N; s_lock := s_lock s |}
     (Some (<[k := e]> d))) as ->.
  { unfold alloc, dput. simpl. by rewrite Hd. }
  match goal with |- OInv _ ?x _ _ => set (s' := x) end.
  assert (forall x, x < e -> s_cell s' x = s_cell s x) as Hoth.
  { intros x Hx. simpl. destruct (N.eqb_spec x e); [lia|done]. }
  assert (forall x, x < e -> g_ek g' x = g_ek g x) as Hekoth.
  { intros x Hx. rewrite Hek. destruct (N.eqb_spec x (s_nexte s)); [fold e in e0; lia|done]. }
  assert (g_ek g' e = k) as Hekself by (rewrite Hek; by rewrite N.eqb_refl).
  assert (forall k0 x, d !! k0 = Some x -> x < e) as Hdlt.
  { intros k0 x Hx. by destruct (w_d _ _ _ Hwf d k0 x Hd Hx) as [[_ ?] _]. }
  assert (forall k0 x, s_rd s !! k0 = Some x -> x < e) as Hrlt.
  { intros k0 x Hx. by destruct (w_rd _ _ _ Hwf k0 x Hx) as [_ ?]. }
  eapply OInv_step; eauto.
  - rewrite Hown. split; unfold held, indirty; simpl; fold e.
    + done.
    + intros k0 x Hx. pose proof (Hrlt _ _ Hx). rewrite Hekoth by done.
      destruct (w_rd _ _ _ Hwf k0 x Hx). split; [done|lia].
    + intros d0 k0 x [= <-] Hx. destruct (decide (k0 = k)) as [->|Hk0].
      * rewrite lookup_insert in Hx. inversion Hx; subst x. rewrite N.eqb_refl.
        split; [split; [done|lia]|done].
      * rewrite lookup_insert_ne in Hx by done. pose proof (Hdlt _ _ Hx).
        destruct (w_d _ _ _ Hwf d k0 x Hd Hx) as [[? ?] ?]. rewrite Hekoth by done.
        destruct (N.eqb_spec x e); [lia|]. split; [split; [done|lia]|done].
    + intros d0 k0 x [= <-] Hx. pose proof (Hrlt _ _ Hx). destruct (N.eqb_spec x e); [lia|].
      intros Hc. rewrite lookup_insert_ne by congruence. by eapply w_rd_d.
    + intros k0 x Hx. pose proof (Hrlt _ _ Hx). destruct (N.eqb_spec x e); [lia|].
      intros Hc. destruct (w_exp _ _ _ Hwf _ _ Hx Hc) as (d1 & Hd1 & Hk1).
      rewrite Hd in Hd1. inversion Hd1; subst d1. eexists. split; [done|].
      rewrite lookup_insert_ne by congruence. done.
    + intros d0 k0 x Ham'. congruence.
    + intros x t0 Hown0. destruct (w_own _ _ _ Hwf _ _ Hown0) as (Hnev & Hnd & Hlt0).
      fold e in Hlt0. split; [|split; [|lia]].
      * unfold ever, inrd. simpl. destruct (N.eqb_spec x e); [lia|]. done.
      * intros (d0 & k0 & [= <-] & Hx). destruct (decide (k0 = k)) as [->|Hk0].
        -- rewrite lookup_insert in Hx. inversion Hx. lia.
        -- rewrite lookup_insert_ne in Hx by done. apply Hnd. by exists d, k0.
  - intros k0. rewrite Habs, (o_abs _ _ _ _ Ho). unfold abs_lookup, dget. simpl. rewrite Ham, Hd.
    destruct (decide (k0 = k)) as [->|Hk0].
    + rewrite Hr, lookup_insert. by rewrite N.eqb_refl.
    + rewrite lookup_insert_ne by done. destruct (s_rd s !! k0) as [x|] eqn:Hr0.
      * pose proof (Hrlt _ _ Hr0). destruct (N.eqb_spec x e); [lia|done].
      * destruct (d !! k0) as [x|] eqn:Hd0; [|done].
        pose proof (Hdlt _ _ Hd0). destruct (N.eqb_spec x e); [lia|done].
  - split; simpl; fold e.
    + lia.
    + apply Hekoth.
    + intros. by rewrite Hown.
    + intros x Hx. unfold ever, inrd. simpl. destruct (N.eqb_spec x e); [lia|done].
    + intros x t' Hx _. destruct (w_own _ _ _ Hwf _ _ Hx) as (_ & _ & Hlt0). fold e in Hlt0.
      destruct (N.eqb_spec x e); [lia|done].
    + intros k1 e1 [Hk1 Hlt1]. fold e in Hlt1.
      destruct (decide (current s k1 e1)) as [Hc1|Hc1].
      * left. destruct Hc1 as [H1|(H1 & H2 & H3)]; [by left|]. right.
        unfold dget in *. simpl. rewrite Hd in H3. rewrite lookup_insert_ne by congruence. done.
      * right. right. split; [done|]. left. destruct (N.eqb_spec e1 e); [lia|done].
Qed.

(* M7: missLocked (only reached with read.amended) *)
Lemma OInv_promote t s thr g :
  OInv t s thr g -> is_Some (thr !! t) -> s_am s = true -> OInv t (promote s) thr g.
Proof.
  intros Ho Ht Ham. pose proof (o_wf _ _ _ _ Ho) as Hwf.
  destruct (w_am _ _ _ Hwf Ham) as [d Hd].
  assert (forall x, ever (promote s) x -> ever s x \/ indirty s x) as Hev.
  { intros x [(k0 & Hx)|Hx]; [|left; by right]. simpl in Hx. rewrite Hd in Hx. right. by exists d, k0. }
  eapply (OInv_step t s thr g (promote s) g ATau); eauto.
  - split; unfold held, indirty; simpl; rewrite ?Hd; simpl; try done.
    + intros k0 x Hx. by destruct (w_d _ _ _ Hwf d k0 x Hd Hx).
    + intros k0 x Hx Hc. by destruct (w_d _ _ _ Hwf d k0 x Hd Hx).
    + intros x t0 Hown0. destruct (w_own _ _ _ Hwf _ _ Hown0) as (Hnev & Hnd & Hlt0).
      split; [|split; [|done]].
      * intros Hx. destruct (Hev _ Hx); done.
      * by intros (d0 & k0 & ? & _).
  - intros k0. rewrite (o_abs _ _ _ _ Ho). unfold abs_lookup, dget. simpl. rewrite Ham, Hd. simpl.
    destruct (s_rd s !! k0) as [x|] eqn:Hr.
    + destruct (decide (s_cell s x = KExp)) as [Hc|Hc].
      * destruct (w_exp _ _ _ Hwf _ _ Hr Hc) as (d1 & Hd1 & Hk1).
        rewrite Hd in Hd1. inversion Hd1; subst d1. by rewrite Hk1, Hc.
      * by rewrite (w_rd_d _ _ _ Hwf d k0 x Hd Hr Hc).
    + by destruct (d !! k0).
  - split; simpl.
    + lia.
    + done.
    + done.
    + intros x _ [(k0 & Hx)|Hx]; [|by right].
      destruct (decide (s_cell s x = KExp)) as [Hc|Hc]; [by right|]. left.
      exists k0. simpl. rewrite Hd. simpl. by eapply w_rd_d.
    + done.
    + intros k1 e1 [Hk1 Hlt1].
      destruct (decide (current s k1 e1)) as [Hc1|Hc1].
      * destruct Hc1 as [H1|(H1 & H2 & H3)].
        -- destruct (decide (s_cell s e1 = KExp)) as [Hc|Hc].
           ++ right. left. unfold abs_lookup at 1 3. rewrite H1, Hc. simpl. split; by left.
           ++ left. left. simpl. rewrite Hd. simpl. by eapply w_rd_d.
        -- left. left. simpl. unfold dget in H3. rewrite Hd in H3. by rewrite Hd.
      * right. right. split; [done|]. by left.
Qed.

Lemma OInv_miss_locked t s thr g :
  OInv t s thr g -> is_Some (thr !! t) -> s_am s = true -> OInv t (miss_locked s) thr g.
Proof.
  intros Ho Ht Ham. unfold miss_locked.
  destruct (Nat.ltb _ _); [|by apply OInv_promote].
  eapply (OInv_same_core t s thr g _ g ATau); eauto. by repeat split.
Qed.

(* M8: delete(m.dirty, k) in LoadAndDelete's locked region; the removed entry, if any,
   becomes an orphan owned by the deleting thread *)
Definition own_upd (own : eid -> option nat) (oe : option eid) (t : nat) : eid -> option nat :=
  match oe with
  | Some e => fun x => if N.eqb x e then Some t else own x
  | None => own
  end.

Lemma OInv_dirty_delete t s thr g g' a k :
  OInv t s thr g -> is_Some (thr !! t) ->
  s_am s = true -> s_rd s !! k = None ->
  g_l g' = lg_step (g_l g) t a -> g_ek g' = g_ek g ->
  g_own g' = own_upd (g_own g) (dget s k) t ->
  (forall k', g_abs (g_l g') !! k' = if decide (k' = k) then None else g_abs (g_l g) !! k') ->
  OInv t (set_dirty s (delete k <$> s_dirty s)) thr g'.
Proof.
  intros Ho Ht Ham Hr Hl Hek Hown Habs. pose proof (o_wf _ _ _ _ Ho) as Hwf.
  destruct (w_am _ _ _ Hwf Ham) as [d Hd]. unfold dget in Hown. rewrite Hd in *. simpl.
  assert (forall x t0, g_own g' x = Some t0 ->
            g_own g x = Some t0 \/ (d !! k = Some x /\ t0 = t)) as Hown_inv.
  { intros x t0. rewrite Hown. unfold own_upd. destruct (d !! k) as [e|]; [|by left].
    destruct (N.eqb_spec x e) as [->|]; [|by left]. intros [= <-]. by right. }
  assert (forall x t0, g_own g x = Some t0 -> g_own g' x = Some t0) as Hown_keep.
  { intros x t0 Hx. rewrite Hown. unfold own_upd. destruct (d !! k) as [e|] eqn:He; [|done].
    destruct (N.eqb_spec x e) as [->|]; [|done].
    destruct (w_own _ _ _ Hwf _ _ Hx) as (_ & Hnd & _). destruct Hnd. by exists d, k. }
  eapply OInv_step; eauto.
  - rewrite Hek. destruct Hwf. split; unfold held, indirty in *; simpl; try done.
    + intros d0 k0 x [= <-] Hx. apply lookup_delete_Some in Hx as [_ Hx]. eauto.
    + intros d0 k0 x [= <-] Hx Hc. apply lookup_delete_Some. split; [congruence|eauto].
    + intros k0 x Hx Hc. destruct (w_exp _ _ Hx Hc) as (d1 & Hd1 & Hk1).
      rewrite Hd in Hd1. inversion Hd1; subst d1. eexists. split; [done|].
      apply lookup_delete_None. by right.
    + intros d0 k0 x Ham'. congruence.
    + intros x t0 Hx. destruct (Hown_inv _ _ Hx) as [Hx0|[Hx0 ->]].
      * destruct (w_own _ _ Hx0) as (Hnev & Hnd & Hlt0). split; [done|]. split; [|done].
        intros (d0 & k0 & [= <-] & Hl0). apply lookup_delete_Some in Hl0 as [_ Hl0].
        apply Hnd. by exists d, k0.
      * destruct (w_d d k x Hd Hx0) as [[Hkx Hlt] Hc]. split; [|split; [|done]].
        -- intros [(k0 & Hin)|Hx1]; [|done]. simpl in Hin. destruct (w_rd _ _ Hin) as [Hk0 _]. congruence.
        -- intros (d0 & k0 & [= <-] & Hl0). apply lookup_delete_Some in Hl0 as [Hne Hl0].
           destruct (w_d d k0 x Hd Hl0) as [[Hk0 _] _]. congruence.
  - intros k0. rewrite Habs, (o_abs _ _ _ _ Ho). unfold abs_lookup, dget. simpl. rewrite Ham, Hd.
    destruct (decide (k0 = k)) as [->|Hk0].
    + by rewrite Hr, lookup_delete.
    + by rewrite lookup_delete_ne.
  - split; simpl.
    + lia.
    + intros. by rewrite Hek.
    + intros x t' Hx _. by apply Hown_keep.
    + done.
    + done.
    + intros k1 e1 [Hk1 Hlt1].
      destruct (decide (current s k1 e1)) as [Hc1|Hc1].
      * destruct Hc1 as [H1|(H1 & H2 & H3)]; [left; by left|].
        destruct (decide (k1 = k)) as [->|Hk].
        -- right. left. unfold abs_lookup, dget in *. simpl. rewrite Hr, Ham, Hd in *.
           rewrite H3, lookup_delete. split; [by left|by right].
        -- left. right. unfold dget in *. simpl. rewrite Hd in H3. by rewrite lookup_delete_ne.
      * right. right. split; [done|]. by left.
Qed.
